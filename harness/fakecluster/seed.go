package fakecluster

import "fmt"

// SeedCommitted installs a committed offset in the coordinator's store without
// a request (state generator of C19). The group is created when absent.
func (c *Cluster) SeedCommitted(group, topic string, part int32, offset int64) {
	c.mu.Lock()
	defer c.mu.Unlock()
	g := c.groupLocked(group)
	g.Committed[fmt.Sprintf("%s/%d", topic, part)] = offset
}

// SetScript installs the request script under the cluster lock.
func (c *Cluster) SetScript(f func(*ReqCtx) *Action) {
	c.mu.Lock()
	c.Script = f
	c.mu.Unlock()
}
