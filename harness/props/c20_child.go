package props

import (
	"bufio"
	"bytes"
	"context"
	"encoding/binary"
	"errors"
	"fmt"
	"io"
	"os"
	"os/exec"
	"runtime"
	"runtime/debug"
	"runtime/metrics"
	"sort"
	"strconv"
	"strings"
	"sync"
	"sync/atomic"
	"syscall"
	"time"

	kafka "github.com/segmentio/kafka-go"
	"github.com/segmentio/kafka-go/protocol"
	"github.com/segmentio/kafka-go/protocol/fetch"

	"verifharness/core"
	"verifharness/fakecluster"
	"verifharness/fakenet"
)

// The C20 oracle runs in a helper child process (this same binary, re-executed
// with VERIF_C20_CHILD set), because two of the outcomes it has to observe -
// "fatal error: out of memory" and panics in goroutines the caller cannot
// recover - kill the process that decodes.
//
// Protocol. stdin: records [u32 id][u8 mode][i16 api][i16 version][u32 n][n bytes].
// stdout (unbuffered, one write per line):
//
//	B <id>                                  before decoding
//	E <id> <outcome> <allocated> <site>|<message>   after (outcome: error decoded panic neither over)
//	O <id> <allocated> <site>                the decode is still running and has already allocated more than its bound; the child exits
const c20ChildEnv = "VERIF_C20_CHILD"

const c20AddressSpace = 4 << 30

func init() {
	if os.Getenv(c20ChildEnv) != "" {
		c20ChildMain()
		os.Exit(0)
	}
}

// c20Bound: every received byte may announce one array element, and an element is decoded into a Go
// struct of up to ~200 bytes (metadata partitions, group members), so memory linear in the bytes
// received with a factor of that order is in proportion; 1 MiB covers pools and fixed costs.
func c20Bound(frameLen int) int64 { return 1<<20 + 256*int64(frameLen) }

// stack-mode allowance for the harness' own in-process traffic (fake broker,
// fake network, reference codec) that is measured together with the client.
const c20StackSlack = 16 << 20

var c20Sample = []metrics.Sample{{Name: "/gc/heap/allocs:bytes"}}

func c20AllocNow() uint64 {
	metrics.Read(c20Sample)
	return c20Sample[0].Value.Uint64()
}

func c20ChildMain() {
	// allocation sampling stays at the runtime's default (512 KiB): every
	// larger allocation is recorded with its stack, at no measurable cost
	// (profile buckets live outside the heap that is being measured)
	lim := syscall.Rlimit{Cur: c20AddressSpace, Max: c20AddressSpace}
	if err := syscall.Setrlimit(syscall.RLIMIT_AS, &lim); err != nil {
		fmt.Fprintf(os.Stderr, "C20-CHILD-ERROR setrlimit: %v\n", err)
		os.Exit(4)
	}
	in := bufio.NewReaderSize(os.Stdin, 1<<16)
	var cur atomic.Int64
	cur.Store(-1)
	var curStart atomic.Uint64
	var curBound atomic.Int64
	go func() {
		last := int64(-1)
		for range time.Tick(200 * time.Millisecond) {
			id := cur.Load()
			if id >= 0 && id == last {
				if a := int64(c20AllocNow() - curStart.Load()); a > curBound.Load() {
					buf := make([]byte, 1<<16)
					buf = buf[:runtime.Stack(buf, true)]
					// where the decode is running (collecting the allocation
					// profile would need several GC cycles over a heap of GBs)
					site := "?"
					for _, g := range strings.Split(string(buf), "\n\n") {
						if strings.Contains(g, "c20Decode") || (site == "?" && strings.Contains(g, "c20Stack")) || strings.Contains(g, "protocol.ReadResponse") {
							site = c20Site2(g)
						}
					}
					os.Stdout.WriteString(fmt.Sprintf("O %d %d %s\n", id, a, site))
					os.Exit(3)
				}
			}
			last = id
		}
	}()
	hdr := make([]byte, 13)
	line := make([]byte, 0, 4096)
	var profBefore map[[32]uintptr]c20ProfRec
	for {
		if _, err := io.ReadFull(in, hdr); err != nil {
			return // parent closed the pipe
		}
		id := int64(binary.BigEndian.Uint32(hdr))
		mode := hdr[4]
		api := int16(binary.BigEndian.Uint16(hdr[5:]))
		ver := int16(binary.BigEndian.Uint16(hdr[7:]))
		n := int(binary.BigEndian.Uint32(hdr[9:]))
		frame := make([]byte, n)
		if _, err := io.ReadFull(in, frame); err != nil {
			return
		}
		line = append(line[:0], 'B', ' ')
		line = strconv.AppendInt(line, id, 10)
		line = append(line, '\n')
		os.Stdout.Write(line)

		bound := c20Bound(n)
		if mode == 's' {
			bound += c20StackSlack
		}
		var res c20Outcome
		if profBefore == nil {
			profBefore = c20Profile()
		}
		a0 := c20AllocNow()
		curStart.Store(a0)
		curBound.Store(bound)
		cur.Store(id)
		if mode == 's' {
			res = c20Stack(api, ver, frame)
		} else {
			res = c20Decode(api, ver, frame)
		}
		a1 := c20AllocNow()
		cur.Store(-1)
		alloc := int64(a1 - a0)
		if mode != 's' && alloc > 16*bound+(32<<20) {
			// gross excess: beyond anything statistics granularity (a few
			// spans per size class) or a cold pool (64 KiB pages, codec block
			// buffers of a few MiB) could explain; name the site from the
			// allocation profile without decoding again
			res = c20Outcome{Class: "over", Site: c20GrossSite(profBefore), Msg: "first run: " + res.Class + " " + res.Msg}
		} else if alloc > bound && mode != 's' {
			// confirm on exact statistics, and find the allocation site
			exact, site := c20Confirm(api, ver, frame)
			if exact > bound {
				res = c20Outcome{Class: "over", Site: site, Msg: "first run: " + res.Class + " " + res.Msg}
			} else {
				res.Msg = fmt.Sprintf("FIRSTRUN %d ", alloc) + res.Msg
			}
			alloc = exact
			profBefore = nil
		} else if alloc > bound {
			site, top := c20StackTop(api, ver, frame)
			res = c20Outcome{Class: "over", Site: site, Msg: "stack run: " + res.Class + " " + res.Msg + " || " + top}
		} else if mode == 's' && alloc > 2<<20 {
			_, top := c20StackTop(api, ver, frame)
			res.Msg += " || ALLOC " + top
		}
		msg := strings.Map(func(r rune) rune {
			if r == '\n' || r == '\r' {
				return ' '
			}
			return r
		}, res.Msg)
		if len(msg) > 300 {
			msg = msg[:300]
		}
		if res.Site == "" {
			res.Site = "-"
		}
		os.Stdout.WriteString(fmt.Sprintf("E %d %s %d %s|%s\n", id, res.Class, alloc, res.Site, msg))
	}
}

// c20InLibrary reports whether the innermost frame of a recovered panic
// (below the recovering closure and the runtime) belongs to kafka-go.
func c20InLibrary(st string) bool {
	var keep []string
	for _, l := range strings.Split(st, "\n") {
		t := strings.TrimSpace(l)
		if strings.HasPrefix(t, "verifharness/props.c20Decode.func") || strings.HasPrefix(t, "verifharness/props.c20Stack.func") {
			continue
		}
		keep = append(keep, l)
	}
	return core.StackInLibrary(strings.Join(keep, "\n"))
}

// c20Site2 names the two innermost kafka-go functions of a goroutine stack.
func c20Site2(st string) string {
	var fns []string
	for _, l := range strings.Split(st, "\n") {
		l = strings.TrimSpace(l)
		if strings.HasPrefix(l, "github.com/segmentio/kafka-go") {
			if i := strings.LastIndex(l, "("); i > 0 {
				l = l[:i]
			}
			fns = append(fns, strings.TrimPrefix(l, "github.com/segmentio/kafka-go"))
			if len(fns) == 2 {
				break
			}
		}
	}
	if len(fns) == 0 {
		return "?"
	}
	return strings.Join(fns, "<-")
}

type c20Outcome struct {
	Class string // error decoded panic neither over notdelivered
	Site  string
	Msg   string
}

// c20Drain reads every record of a decoded Fetch response: the record sets
// are decoded lazily, reading them is part of decoding the message.
func c20Drain(m protocol.Message) (int, error) {
	fr, ok := m.(*fetch.Response)
	if !ok {
		return 0, nil
	}
	n := 0
	for ti := range fr.Topics {
		for pi := range fr.Topics[ti].Partitions {
			rr := fr.Topics[ti].Partitions[pi].RecordSet.Records
			if rr == nil {
				continue
			}
			for i := 0; i < 1<<20; i++ {
				rec, err := rr.ReadRecord()
				if err != nil {
					if errors.Is(err, io.EOF) {
						break
					}
					return n, err
				}
				n++
				for _, b := range []protocol.Bytes{rec.Key, rec.Value} {
					if b != nil {
						if _, err := protocol.ReadAll(b); err != nil {
							return n, err
						}
						b.Close()
					}
				}
			}
		}
	}
	return n, nil
}

func c20Decode(api, ver int16, frame []byte) (res c20Outcome) {
	defer func() {
		if r := recover(); r != nil {
			st := string(debug.Stack())
			res = c20Outcome{Class: "panic", Site: core.PanicSite(st), Msg: fmt.Sprint(r)}
			if !c20InLibrary(st) {
				res.Site = "HARNESS:" + res.Site
				res.Msg += " || " + st
			}
		}
	}()
	_, m, err := protocol.ReadResponse(bufio.NewReader(bytes.NewReader(frame)), protocol.ApiKey(api), ver)
	if err != nil {
		return c20Outcome{Class: "error", Msg: err.Error()}
	}
	if m == nil || m.ApiKey() != protocol.ApiKey(api) {
		return c20Outcome{Class: "neither", Msg: fmt.Sprintf("ReadResponse returned (%T, nil)", m)}
	}
	if _, err := c20Drain(m); err != nil {
		return c20Outcome{Class: "error", Msg: "reading records: " + err.Error()}
	}
	return c20Outcome{Class: "decoded"}
}

// c20Confirm decodes the input again between two exact (stop-the-world,
// caches flushed) readings of the allocation statistics, with allocations
// sampled every 4 KiB (every allocation larger than that is recorded), and
// names the site that allocated most.
func c20Confirm(api, ver int16, frame []byte) (int64, string) {
	before := c20Profile()
	runtime.MemProfileRate = 4096
	var m0, m1 runtime.MemStats
	runtime.ReadMemStats(&m0)
	c20Decode(api, ver, frame)
	runtime.ReadMemStats(&m1)
	runtime.MemProfileRate = 512 << 10
	exact := int64(m1.TotalAlloc - m0.TotalAlloc)
	if exact <= c20Bound(len(frame)) {
		// not confirmed: no garbage collection here, which would empty the
		// pools (pages, codec buffers) and make the next decode cold again
		return exact, "?"
	}
	runtime.GC()
	runtime.GC()
	runtime.GC()
	after := c20Profile()
	best, site := int64(0), "?"
	for k, v := range after {
		if d := v.bytes - before[k].bytes; d > best && v.site != "" {
			best, site = d, v.site
		}
	}
	return exact, site
}

// c20GrossSite names the site whose sampled allocations grew most since the
// snapshot taken before the decode.
func c20GrossSite(before map[[32]uintptr]c20ProfRec) string {
	runtime.GC()
	runtime.GC()
	runtime.GC()
	after := c20Profile()
	best, site := int64(0), "?"
	for k, v := range after {
		if d := v.bytes - before[k].bytes; d > best && v.site != "" {
			best, site = d, v.site
		}
	}
	// fold what was just published into the snapshot
	for k, v := range after {
		before[k] = v
	}
	return site
}

// c20StackTop re-runs a stack-mode input with sampled allocation profiling
// and names the stacks that allocated most (diagnostics only).
func c20StackTop(api, ver int16, frame []byte) (string, string) {
	before := c20Profile()
	runtime.MemProfileRate = 4096
	c20Stack(api, ver, frame)
	runtime.MemProfileRate = 512 << 10
	runtime.GC()
	runtime.GC()
	runtime.GC()
	after := c20Profile()
	type kv struct {
		d int64
		s string
	}
	var all []kv
	best, site := int64(0), "?"
	for k, v := range after {
		d := v.bytes - before[k].bytes
		if d > 256<<10 {
			all = append(all, kv{d, v.top})
		}
		if d > best && v.site != "" {
			best, site = d, v.site
		}
	}
	sort.Slice(all, func(i, j int) bool { return all[i].d > all[j].d })
	var out []string
	for i, e := range all {
		if i >= 3 {
			break
		}
		out = append(out, fmt.Sprintf("%d bytes at %s", e.d, e.s))
	}
	return site, strings.Join(out, "; ")
}

type c20ProfRec struct {
	bytes int64
	site  string // two innermost kafka-go functions ("" if none)
	top   string // innermost non-runtime functions, whatever the package
}

func c20Profile() map[[32]uintptr]c20ProfRec {
	var recs []runtime.MemProfileRecord
	n, _ := runtime.MemProfile(nil, true)
	for {
		recs = make([]runtime.MemProfileRecord, n+50)
		var ok bool
		n, ok = runtime.MemProfile(recs, true)
		if ok {
			recs = recs[:n]
			break
		}
	}
	out := map[[32]uintptr]c20ProfRec{}
	for i := range recs {
		r := &recs[i]
		site := ""
		nlib := 0
		var top []string
		frames := runtime.CallersFrames(r.Stack())
		for {
			fr, more := frames.Next()
			if len(top) < 5 && fr.Function != "" && !strings.HasPrefix(fr.Function, "runtime.") {
				top = append(top, fr.Function)
			}
			if strings.HasPrefix(fr.Function, "github.com/segmentio/kafka-go") {
				fn := strings.TrimPrefix(fr.Function, "github.com/segmentio/kafka-go")
				if nlib == 0 {
					site = fn
				} else if nlib == 1 {
					site += "<-" + fn
				}
				nlib++
			}
			if !more || (nlib >= 2 && len(top) >= 5) {
				break
			}
		}
		// buckets are per (stack, size): several records can share a stack
		acc := out[r.Stack0]
		out[r.Stack0] = c20ProfRec{acc.bytes + r.AllocBytes, site, strings.Join(top, "<-")}
	}
	return out
}

// ---------------------------------------------------------------- the full Client -> Transport stack

type c20Call func(ctx context.Context, c *kafka.Client) error

var c20StackCalls = map[int16]c20Call{
	18: func(ctx context.Context, c *kafka.Client) error {
		_, err := c.ApiVersions(ctx, &kafka.ApiVersionsRequest{})
		return err
	},
	3: func(ctx context.Context, c *kafka.Client) error {
		_, err := c.Metadata(ctx, &kafka.MetadataRequest{Topics: []string{"t"}})
		return err
	},
	2: func(ctx context.Context, c *kafka.Client) error {
		_, err := c.ListOffsets(ctx, &kafka.ListOffsetsRequest{Topics: map[string][]kafka.OffsetRequest{"t": {kafka.FirstOffsetOf(0)}}})
		return err
	},
	1: func(ctx context.Context, c *kafka.Client) error {
		r, err := c.Fetch(ctx, &kafka.FetchRequest{Topic: "t", Partition: 0, Offset: 0, MinBytes: 1, MaxBytes: 1 << 20, MaxWait: 10 * time.Millisecond})
		if err != nil {
			return err
		}
		for i := 0; i < 1<<20; i++ {
			rec, err := r.Records.ReadRecord()
			if err != nil {
				if errors.Is(err, io.EOF) {
					return nil
				}
				return err
			}
			for _, b := range []protocol.Bytes{rec.Key, rec.Value} {
				if b != nil {
					protocol.ReadAll(b)
					b.Close()
				}
			}
		}
		return nil
	},
	19: func(ctx context.Context, c *kafka.Client) error {
		_, err := c.CreateTopics(ctx, &kafka.CreateTopicsRequest{Topics: []kafka.TopicConfig{{Topic: "n", NumPartitions: 1, ReplicationFactor: 1}}})
		return err
	},
	20: func(ctx context.Context, c *kafka.Client) error {
		_, err := c.DeleteTopics(ctx, &kafka.DeleteTopicsRequest{Topics: []string{"t"}})
		return err
	},
	10: func(ctx context.Context, c *kafka.Client) error {
		_, err := c.FindCoordinator(ctx, &kafka.FindCoordinatorRequest{Key: "g", KeyType: kafka.CoordinatorKeyTypeConsumer})
		return err
	},
	12: func(ctx context.Context, c *kafka.Client) error {
		_, err := c.Heartbeat(ctx, &kafka.HeartbeatRequest{GroupID: "g", GenerationID: 1, MemberID: "m"})
		return err
	},
	9: func(ctx context.Context, c *kafka.Client) error {
		_, err := c.OffsetFetch(ctx, &kafka.OffsetFetchRequest{GroupID: "g", Topics: map[string][]int{"t": {0}}})
		return err
	},
	16: func(ctx context.Context, c *kafka.Client) error {
		_, err := c.ListGroups(ctx, &kafka.ListGroupsRequest{})
		return err
	},
	15: func(ctx context.Context, c *kafka.Client) error {
		_, err := c.DescribeGroups(ctx, &kafka.DescribeGroupsRequest{GroupIDs: []string{"g"}})
		return err
	},
	22: func(ctx context.Context, c *kafka.Client) error {
		_, err := c.InitProducerID(ctx, &kafka.InitProducerIDRequest{TransactionTimeoutMs: 1000})
		return err
	},
	8: func(ctx context.Context, c *kafka.Client) error {
		_, err := c.OffsetCommit(ctx, &kafka.OffsetCommitRequest{GroupID: "g", GenerationID: 1, MemberID: "m", Topics: map[string][]kafka.OffsetCommit{"t": {{Partition: 0, Offset: 1}}}})
		return err
	},
	13: func(ctx context.Context, c *kafka.Client) error {
		_, err := c.LeaveGroup(ctx, &kafka.LeaveGroupRequest{GroupID: "g", Members: []kafka.LeaveGroupRequestMember{{ID: "m"}}})
		return err
	},
}

func c20Stack(api, ver int16, frame []byte) (res c20Outcome) {
	call := c20StackCalls[api]
	if call == nil {
		return c20Outcome{Class: "notdelivered", Msg: "no client call for this api"}
	}
	nw := fakenet.New()
	cl := fakecluster.New(nw)
	b := cl.AddBroker(1, "")
	b.Versions[int(api)] = fakecluster.VR{Min: int(ver), Max: int(ver)}
	cl.AddTopic("t", 1, nil)
	var delivered atomic.Int32
	cl.Script = func(rc *fakecluster.ReqCtx) *fakecluster.Action {
		if rc.Ev.API != int(api) || rc.Ev.Version != int(ver) || delivered.Load() > 0 {
			return nil
		}
		return &fakecluster.Action{Kind: fakecluster.ActCut, CutAt: 1 << 30, CutMode: fakenet.CutEOF, MutateFrame: func(good []byte) []byte {
			delivered.Add(1)
			out := append([]byte(nil), frame...)
			if len(out) >= 8 && len(good) >= 8 {
				copy(out[4:8], good[4:8]) // the request's correlation id
			}
			return out
		}}
	}
	tr := &kafka.Transport{Dial: nw.Dialer("c20"), DialTimeout: 2 * time.Second, IdleTimeout: 30 * time.Second, MetadataTTL: time.Hour, ClientID: "c20"}
	client := &kafka.Client{Addr: kafka.TCP("b1:9092"), Transport: tr, Timeout: 5 * time.Second}
	defer func() {
		if r := recover(); r != nil {
			st := string(debug.Stack())
			res = c20Outcome{Class: "panic", Site: core.PanicSite(st), Msg: fmt.Sprint(r)}
			if !c20InLibrary(st) {
				res.Site = "HARNESS:" + res.Site
				res.Msg += " || " + st
			}
		}
		tr.CloseIdleConnections()
		cl.Close()
	}()
	ctx, cancel := context.WithTimeout(context.Background(), 5*time.Second)
	defer cancel()
	err := call(ctx, client)
	if delivered.Load() == 0 {
		return c20Outcome{Class: "notdelivered", Msg: fmt.Sprint(err)}
	}
	if err != nil {
		return c20Outcome{Class: "error", Msg: err.Error()}
	}
	return c20Outcome{Class: "decoded"}
}

// ---------------------------------------------------------------- parent side

type c20Input struct {
	Mode    byte // 'd' direct, 's' stack
	API     int16
	Ver     int16
	APIName string
	Frame   []byte
	// what was mutated
	Role    string
	Kind    string
	Path    string
	VClass  string
	Variant string // "" | stale-size | crc-stale | crc-fixed | crc-stale+stale-size
	Info    bool   // informational: checksum-covered field with the checksum recomputed
	Base    bool   // the unmutated frame
}

func (in *c20Input) class() string { return in.Role + "/" + in.VClass + "/" + in.Kind }

type c20Result struct {
	Class  string // error decoded panic neither over over-running death timeout notdelivered skipped
	Alloc  int64
	Site   string
	Msg    string
	Stderr string
}

type c20Mgr struct {
	c     *core.Ctx
	mu    sync.Mutex
	procs map[byte]*c20Proc
	// circuit breaker: expensive outcomes (process death, decode stopped
	// while over-allocating) are counted per (outcome, site, role); an input
	// is skipped when the last key observed for its (role, value class, kind)
	// has reached the limit in this shard.
	keyHits  map[string]int
	classKey map[string]string
	hangs    map[string]int
	starts   int
}

type c20Proc struct {
	cmd    *exec.Cmd
	in     io.WriteCloser
	lines  chan string
	stderr *c20Tail
	waited chan struct{}
}

// c20Tail keeps the head of the child's stderr (fatal error / panic reports
// come first and can be long).
type c20Tail struct {
	mu sync.Mutex
	b  []byte
}

func (t *c20Tail) Write(p []byte) (int, error) {
	t.mu.Lock()
	if len(t.b) < 1<<16 {
		t.b = append(t.b, p...)
	}
	t.mu.Unlock()
	return len(p), nil
}

func (t *c20Tail) String() string { t.mu.Lock(); defer t.mu.Unlock(); return string(t.b) }

func newC20Mgr(c *core.Ctx) *c20Mgr {
	return &c20Mgr{c: c, procs: map[byte]*c20Proc{}, keyHits: map[string]int{}, classKey: map[string]string{}, hangs: map[string]int{}}
}

func (m *c20Mgr) hit(in *c20Input, class, site string) {
	key := class + ":" + site + ":" + in.Role
	m.keyHits[key]++
	m.classKey[in.class()] = key
}

func (m *c20Mgr) start(mode byte) (*c20Proc, error) {
	cmd := exec.Command(os.Args[0])
	gmp := "1"
	if mode == 's' {
		gmp = "2"
	}
	env := []string{}
	for _, e := range os.Environ() {
		if !strings.HasPrefix(e, "GOMAXPROCS=") && !strings.HasPrefix(e, "GOTRACEBACK=") && !strings.HasPrefix(e, "GOGC=") && !strings.HasPrefix(e, "GOMEMLIMIT=") {
			env = append(env, e)
		}
	}
	cmd.Env = append(env, c20ChildEnv+"="+string(mode), "GOMAXPROCS="+gmp, "GOTRACEBACK=single")
	cmd.SysProcAttr = &syscall.SysProcAttr{Pdeathsig: syscall.SIGKILL}
	in, err := cmd.StdinPipe()
	if err != nil {
		return nil, err
	}
	out, err := cmd.StdoutPipe()
	if err != nil {
		return nil, err
	}
	p := &c20Proc{cmd: cmd, in: in, lines: make(chan string, 1024), stderr: &c20Tail{}, waited: make(chan struct{})}
	cmd.Stderr = p.stderr
	// Pdeathsig is tied to the creating thread
	runtime.LockOSThread()
	err = cmd.Start()
	runtime.UnlockOSThread()
	if err != nil {
		return nil, err
	}
	m.starts++
	go func() {
		sc := bufio.NewScanner(out)
		sc.Buffer(make([]byte, 1<<16), 1<<20)
		for sc.Scan() {
			p.lines <- sc.Text()
		}
		close(p.lines)
		cmd.Wait()
		close(p.waited)
	}()
	return p, nil
}

func (p *c20Proc) kill() {
	p.cmd.Process.Kill()
	p.in.Close()
	for range p.lines {
	}
	<-p.waited
}

func (m *c20Mgr) close() {
	for mode, p := range m.procs {
		p.in.Close()
		select {
		case <-p.waited:
		case <-time.After(5 * time.Second):
			p.kill()
		}
		delete(m.procs, mode)
	}
}

const (
	c20BreakerBad   = 20
	c20BreakerHangs = 2
	c20DecodeLimit  = 10 * time.Second
)

// run evaluates the inputs (all of one mode) and returns one result each.
// A dying child costs exactly the input it was decoding: the others are
// resubmitted to a fresh child.
func (m *c20Mgr) run(inputs []*c20Input) []c20Result {
	res := make([]c20Result, len(inputs))
	done := make([]bool, len(inputs))
	if len(inputs) == 0 {
		return res
	}
	mode := inputs[0].Mode
	outside := 0
	for {
		var todo []int
		for i, in := range inputs {
			if done[i] {
				continue
			}
			if m.keyHits[m.classKey[in.class()]] >= c20BreakerBad || m.hangs[in.class()] >= c20BreakerHangs {
				res[i] = c20Result{Class: "skipped"}
				done[i] = true
				continue
			}
			todo = append(todo, i)
		}
		if len(todo) == 0 {
			return res
		}
		p := m.procs[mode]
		if p == nil {
			var err error
			p, err = m.start(mode)
			if err != nil {
				fmt.Fprintf(os.Stderr, "HARNESS-PANIC c20: cannot start child: %v\n", err)
				os.Exit(2)
			}
			m.procs[mode] = p
		}
		wdone := make(chan struct{})
		go func() {
			defer close(wdone)
			w := bufio.NewWriterSize(p.in, 1<<16)
			hdr := make([]byte, 13)
			for _, i := range todo {
				in := inputs[i]
				binary.BigEndian.PutUint32(hdr, uint32(i))
				hdr[4] = in.Mode
				binary.BigEndian.PutUint16(hdr[5:], uint16(in.API))
				binary.BigEndian.PutUint16(hdr[7:], uint16(in.Ver))
				binary.BigEndian.PutUint32(hdr[9:], uint32(len(in.Frame)))
				if _, err := w.Write(hdr); err != nil {
					return
				}
				if _, err := w.Write(in.Frame); err != nil {
					return
				}
			}
			w.Flush()
		}()
		pending := -1
		left := len(todo)
		over := false
		timer := time.NewTimer(c20DecodeLimit)
		dead := false
		timedOut := false
	loop:
		for left > 0 {
			select {
			case l, ok := <-p.lines:
				if !ok {
					dead = true
					break loop
				}
				if !timer.Stop() {
					select {
					case <-timer.C:
					default:
					}
				}
				timer.Reset(c20DecodeLimit)
				f := strings.SplitN(l, " ", 5)
				if len(f) < 2 {
					continue
				}
				id, _ := strconv.Atoi(f[1])
				if id < 0 || id >= len(inputs) {
					continue
				}
				switch f[0] {
				case "B":
					pending = id
				case "E":
					if len(f) < 5 {
						continue
					}
					a, _ := strconv.ParseInt(f[3], 10, 64)
					sm := strings.SplitN(f[4], "|", 2)
					r := c20Result{Class: f[2], Alloc: a, Site: sm[0]}
					if len(sm) > 1 {
						r.Msg = sm[1]
					}
					res[id] = r
					done[id] = true
					pending = -1
					left--
				case "O":
					if len(f) < 4 {
						continue
					}
					a, _ := strconv.ParseInt(f[2], 10, 64)
					res[id] = c20Result{Class: "over-running", Alloc: a, Site: f[3]}
					done[id] = true
					pending = -1
					left--
					over = true
					m.hit(inputs[id], "over-running", f[3])
				}
			case <-timer.C:
				timedOut = true
				break loop
			}
		}
		timer.Stop()
		if left == 0 && !over {
			<-wdone
			return res
		}
		// the child is gone, or has to go
		if timedOut {
			p.kill()
		} else {
			p.in.Close()
			for range p.lines {
			}
			select {
			case <-p.waited:
			case <-time.After(5 * time.Second):
				p.kill()
			}
		}
		<-wdone
		delete(m.procs, mode)
		if pending >= 0 && !done[pending] {
			in := inputs[pending]
			if timedOut {
				res[pending] = c20Result{Class: "timeout"}
				m.hangs[in.class()]++
			} else {
				res[pending] = c20Result{Class: "death", Stderr: p.stderr.String()}
				m.hit(in, "death", core.PanicSite(res[pending].Stderr))
			}
			done[pending] = true
		} else if (dead || timedOut) && !over {
			// died between inputs: not attributable to a decode
			st := p.stderr.String()
			if len(st) > 2000 {
				st = st[:2000]
			}
			outside++
			if outside > 3 {
				fmt.Fprintf(os.Stderr, "HARNESS-PANIC c20: child keeps dying outside a decode (timeout=%v): %s\n", timedOut, st)
				os.Exit(2)
			}
		}
	}
}
