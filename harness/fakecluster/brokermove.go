package fakecluster

import "verifharness/fakenet"

// AddBrokerAt registers a broker under an explicit host name and version
// table (AddBroker derives the host from the id). A broker that is already
// registered under that id is replaced in the cluster metadata; its old
// listener is left in place (a decommissioned node that still answers), so
// that requests which keep going to the old address are visible in the
// journal: Event.Conn.LocalAddr() is the address the client dialled.
func (c *Cluster) AddBrokerAt(id int32, host string, port int32, rack string, versions map[int]VR) *Broker {
	if versions == nil {
		versions = DefaultVersions()
	}
	b := &Broker{ID: id, Host: host, Port: port, Rack: rack, Versions: versions}
	c.mu.Lock()
	c.Brokers[id] = b
	if len(c.Brokers) == 1 {
		c.Controller = id
	}
	c.mu.Unlock()
	c.Net.Listen(b.Addr(), func(s *fakenet.Conn) { c.serve(b, s) })
	return b
}

// SetController moves the controller role (takes effect in the next metadata answers).
func (c *Cluster) SetController(id int32) {
	c.mu.Lock()
	c.Controller = id
	c.mu.Unlock()
}

// SetPartition sets leader and replica list of a partition (SetLeader always
// makes the leader the only replica).
func (c *Cluster) SetPartition(topic string, p int32, leader int32, replicas []int32) {
	c.mu.Lock()
	defer c.mu.Unlock()
	if pt := c.partLocked(topic, p); pt != nil {
		pt.Leader = leader
		pt.Replicas = append([]int32(nil), replicas...)
		pt.ISR = append([]int32(nil), replicas...)
		pt.cond.Broadcast()
	}
}
