#!/bin/bash
# selfcheck/run.sh <property> [tier]  — applies each mutant patch under
# selfcheck/<property>/*.diff to a scratch worktree of /repo (outside /repo and
# /verif), runs the property's check against it (VERIF_REPO) and reports
# whether the check fired. The worktree is removed afterwards.
set -u
P=$1; TIER=${2:-quick}
DIR="$(cd "$(dirname "$0")/.." && pwd)"
WT=/tmp/selfcheck_wt_$$
git -C /repo worktree add -f --detach $WT HEAD >/dev/null 2>&1 || { echo "cannot create worktree"; exit 2; }
# (alternate binaries and run directories are keyed by the worktree path, so several properties can be run side
# by side: only this run's own artefacts are removed)
TAG=$(printf %s "$WT" | sha256sum | cut -c1-8)
trap 'git -C /repo worktree remove --force $WT >/dev/null 2>&1; rm -f "$DIR"/bin/verifrun-alt$TAG*; rm -rf "$DIR"/run/*alt$TAG*' EXIT
for d in "$DIR"/selfcheck/$P/*.diff; do
  [ -f "$d" ] || continue
  git -C $WT checkout -q -- . 
  if ! git -C $WT apply "$d" 2>/dev/null; then echo "MUTANT $(basename $d): patch does not apply"; continue; fi
  out=$(VERIF_REPO=$WT "$DIR"/check.sh $P $TIER 2>&1); rc=$?
  keys=$(echo "$out" | grep -o 'key=[^ ]*' | sort -u | head -5 | tr '\n' ' ')
  if [ $rc -eq 1 ]; then echo "MUTANT $(basename $d): CAUGHT $keys"; else echo "MUTANT $(basename $d): MISSED (exit $rc) $(echo "$out" | tail -1)"; fi
done
