package refcodec

import (
	"encoding/binary"
	"errors"
	"fmt"
	"math"
	"sort"
)

// ---------------------------------------------------------------- writer

type FieldPos struct {
	Path  string
	Off   int
	Width int
	Role  string // strlen cstrlen byteslen cbyteslen arraylen carraylen recordslen tagcount tagid tagsize errorcode int
}

type W struct {
	B   []byte
	Map []FieldPos
	// when false, no field map is collected
	Track bool
}

func (w *W) pos(path, role string, off, width int) {
	if w.Track {
		w.Map = append(w.Map, FieldPos{path, off, width, role})
	}
}

func (w *W) I8(v int64)  { w.B = append(w.B, byte(v)) }
func (w *W) I16(v int64) { w.B = binary.BigEndian.AppendUint16(w.B, uint16(v)) }
func (w *W) I32(v int64) { w.B = binary.BigEndian.AppendUint32(w.B, uint32(v)) }
func (w *W) I64(v int64) { w.B = binary.BigEndian.AppendUint64(w.B, uint64(v)) }
func (w *W) F64(v float64) {
	w.B = binary.BigEndian.AppendUint64(w.B, math.Float64bits(v))
}
func (w *W) Uvarint(v uint64) {
	for v >= 0x80 {
		w.B = append(w.B, byte(v)|0x80)
		v >>= 7
	}
	w.B = append(w.B, byte(v))
}
func (w *W) Varint(v int64) { w.Uvarint(uint64((v << 1) ^ (v >> 63))) }

func UvarintLen(v uint64) int {
	n := 1
	for v >= 0x80 {
		v >>= 7
		n++
	}
	return n
}

// ---------------------------------------------------------------- reader

var ErrShort = errors.New("refcodec: short buffer")

type R struct {
	B   []byte
	Off int
	Err error
}

func (r *R) fail(err error) {
	if r.Err == nil {
		r.Err = err
	}
}

func (r *R) Remain() int { return len(r.B) - r.Off }

func (r *R) take(n int) []byte {
	if r.Err != nil {
		return nil
	}
	if n < 0 || r.Remain() < n {
		r.fail(fmt.Errorf("%w: need %d at offset %d, have %d", ErrShort, n, r.Off, r.Remain()))
		return nil
	}
	b := r.B[r.Off : r.Off+n]
	r.Off += n
	return b
}

func (r *R) I8() int64 {
	if b := r.take(1); b != nil {
		return int64(int8(b[0]))
	}
	return 0
}
func (r *R) I16() int64 {
	if b := r.take(2); b != nil {
		return int64(int16(binary.BigEndian.Uint16(b)))
	}
	return 0
}
func (r *R) I32() int64 {
	if b := r.take(4); b != nil {
		return int64(int32(binary.BigEndian.Uint32(b)))
	}
	return 0
}
func (r *R) I64() int64 {
	if b := r.take(8); b != nil {
		return int64(binary.BigEndian.Uint64(b))
	}
	return 0
}
func (r *R) F64() float64 {
	if b := r.take(8); b != nil {
		return math.Float64frombits(binary.BigEndian.Uint64(b))
	}
	return 0
}

// Uvarint reads a canonical unsigned varint (no redundant continuation
// groups, at most 10 bytes).
func (r *R) Uvarint() uint64 {
	var x uint64
	var s uint
	for i := 0; ; i++ {
		b := r.take(1)
		if b == nil {
			return 0
		}
		c := b[0]
		if i == 9 && c > 1 {
			r.fail(fmt.Errorf("refcodec: varint overflows 64 bits at offset %d", r.Off))
			return 0
		}
		x |= uint64(c&0x7f) << s
		if c&0x80 == 0 {
			if i > 0 && c == 0 {
				r.fail(fmt.Errorf("refcodec: non-canonical varint at offset %d", r.Off))
			}
			return x
		}
		s += 7
	}
}

func (r *R) Varint() int64 {
	u := r.Uvarint()
	return int64(u>>1) ^ -int64(u&1)
}

// ---------------------------------------------------------------- generic message codec

func toI64(v any) int64 {
	switch x := v.(type) {
	case nil:
		return 0
	case int:
		return int64(x)
	case int8:
		return int64(x)
	case int16:
		return int64(x)
	case int32:
		return int64(x)
	case int64:
		return x
	case uint16:
		return int64(x)
	case uint32:
		return int64(x)
	case bool:
		if x {
			return 1
		}
		return 0
	}
	panic(fmt.Sprintf("refcodec: not an integer: %T", v))
}

func isErrorField(f *Field) bool {
	return f.Kind == KInt16 && !f.Array && (f.Name == "ErrorCode" || f.Name == "TopicErrorCode")
}

func encodeFields(w *W, fields []*Field, ver int, flex bool, val map[string]any, path string) error {
	type tagged struct {
		f *Field
		v any
	}
	var tags []tagged
	for _, f := range fields {
		if f.Tag >= 0 && f.Tagged.Has(ver) {
			if v, ok := val[f.Name]; ok {
				tags = append(tags, tagged{f, v})
			}
			continue
		}
		if !f.Versions.Has(ver) {
			continue
		}
		if err := encodeValue(w, f, ver, flex, val[f.Name], path+f.Name); err != nil {
			return err
		}
	}
	if flex {
		extra, _ := val["_tags"].(map[int][]byte)
		n := len(tags) + len(extra)
		w.pos(path+"_tagcount", "tagcount", len(w.B), UvarintLen(uint64(n)))
		w.Uvarint(uint64(n))
		type raw struct {
			id int
			b  []byte
		}
		var all []raw
		for _, t := range tags {
			sub := &W{}
			if err := encodeValue(sub, t.f, ver, flex, t.v, path+t.f.Name); err != nil {
				return err
			}
			all = append(all, raw{t.f.Tag, sub.B})
		}
		for id, b := range extra {
			all = append(all, raw{id, b})
		}
		sort.Slice(all, func(i, j int) bool { return all[i].id < all[j].id })
		for _, t := range all {
			w.pos(fmt.Sprintf("%s_tag%d.id", path, t.id), "tagid", len(w.B), UvarintLen(uint64(t.id)))
			w.Uvarint(uint64(t.id))
			w.pos(fmt.Sprintf("%s_tag%d.size", path, t.id), "tagsize", len(w.B), UvarintLen(uint64(len(t.b))))
			w.Uvarint(uint64(len(t.b)))
			w.B = append(w.B, t.b...)
		}
	}
	return nil
}

func encodeValue(w *W, f *Field, ver int, flex bool, v any, path string) error {
	nullable := f.Nullable.Has(ver)
	if f.Array {
		var arr []any
		isNil := v == nil
		switch x := v.(type) {
		case nil:
		case []any:
			arr = x
			isNil = x == nil
		case []map[string]any:
			for _, e := range x {
				arr = append(arr, e)
			}
			isNil = x == nil
		case []int32:
			for _, e := range x {
				arr = append(arr, int64(e))
			}
			isNil = x == nil
		case []int64:
			for _, e := range x {
				arr = append(arr, e)
			}
			isNil = x == nil
		case []int:
			for _, e := range x {
				arr = append(arr, int64(e))
			}
			isNil = x == nil
		case []string:
			for _, e := range x {
				arr = append(arr, e)
			}
			isNil = x == nil
		default:
			return fmt.Errorf("refcodec: %s: bad array value %T", path, v)
		}
		if isNil && nullable {
			if flex {
				w.pos(path, "carraylen", len(w.B), 1)
				w.Uvarint(0)
			} else {
				w.pos(path, "arraylen", len(w.B), 4)
				w.I32(-1)
			}
			return nil
		}
		if flex {
			w.pos(path, "carraylen", len(w.B), UvarintLen(uint64(len(arr)+1)))
			w.Uvarint(uint64(len(arr) + 1))
		} else {
			w.pos(path, "arraylen", len(w.B), 4)
			w.I32(int64(len(arr)))
		}
		elem := *f
		elem.Array = false
		elem.Nullable = none
		for i, e := range arr {
			if err := encodeValue(w, &elem, ver, flex, e, fmt.Sprintf("%s[%d]", path, i)); err != nil {
				return err
			}
		}
		return nil
	}
	switch f.Kind {
	case KInt8:
		w.pos(path, "int", len(w.B), 1)
		w.I8(toI64(v))
	case KInt16:
		role := "int"
		if isErrorField(f) {
			role = "errorcode"
		}
		w.pos(path, role, len(w.B), 2)
		w.I16(toI64(v))
	case KInt32:
		w.pos(path, "int", len(w.B), 4)
		w.I32(toI64(v))
	case KInt64:
		w.pos(path, "int", len(w.B), 8)
		w.I64(toI64(v))
	case KFloat64:
		fv, _ := v.(float64)
		w.F64(fv)
	case KBool:
		w.I8(toI64(v))
	case KString:
		s, isStr := v.(string)
		if v != nil && !isStr {
			return fmt.Errorf("refcodec: %s: bad string value %T", path, v)
		}
		if v == nil && nullable {
			if flex {
				w.pos(path, "cstrlen", len(w.B), 1)
				w.Uvarint(0)
			} else {
				w.pos(path, "strlen", len(w.B), 2)
				w.I16(-1)
			}
			return nil
		}
		if flex {
			w.pos(path, "cstrlen", len(w.B), UvarintLen(uint64(len(s)+1)))
			w.Uvarint(uint64(len(s) + 1))
		} else {
			if len(s) > math.MaxInt16 {
				return fmt.Errorf("refcodec: %s: string too long", path)
			}
			w.pos(path, "strlen", len(w.B), 2)
			w.I16(int64(len(s)))
		}
		w.B = append(w.B, s...)
	case KBytes, KRecords:
		b, isB := v.([]byte)
		if v != nil && !isB {
			return fmt.Errorf("refcodec: %s: bad bytes value %T", path, v)
		}
		role := "byteslen"
		if f.Kind == KRecords {
			role = "recordslen"
		}
		if (v == nil || b == nil) && nullable {
			if flex {
				w.pos(path, "c"+role, len(w.B), 1)
				w.Uvarint(0)
			} else {
				w.pos(path, role, len(w.B), 4)
				w.I32(-1)
			}
			return nil
		}
		if flex {
			w.pos(path, "c"+role, len(w.B), UvarintLen(uint64(len(b)+1)))
			w.Uvarint(uint64(len(b) + 1))
		} else {
			w.pos(path, role, len(w.B), 4)
			w.I32(int64(len(b)))
		}
		w.B = append(w.B, b...)
	case KStruct:
		m, _ := v.(map[string]any)
		if m == nil {
			m = map[string]any{}
		}
		return encodeFields(w, f.Fields, ver, flex, m, path+".")
	}
	return nil
}

func decodeFields(r *R, fields []*Field, ver int, flex bool, path string) map[string]any {
	out := map[string]any{}
	byTag := map[int]*Field{}
	for _, f := range fields {
		if f.Tag >= 0 && f.Tagged.Has(ver) {
			byTag[f.Tag] = f
			continue
		}
		if !f.Versions.Has(ver) {
			continue
		}
		out[f.Name] = decodeValue(r, f, ver, flex, path+f.Name)
		if r.Err != nil {
			return out
		}
	}
	if flex {
		n := r.Uvarint()
		if r.Err == nil && n > uint64(r.Remain()) {
			r.fail(fmt.Errorf("refcodec: %s: tagged field count %d exceeds remaining %d bytes", path, n, r.Remain()))
		}
		last := -1
		var unknown map[int][]byte
		for i := uint64(0); i < n && r.Err == nil; i++ {
			id := int(r.Uvarint())
			sz := r.Uvarint()
			if r.Err != nil {
				break
			}
			if id <= last {
				r.fail(fmt.Errorf("refcodec: %s: tagged fields not in increasing order (%d after %d)", path, id, last))
				break
			}
			last = id
			if sz > uint64(r.Remain()) {
				r.fail(fmt.Errorf("%w: %s: tagged field %d size %d exceeds remaining %d", ErrShort, path, id, sz, r.Remain()))
				break
			}
			b := r.take(int(sz))
			if f := byTag[id]; f != nil {
				sub := &R{B: b}
				out[f.Name] = decodeValue(sub, f, ver, flex, path+f.Name)
				if sub.Err == nil && sub.Remain() != 0 {
					sub.fail(fmt.Errorf("refcodec: %s: tagged field %d has %d trailing bytes", path, id, sub.Remain()))
				}
				if sub.Err != nil {
					r.fail(sub.Err)
				}
			} else {
				if unknown == nil {
					unknown = map[int][]byte{}
				}
				unknown[id] = append([]byte(nil), b...)
			}
		}
		if unknown != nil {
			out["_tags"] = unknown
		}
	}
	return out
}

func decodeValue(r *R, f *Field, ver int, flex bool, path string) any {
	nullable := f.Nullable.Has(ver)
	if f.Array {
		var n int64
		if flex {
			u := r.Uvarint()
			n = int64(u) - 1
		} else {
			n = r.I32()
		}
		if r.Err != nil {
			return nil
		}
		if n < 0 {
			if n != -1 || !nullable {
				r.fail(fmt.Errorf("refcodec: %s: null/negative array length %d in non-nullable position (v%d)", path, n, ver))
			}
			return nil
		}
		if n > int64(r.Remain()) {
			r.fail(fmt.Errorf("%w: %s: array length %d exceeds remaining %d bytes", ErrShort, path, n, r.Remain()))
			return nil
		}
		elem := *f
		elem.Array = false
		elem.Nullable = none
		arr := make([]any, 0, n)
		for i := int64(0); i < n && r.Err == nil; i++ {
			arr = append(arr, decodeValue(r, &elem, ver, flex, fmt.Sprintf("%s[%d]", path, i)))
		}
		return arr
	}
	switch f.Kind {
	case KInt8:
		return r.I8()
	case KInt16:
		return r.I16()
	case KInt32:
		return r.I32()
	case KInt64:
		return r.I64()
	case KFloat64:
		return r.F64()
	case KBool:
		b := r.I8()
		if r.Err == nil && b != 0 && b != 1 {
			r.fail(fmt.Errorf("refcodec: %s: boolean encoded as %d", path, b))
		}
		return b != 0
	case KString, KBytes, KRecords:
		var n int64
		if flex {
			n = int64(r.Uvarint()) - 1
		} else if f.Kind == KString {
			n = r.I16()
		} else {
			n = r.I32()
		}
		if r.Err != nil {
			return nil
		}
		if n < 0 {
			if n != -1 || !nullable {
				r.fail(fmt.Errorf("refcodec: %s: null/negative length %d in non-nullable position (v%d)", path, n, ver))
			}
			return nil
		}
		b := r.take(int(n))
		if f.Kind == KString {
			return string(b)
		}
		if b == nil {
			return []byte{}
		}
		return append([]byte{}, b...)
	case KStruct:
		return decodeFields(r, f.Fields, ver, flex, path+".")
	}
	return nil
}

// EncodeBody encodes the request (isReq) or response body of api at ver.
func EncodeBody(api *API, ver int, isReq bool, val map[string]any) (*W, error) {
	w := &W{Track: true}
	fields := api.Resp
	if isReq {
		fields = api.Req
	}
	err := encodeFields(w, fields, ver, api.Flexible(ver), val, "")
	return w, err
}

// DecodeBody decodes a body strictly: it must consume b exactly.
func DecodeBody(api *API, ver int, isReq bool, b []byte) (map[string]any, error) {
	r := &R{B: b}
	fields := api.Resp
	if isReq {
		fields = api.Req
	}
	v := decodeFields(r, fields, ver, api.Flexible(ver), "")
	if r.Err != nil {
		return v, r.Err
	}
	if r.Remain() != 0 {
		return v, fmt.Errorf("refcodec: %s v%d: %d trailing bytes after the body", api.Name, ver, r.Remain())
	}
	return v, nil
}

type ReqHeader struct {
	Key, Version  int
	CorrelationID int32
	ClientID      *string
	BodyOff       int // offset of the body inside the frame payload (after the size prefix)
}

// ParseRequestHeader parses the header of a request frame payload (without
// the 4-byte size prefix).
func ParseRequestHeader(p []byte) (ReqHeader, error) {
	r := &R{B: p}
	h := ReqHeader{}
	h.Key = int(r.I16())
	h.Version = int(r.I16())
	h.CorrelationID = int32(r.I32())
	n := r.I16()
	if r.Err != nil {
		return h, r.Err
	}
	if n < -1 {
		return h, fmt.Errorf("refcodec: client id length %d", n)
	}
	if n >= 0 {
		b := r.take(int(n))
		if r.Err != nil {
			return h, r.Err
		}
		s := string(b)
		h.ClientID = &s
	}
	api := APIs[h.Key]
	if api != nil && api.Flexible(h.Version) {
		cnt := r.Uvarint()
		for i := uint64(0); i < cnt && r.Err == nil; i++ {
			r.Uvarint()
			sz := r.Uvarint()
			r.take(int(sz))
		}
	}
	h.BodyOff = r.Off
	return h, r.Err
}

// EncodeRequestFrame builds a complete request frame (size prefix included).
func EncodeRequestFrame(api *API, ver int, corr int32, clientID *string, val map[string]any) ([]byte, error) {
	w := &W{}
	w.I32(0)
	w.I16(int64(api.Key))
	w.I16(int64(ver))
	w.I32(int64(corr))
	if clientID == nil {
		w.I16(-1)
	} else {
		w.I16(int64(len(*clientID)))
		w.B = append(w.B, *clientID...)
	}
	if api.Flexible(ver) {
		w.Uvarint(0)
	}
	if err := encodeFields(w, api.Req, ver, api.Flexible(ver), val, ""); err != nil {
		return nil, err
	}
	binary.BigEndian.PutUint32(w.B, uint32(len(w.B)-4))
	return w.B, nil
}

// EncodeResponseFrame builds a complete response frame and returns the field
// map with offsets relative to the start of the frame.
func EncodeResponseFrame(api *API, ver int, corr int32, val map[string]any) ([]byte, []FieldPos, error) {
	w := &W{Track: true}
	w.pos("_size", "framesize", 0, 4)
	w.I32(0)
	w.I32(int64(corr))
	if api.ResponseHeaderFlexible(ver) {
		w.pos("_hdr_tagcount", "tagcount", len(w.B), 1)
		w.Uvarint(0)
	}
	if err := encodeFields(w, api.Resp, ver, api.Flexible(ver), val, ""); err != nil {
		return nil, nil, err
	}
	binary.BigEndian.PutUint32(w.B, uint32(len(w.B)-4))
	return w.B, w.Map, nil
}

// DecodeResponseFrame strictly decodes a whole response frame.
func DecodeResponseFrame(api *API, ver int, frame []byte) (int32, map[string]any, error) {
	if len(frame) < 8 {
		return 0, nil, ErrShort
	}
	sz := int(int32(binary.BigEndian.Uint32(frame)))
	if sz != len(frame)-4 {
		return 0, nil, fmt.Errorf("refcodec: frame size prefix %d but %d bytes follow", sz, len(frame)-4)
	}
	r := &R{B: frame, Off: 4}
	corr := int32(r.I32())
	if api.ResponseHeaderFlexible(ver) {
		cnt := r.Uvarint()
		for i := uint64(0); i < cnt && r.Err == nil; i++ {
			r.Uvarint()
			s := r.Uvarint()
			r.take(int(s))
		}
	}
	if r.Err != nil {
		return corr, nil, r.Err
	}
	v, err := DecodeBody(api, ver, false, frame[r.Off:])
	return corr, v, err
}

// Helpers to navigate decoded values.

func Arr(v any) []any {
	a, _ := v.([]any)
	return a
}

func Map(v any) map[string]any {
	m, _ := v.(map[string]any)
	return m
}

func Str(v any) string {
	s, _ := v.(string)
	return s
}

func Int(v any) int64 {
	if v == nil {
		return 0
	}
	return toI64(v)
}

func Bytes(v any) []byte {
	b, _ := v.([]byte)
	return b
}
