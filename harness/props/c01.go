package props

import (
	"fmt"
	kafka "github.com/segmentio/kafka-go"
	"sort"
	"strings"
	"time"

	"verifharness/core"
	"verifharness/fakenet"
)

// C01 — Writer: acknowledged ⇒ in the log; failures attributed exactly.

func init() {
	core.Register(&core.Prop{
		ID:    "C01",
		Level: "exploration",
		Rule: "one case = one seeded Writer scenario (cluster layout, produce version cap, writer configuration, concurrent callers, per-broker fault script over the n-th produce request) run to completion and judged offline by R1-R5 over the broker journal, the wire tap and the call/Completion history; " +
			"split list: the same with BatchBytes 300-600 and messages of a sixth to a half of it, so that one call is split over 2-5 batches of a partition, and 40 % of the first ten produce requests per broker answered with permanent codes, temporary codes, drops or timeouts-after-append, so that the batches of one call end differently. " +
			"signature = (config class, fault sequence, per-partition caller interleaving hash); non-trivial = at least one fault fired or at least two callers interleaved in a partition log",
		Assumptions: []string{
			"fakenet delivers bytes in order and reports exactly which bytes reached a client Read; an attempt is acknowledged iff applied, answered without error and the whole response was delivered",
			"the fake broker applies a produce request atomically and stores records as decoded by the strict reference decoder",
			"WriteTimeout is 5 s outside the dedicated slow-broker scenarios, so deadline errors are not reachable by scheduling noise",
		},
		Shards:          16,
		CaseTimeout:     60 * time.Second,
		HangIsViolation: false,
		Run:             runC01,
	})
}

func genWriterCfg(r *core.Rand, bias string) wCfg {
	cfg := wCfg{}
	cfg.Brokers = r.Range(1, 4)
	nt := r.Range(1, 3)
	for i := 0; i < nt; i++ {
		cfg.Topics = append(cfg.Topics, r.Range(1, 6))
	}
	cfg.ProduceMax = core.Pick(r, 2, 3, 5, 7, 8)
	cfg.WriterTopic = nt == 1 && r.Bool()
	cfg.Balancer = core.Pick(r, wBalancers...)
	cfg.BatchSize = core.Pick(r, 1, 2, 3, 7, 100)
	cfg.BatchBytes = core.Pick(r, int64(0), int64(0), int64(4096), int64(600))
	cfg.BatchTimeout = time.Duration(core.Pick(r, 1, 2, 5, 10, 20)) * time.Millisecond
	cfg.MaxAttempts = r.Range(1, 4)
	cfg.BackoffMin = time.Duration(r.Range(1, 3)) * time.Millisecond
	cfg.BackoffMax = cfg.BackoffMin + time.Duration(r.Range(0, 3))*time.Millisecond
	cfg.Acks = core.Pick(r, 1, -1)
	cfg.Async = r.Chance(1, 3)
	cfg.Codec = r.Intn(5)
	cfg.WriteTimeout = 5 * time.Second
	cfg.MetadataTTL = time.Duration(r.Range(20, 100)) * time.Millisecond
	cfg.Goroutines = r.Range(1, 8)
	cfg.Calls = r.Range(1, 6)
	cfg.MsgsMax = core.Pick(r, 1, 3, 8, 20)
	cfg.Headers = cfg.ProduceMax >= 3 && r.Bool()
	if r.Chance(1, 4) {
		cfg.ChunkMax = core.Pick(r, 1, 3, 7, 64)
	}
	if cfg.BatchBytes == 600 {
		cfg.MsgsMax = core.Pick(r, 1, 3, 8)
	}
	return cfg
}

var tempCodes = []int16{5, 6, 7, 19, 2, 3, 13}
var permCodes = []int16{10, 17, 29, 87, 18}

func genWriterFaults(r *core.Rand, cfg *wCfg, slow bool) {
	nf := core.Pick(r, 0, 1, 1, 2, 3, 5)
	for i := 0; i < nf; i++ {
		f := wFault{Broker: int32(r.Range(1, cfg.Brokers)), N: r.Range(1, 6)}
		switch r.Intn(9) {
		case 0:
			f.Act = "drop-before"
		case 1:
			f.Act = "apply-drop"
		case 2, 3:
			f.Act, f.CutAt, f.Mode = "cut", r.Intn(60), core.Pick(r, fakenet.CutEOF, fakenet.CutReset)
		case 4, 5:
			f.Act, f.Code = "error", core.Pick(r, tempCodes...)
		case 6:
			f.Act, f.Code = "error", core.Pick(r, permCodes...)
		case 7:
			f.Act, f.Code = "error-apply", core.Pick(r, int16(20), int16(7))
		case 8:
			if cfg.Brokers > 1 {
				f.Act = "move"
				f.MoveTo = f.Broker%int32(cfg.Brokers) + 1
			} else {
				f.Act, f.DelayMs = "delay", r.Range(1, 20)
			}
		}
		if r.Chance(1, 5) {
			f.DelayMs = r.Range(1, 15)
		}
		cfg.Faults = append(cfg.Faults, f)
	}
	if slow {
		// dedicated slow-broker scenario: responses later than WriteTimeout
		cfg.WriteTimeout = time.Duration(r.Range(30, 80)) * time.Millisecond
		cfg.Faults = append(cfg.Faults, wFault{Broker: int32(r.Range(1, cfg.Brokers)), N: r.Range(1, 3), Act: core.Pick(r, "delay", "cut"), DelayMs: r.Range(100, 200), CutAt: 1 << 20, Mode: fakenet.CutStall})
	}
}

func runC01(c *core.Ctx) {
	kafka.VerifSetPoints(wHookPoints())
	c.CasesPar("writer", c.N(1500, 110000), 4, func(k *core.Case) {
		r := k.R
		cfg := genWriterCfg(r, "")
		slow := r.Chance(1, 25)
		genWriterFaults(r, &cfg, slow)
		k.Describe(cfg.desc())
		run := wSetup(k, cfg)
		wRunWorkload(k, run, wWorkloadOpts{})
		checkC01(k, run, slow)
	})
	// calls that the byte limit splits over several batches of one partition, the batches of one
	// call ending differently (permanent codes and exhausted attempts on some produce requests,
	// success on their neighbours): every message must be reported with the outcome of the batch
	// that carried it
	c.CasesPar("split", c.N(500, 40000), 4, func(k *core.Case) {
		r := k.R
		cfg := genWriterCfg(r, "")
		cfg.Brokers = r.Range(1, 2)
		cfg.Topics = []int{r.Range(1, 2)}
		if r.Chance(1, 3) {
			cfg.Topics = append(cfg.Topics, 1)
			cfg.WriterTopic = false
		}
		cfg.BatchSize = core.Pick(r, 100, 100, 5)
		cfg.BatchBytes = int64(core.Pick(r, 300, 400, 600))
		cfg.MaxAttempts = core.Pick(r, 1, 1, 2)
		cfg.Async = r.Chance(1, 4)
		cfg.Goroutines = core.Pick(r, 1, 1, 2, 3)
		cfg.Calls = r.Range(1, 4)
		cfg.MsgsMax = core.Pick(r, 3, 6, 12)
		cfg.BatchTimeout = time.Duration(core.Pick(r, 2, 10, 50)) * time.Millisecond
		cfg.Faults = nil
		for n := 1; n <= 10; n++ {
			for b := 1; b <= cfg.Brokers; b++ {
				if !r.Chance(2, 5) {
					continue
				}
				f := wFault{Broker: int32(b), N: n, Act: "error", Code: core.Pick(r, permCodes...)}
				switch r.Intn(6) {
				case 0:
					f.Code = core.Pick(r, tempCodes...)
				case 1:
					f.Act = "drop-before"
				case 2:
					f.Act, f.Code = "error-apply", 7
				}
				cfg.Faults = append(cfg.Faults, f)
			}
		}
		k.Describe(cfg.desc())
		run := wSetup(k, cfg)
		wRunWorkload(k, run, wWorkloadOpts{shape: func(r *core.Rand, call *wCall, msgs []kafka.Message) {
			for i := range msgs {
				wSizeTo(&msgs[i], call.Msgs[i].ID, int32(r.Range(int(cfg.BatchBytes)/6, int(cfg.BatchBytes)/2+20)))
			}
		}})
		checkC01(k, run, false)
	})
}

func checkC01(k *core.Case, run *wRun, slow bool) {
	c := k.Ctx
	cfg := run.Cfg
	if !run.Quiesced {
		c.Inconclusive("broker handlers still running after Close: " + k.ID)
		return
	}
	atts := wAttempts(run)
	c.Eval(1)
	if run.TimeoutSeen {
		// either outcome of an attempt that raced its deadline is legal
		slow = true
		c.Count("scenarios_with_client_timeouts", 1)
	}
	for _, p := range run.Cluster.Problems() {
		k.Viol("c01:wire-problem:"+p.Kind, "the fake broker could not accept what the client sent: "+p.Detail, nil)
	}

	ackedBy := map[string][]*wAttempt{}   // id -> acked attempts containing it
	appliedBy := map[string][]*wAttempt{} // id -> applied attempts
	allBy := map[string][]*wAttempt{}
	faultsFired := 0
	for _, a := range atts {
		switch a.Ev.Fate {
		case "applied":
			if a.Ev.Code != 0 {
				faultsFired++
			}
		default:
			faultsFired++
		}
		c.Count("attempts:"+string(a.Ev.Fate), 1)
		// R5a: ids unique inside one request
		seen := map[string]bool{}
		for _, id := range a.IDs {
			if seen[id] {
				k.Viol("c01:dup-in-request", fmt.Sprintf("message %s appears twice in one produce request", id), map[string]any{"topic": a.Topic, "partition": a.Partition, "ids": a.IDs})
			}
			seen[id] = true
			allBy[id] = append(allBy[id], a)
			if a.Applied {
				appliedBy[id] = append(appliedBy[id], a)
			}
			if a.Acked {
				ackedBy[id] = append(ackedBy[id], a)
			}
		}
	}
	// R5b: an id is only ever part of one batch (same id set in every attempt);
	// attempts per batch <= MaxAttempts; no attempt received after an acked one.
	byBatch := map[string][]*wAttempt{}
	for _, a := range atts {
		byBatch[a.Key+"@"+a.Topic+fmt.Sprint(a.Partition)] = append(byBatch[a.Key+"@"+a.Topic+fmt.Sprint(a.Partition)], a)
	}
	for id, as := range allBy {
		for _, a := range as[1:] {
			if a.Key != as[0].Key {
				k.Viol("c01:id-in-two-batches", fmt.Sprintf("message %s was sent as part of two different batches", id), map[string]any{"batch1": as[0].Key, "batch2": a.Key})
				break
			}
		}
	}
	maxAtt := cfg.MaxAttempts
	for key, as := range byBatch {
		if len(as) > maxAtt {
			k.Viol("c01:too-many-attempts", fmt.Sprintf("batch sent %d times with MaxAttempts=%d", len(as), maxAtt), map[string]any{"batch": key})
		}
		acked := false
		for _, a := range as {
			if acked && !slow {
				k.Viol("c01:attempt-after-ack", "a batch was sent again after one of its attempts had been acknowledged", map[string]any{"batch": key, "attempts": describeAttempts(as)})
				break
			}
			if a.Acked {
				acked = true
			}
		}
		if len(as) > 1 {
			c.Count("batches_retried", 1)
		}
	}

	topicOf := func(m *wMsg) string { return m.Topic }
	// completions by id
	compBy := map[string][]wCompletion{}
	for _, cp := range run.Completions {
		for _, id := range cp.IDs {
			compBy[id] = append(compBy[id], cp)
		}
	}
	submitted, ackedN, failedN := 0, 0, 0
	for _, call := range run.Calls {
		var callErrOther error
		if call.Err != nil && call.PerMsg == nil {
			callErrOther = call.Err
		}
		for i, m := range call.Msgs {
			submitted++
			ch := run.Choices[m.ID]
			if callErrOther != nil {
				// nothing of this call may have been accepted (no context is cancelled in C01 scenarios)
				if len(allBy[m.ID]) > 0 {
					k.Viol("c01:rejected-call-sent", fmt.Sprintf("WriteMessages returned %q but message %s reached a broker", callErrOther, m.ID), nil)
				}
				if len(compBy[m.ID]) > 0 {
					k.Viol("c01:rejected-call-completed", fmt.Sprintf("WriteMessages returned %q but Completion was invoked for %s", callErrOther, m.ID), nil)
				}
				continue
			}
			if ch == nil {
				k.Viol("c01:no-balancer-decision", "accepted message never went through the balancer", map[string]any{"id": m.ID})
				continue
			}
			// R4: only the chosen partition of its topic
			for _, a := range allBy[m.ID] {
				if a.Topic != topicOf(m) || int(a.Partition) != ch.Partition {
					k.Viol("c01:wrong-partition", fmt.Sprintf("message %s was sent to %s/%d but its topic is %s and the balancer chose partition %d", m.ID, a.Topic, a.Partition, topicOf(m), ch.Partition), nil)
				}
			}
			acked := len(ackedBy[m.ID]) > 0
			var merr error
			if call.PerMsg != nil {
				merr = call.PerMsg[i]
			}
			if !cfg.Async {
				if merr == nil {
					ackedN++
					// R1
					if !acked {
						k.Viol("c01:nil-without-ack", fmt.Sprintf("WriteMessages reported success for %s but no acknowledged produce attempt contains it", m.ID),
							map[string]any{"attempts": describeAttempts(allBy[m.ID]), "call_err": fmt.Sprint(call.Err)})
					}
				} else {
					failedN++
					// R2
					if acked && !isDeadlineErr(merr) && !slow {
						k.Viol("c01:error-with-ack", fmt.Sprintf("WriteMessages reported %q for %s although an acknowledged attempt contains it", merr, m.ID),
							map[string]any{"attempts": describeAttempts(allBy[m.ID])})
					}
				}
			}
			// R3: Completion exactly once with the same outcome
			cps := compBy[m.ID]
			if len(cps) != 1 {
				k.Viol("c01:completion-count", fmt.Sprintf("Completion invoked %d times for accepted message %s", len(cps), m.ID), map[string]any{"async": cfg.Async})
				continue
			}
			cerr := cps[0].Err
			if !cfg.Async {
				if (cerr == nil) != (merr == nil) {
					k.Viol("c01:completion-outcome", fmt.Sprintf("Completion err=%v but WriteMessages entry=%v for %s", cerr, merr, m.ID), nil)
				}
			} else {
				if cerr == nil && !acked {
					k.Viol("c01:completion-nil-without-ack", fmt.Sprintf("Completion reported success for %s but no acknowledged attempt contains it", m.ID), map[string]any{"attempts": describeAttempts(allBy[m.ID])})
				}
				if cerr != nil && acked && !isDeadlineErr(cerr) && !slow {
					k.Viol("c01:completion-error-with-ack", fmt.Sprintf("Completion reported %q for %s although an acknowledged attempt contains it", cerr, m.ID), nil)
				}
				if cerr == nil {
					ackedN++
				} else {
					failedN++
				}
			}
			if cerr == nil && cps[0].Topic != "" && (cps[0].Topic != topicOf(m) || cps[0].Partition != ch.Partition) {
				k.Viol("c01:completion-wrong-partition", fmt.Sprintf("Completion reports %s/%d for %s, chosen %s/%d", cps[0].Topic, cps[0].Partition, m.ID, topicOf(m), ch.Partition), nil)
			}
		}
	}
	// log content: every stored record belongs to an applied attempt of that partition (by construction) and
	// the number of copies equals the number of applied attempts
	copies := map[string]int{}
	run.Cluster.Lock()
	var interleave []string
	for _, tn := range run.TopicNames {
		t := run.Cluster.Topics[tn]
		for _, p := range t.Partitions {
			var gs []string
			last := -1
			for _, rec := range p.Records {
				id := parseID(rec.Value)
				copies[id]++
				g, _ := parseGSeq(id)
				if g != last {
					gs = append(gs, fmt.Sprint(g))
					last = g
				}
				if _, ok := run.Msgs[id]; !ok {
					k.Viol("c01:unknown-record", fmt.Sprintf("partition %s/%d holds a record %q nobody submitted", tn, p.ID, id), nil)
				}
			}
			if len(gs) > 1 {
				interleave = append(interleave, strings.Join(gs, ""))
			}
		}
	}
	run.Cluster.Unlock()
	dups := 0
	for id, n := range copies {
		if n != len(appliedBy[id]) {
			k.Viol("c01:copies-vs-attempts", fmt.Sprintf("%d copies of %s in the log but %d applied attempts", n, id, len(appliedBy[id])), map[string]any{"attempts_of_id": describeAttempts(allBy[id]), "all": describeAttempts(atts)})
		}
		if n > 1 {
			dups++
			// duplicates only after a lost acknowledgement: every applied attempt but the last was not acked
			as := appliedBy[id]
			for _, a := range as[:len(as)-1] {
				if a.Acked && !slow {
					k.Viol("c01:dup-after-ack", fmt.Sprintf("message %s was appended again after an acknowledged attempt", id), nil)
				}
			}
		}
	}
	c.Count("messages_submitted", int64(submitted))
	c.Count("messages_acked", int64(ackedN))
	c.Count("messages_failed", int64(failedN))
	c.Count("messages_duplicated", int64(dups))
	c.Count("completions", int64(len(run.Completions)))
	sort.Strings(interleave)
	if faultsFired > 0 || len(interleave) > 0 {
		fs := []string{}
		for _, a := range atts {
			if a.Ev.Fate != "applied" || a.Ev.Code != 0 {
				fs = append(fs, fmt.Sprintf("%s/%d", a.Ev.Fate, a.Ev.Code))
			}
		}
		c.Distinct(fmt.Sprintf("b%d t%v v%d bs%d async%v acks%d codec%d | %s | %x", cfg.Brokers, cfg.Topics, cfg.ProduceMax, cfg.BatchSize, cfg.Async, cfg.Acks, cfg.Codec,
			strings.Join(fs, ","), core.HashString(strings.Join(interleave, "|"))))
	}
	if faultsFired > 0 {
		c.Count("scenarios_with_faults", 1)
	}
	if k.Idx < 48 && (faultsFired > 0) {
		c.Sample(map[string]any{"case": k.ID, "config": cfg.desc(), "attempts": describeAttempts(atts), "submitted": submitted, "acked": ackedN, "failed": failedN})
	}
}

func describeAttempts(as []*wAttempt) []string {
	var out []string
	for i, a := range as {
		if i >= 12 {
			out = append(out, "...")
			break
		}
		wr := ""
		if a.Ev.Conn != nil {
			for _, te := range a.Ev.Conn.Peer().Tap() {
				if te.Write {
					wr += fmt.Sprintf(" w@%d(%s)", te.Seq, te.Wall.Format("05.000"))
				}
			}
			if ca := a.Ev.Conn.ClientClosedAt(); ca != 0 {
				wr += fmt.Sprintf(" closed@%d", ca)
			}
		}
		out = append(out, fmt.Sprintf("seq=%d(%s) b%d conn=%d %s/%d v%d n=%d fate=%s code=%d delivered=%v resp@%d client:%s", a.Ev.Seq, a.Ev.Wall.Format("05.000"), a.Ev.Broker, a.Ev.ConnID, a.Topic, a.Partition, a.Ev.Version, len(a.IDs), a.Ev.Fate, a.Ev.Code, a.Ev.Delivered(), a.Ev.RespSeq, wr))
	}
	return out
}
