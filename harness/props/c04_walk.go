package props

import (
	"bytes"
	"encoding/hex"
	"errors"
	"fmt"
	"io"
	"math"
	"reflect"
	"sort"
	"strconv"
	"strings"
	"sync"
	"time"

	"github.com/segmentio/kafka-go/protocol"

	"verifharness/core"
	"verifharness/refcodec"
)

// ---------------------------------------------------------------- Go side: struct fields and their version ranges

type c04Range struct {
	Min, Max int
	Nullable bool
}

type c04GoField struct {
	Name   string
	Idx    []int // index path (longer than 1 for fields of an inlined struct)
	Type   reflect.Type
	Ranges []c04Range
	Key    string // "<pkg>.<Type>.<Field>"
}

// c04Inline lists Go struct fields whose members the protocol definition has
// inline in the parent (kafka-go groups them in a nested struct).
var c04Inline = map[string]bool{"describeacls.Request.Filter": true}

// in reports whether the field is part of version ver (first matching range
// wins, as in the library) and whether that range is declared nullable.
func (f *c04GoField) in(ver int) (bool, bool) {
	for _, r := range f.Ranges {
		if r.Min <= ver && ver <= r.Max {
			return true, r.Nullable
		}
	}
	return false, false
}

var (
	c04FieldCache  sync.Map // reflect.Type -> []c04GoField
	c04RecordSetT  = reflect.TypeOf(protocol.RecordSet{})
	c04RawRecordsT = reflect.TypeOf(protocol.RawRecordSet{})
)

func c04PkgOf(t reflect.Type) string {
	p := t.PkgPath()
	if i := strings.LastIndex(p, "/"); i >= 0 {
		p = p[i+1:]
	}
	return p
}

// c04FieldsOf lists the exported, kafka-tagged, non-marker fields of a
// message struct with their version ranges (the `kafka:"min=vA,max=vB[,nullable]|..."`
// declaration is the library's statement of which fields exist in a version).
func c04FieldsOf(t reflect.Type) []c04GoField {
	if v, ok := c04FieldCache.Load(t); ok {
		return v.([]c04GoField)
	}
	var out []c04GoField
	for i := 0; i < t.NumField(); i++ {
		sf := t.Field(i)
		if sf.PkgPath != "" { // unexported (including the `_ struct{}` markers)
			continue
		}
		tag, ok := sf.Tag.Lookup("kafka")
		if !ok || tag == "-" {
			continue
		}
		if sf.Type.Kind() == reflect.Struct && sf.Type.NumField() == 0 {
			continue
		}
		gf := c04GoField{Name: sf.Name, Idx: []int{i}, Type: sf.Type, Key: c04PkgOf(t) + "." + t.Name() + "." + sf.Name}
		for _, alt := range strings.Split(tag, "|") {
			r := c04Range{Min: -1, Max: -1}
			for _, o := range strings.Split(alt, ",") {
				switch {
				case strings.HasPrefix(o, "min=v"):
					r.Min, _ = strconv.Atoi(o[5:])
				case strings.HasPrefix(o, "max=v"):
					r.Max, _ = strconv.Atoi(o[5:])
				case o == "nullable":
					r.Nullable = true
				}
			}
			if r.Min >= 0 && r.Max >= r.Min {
				gf.Ranges = append(gf.Ranges, r)
			}
		}
		if c04Inline[gf.Key] {
			for _, sub := range c04FieldsOf(sf.Type) {
				sub.Idx = append([]int{i}, sub.Idx...)
				// the nested field exists only while the parent does
				var rs []c04Range
				for _, pr := range gf.Ranges {
					for _, sr := range sub.Ranges {
						lo, hi := max(pr.Min, sr.Min), min(pr.Max, sr.Max)
						if lo <= hi {
							rs = append(rs, c04Range{lo, hi, sr.Nullable})
						}
					}
				}
				sub.Ranges = rs
				out = append(out, sub)
			}
			continue
		}
		out = append(out, gf)
	}
	c04FieldCache.Store(t, out)
	return out
}

// ---------------------------------------------------------------- records

type c04Rec struct {
	Offset  int64
	TsMs    int64
	Key     []byte
	Value   []byte
	Headers []refcodec.Hdr
}

// c04Recs is the normal form of a record set on either side.
type c04Recs struct {
	Null  bool
	Magic int
	Recs  []c04Rec
	Err   string
}

func c04ReadAll(b protocol.Bytes) []byte {
	if b == nil {
		return nil
	}
	out, _ := protocol.ReadAll(b)
	if out == nil {
		out = []byte{}
	}
	return out
}

func c04DrainRecords(rr protocol.RecordReader) ([]c04Rec, string) {
	var out []c04Rec
	if rr == nil {
		return nil, ""
	}
	for i := 0; i < 1<<20; i++ {
		rec, err := rr.ReadRecord()
		if err != nil {
			if errors.Is(err, io.EOF) {
				return out, ""
			}
			return out, err.Error()
		}
		r := c04Rec{Offset: rec.Offset, Key: c04ReadAll(rec.Key), Value: c04ReadAll(rec.Value)}
		if !rec.Time.IsZero() {
			r.TsMs = rec.Time.UnixNano() / int64(time.Millisecond)
		}
		for _, h := range rec.Headers {
			hv := h.Value
			if hv != nil {
				hv = append([]byte{}, hv...)
			}
			r.Headers = append(r.Headers, refcodec.Hdr{Key: h.Key, Value: hv})
		}
		out = append(out, r)
	}
	return out, "record reader does not end"
}

func c04RecsFromWire(b []byte, null bool, produce bool) c04Recs {
	if null {
		return c04Recs{Null: true}
	}
	batches, err := refcodec.DecodeRecordSet(b, refcodec.StrictOpts{Produce: produce})
	out := c04Recs{}
	if err != nil {
		out.Err = err.Error()
	}
	for _, bt := range batches {
		if bt.Magic > out.Magic {
			out.Magic = bt.Magic
		}
		for _, r := range bt.Records {
			out.Recs = append(out.Recs, c04Rec{Offset: r.Offset, TsMs: r.TimestampMs, Key: r.Key, Value: r.Value, Headers: r.Headers})
		}
	}
	return out
}

func c04CmpRecs(want, got c04Recs, offsets bool, path string) []string {
	var d []string
	if want.Err != "" || got.Err != "" {
		return []string{fmt.Sprintf("%s: record set error want=%q got=%q", path, want.Err, got.Err)}
	}
	if len(want.Recs) != len(got.Recs) {
		return []string{fmt.Sprintf("%s: %d records, want %d", path, len(got.Recs), len(want.Recs))}
	}
	for i := range want.Recs {
		w, g := want.Recs[i], got.Recs[i]
		if offsets && w.Offset != g.Offset {
			d = append(d, fmt.Sprintf("%s[%d].offset: %d want %d", path, i, g.Offset, w.Offset))
		}
		if w.TsMs != g.TsMs {
			d = append(d, fmt.Sprintf("%s[%d].timestamp: %d want %d", path, i, g.TsMs, w.TsMs))
		}
		if (w.Key == nil) != (g.Key == nil) || !bytes.Equal(w.Key, g.Key) {
			d = append(d, fmt.Sprintf("%s[%d].key: %x(nil=%v) want %x(nil=%v)", path, i, g.Key, g.Key == nil, w.Key, w.Key == nil))
		}
		if (w.Value == nil) != (g.Value == nil) || !bytes.Equal(w.Value, g.Value) {
			d = append(d, fmt.Sprintf("%s[%d].value: %x(nil=%v) want %x(nil=%v)", path, i, g.Value, g.Value == nil, w.Value, w.Value == nil))
		}
		if len(w.Headers) != len(g.Headers) {
			d = append(d, fmt.Sprintf("%s[%d].headers: %d want %d", path, i, len(g.Headers), len(w.Headers)))
			continue
		}
		for j := range w.Headers {
			if w.Headers[j].Key != g.Headers[j].Key || !bytes.Equal(w.Headers[j].Value, g.Headers[j].Value) || (w.Headers[j].Value == nil) != (g.Headers[j].Value == nil) {
				d = append(d, fmt.Sprintf("%s[%d].headers[%d]: %v want %v", path, i, j, g.Headers[j], w.Headers[j]))
			}
		}
	}
	return d
}

// ---------------------------------------------------------------- Go value generator

// c04Gen builds Go message values from the case PRNG. Shape classes:
// zero, empty, max, min, varint-boundary lengths, nested-3, mixed, long.
type c04Gen struct {
	r       *core.Rand
	class   int
	ver     int
	nonzero bool
	long    int // remaining maximal strings / blobs allowed in this value
}

var c04Classes = []string{"zero", "empty", "max", "min", "lenboundary", "nested3", "mixed", "mixed2", "long"}

const c04BaseTs = int64(1600000000000)

func (g *c04Gen) intv(bits int) int64 {
	lo := -(int64(1) << (bits - 1))
	hi := (int64(1) << (bits - 1)) - 1
	switch g.class {
	case 0, 1:
		return 0
	case 2:
		return hi
	case 3:
		return lo
	}
	switch g.r.Intn(8) {
	case 0:
		return 0
	case 1:
		return 1
	case 2:
		return -1
	case 3:
		return lo
	case 4:
		return hi
	default:
		v := int64(g.r.Uint64())
		return v >> (64 - bits)
	}
}

func (g *c04Gen) strv() string {
	switch g.class {
	case 0, 1:
		return ""
	case 4:
		return strings.Repeat("x", core.Pick(g.r, 126, 127, 128, 129))
	case 8:
		if g.long > 0 {
			g.long--
			return strings.Repeat("L", core.Pick(g.r, 32767, 16383, 16384, 32766))
		}
	}
	switch g.r.Intn(9) {
	case 0:
		return ""
	case 1:
		return "a"
	case 2:
		return "héllo-wörld-✓"
	case 3:
		return strings.Repeat("y", core.Pick(g.r, 126, 127, 128))
	case 4:
		return "topic-" + strconv.Itoa(g.r.Intn(1000))
	default:
		n := g.r.Range(1, 24)
		b := make([]byte, n)
		for i := range b {
			b[i] = byte('a' + g.r.Intn(26))
		}
		return string(b)
	}
}

func (g *c04Gen) bytesv() []byte {
	switch g.class {
	case 0:
		return nil
	case 1:
		return []byte{}
	case 4:
		return g.r.Bytes(core.Pick(g.r, 126, 127, 128, 129))
	case 8:
		if g.long > 0 {
			g.long--
			return g.r.Bytes(core.Pick(g.r, 70000, 16383, 16384))
		}
	}
	switch g.r.Intn(7) {
	case 0:
		return nil
	case 1:
		return []byte{}
	case 2:
		return []byte{0}
	case 3:
		return g.r.Bytes(core.Pick(g.r, 127, 128))
	default:
		return g.r.Bytes(g.r.Range(1, 40))
	}
}

// arrLen returns -1 for nil.
func (g *c04Gen) arrLen(depth int, scalar bool) int {
	switch g.class {
	case 0:
		return -1
	case 1:
		return 0
	case 2, 3:
		return 1
	case 4:
		if scalar {
			// 126..128: compact length changes width; 256/257/700: the decoder allocates arrays longer
			// than 256 elements as their content arrives
			return core.Pick(g.r, 126, 127, 128, 256, 257, 700)
		}
		if depth == 0 {
			return core.Pick(g.r, 1, 127, 128, 257, 520)
		}
		return 1
	case 5:
		if depth >= 3 {
			return 2
		}
		return 3
	}
	switch g.r.Intn(6) {
	case 0:
		return -1
	case 1:
		return 0
	case 2:
		return 1
	case 3:
		if depth >= 2 {
			return 2
		}
		return 3
	default:
		if depth >= 2 {
			return g.r.Range(0, 2)
		}
		return g.r.Range(1, 4)
	}
}

func (g *c04Gen) records() []protocol.Record {
	n := g.r.Range(1, 3)
	magic2 := g.ver < 0 || g.ver >= 2
	var recs []protocol.Record
	for i := 0; i < n; i++ {
		rec := protocol.Record{Time: time.Unix(0, (c04BaseTs+int64(g.r.Intn(100000)))*int64(time.Millisecond))}
		if g.r.Chance(3, 4) {
			rec.Key = protocol.NewBytes(g.r.Bytes(g.r.Range(0, 12)))
		}
		if g.r.Chance(7, 8) {
			rec.Value = protocol.NewBytes(g.r.Bytes(g.r.Range(0, 60)))
		}
		if magic2 && g.r.Chance(1, 3) {
			for j := g.r.Range(1, 2); j > 0; j-- {
				h := protocol.Header{Key: "h" + strconv.Itoa(j)}
				if g.r.Chance(3, 4) {
					h.Value = g.r.Bytes(g.r.Range(0, 9))
				}
				rec.Headers = append(rec.Headers, h)
			}
		}
		recs = append(recs, rec)
	}
	return recs
}

// fill sets every settable exported field of v (a struct) — including fields
// outside the version being checked, which must then be absent on the wire.
func (g *c04Gen) fill(v reflect.Value, depth int) {
	t := v.Type()
	switch t {
	case c04RecordSetT:
		// g.ver carries the record format (1 or 2) here
		rs := protocol.RecordSet{Version: int8(g.ver), Records: protocol.NewRecordReader(g.records()...)}
		v.Set(reflect.ValueOf(rs))
		g.nonzero = true
		return
	case c04RawRecordsT:
		magic := 2
		if g.ver < 2 {
			magic = 1
		}
		n := g.r.Range(1, 3)
		var recs []refcodec.Rec
		for i := 0; i < n; i++ {
			recs = append(recs, refcodec.Rec{Offset: int64(i), TimestampMs: c04BaseTs + int64(g.r.Intn(1000)), Key: g.r.Bytes(g.r.Range(0, 8)), Value: g.r.Bytes(g.r.Range(0, 30))})
		}
		var raw []byte
		if magic == 2 {
			raw, _ = refcodec.NewBatchV2(recs, 0, -1, refcodec.CodecNone).Encode(refcodec.CompressOpts{})
		} else {
			raw, _ = refcodec.EncodeLegacy(1, refcodec.CodecNone, recs, refcodec.CompressOpts{})
		}
		w := &refcodec.W{}
		w.I32(int64(len(raw)))
		w.B = append(w.B, raw...)
		v.Set(reflect.ValueOf(protocol.RawRecordSet{Reader: bytes.NewReader(w.B)}))
		g.nonzero = true
		return
	}
	switch t.Kind() {
	case reflect.Struct:
		for _, f := range c04FieldsOf(t) {
			g.fill(v.FieldByIndex(f.Idx), depth)
		}
	case reflect.Bool:
		b := false
		switch g.class {
		case 0, 1, 3:
		case 2:
			b = true
		default:
			b = g.r.Bool()
		}
		v.SetBool(b)
		g.nonzero = g.nonzero || b
	case reflect.Int8, reflect.Int16, reflect.Int32, reflect.Int64:
		x := g.intv(t.Bits())
		v.SetInt(x)
		g.nonzero = g.nonzero || x != 0
	case reflect.Float64:
		var f float64
		switch g.class {
		case 0, 1:
		case 2:
			f = math.MaxFloat64
		case 3:
			f = -math.MaxFloat64
		default:
			f = core.Pick(g.r, 0, 1.5, -2.25, math.SmallestNonzeroFloat64, math.Inf(1), math.Float64frombits(g.r.Uint64()))
		}
		v.SetFloat(f)
		g.nonzero = g.nonzero || f != 0
	case reflect.String:
		s := g.strv()
		v.SetString(s)
		g.nonzero = g.nonzero || s != ""
	case reflect.Slice:
		if t.Elem().Kind() == reflect.Uint8 {
			b := g.bytesv()
			v.SetBytes(b)
			g.nonzero = g.nonzero || len(b) > 0
			return
		}
		ek := t.Elem().Kind()
		n := g.arrLen(depth, ek != reflect.Struct)
		if n < 0 {
			v.Set(reflect.Zero(t))
			return
		}
		s := reflect.MakeSlice(t, n, n)
		for i := 0; i < n; i++ {
			g.fill(s.Index(i), depth+1)
		}
		v.Set(s)
		g.nonzero = g.nonzero || n > 0
	default:
		panic("c04: unsupported Go kind " + t.String())
	}
}

// c04GenGo builds one message value; the same (seed, class) always builds
// the same value (record readers are single-use, so callers rebuild).
func c04GenGo(mk func() protocol.Message, seed uint64, class int, ver int) (protocol.Message, bool) {
	m := mk()
	recVer := 2
	if m.ApiKey() == protocol.Produce && ver < 3 || m.ApiKey() == protocol.Fetch && ver < 4 {
		recVer = 1
	}
	g := &c04Gen{r: core.NewRand(seed), class: class, ver: recVer, long: 2}
	g.fill(reflect.ValueOf(m).Elem(), 0)
	return m, g.nonzero
}

// ---------------------------------------------------------------- Go value -> reference value (keyed by schema names)

func c04Norm(s string) string { return strings.ToLower(strings.ReplaceAll(s, "_", "")) }

type c04Pairing struct {
	Go  *c04GoField
	Sch *refcodec.Field
	// GoNullable: the library declares the field nullable in this version.
	GoNullable bool
}

type c04PairKey struct {
	t   reflect.Type
	sch *refcodec.Field // first schema field of the list (identity of the list)
	n   int
	ver int
}

type c04PairVal struct {
	pairs []c04Pairing
	probs []string
}

var c04PairCache sync.Map

func c04SchemaFieldsIn(sch []*refcodec.Field, ver int) []*refcodec.Field {
	var out []*refcodec.Field
	for _, f := range sch {
		if f.Tag >= 0 && f.Tagged.Has(ver) {
			continue
		}
		if f.Versions.Has(ver) {
			out = append(out, f)
		}
	}
	return out
}

// c04PairFields maps the Go fields valid in ver to the schema fields valid in ver:
// by name (alias table, then case-insensitive equality); what is left is
// paired by position. Problems (count mismatch) are returned as text.
func c04PairFields(t reflect.Type, sch []*refcodec.Field, ver int) ([]c04Pairing, []string) {
	var key c04PairKey
	if len(sch) > 0 {
		key = c04PairKey{t, sch[0], len(sch), ver}
		if v, ok := c04PairCache.Load(key); ok {
			pv := v.(*c04PairVal)
			return pv.pairs, pv.probs
		}
	}
	gfs := c04FieldsOf(t)
	var goIn []*c04GoField
	var goNull []bool
	for i := range gfs {
		if ok, nl := gfs[i].in(ver); ok {
			goIn = append(goIn, &gfs[i])
			goNull = append(goNull, nl)
		}
	}
	schIn := c04SchemaFieldsIn(sch, ver)
	var probs []string
	used := make([]bool, len(schIn))
	pairs := make([]c04Pairing, len(goIn))
	done := make([]bool, len(goIn))
	for i, gf := range goIn {
		want := c04Norm(gf.Name)
		if a, ok := c04Alias[gf.Key]; ok {
			want = c04Norm(a)
		}
		for j, sf := range schIn {
			if !used[j] && c04Norm(sf.Name) == want {
				pairs[i] = c04Pairing{gf, sf, goNull[i]}
				used[j], done[i] = true, true
				break
			}
		}
	}
	j := 0
	for i, gf := range goIn {
		if done[i] {
			continue
		}
		for j < len(schIn) && used[j] {
			j++
		}
		if j >= len(schIn) {
			probs = append(probs, fmt.Sprintf("Go field %s (v%d) has no counterpart in the protocol definition", gf.Key, ver))
			continue
		}
		pairs[i] = c04Pairing{gf, schIn[j], goNull[i]}
		used[j], done[i] = true, true
	}
	for j, sf := range schIn {
		if !used[j] {
			probs = append(probs, fmt.Sprintf("protocol field %s (v%d) has no counterpart in Go type %s.%s", sf.Name, ver, c04PkgOf(t), t.Name()))
		}
	}
	var out []c04Pairing
	for i := range pairs {
		if done[i] {
			out = append(out, pairs[i])
		}
	}
	if len(sch) > 0 {
		c04PairCache.Store(key, &c04PairVal{out, probs})
	}
	return out, probs
}

func c04KindOK(t reflect.Type, f *refcodec.Field, elem bool) bool {
	if f.Array && !elem {
		if t.Kind() != reflect.Slice || t.Elem().Kind() == reflect.Uint8 {
			return false
		}
		return c04KindOK(t.Elem(), f, true)
	}
	switch f.Kind {
	case refcodec.KInt8:
		return t.Kind() == reflect.Int8
	case refcodec.KInt16:
		return t.Kind() == reflect.Int16
	case refcodec.KInt32:
		return t.Kind() == reflect.Int32
	case refcodec.KInt64:
		return t.Kind() == reflect.Int64
	case refcodec.KFloat64:
		return t.Kind() == reflect.Float64
	case refcodec.KBool:
		return t.Kind() == reflect.Bool
	case refcodec.KString:
		return t.Kind() == reflect.String
	case refcodec.KBytes:
		return t.Kind() == reflect.Slice && t.Elem().Kind() == reflect.Uint8
	case refcodec.KRecords:
		return t == c04RecordSetT || t == c04RawRecordsT || (t.Kind() == reflect.Slice && t.Elem().Kind() == reflect.Uint8)
	case refcodec.KStruct:
		if t.Kind() != reflect.Struct {
			// kafka-go flattens a struct of one field (Metadata request topics):
			// same bytes as long as the version is not flexible
			return len(f.Fields) == 1 && f.Fields[0].Kind != refcodec.KStruct && !f.Fields[0].Array && c04KindOK(t, f.Fields[0], true)
		}
		return t != c04RecordSetT && t != c04RawRecordsT
	}
	return false
}

// c04GoNil marks a nil Go slice converted to the reference form.
type c04GoNil struct{}

// c04GoToRef converts a Go message struct to the reference representation
// (map keyed by protocol-definition names) for version ver. Nil slices
// become c04GoNil{}. Record sets are drained into c04Recs.
func c04GoToRef(v reflect.Value, sch []*refcodec.Field, ver int, path string, probs *[]string) map[string]any {
	pairs, pp := c04PairFields(v.Type(), sch, ver)
	*probs = append(*probs, pp...)
	out := map[string]any{}
	for _, p := range pairs {
		fv := v.FieldByIndex(p.Go.Idx)
		if !c04KindOK(p.Go.Type, p.Sch, false) {
			*probs = append(*probs, fmt.Sprintf("%s%s: Go field %s is %s but the protocol field %s is %s (array=%v)", path, p.Sch.Name, p.Go.Key, p.Go.Type, p.Sch.Name, p.Sch.Kind, p.Sch.Array))
			continue
		}
		out[p.Sch.Name] = c04ValToRef(fv, p.Sch, ver, path+p.Sch.Name, false, probs)
	}
	return out
}

func c04ValToRef(fv reflect.Value, f *refcodec.Field, ver int, path string, elem bool, probs *[]string) any {
	if f.Array && !elem {
		if fv.IsNil() {
			return c04GoNil{}
		}
		arr := make([]any, 0, fv.Len())
		for i := 0; i < fv.Len(); i++ {
			arr = append(arr, c04ValToRef(fv.Index(i), f, ver, fmt.Sprintf("%s[%d]", path, i), true, probs))
		}
		return arr
	}
	switch f.Kind {
	case refcodec.KInt8, refcodec.KInt16, refcodec.KInt32, refcodec.KInt64:
		return fv.Int()
	case refcodec.KFloat64:
		return fv.Float()
	case refcodec.KBool:
		return fv.Bool()
	case refcodec.KString:
		return fv.String()
	case refcodec.KBytes:
		if fv.IsNil() {
			return c04GoNil{}
		}
		return append([]byte{}, fv.Bytes()...)
	case refcodec.KRecords:
		switch fv.Type() {
		case c04RecordSetT:
			rs := fv.Interface().(protocol.RecordSet)
			if rs.Records == nil {
				return c04Recs{Null: true}
			}
			recs, err := c04DrainRecords(rs.Records)
			return c04Recs{Recs: recs, Err: err, Magic: int(rs.Version)}
		case c04RawRecordsT:
			rr := fv.Interface().(protocol.RawRecordSet)
			if rr.Reader == nil {
				return c04Recs{Null: true}
			}
			b, _ := io.ReadAll(rr.Reader)
			if len(b) < 4 {
				return c04Recs{Err: "raw record set shorter than its size prefix"}
			}
			return c04RecsFromWire(b[4:], false, true)
		}
		if fv.IsNil() {
			return c04GoNil{}
		}
		return append([]byte{}, fv.Bytes()...)
	case refcodec.KStruct:
		if fv.Kind() != reflect.Struct {
			return map[string]any{f.Fields[0].Name: c04ValToRef(fv, f.Fields[0], ver, path+"."+f.Fields[0].Name, true, probs)}
		}
		return c04GoToRef(fv, f.Fields, ver, path+".", probs)
	}
	return nil
}

// ---------------------------------------------------------------- comparisons

type c04Cmp struct {
	api   string
	isReq bool
	ver   int
	// encode: goSide is the value handed to the library, wire what the
	// reference decoder read from the library's bytes. !encode: wire is the
	// value the reference encoder wrote, goSide what the library decoded.
	encode bool
	diffs  []string
	nullc  int // diffs that are about the null convention only
}

func (c *c04Cmp) diff(format string, a ...any) {
	if len(c.diffs) < 12 {
		c.diffs = append(c.diffs, fmt.Sprintf(format, a...))
	}
}

func c04SchemaPath(p string) string {
	// strip [i] indexes: positions are the same for every element
	var b strings.Builder
	skip := false
	for _, r := range p {
		switch {
		case r == '[':
			skip = true
		case r == ']':
			skip = false
		case !skip:
			b.WriteRune(r)
		}
	}
	return b.String()
}

// nullExpected: the Go zero value (""/nil) sits in a position the protocol
// definition marks nullable in this version. kafka-go's convention is that
// the zero value of a field it declares nullable IS the null value; the
// positions where the pinned library does not declare nullable (and so can
// only express "empty") are listed in c04NullExempt.
func (c *c04Cmp) nullExpected(path string) bool {
	dir := "resp"
	if c.isReq {
		dir = "req"
	}
	k := fmt.Sprintf("%s:%s:%s", c.api, dir, c04SchemaPath(path))
	if vs, ok := c04NullExempt[k]; ok {
		if vs == "*" {
			return false
		}
		for _, s := range strings.Split(vs, ",") {
			if s == strconv.Itoa(c.ver) {
				return false
			}
		}
	}
	return true
}

func (c *c04Cmp) fields(sch []*refcodec.Field, goM, wireM map[string]any, path string) {
	for _, f := range c04SchemaFieldsIn(sch, c.ver) {
		gv, gok := goM[f.Name]
		wv, wok := wireM[f.Name]
		if !gok {
			continue // shape problem already reported by c04GoToRef
		}
		if !wok {
			c.diff("%s%s: absent on the reference side", path, f.Name)
			continue
		}
		c.value(f, gv, wv, path+f.Name, false)
	}
}

func (c *c04Cmp) value(f *refcodec.Field, gv, wv any, path string, elem bool) {
	nullable := f.Nullable.Has(c.ver) && !elem
	_, goNil := gv.(c04GoNil)
	if f.Array && !elem {
		ga, _ := gv.([]any)
		wa, _ := wv.([]any)
		wNull := wv == nil
		if wNull {
			if c.encode {
				if !goNil {
					c.diff("%s: non-nil Go slice of length %d encoded as a null array", path, len(ga))
				}
			} else if !goNil {
				c.diff("%s: null array decoded to a non-nil slice of length %d", path, len(ga))
			}
			return
		}
		if c.encode && goNil && nullable && c.nullExpected(path) {
			c.nullc++
			c.diff("%s: nil Go slice in a nullable position encoded as an empty array (kafka-go expresses null as nil here)", path)
		}
		if len(ga) != len(wa) {
			c.diff("%s: array length go=%d wire=%d", path, len(ga), len(wa))
			return
		}
		for i := range ga {
			c.value(f, ga[i], wa[i], fmt.Sprintf("%s[%d]", path, i), true)
		}
		return
	}
	switch f.Kind {
	case refcodec.KInt8, refcodec.KInt16, refcodec.KInt32, refcodec.KInt64:
		if refcodec.Int(gv) != refcodec.Int(wv) {
			c.diff("%s: go=%d wire=%d", path, refcodec.Int(gv), refcodec.Int(wv))
		}
	case refcodec.KFloat64:
		g, _ := gv.(float64)
		w, _ := wv.(float64)
		if math.Float64bits(g) != math.Float64bits(w) {
			c.diff("%s: go=%x wire=%x (float64 bits)", path, math.Float64bits(g), math.Float64bits(w))
		}
	case refcodec.KBool:
		g, _ := gv.(bool)
		w, _ := wv.(bool)
		if g != w {
			c.diff("%s: go=%v wire=%v", path, g, w)
		}
	case refcodec.KString:
		g, _ := gv.(string)
		if wv == nil {
			if g != "" {
				c.diff("%s: go=%q wire=null", path, c04Short(g))
			}
			return
		}
		w, _ := wv.(string)
		if g != w {
			c.diff("%s: go=%q wire=%q", path, c04Short(g), c04Short(w))
		} else if c.encode && g == "" && nullable && c.nullExpected(path) {
			c.nullc++
			c.diff("%s: empty Go string in a nullable position encoded as an empty string (kafka-go expresses null as \"\" here)", path)
		}
	case refcodec.KBytes:
		g, _ := gv.([]byte)
		if wv == nil {
			if !goNil {
				if c.encode {
					c.diff("%s: non-nil Go []byte (len %d) encoded as null", path, len(g))
				} else {
					c.diff("%s: null bytes decoded to non-nil []byte (len %d)", path, len(g))
				}
			}
			return
		}
		w, _ := wv.([]byte)
		if !bytes.Equal(g, w) {
			c.diff("%s: go=%s wire=%s", path, c04Hex(g), c04Hex(w))
		} else if c.encode && goNil && nullable && c.nullExpected(path) {
			c.nullc++
			c.diff("%s: nil Go []byte in a nullable position encoded as empty bytes (kafka-go expresses null as nil here)", path)
		}
	case refcodec.KRecords:
		var g, w c04Recs
		switch x := gv.(type) {
		case c04Recs:
			g = x
		case c04GoNil:
			g = c04Recs{Null: true}
		}
		switch x := wv.(type) {
		case nil:
			w = c04Recs{Null: true}
		case []byte:
			w = c04RecsFromWire(x, false, c.isReq && c.encode)
		case c04Recs:
			w = x
		}
		if c.encode {
			c.diffs = append(c.diffs, c04CmpRecs(g, w, false, path)...)
		} else {
			c.diffs = append(c.diffs, c04CmpRecs(w, g, true, path)...)
		}
	case refcodec.KStruct:
		gm, _ := gv.(map[string]any)
		wm, _ := wv.(map[string]any)
		c.fields(f.Fields, gm, wm, path+".")
	}
}

func c04Short(s string) string {
	if len(s) > 40 {
		return fmt.Sprintf("%s...(%d bytes)", s[:40], len(s))
	}
	return s
}

func c04Hex(b []byte) string {
	if len(b) > 48 {
		return fmt.Sprintf("%x...(%d bytes)", b[:48], len(b))
	}
	if b == nil {
		return "nil"
	}
	return hex.EncodeToString(b)
}

// c04Canon renders a reference value deterministically (digests, witnesses).
func c04Canon(v any) string {
	var b strings.Builder
	c04CanonTo(&b, v)
	return b.String()
}

func c04CanonTo(b *strings.Builder, v any) {
	switch x := v.(type) {
	case nil:
		b.WriteString("null")
	case c04GoNil:
		b.WriteString("nil")
	case map[string]any:
		ks := make([]string, 0, len(x))
		for k := range x {
			ks = append(ks, k)
		}
		sort.Strings(ks)
		b.WriteString("{")
		for i, k := range ks {
			if i > 0 {
				b.WriteString(" ")
			}
			b.WriteString(k)
			b.WriteString(":")
			c04CanonTo(b, x[k])
		}
		b.WriteString("}")
	case map[int][]byte:
		ks := make([]int, 0, len(x))
		for k := range x {
			ks = append(ks, k)
		}
		sort.Ints(ks)
		b.WriteString("tags{")
		for _, k := range ks {
			fmt.Fprintf(b, "%d:%s ", k, c04Hex(x[k]))
		}
		b.WriteString("}")
	case []any:
		if x == nil {
			b.WriteString("null")
			return
		}
		b.WriteString("[")
		for i, e := range x {
			if i > 0 {
				b.WriteString(" ")
			}
			c04CanonTo(b, e)
		}
		b.WriteString("]")
	case []byte:
		b.WriteString("h'" + c04Hex(x) + "'")
	case string:
		b.WriteString(strconv.Quote(c04Short(x)))
	case float64:
		fmt.Fprintf(b, "f%x", math.Float64bits(x))
	case c04Recs:
		fmt.Fprintf(b, "recs(null=%v err=%q", x.Null, x.Err)
		for _, r := range x.Recs {
			fmt.Fprintf(b, " {o=%d t=%d k=%s v=%s h=%v}", r.Offset, r.TsMs, c04Hex(r.Key), c04Hex(r.Value), r.Headers)
		}
		b.WriteString(")")
	default:
		fmt.Fprintf(b, "%v", x)
	}
}
