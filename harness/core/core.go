// Package core holds what every property check shares: the property
// registry, the per-shard context (seeded case lists, evidence counters,
// violation and inconclusive records, hang watchdog) and the shard result
// that the driver merges into /verif/evidence/<id>.json.
package core

import (
	"encoding/json"
	"fmt"
	"os"
	"runtime"
	"runtime/debug"
	"sort"
	"strings"
	"sync"
	"sync/atomic"
	"time"
)

// clock is the one logical clock shared by client-side recorders, fakenet and
// the fake cluster, so that all journal events are totally ordered.
var clock int64

func Tick() int64 { return atomic.AddInt64(&clock, 1) }
func Now() int64  { return atomic.LoadInt64(&clock) }

type Prop struct {
	ID          string
	Level       string // exploration | fault_enumeration
	Rule        string
	Assumptions []string
	// Race: this property is decided by the race detector; the driver builds
	// the -race binary and scans the GORACE logs.
	Race bool
	// Shards: how many child processes (0 = driver default).
	Shards int
	// CaseTimeout is the hang watchdog for one case (0 = 60s).
	CaseTimeout time.Duration
	// HangIsViolation: a case that exceeds the watchdog twice (second time on
	// an otherwise idle process) violates the property (it claims bounded
	// termination). Otherwise a hang is reported as inconclusive.
	HangIsViolation bool
	Run             func(*Ctx)
}

var registry = map[string]*Prop{}

func Register(p *Prop)       { registry[p.ID] = p }
func Lookup(id string) *Prop { return registry[id] }
func IDs() []string {
	var ids []string
	for k := range registry {
		ids = append(ids, k)
	}
	sort.Strings(ids)
	return ids
}

type Violation struct {
	Key     string `json:"key"`
	What    string `json:"what"`
	Case    string `json:"case"`
	Witness any    `json:"witness,omitempty"`
}

type ShardResult struct {
	Prop         string           `json:"prop"`
	Tier         string           `json:"tier"`
	Seed         uint64           `json:"seed"`
	Shard        int              `json:"shard"`
	NShards      int              `json:"nshards"`
	Evaluations  int64            `json:"evaluations"`
	Distinct     []uint64         `json:"distinct"`
	Counters     map[string]int64 `json:"counters"`
	Samples      []any            `json:"samples"`
	Violations   []Violation      `json:"violations"`
	Inconclusive []string         `json:"inconclusive"`
	Exhaustive   *bool            `json:"exhaustive,omitempty"`
	WallS        float64          `json:"wall_s"`
	Done         bool             `json:"done"`
}

type Ctx struct {
	Prop    *Prop
	Tier    string
	Seed    uint64
	Shard   int
	NShards int
	// Only, when >= 0, restricts Cases to that single case index (replay).
	Only int64
	// OnlyList selects a list name for replay ("" = any).
	OnlyList string

	mu       sync.Mutex
	evals    int64
	distinct map[uint64]struct{}
	counters map[string]int64
	samples  []any
	viols    []Violation
	violKeys map[string]int
	incon    []string
	exh      *bool
	log      *os.File
	start    time.Time
	hung     []hungCase
	hangs    int
	// KeyFilter, when set, decides which violation keys this property records; verdicts of reused
	// scenario engines whose oracle belongs to another property are only counted (C10 runs engines
	// for the race detector, not for their oracles).
	KeyFilter func(key string) bool
	// DistinctFilter, when set, selects the signatures that count for this property.
	DistinctFilter func(sig string) bool
}

type hungCase struct {
	list string
	idx  int
	fn   func(*Case)
}

func NewCtx(p *Prop, tier string, seed uint64, shard, nshards int, logf *os.File) *Ctx {
	return &Ctx{Prop: p, Tier: tier, Seed: seed, Shard: shard, NShards: nshards, Only: -1,
		distinct: map[uint64]struct{}{}, counters: map[string]int64{}, violKeys: map[string]int{},
		log: logf, start: time.Now()}
}

func (c *Ctx) Quick() bool { return c.Tier != "thorough" }

// N picks a tier-dependent size.
func (c *Ctx) N(quick, thorough int) int {
	if c.Quick() {
		return quick
	}
	return thorough
}

func (c *Ctx) Eval(n int) { atomic.AddInt64(&c.evals, int64(n)) }

// Distinct records the signature of a non-trivial case; the evidence's
// distinct_nontrivial is the size of the union of these sets over shards.
func (c *Ctx) Distinct(sig string) {
	if c.DistinctFilter != nil && !c.DistinctFilter(sig) {
		return
	}
	h := HashString(sig)
	c.mu.Lock()
	c.distinct[h] = struct{}{}
	c.mu.Unlock()
}

func (c *Ctx) Count(key string, n int64) {
	c.mu.Lock()
	c.counters[key] += n
	c.mu.Unlock()
}

func (c *Ctx) Max(key string, n int64) {
	c.mu.Lock()
	if n > c.counters[key] {
		c.counters[key] = n
	}
	c.mu.Unlock()
}

func (c *Ctx) Sample(v any) {
	c.mu.Lock()
	if len(c.samples) < 4 {
		c.samples = append(c.samples, v)
	}
	c.mu.Unlock()
}

func (c *Ctx) SetExhaustive(b bool) {
	c.mu.Lock()
	if c.exh == nil || !b {
		c.exh = &b
	}
	c.mu.Unlock()
}

// Violation records a witness. At most 3 witnesses are kept per key; all are
// counted.
func (c *Ctx) Violation(key, caseID, what string, witness any) {
	c.mu.Lock()
	defer c.mu.Unlock()
	if c.KeyFilter != nil && !c.KeyFilter(key) {
		c.counters["foreign_oracle_verdicts_not_judged"]++
		return
	}
	c.violKeys[key]++
	if c.violKeys[key] > 3 {
		return
	}
	c.viols = append(c.viols, Violation{Key: key, What: what, Case: caseID, Witness: witness})
	if c.log != nil {
		fmt.Fprintf(c.log, "VIOL %s key=%s %s\n", caseID, key, what)
	}
}

func (c *Ctx) Inconclusive(what string) {
	c.mu.Lock()
	if len(c.incon) < 50 {
		c.incon = append(c.incon, what)
	}
	c.counters["inconclusive"]++
	c.mu.Unlock()
}

func (c *Ctx) Logf(format string, a ...any) {
	if c.log != nil {
		fmt.Fprintf(c.log, format+"\n", a...)
	}
}

// Case is what one scenario gets: its own PRNG and id.
type Case struct {
	*Ctx
	List string
	Idx  int
	R    *Rand
	ID   string
	// Desc is logged in the BEGIN line and used as the sample.
	desc any
	// Cancelled is closed when the watchdog gave up on the case.
	Cancelled chan struct{}
	// Second: this is the confirmation re-run of the case on an idle process.
	Second bool
	fn     func(*Case)
}

// TimeViol reports a violation whose evidence is a generous wall-clock bound
// being exceeded. The first time, the case is only queued for a confirmation
// re-run at the end of the shard, when nothing else runs in this process;
// only if the bound is exceeded again is it recorded as a violation.
func (k *Case) TimeViol(key, what string, witness any) {
	if k.Ctx.KeyFilter != nil && !k.Ctx.KeyFilter(key) {
		k.Ctx.Count("foreign_oracle_verdicts_not_judged", 1)
		return
	}
	if k.Second {
		k.Viol(key, what+" (confirmed by a second run on an idle process)", witness)
		return
	}
	k.Ctx.Count("time_bound_exceeded_first_run", 1)
	k.Ctx.mu.Lock()
	for _, h := range k.Ctx.hung {
		if h.list == k.List && h.idx == k.Idx {
			k.Ctx.mu.Unlock()
			return
		}
	}
	k.Ctx.hangs++
	k.Ctx.hung = append(k.Ctx.hung, hungCase{k.List, k.Idx, k.fn})
	k.Ctx.mu.Unlock()
}

func (k *Case) Viol(key, what string, witness any) {
	k.Ctx.Violation(key, k.ID, what, map[string]any{"desc": k.desc, "detail": witness})
}

func (k *Case) Describe(d any) {
	k.desc = d
	if k.Ctx.log != nil {
		b, _ := json.Marshal(d)
		fmt.Fprintf(k.Ctx.log, "DESC %s %s\n", k.ID, b)
	}
}

func (k *Case) Desc() any { return k.desc }

// Cases runs fn for every case index of the named list that belongs to this
// shard. The list has a fixed length per tier (no time budgets). Each case
// runs under the hang watchdog; a panic inside the case goroutine is
// recovered and reported through onPanic.
func (c *Ctx) Cases(list string, n int, fn func(*Case)) {
	for idx := 0; idx < n; idx++ {
		if c.Only >= 0 {
			if int64(idx) != c.Only || (c.OnlyList != "" && c.OnlyList != list) {
				continue
			}
		} else if idx%c.NShards != c.Shard {
			continue
		}
		c.runCase(list, idx, fn, false)
	}
}

// CasesPar is Cases with up to par cases of this shard running concurrently
// (for scenario engines dominated by library-internal sleeps).
func (c *Ctx) CasesPar(list string, n, par int, fn func(*Case)) {
	if par <= 1 || c.Only >= 0 {
		c.Cases(list, n, fn)
		return
	}
	sem := make(chan struct{}, par)
	var wg sync.WaitGroup
	for idx := 0; idx < n; idx++ {
		if idx%c.NShards != c.Shard {
			continue
		}
		sem <- struct{}{}
		wg.Add(1)
		go func(idx int) {
			defer wg.Done()
			defer func() { <-sem }()
			c.runCase(list, idx, fn, false)
		}(idx)
	}
	wg.Wait()
}

func (c *Ctx) caseTimeout() time.Duration {
	if c.Prop != nil && c.Prop.CaseTimeout > 0 {
		return c.Prop.CaseTimeout
	}
	return 60 * time.Second
}

// maxHangs is the per-shard circuit breaker: after that many cases ran into
// the watchdog, the remaining cases of the shard are skipped (reported as
// inconclusive), so that a tree on which everything hangs is decided in
// bounded time.
const maxHangs = 3

func (c *Ctx) runCase(list string, idx int, fn func(*Case), second bool) {
	id := fmt.Sprintf("%s/%s/%d", c.Prop.ID, list, idx)
	if !second {
		c.mu.Lock()
		tripped := c.hangs >= maxHangs
		c.mu.Unlock()
		if tripped {
			c.Count("cases_skipped_after_hangs", 1)
			return
		}
	}
	k := &Case{Ctx: c, List: list, Idx: idx, ID: id, Cancelled: make(chan struct{}), Second: second, fn: fn,
		R: NewRand(Mix(HashString(c.Prop.ID), HashString(list), c.Seed, uint64(idx)))}
	if c.log != nil {
		fmt.Fprintf(c.log, "BEGIN %s\n", id)
	}
	done := make(chan struct{})
	go func() {
		defer close(done)
		defer func() {
			if r := recover(); r != nil {
				st := string(debug.Stack())
				if StackInLibrary(st) {
					k.Viol("panic:"+PanicSite(st), fmt.Sprintf("panic in library code: %v", r), map[string]any{"stack": trimStack(st)})
				} else {
					// harness bug: make it loud, never a VIOLATION
					fmt.Fprintf(os.Stderr, "HARNESS-PANIC %s: %v\n%s\n", id, r, st)
					os.Exit(2)
				}
			}
		}()
		fn(k)
	}()
	t := time.NewTimer(c.caseTimeout())
	defer t.Stop()
	select {
	case <-done:
		if c.log != nil {
			fmt.Fprintf(c.log, "END %s\n", id)
		}
	case <-t.C:
		close(k.Cancelled)
		buf := make([]byte, 1<<20)
		buf = buf[:runtime.Stack(buf, true)]
		if c.log != nil {
			fmt.Fprintf(c.log, "HANG %s second=%v\n%s\n", id, second, buf)
		}
		if second {
			if c.Prop.HangIsViolation {
				k.Viol("hang", fmt.Sprintf("case did not terminate within %s, twice (second time on an idle process)", c.caseTimeout()), map[string]any{"stacks": libraryGoroutines(string(buf))})
			} else {
				c.Inconclusive("hang " + id)
			}
		} else {
			c.mu.Lock()
			c.hangs++
			c.hung = append(c.hung, hungCase{list, idx, fn})
			c.mu.Unlock()
		}
	}
}

// Finish re-runs hung cases alone and returns the shard result.
func (c *Ctx) Finish() *ShardResult {
	c.mu.Lock()
	hung := c.hung
	c.hung = nil
	c.mu.Unlock()
	for i, h := range hung {
		if i >= 2 {
			break
		}
		c.runCase(h.list, h.idx, h.fn, true)
	}
	if c.hangs >= maxHangs {
		c.Inconclusive(fmt.Sprintf("shard %d: %d cases hit the watchdog; remaining cases skipped", c.Shard, c.hangs))
	}
	c.mu.Lock()
	defer c.mu.Unlock()
	r := &ShardResult{Prop: c.Prop.ID, Tier: c.Tier, Seed: c.Seed, Shard: c.Shard, NShards: c.NShards,
		Evaluations: atomic.LoadInt64(&c.evals), Counters: c.counters, Samples: c.samples,
		Violations: c.viols, Inconclusive: c.incon, Exhaustive: c.exh,
		WallS: time.Since(c.start).Seconds(), Done: true}
	for k, n := range c.violKeys {
		r.Counters["violations:"+k] = int64(n)
	}
	for h := range c.distinct {
		r.Distinct = append(r.Distinct, h)
	}
	sort.Slice(r.Distinct, func(i, j int) bool { return r.Distinct[i] < r.Distinct[j] })
	return r
}

const libPrefix = "github.com/segmentio/kafka-go"

// StackInLibrary reports whether the innermost non-runtime frame of a panic
// stack is in kafka-go (as opposed to harness code).
func StackInLibrary(st string) bool {
	lines := strings.Split(st, "\n")
	for i := 0; i < len(lines); i++ {
		l := strings.TrimSpace(lines[i])
		if l == "" || strings.HasPrefix(l, "goroutine ") || strings.HasPrefix(l, "/") {
			continue
		}
		if strings.HasPrefix(l, "runtime") || strings.HasPrefix(l, "panic(") || strings.Contains(l, "debug.Stack") ||
			strings.HasPrefix(l, "reflect.") || strings.HasPrefix(l, "verifharness/core.(*Ctx).runCase") ||
			strings.HasPrefix(l, "bytes.") || strings.HasPrefix(l, "bufio.") || strings.HasPrefix(l, "io.") ||
			strings.HasPrefix(l, "encoding/") || strings.HasPrefix(l, "sync") || strings.HasPrefix(l, "hash/") {
			continue
		}
		return strings.HasPrefix(l, libPrefix)
	}
	return false
}

// PanicSite names the innermost library function of a panic stack.
func PanicSite(st string) string {
	for _, l := range strings.Split(st, "\n") {
		l = strings.TrimSpace(l)
		if strings.HasPrefix(l, libPrefix) {
			if i := strings.LastIndex(l, "("); i > 0 {
				l = l[:i]
			}
			return strings.TrimPrefix(l, libPrefix)
		}
	}
	return "?"
}

func trimStack(st string) string {
	if len(st) > 6000 {
		st = st[:6000]
	}
	return st
}

// libraryGoroutines extracts, from a full goroutine dump, the goroutines with
// a kafka-go frame (first lines only).
func libraryGoroutines(dump string) []string {
	var out []string
	for _, g := range strings.Split(dump, "\n\n") {
		if strings.Contains(g, libPrefix) {
			ls := strings.Split(g, "\n")
			if len(ls) > 14 {
				ls = ls[:14]
			}
			out = append(out, strings.Join(ls, "\n"))
			if len(out) >= 12 {
				break
			}
		}
	}
	return out
}

func WriteJSON(path string, v any) error {
	b, err := json.MarshalIndent(v, "", " ")
	if err != nil {
		return err
	}
	tmp := path + ".tmp"
	if err := os.WriteFile(tmp, b, 0o644); err != nil {
		return err
	}
	return os.Rename(tmp, path)
}
