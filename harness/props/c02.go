package props

import (
	"bytes"
	"context"
	"errors"
	"fmt"
	"io"
	"strings"
	"sync"
	"sync/atomic"
	"time"

	kafka "github.com/segmentio/kafka-go"

	"verifharness/core"
	"verifharness/fakecluster"
	"verifharness/fakenet"
	"verifharness/refcodec"
)

// C02 — Reader delivers exactly the partition's records from its position, in order.

func init() {
	core.Register(&core.Prop{
		ID:    "C02",
		Level: "exploration",
		Rule: "one case = one partition log with a generated physical layout (message formats 0/1/2 mixed per batch, every codec, compaction holes at head/middle/tail, compacted batch tails, retained empty batches, v1 wrappers with relative offsets, big records), a Reader configuration (fetch version cap 2/5/10, MinBytes/MaxBytes/MaxWait/QueueCapacity, start position) and a fault script (response cut at byte k, NotLeader with migration, OffsetOutOfRange with/without log-start advance, empty answers, tail truncated at MaxBytes), optionally with SetOffset calls from a second goroutine; " +
			"oracle: the delivered sequence equals the stored records at/after the position, in order, once, with equal fields, and all of them arrive within a budget of (50 + 4*(stored batches) + 8*(faults)) data-bearing fetch requests per positioning; " +
			"signature = (layout classes, fetch version, start kind, fault kinds, setoffset mode); non-trivial = layout has a compressed/compacted/empty unit, or a fault fired, or SetOffset was used",
		Assumptions: []string{
			"the fake broker serves whole stored batches starting with the one containing the requested offset (the first always whole), as Kafka does; with TruncateTail it cuts the last batch at MaxBytes as pre-0.10.1 brokers did",
			"MaxBytes is at least the largest stored batch, so progress is always possible",
			"record key nil and empty are not distinguished on this path (property text)",
		},
		Shards:          16,
		CaseTimeout:     60 * time.Second,
		HangIsViolation: false,
		Run:             runC02,
	})
}

type rFault struct {
	N     int // n-th fetch request (cluster-wide, 1-based)
	Act   string
	CutAt int
	Mode  fakenet.CutMode
}

type rCfg struct {
	Brokers     int
	FetchMax    int
	Layout      layoutCfg
	Start       string // "first" | "last" | "offset"
	StartOffset int64
	MinBytes    int
	MaxBytesPad int
	MaxWait     time.Duration
	Queue       int
	Faults      []rFault
	Truncate    bool
	ChunkMax    int
	SetOffsets  int    // number of SetOffset calls from a second goroutine
	SetMode     string // "between" (between fetches of one goroutine) | "concurrent"
	LogStart    int64  // log start offset (records below are not fetchable)
	Appends     int    // records appended while reading (Start=last needs them)
}

func (c rCfg) desc() map[string]any {
	fs := []string{}
	for _, f := range c.Faults {
		fs = append(fs, fmt.Sprintf("#%d:%s/%d/%s", f.N, f.Act, f.CutAt, f.Mode))
	}
	return map[string]any{"brokers": c.Brokers, "fetch_max": c.FetchMax, "n": c.Layout.N, "max_magic": c.Layout.MaxMagic, "compact": c.Layout.Compact, "empty": c.Layout.Empty,
		"start": c.Start, "start_offset": c.StartOffset, "min_bytes": c.MinBytes, "max_wait": c.MaxWait.String(), "queue": c.Queue, "faults": fs, "truncate_tail": c.Truncate,
		"chunk": c.ChunkMax, "setoffsets": c.SetOffsets, "setmode": c.SetMode, "log_start": c.LogStart, "appends": c.Appends}
}

func genReaderCfg(r *core.Rand) rCfg {
	cfg := rCfg{}
	cfg.Brokers = r.Range(1, 3)
	cfg.FetchMax = core.Pick(r, 2, 5, 10, 11)
	maxMagic := 2
	if cfg.FetchMax < 4 {
		maxMagic = 1
	}
	codecs := []int{0, 0, 1, 2, 3, 4}
	cfg.Layout = layoutCfg{N: r.Range(1, 120), MaxMagic: maxMagic, Compact: r.Chance(2, 3), Empty: r.Chance(1, 2), BigValues: r.Chance(1, 6), BatchMax: core.Pick(r, 1, 3, 8, 40), Codecs: codecs, Headers: true}
	if r.Chance(1, 4) {
		cfg.Layout.StartAt = int64(r.Range(1, 500))
	}
	cfg.LogStart = cfg.Layout.StartAt
	cfg.Start = core.Pick(r, "first", "first", "offset", "offset", "last")
	cfg.MinBytes = core.Pick(r, 1, 1, 10, 1000)
	cfg.MaxBytesPad = core.Pick(r, 0, 1, 100, 1000000)
	cfg.MaxWait = time.Duration(r.Range(5, 30)) * time.Millisecond
	cfg.Queue = core.Pick(r, 1, 2, 10, 100)
	cfg.Truncate = r.Chance(1, 3)
	if r.Chance(1, 4) {
		cfg.ChunkMax = core.Pick(r, 1, 5, 64, 1000)
	}
	nf := core.Pick(r, 0, 0, 1, 2, 4)
	for i := 0; i < nf; i++ {
		f := rFault{N: r.Range(1, 12)}
		switch r.Intn(6) {
		case 0, 1:
			f.Act, f.CutAt, f.Mode = "cut", r.Intn(400), core.Pick(r, fakenet.CutEOF, fakenet.CutReset)
		case 2:
			f.Act = "notleader"
		case 3:
			f.Act = "outofrange"
		case 4:
			f.Act = "empty"
		case 5:
			f.Act = "drop"
		}
		cfg.Faults = append(cfg.Faults, f)
	}
	if cfg.Start == "last" {
		cfg.Appends = r.Range(1, 30)
	} else if r.Chance(1, 5) {
		cfg.Appends = r.Range(1, 20)
	}
	return cfg
}

type rDelivered struct {
	Msg kafka.Message
	Seq int64 // logical time of return
	// Epoch is the positioning epoch (number of SetOffset calls that had returned before the FetchMessage call started)
	Epoch     int
	CallStart int64
}

type rRun struct {
	Cfg     rCfg
	Net     *fakenet.Net
	Cluster *fakecluster.Cluster
	Reader  *kafka.Reader
	Layout  *layout
	Topic   string
}

func recsEqual(m kafka.Message, rec refcodec.Rec, magic0 bool) string {
	if m.Offset != rec.Offset {
		return fmt.Sprintf("offset %d != %d", m.Offset, rec.Offset)
	}
	if !bytes.Equal(m.Key, rec.Key) {
		return fmt.Sprintf("key %q != stored %q", m.Key, rec.Key)
	}
	if !bytes.Equal(m.Value, rec.Value) {
		return fmt.Sprintf("value (len %d) != stored (len %d)", len(m.Value), len(rec.Value))
	}
	if len(m.Headers) != len(rec.Headers) {
		return fmt.Sprintf("%d headers != stored %d", len(m.Headers), len(rec.Headers))
	}
	for i, h := range m.Headers {
		if h.Key != rec.Headers[i].Key || !bytes.Equal(h.Value, rec.Headers[i].Value) {
			return fmt.Sprintf("header %d differs", i)
		}
	}
	if rec.TimestampMs > 0 {
		if got := m.Time.UnixNano() / 1e6; got != rec.TimestampMs {
			return fmt.Sprintf("timestamp %d ms != stored %d ms", got, rec.TimestampMs)
		}
	} else if !m.Time.IsZero() && m.Time.UnixNano()/1e6 != 0 {
		return fmt.Sprintf("timestamp %v for a record stored without one", m.Time)
	}
	return ""
}

func runC02(c *core.Ctx) {
	var tick uint64
	kafka.VerifSetPoints(map[string]func(){
		"reader.FetchMessage.beforeSelect": func() {
			if n := atomic.AddUint64(&tick, 1); n%4 == 0 {
				time.Sleep(time.Duration(20+(n%5)*40) * time.Microsecond)
			}
		},
	})
	c.CasesPar("reader", c.N(12000, 500000), 4, func(k *core.Case) {
		r := k.R
		cfg := genReaderCfg(r)
		if r.Chance(1, 4) {
			cfg.SetOffsets = r.Range(1, 4)
			cfg.SetMode = core.Pick(r, "between", "concurrent")
		}
		k.Describe(cfg.desc())
		c02Run(k, cfg)
	})
}

func c02Run(k *core.Case, cfg rCfg) {
	c := k.Ctx
	r := k.R
	net := fakenet.New()
	net.ChunkMax = cfg.ChunkMax
	cl := fakecluster.New(net)
	cl.TruncateTail = cfg.Truncate
	cl.MaxWaitCap = cfg.MaxWait
	for i := 1; i <= cfg.Brokers; i++ {
		b := cl.AddBroker(int32(i), "")
		v := b.Versions[fakecluster.KFetch]
		v.Max = cfg.FetchMax
		b.Versions[fakecluster.KFetch] = v
	}
	topic := "t0"
	cl.AddTopic(topic, 1, func(int) int32 { return 1 })
	lay := genLayout(r, cfg.Layout)
	lay.install(cl, topic, 0, cfg.LogStart)
	endAtStart := lay.End

	// ground truth, extended by appends
	truth := append([]refcodec.Rec(nil), lay.Records...)
	var truthMu sync.Mutex
	magic0 := map[int64]bool{}
	for _, u := range lay.Units {
		if u.Magic == 0 {
			for o := u.Base; o <= u.Last; o++ {
				magic0[o] = true
			}
		}
	}

	faults := map[int]rFault{}
	for _, f := range cfg.Faults {
		faults[f.N] = f
	}
	var fetchN int32
	var faultsFired int32
	var dataFetches int32 // fetches whose offset is below the log end (the progress budget counts these)
	faultKinds := map[string]bool{}
	var fkMu sync.Mutex
	cl.Script = func(rc *fakecluster.ReqCtx) *fakecluster.Action {
		if rc.Ev.API != fakecluster.KFetch {
			return nil
		}
		n := int(atomic.AddInt32(&fetchN, 1))
		// is this fetch below the log end?
		for _, t := range refcodec.Arr(rc.Body["Topics"]) {
			for _, p := range refcodec.Arr(refcodec.Map(t)["Partitions"]) {
				off := refcodec.Int(refcodec.Map(p)["FetchOffset"])
				if pt := cl.Partition(topic, 0); pt != nil {
					cl.Lock()
					below := off < pt.End
					cl.Unlock()
					if below {
						atomic.AddInt32(&dataFetches, 1)
					}
				}
			}
		}
		f, ok := faults[n]
		if !ok {
			return nil
		}
		atomic.AddInt32(&faultsFired, 1)
		fkMu.Lock()
		faultKinds[f.Act] = true
		fkMu.Unlock()
		switch f.Act {
		case "cut":
			return &fakecluster.Action{Kind: fakecluster.ActCut, CutAt: f.CutAt, CutMode: f.Mode}
		case "notleader":
			if cfg.Brokers > 1 {
				nl := rc.Broker.ID%int32(cfg.Brokers) + 1
				cl.SetLeader(topic, 0, nl)
			}
			return &fakecluster.Action{Kind: fakecluster.ActError, Code: 6}
		case "outofrange":
			return &fakecluster.Action{Kind: fakecluster.ActError, Code: 1}
		case "empty":
			return &fakecluster.Action{Mutate: func(resp map[string]any) {
				for _, t := range refcodec.Arr(resp["Responses"]) {
					for _, p := range refcodec.Arr(refcodec.Map(t)["Partitions"]) {
						refcodec.Map(p)["Records"] = []byte{}
					}
				}
			}}
		case "drop":
			return &fakecluster.Action{Kind: fakecluster.ActDropBefore}
		}
		return nil
	}

	maxBytes := lay.MaxUnit + cfg.MaxBytesPad
	if maxBytes < 1 {
		maxBytes = 1
	}
	minBytes := cfg.MinBytes
	if minBytes > maxBytes {
		minBytes = maxBytes
	}
	dialer := &kafka.Dialer{DialFunc: net.Dialer("reader"), Timeout: 5 * time.Second, ClientID: "verif-reader"}
	rd := kafka.NewReader(kafka.ReaderConfig{
		Brokers: []string{"b1:9092"}, Topic: topic, Partition: 0, Dialer: dialer,
		MinBytes: minBytes, MaxBytes: maxBytes, MaxWait: cfg.MaxWait, ReadBatchTimeout: 5 * time.Second,
		QueueCapacity: cfg.Queue, ReadBackoffMin: time.Millisecond, ReadBackoffMax: 2 * time.Millisecond,
		ReadLagInterval: -1, MaxAttempts: 3,
	})
	// position
	position := cfg.LogStart
	switch cfg.Start {
	case "first":
		// default of a fresh Reader is FirstOffset
	case "last":
		rd.SetOffset(kafka.LastOffset)
		position = endAtStart
	case "offset":
		span := lay.End - cfg.LogStart
		cfg.StartOffset = cfg.LogStart + int64(r.Intn(int(span)+1))
		rd.SetOffset(cfg.StartOffset)
		position = cfg.StartOffset
	}

	// expected sequence from a position
	expectFrom := func(pos int64) []refcodec.Rec {
		truthMu.Lock()
		defer truthMu.Unlock()
		var out []refcodec.Rec
		for _, rec := range truth {
			if rec.Offset >= pos {
				out = append(out, rec)
			}
		}
		return out
	}

	// appends while reading: produced through the reference encoder straight into the log
	appendRecords := func(n int) {
		cl.Lock()
		p := cl.Topics[topic].Partitions[0]
		base := p.End
		var recs []refcodec.Rec
		for i := 0; i < n; i++ {
			o := base + int64(i)
			recs = append(recs, refcodec.Rec{Offset: o, TimestampMs: tsBase + o*3, Key: []byte("ka"), Value: recValue(o, 3)})
		}
		magic := 2
		if cfg.FetchMax < 4 {
			magic = 1
		}
		var enc []byte
		if magic == 2 {
			enc, _ = refcodec.NewBatchV2(recs, base, -1, 0).Encode(refcodec.CompressOpts{})
		} else {
			enc, _ = refcodec.EncodeLegacy(1, 0, recs, refcodec.CompressOpts{})
		}
		p.AppendStored(&fakecluster.Stored{Bytes: enc, BaseOffset: base, LastOffset: base + int64(n) - 1}, recs)
		cl.Unlock()
		truthMu.Lock()
		truth = append(truth, recs...)
		truthMu.Unlock()
	}

	type setCall struct {
		Offset          int64
		SeqCall, SeqRet int64
	}
	var mu sync.Mutex // guards delivered, sets, flags below
	var delivered []rDelivered
	var sets []setCall
	setterDone := cfg.SetOffsets == 0
	var curCancel context.CancelFunc
	stopAll := false

	budget := func() int32 {
		cl.Lock()
		nb := len(cl.Topics[topic].Partitions[0].Layout)
		cl.Unlock()
		// every SetOffset starts a new pass over the log
		return int32((50 + 4*nb + 8*len(cfg.Faults)) * (1 + cfg.SetOffsets))
	}
	// finished: every expected record of the final position has been delivered to a call that started after
	// the last SetOffset returned (or overlapped it), appends included.
	appendsDone := cfg.Appends == 0
	// evalEpoch aligns the deliveries with positioning epoch ep (0 = initial position, e = after the
	// e-th SetOffset). A delivery is strict for epoch e when the first e SetOffset calls had returned
	// before its FetchMessage call started and no further one had been called before it returned;
	// deliveries of calls that overlapped a SetOffset may belong to either side. It returns the strict
	// deliveries and the stored records they have to equal. Caller holds mu.
	evalEpoch := func(ep int) (got []rDelivered, exp []refcodec.Rec, overlaps int) {
		pos := position
		if ep > 0 {
			pos = sets[ep-1].Offset
		}
		exp = expectFrom(pos)
		idx := 0
		started := false
		for _, d := range delivered {
			lo, hi := 0, 0
			for _, s := range sets {
				if s.SeqRet < d.CallStart {
					lo++
				}
				if s.SeqCall < d.Seq {
					hi++
				}
			}
			if lo == ep && hi == ep {
				got = append(got, d)
				started = true
			} else if !started && lo <= ep && ep <= hi && lo != hi {
				overlaps++
				if idx < len(exp) && d.Msg.Offset == exp[idx].Offset {
					idx++
				}
			}
		}
		// an overlapping call may have received the record of the old or of the new position: when they
		// coincide both continuations are legal, so take the alignment that matches the strict deliveries
		if len(got) > 0 {
			for j := idx; j >= 0; j-- {
				if j < len(exp) && exp[j].Offset == got[0].Msg.Offset {
					idx = j
					break
				}
			}
		}
		exp = exp[idx:]
		return
	}
	// epochDone: everything stored at/after the current position has been delivered (appends included)
	epochDone := func() bool {
		mu.Lock()
		defer mu.Unlock()
		if !appendsDone {
			return false
		}
		got, exp, _ := evalEpoch(len(sets))
		return len(got) >= len(exp)
	}
	finished := func() bool {
		mu.Lock()
		sd := setterDone
		mu.Unlock()
		return sd && epochDone()
	}
	doSet := func(np int64) error {
		sc := setCall{Offset: np, SeqCall: core.Tick()}
		err := rd.SetOffset(np)
		sc.SeqRet = core.Tick()
		mu.Lock()
		sets = append(sets, sc)
		mu.Unlock()
		return err
	}
	randPos := func(rr *core.Rand) int64 {
		return cfg.LogStart + int64(rr.Intn(int(lay.End-cfg.LogStart)+1))
	}

	// appends: for Start=last only after the broker has seen a fetch at the old log end
	appendWG := sync.WaitGroup{}
	if cfg.Appends > 0 {
		appendWG.Add(1)
		go func() {
			defer appendWG.Done()
			defer func() { mu.Lock(); appendsDone = true; mu.Unlock() }()
			for i := 0; i < 200000; i++ {
				seen := cfg.Start != "last"
				nfetch := 0
				for _, fo := range cl.FetchOffsets() {
					nfetch++
					if fo == endAtStart {
						seen = true
					}
				}
				mu.Lock()
				moved := len(sets) > 0 // a SetOffset replaced the "last" position before it was resolved
				mu.Unlock()
				if (seen || moved) && (cfg.Start == "last" || nfetch >= 1) {
					appendRecords(cfg.Appends)
					return
				}
				mu.Lock()
				st := stopAll
				mu.Unlock()
				if st {
					return
				}
				time.Sleep(200 * time.Microsecond)
			}
		}()
	}
	// concurrent SetOffset calls from a second goroutine
	setRand := r.Fork()
	setWG := sync.WaitGroup{}
	if cfg.SetOffsets > 0 && cfg.SetMode == "concurrent" {
		setWG.Add(1)
		go func() {
			defer setWG.Done()
			defer func() { mu.Lock(); setterDone = true; mu.Unlock() }()
			for i := 0; i < cfg.SetOffsets; i++ {
				time.Sleep(time.Duration(setRand.Intn(3000)) * time.Microsecond)
				mu.Lock()
				st := stopAll
				mu.Unlock()
				if st {
					return
				}
				if err := doSet(randPos(setRand)); err != nil {
					return
				}
			}
		}()
	}
	// the monitor cancels a blocked FetchMessage once everything expected has been delivered or the budget is gone
	var readerErr error
	outOfBudget := false
	monitorStop := make(chan struct{})
	go func() {
		for {
			select {
			case <-monitorStop:
				return
			case <-k.Cancelled:
			default:
			}
			fin := finished()
			if !fin && cfg.SetMode == "between" && epochDone() {
				// nothing more will arrive at this position: wake the application so that it issues its next SetOffset
				mu.Lock()
				if curCancel != nil {
					curCancel()
				}
				mu.Unlock()
			}
			oob := atomic.LoadInt32(&dataFetches) > budget()
			cancelled := false
			select {
			case <-k.Cancelled:
				cancelled = true
			default:
			}
			if fin || oob || cancelled {
				mu.Lock()
				stopAll = true
				if oob && !fin {
					outOfBudget = true
				}
				if curCancel != nil {
					curCancel()
				}
				mu.Unlock()
				return
			}
			time.Sleep(200 * time.Microsecond)
		}
	}()
	// between-mode SetOffset: after a random number of deliveries in the current epoch
	nextSetAfter := -1
	if cfg.SetOffsets > 0 && cfg.SetMode == "between" {
		nextSetAfter = r.Intn(12)
	}
	sinceSet := 0
	setsDone := 0
	for {
		mu.Lock()
		if stopAll {
			mu.Unlock()
			break
		}
		fctx, fcancel := context.WithTimeout(context.Background(), 20*time.Second)
		curCancel = fcancel
		mu.Unlock()
		if nextSetAfter >= 0 && setsDone < cfg.SetOffsets && (sinceSet >= nextSetAfter || epochDone()) {
			if err := doSet(randPos(r)); err != nil {
				readerErr = err
				fcancel()
				break
			}
			setsDone++
			sinceSet = 0
			nextSetAfter = r.Intn(12)
			if setsDone >= cfg.SetOffsets {
				mu.Lock()
				setterDone = true
				mu.Unlock()
			}
			if finished() {
				fcancel()
				break
			}
		}
		cs := core.Tick()
		m, err := rd.FetchMessage(fctx)
		ret := core.Tick()
		fcancel()
		if err != nil {
			if errors.Is(err, context.Canceled) {
				continue // the monitor decided; loop top sees stopAll
			}
			if errors.Is(err, context.DeadlineExceeded) {
				readerErr = fmt.Errorf("FetchMessage blocked for 20 s without exhausting the fetch budget: %w", err)
			} else {
				readerErr = err
			}
			break
		}
		mu.Lock()
		delivered = append(delivered, rDelivered{Msg: m, Seq: ret, CallStart: cs})
		mu.Unlock()
		sinceSet++
		if nextSetAfter >= 0 && setsDone >= cfg.SetOffsets {
			nextSetAfter = -1
		}
	}
	mu.Lock()
	stopAll = true
	mu.Unlock()
	close(monitorStop)
	setWG.Wait()
	appendWG.Wait()
	rd.Close()
	cl.Close()
	cl.Quiesce(5 * time.Second)
	c.Eval(1)

	// ---- oracle
	positions := []int64{position}
	for _, s := range sets {
		positions = append(positions, s.Offset)
	}
	witness := func() map[string]any {
		var offs []string
		for i, d := range delivered {
			if i > 70 {
				offs = append(offs, "...")
				break
			}
			offs = append(offs, fmt.Sprintf("%d@[%d,%d]", d.Msg.Offset, d.CallStart, d.Seq))
		}
		var fo []string
		for _, o := range cl.FetchOffsets() {
			fo = append(fo, fmt.Sprint(o))
			if len(fo) > 60 {
				break
			}
		}
		var us []string
		for _, u := range lay.Units {
			us = append(us, fmt.Sprintf("m%d/%s[%d..%d]n%d", u.Magic, refcodec.CodecNames[u.Codec], u.Base, u.Last, u.Present))
		}
		var ss []string
		for _, s := range sets {
			ss = append(ss, fmt.Sprintf("SetOffset(%d)@[%d,%d]", s.Offset, s.SeqCall, s.SeqRet))
		}
		return map[string]any{"delivered_offset@[call,return]": strings.Join(offs, " "), "fetch_offsets": strings.Join(fo, " "), "layout": us, "start_position": position, "setoffsets": ss, "log_end": lay.End}
	}
	layoutKey := func(off int64) string {
		for i, u := range lay.Units {
			if off >= u.Base && off <= u.Last {
				cls := fmt.Sprintf("m%d", u.Magic)
				if u.Empty {
					cls += "-empty"
				}
				if u.Tail {
					cls += "-tail"
				}
				if u.Holes {
					cls += "-holes"
				}
				if i == len(lay.Units)-1 {
					cls += "-lastunit"
				}
				return cls
			}
		}
		return "appended"
	}
	overlaps := 0
	suffix := ""
	if len(sets) > 0 {
		suffix = ":setoffset-" + cfg.SetMode
	}
	for ep := range positions {
		got, exp, ov := evalEpoch(ep)
		overlaps += ov
		for i, d := range got {
			if i >= len(exp) {
				k.Viol("c02:extra-record"+suffix, fmt.Sprintf("position %d: record at offset %d delivered after all %d stored records had been delivered", positions[ep], d.Msg.Offset, len(exp)), witness())
				break
			}
			if d.Msg.Offset != exp[i].Offset {
				kind := "c02:order"
				switch {
				case i > 0 && d.Msg.Offset <= got[i-1].Msg.Offset:
					kind = "c02:redelivery"
				case d.Msg.Offset > exp[i].Offset:
					kind = "c02:skipped"
				case i == 0 && ep > 0:
					kind = "c02:setoffset-not-honoured"
				}
				k.Viol(kind+":"+layoutKey(exp[i].Offset)+suffix, fmt.Sprintf("position %d (epoch %d): delivery #%d of this epoch has offset %d, the next stored record is %d", positions[ep], ep, i, d.Msg.Offset, exp[i].Offset), witness())
				break
			}
			if diff := recsEqual(d.Msg, exp[i], magic0[exp[i].Offset]); diff != "" {
				k.Viol("c02:content:"+layoutKey(exp[i].Offset), fmt.Sprintf("record at offset %d: %s", d.Msg.Offset, diff), witness())
				break
			}
			if d.Msg.Topic != topic || d.Msg.Partition != 0 {
				k.Viol("c02:topic-partition", fmt.Sprintf("record reported for %s/%d", d.Msg.Topic, d.Msg.Partition), nil)
				break
			}
		}
		c.Count("records_delivered", int64(len(got)))
		if ep == len(positions)-1 && len(got) < len(exp) && readerErr == nil && !outOfBudget {
			select {
			case <-k.Cancelled:
			default:
				k.Viol("c02:incomplete"+suffix, fmt.Sprintf("position %d: only %d of %d stored records delivered", positions[ep], len(got), len(exp)), witness())
			}
		}
		if ep == len(positions)-1 && outOfBudget && len(got) < len(exp) {
			next := int64(-1)
			if len(got) < len(exp) {
				next = exp[len(got)].Offset
			}
			k.Viol("c02:no-progress:"+layoutKey(next)+suffix, fmt.Sprintf("%d data-bearing fetch requests were served (budget %d) but only %d of %d stored records from position %d were delivered; next missing offset %d", atomic.LoadInt32(&dataFetches), budget(), len(got), len(exp), positions[ep], next), witness())
		}
	}
	c.Count("fetchmessage_calls_overlapping_a_setoffset", int64(overlaps))
	if readerErr != nil && !errors.Is(readerErr, io.EOF) {
		k.Viol("c02:reader-error", fmt.Sprintf("FetchMessage returned %v on a healthy partition", readerErr), witness())
	}

	nontrivial := atomic.LoadInt32(&faultsFired) > 0 || cfg.SetOffsets > 0
	for _, u := range lay.Units {
		if u.Codec != 0 || u.Holes || u.Empty || u.Tail {
			nontrivial = true
		}
	}
	if nontrivial {
		fkMu.Lock()
		var fk []string
		for f := range faultKinds {
			fk = append(fk, f)
		}
		fkMu.Unlock()
		sortStrings(fk)
		c.Distinct(fmt.Sprintf("v%d %s | %s | %s | set%s%d trunc%v", cfg.FetchMax, cfg.Start, strings.Join(lay.classes(), ","), strings.Join(fk, ","), cfg.SetMode, cfg.SetOffsets, cfg.Truncate))
	}
	for _, cls := range lay.classes() {
		c.Count("layout_units:"+cls, 1)
	}
	c.Count("fetch_requests", int64(atomic.LoadInt32(&fetchN)))
	c.Count("faults_fired", int64(atomic.LoadInt32(&faultsFired)))
	if k.Idx < 12 && nontrivial {
		c.Sample(map[string]any{"case": k.ID, "config": cfg.desc(), "observed": witness()})
	}
}
