package props

import (
	"context"
	"errors"
	"fmt"
	"sort"
	"time"

	kafka "github.com/segmentio/kafka-go"

	"verifharness/core"
	"verifharness/fakecluster"
	"verifharness/refcodec"
)

// cmpPartition compares one reported partition with the state. offline is
// "exact" (the metadata version in use carries offline replicas), "empty"
// (it does not) or "skip".
func (e *c19Env) cmpPartition(prefix, where string, exp *c19Part, got kafka.Partition, offline string) {
	s := e.s
	e.k.Count("partitions_compared", 1)
	suffix := func(onlyUnknown bool) string {
		if onlyUnknown {
			return ":unknown-broker-id"
		}
		return ""
	}
	wit := map[string]any{"where": where, "topic": exp.Topic, "partition": exp.ID, "state": map[string]any{"leader": exp.Leader, "replicas": exp.Replicas, "isr": exp.ISR, "offline": exp.Offline, "error": exp.Err},
		"reported": fmt.Sprintf("%+v", got)}
	if l := s.broker(exp.Leader); got.Leader != l {
		e.k.Viol(prefix+":leader"+suffix(!s.known(exp.Leader)), fmt.Sprintf("%s: %s/%d leader reported as %+v, the cluster's leader is %+v", where, exp.Topic, exp.ID, got.Leader, l), wit)
	}
	if eq, unk := c19BrokersEqual(s.brokers(exp.Replicas), got.Replicas); !eq {
		e.k.Viol(prefix+":replicas"+suffix(unk), fmt.Sprintf("%s: %s/%d replicas reported as %+v, the cluster has %+v", where, exp.Topic, exp.ID, got.Replicas, s.brokers(exp.Replicas)), wit)
	}
	if eq, unk := c19BrokersEqual(s.brokers(exp.ISR), got.Isr); !eq {
		e.k.Viol(prefix+":isr"+suffix(unk), fmt.Sprintf("%s: %s/%d ISR reported as %+v, the cluster has %+v", where, exp.Topic, exp.ID, got.Isr, s.brokers(exp.ISR)), wit)
	}
	switch offline {
	case "exact":
		if eq, unk := c19BrokersEqual(s.brokers(exp.Offline), got.OfflineReplicas); !eq {
			e.k.Viol(prefix+":offline-replicas"+suffix(unk), fmt.Sprintf("%s: %s/%d offline replicas reported as %+v, the cluster has %+v", where, exp.Topic, exp.ID, got.OfflineReplicas, s.brokers(exp.Offline)), wit)
		}
	case "empty":
		if len(got.OfflineReplicas) != 0 {
			e.k.Viol(prefix+":offline-replicas:invented", fmt.Sprintf("%s: %s/%d offline replicas %+v reported although the metadata version in use has no such field", where, exp.Topic, exp.ID, got.OfflineReplicas), wit)
		}
	}
	if exp.Err == 0 && got.Error != nil {
		e.k.Viol(prefix+":partition-error:invented", fmt.Sprintf("%s: %s/%d carries error %v, the cluster reports none", where, exp.Topic, exp.ID, got.Error), wit)
	}
	if exp.Err != 0 && !errors.Is(got.Error, kafka.Error(exp.Err)) {
		e.k.Viol(prefix+":partition-error-dropped", fmt.Sprintf("%s: %s/%d has metadata error code %d in the cluster, reported Error=%v", where, exp.Topic, exp.ID, exp.Err, got.Error), wit)
	}
}

// cmpPartitionList checks a list of partitions against the partitions of the given topics.
func (e *c19Env) cmpPartitionList(prefix, where string, topics []string, got []kafka.Partition, offline string) {
	seen := map[string]bool{}
	want := map[string]*c19Part{}
	for _, t := range topics {
		for _, p := range e.s.Topics[t] {
			want[c19Key(t, p.ID)] = p
		}
	}
	for _, g := range got {
		key := c19Key(g.Topic, int32(g.ID))
		exp := want[key]
		if exp == nil {
			e.k.Viol(prefix+":partition-invented", fmt.Sprintf("%s returned partition %s which the cluster does not have among the requested topics %v", where, key, topics), nil)
			continue
		}
		if seen[key] {
			e.k.Viol(prefix+":partition-duplicated", fmt.Sprintf("%s returned partition %s twice", where, key), nil)
			continue
		}
		seen[key] = true
		e.cmpPartition(prefix, where, exp, g, offline)
	}
	var missing []string
	for key := range want {
		if !seen[key] {
			missing = append(missing, key)
		}
	}
	sort.Strings(missing)
	if len(missing) > 0 {
		e.k.Viol(prefix+":partition-missing", fmt.Sprintf("%s did not return partitions %v of the requested topics %v", where, missing, topics), nil)
	}
}

func (e *c19Env) connQueries(r *core.Rand) {
	s := e.s
	var cands []*c19Part
	for _, p := range s.allParts() {
		if s.known(p.Leader) {
			cands = append(cands, p)
		}
	}
	if len(cands) == 0 {
		return
	}
	p := cands[r.Intn(len(cands))]
	boot := fmt.Sprintf("b%d:9092", s.Brokers[r.Intn(len(s.Brokers))].ID)
	dialer := &kafka.Dialer{DialFunc: e.net.Dialer("conn"), ClientID: "c19-conn", Timeout: 10 * time.Second}
	ctx, cancel := context.WithTimeout(context.Background(), 10*time.Second)
	defer cancel()
	cn, err := dialer.DialLeader(ctx, "tcp", boot, p.Topic, int(p.ID))
	if err != nil {
		e.unexpected("c19:conn:dialleader", fmt.Sprintf("DialLeader(%s, %s/%d)", boot, p.Topic, p.ID), err)
		return
	}
	defer cn.Close()
	cn.SetDeadline(time.Now().Add(10 * time.Second))
	one := []*c19Part{p}
	where := fmt.Sprintf("Conn to leader of %s/%d", p.Topic, p.ID)
	if b := cn.Broker(); b.ID != int(p.Leader) {
		e.k.Viol("c19:conn:dialleader:wrong-broker", fmt.Sprintf("DialLeader(%s/%d) connected to broker %d, the leader is %d", p.Topic, p.ID, b.ID, p.Leader), nil)
		return
	}

	// ---- offsets
	if v, err := cn.ReadFirstOffset(); err != nil {
		e.unexpected("c19:conn:readfirstoffset", where+" ReadFirstOffset", err)
	} else if v != p.Start {
		e.k.Viol("c19:conn:readfirstoffset:wrong-offset", fmt.Sprintf("%s: ReadFirstOffset = %d, log start offset is %d", where, v, p.Start), nil)
	}
	e.sig("conn", "ReadFirstOffset", 1, one, "")
	if v, err := cn.ReadLastOffset(); err != nil {
		e.unexpected("c19:conn:readlastoffset", where+" ReadLastOffset", err)
	} else if v != p.End {
		e.k.Viol("c19:conn:readlastoffset:wrong-offset", fmt.Sprintf("%s: ReadLastOffset = %d, log end offset is %d", where, v, p.End), nil)
	}
	e.sig("conn", "ReadLastOffset", 1, one, "")
	if f, l, err := cn.ReadOffsets(); err != nil {
		e.unexpected("c19:conn:readoffsets", where+" ReadOffsets", err)
	} else if f != p.Start || l != p.End {
		e.k.Viol("c19:conn:readoffsets:wrong-offset", fmt.Sprintf("%s: ReadOffsets = (%d, %d), the log is [%d, %d)", where, f, l, p.Start, p.End), nil)
	}
	e.sig("conn", "ReadOffsets", 1, one, "")
	for _, ts := range c19Times(r, p, 3) {
		v, err := cn.ReadOffset(time.UnixMilli(ts))
		exp, _ := p.at(ts)
		if err != nil {
			e.unexpected("c19:conn:readoffset", fmt.Sprintf("%s ReadOffset(%d)", where, ts), err)
		} else if v != exp {
			e.k.Viol("c19:conn:readoffset:wrong-offset", fmt.Sprintf("%s: ReadOffset(%d ms) = %d, the first record with a timestamp >= it is at %d (records %v, log start %d)", where, ts, v, exp, p.Recs, p.Start), nil)
		}
		e.k.Count("partitions_compared", 1)
		e.sig("conn", "ReadOffset", 1, one, "")
	}

	// ---- the log moves (append, log start advance): the same Conn must report the new state
	if r.Chance(1, 2) {
		e.moveLog(r, p)
		if f, l, err := cn.ReadOffsets(); err != nil {
			e.unexpected("c19:conn:readoffsets", where+" ReadOffsets", err)
		} else if f != p.Start || l != p.End {
			e.k.Viol("c19:conn:readoffsets:stale-or-wrong-offset", fmt.Sprintf("%s: after the log moved to [%d, %d) ReadOffsets = (%d, %d)", where, p.Start, p.End, f, l), nil)
		}
		for _, ts := range c19Times(r, p, 2) {
			v, err := cn.ReadOffset(time.UnixMilli(ts))
			exp, _ := p.at(ts)
			if err != nil {
				e.unexpected("c19:conn:readoffset", fmt.Sprintf("%s ReadOffset(%d)", where, ts), err)
			} else if v != exp {
				e.k.Viol("c19:conn:readoffset:wrong-offset", fmt.Sprintf("%s: after the log moved ReadOffset(%d ms) = %d, the first record with a timestamp >= it is at %d (records %v, log start %d)", where, ts, v, exp, p.Recs, p.Start), nil)
			}
		}
		e.sig("conn", "ReadOffsets/after-log-moved", 1, one, "")
	}

	// ---- Seek
	e.seekSequence(r, cn, p, where)

	// ---- metadata through the Conn
	mdVer := func() int { return e.lastVersion(fakecluster.KMetadata, "c19-conn") }
	offMode := func() string {
		if mdVer() >= 6 {
			return "exact"
		}
		return "empty"
	}
	unknown := c19UnknownTopics(r, s)
	{
		got, err := cn.ReadPartitions()
		if err != nil {
			e.unexpected("c19:conn:readpartitions", where+" ReadPartitions()", err)
		} else {
			e.cmpPartitionList("c19:conn:readpartitions", where+" ReadPartitions()", []string{p.Topic}, got, offMode())
		}
		e.sig("conn", "ReadPartitions/own", mdVer(), s.Topics[p.Topic], "")
	}
	{
		// a list of topics, possibly with unknown ones; this Conn has a topic, so unknown other topics are left out
		req, known := c19TopicList(r, s, unknown, p.Topic)
		got, err := cn.ReadPartitions(req...)
		w := fmt.Sprintf("%s ReadPartitions(%v)", where, req)
		if err != nil {
			e.unexpected("c19:conn:readpartitions", w, err)
		} else {
			e.cmpPartitionList("c19:conn:readpartitions", w, known, got, offMode())
		}
		var ps []*c19Part
		for _, t := range known {
			ps = append(ps, s.Topics[t]...)
		}
		inj := ""
		if len(known) != len(req) {
			inj = "unknown-topic"
		}
		e.sig("conn", "ReadPartitions/list", mdVer(), ps, inj)
	}
	e.connClusterQueries(cn, where)
	cn.Close()

	// ---- a Conn without a topic
	b2 := s.Brokers[r.Intn(len(s.Brokers))]
	c2, err := dialer.DialContext(ctx, "tcp", fmt.Sprintf("b%d:9092", b2.ID))
	if err != nil {
		e.unexpected("c19:conn:dial", fmt.Sprintf("Dial(b%d)", b2.ID), err)
		return
	}
	defer c2.Close()
	c2.SetDeadline(time.Now().Add(10 * time.Second))
	where = fmt.Sprintf("Conn to broker %d (no topic)", b2.ID)
	{
		got, err := c2.ReadPartitions()
		if err != nil {
			e.unexpected("c19:conn:readpartitions", where+" ReadPartitions()", err)
		} else {
			e.cmpPartitionList("c19:conn:readpartitions", where+" ReadPartitions()", s.Names, got, offMode())
		}
		e.sig("conn", "ReadPartitions/all", mdVer(), s.allParts(), "")
	}
	{
		req, known := c19TopicList(r, s, unknown, "")
		got, err := c2.ReadPartitions(req...)
		w := fmt.Sprintf("%s ReadPartitions(%v)", where, req)
		switch {
		case err != nil && len(known) != len(req) && errors.Is(err, kafka.UnknownTopicOrPartition):
			// the API has one error for the call: an unknown topic may fail it
		case err != nil:
			e.unexpected("c19:conn:readpartitions", w, err)
		default:
			e.cmpPartitionList("c19:conn:readpartitions", w, known, got, offMode())
		}
		e.sig("conn", "ReadPartitions/list-notopic", mdVer(), nil, "")
	}
	e.connClusterQueries(c2, where)
}

func (e *c19Env) connClusterQueries(cn *kafka.Conn, where string) {
	s := e.s
	bs, err := cn.Brokers()
	if err != nil {
		e.unexpected("c19:conn:brokers", where+" Brokers()", err)
	} else {
		e.cmpBrokerSet("c19:conn:brokers", where+" Brokers()", bs)
	}
	e.sig("conn", "Brokers", 1, nil, "")
	ctl, err := cn.Controller()
	if err != nil {
		e.unexpected("c19:conn:controller", where+" Controller()", err)
	} else if ctl != s.broker(s.Controller) {
		e.k.Viol("c19:conn:controller:wrong-broker", fmt.Sprintf("%s: Controller() = %+v, the cluster's controller is %+v", where, ctl, s.broker(s.Controller)), nil)
	}
	e.sig("conn", "Controller", 1, nil, "")
}

func (e *c19Env) cmpBrokerSet(prefix, where string, got []kafka.Broker) {
	var exp []kafka.Broker
	for _, b := range e.s.Brokers {
		exp = append(exp, e.s.broker(b.ID))
	}
	g := append([]kafka.Broker(nil), got...)
	sort.Slice(g, func(i, j int) bool { return g[i].ID < g[j].ID })
	if eq, _ := c19BrokersEqual(exp, g); !eq {
		e.k.Viol(prefix+":wrong-brokers", fmt.Sprintf("%s = %+v, the cluster's brokers are %+v", where, got, exp), nil)
	}
}

// c19Times picks n timestamps below / inside / above the partition's range, on ties and between records.
func c19Times(r *core.Rand, p *c19Part, n int) []int64 {
	var cands []int64
	if len(p.Recs) == 0 {
		cands = []int64{tsBase - 5, tsBase + 500, tsBase + 5000}
	} else {
		min, max := p.Recs[0].Ts, p.Recs[0].Ts
		for _, rc := range p.Recs {
			if rc.Ts < min {
				min = rc.Ts
			}
			if rc.Ts > max {
				max = rc.Ts
			}
			cands = append(cands, rc.Ts, rc.Ts+1, rc.Ts-1)
		}
		cands = append(cands, min-7, max+7, max, min)
	}
	var out []int64
	for i := 0; i < n; i++ {
		out = append(out, cands[r.Intn(len(cands))])
	}
	return out
}

func c19UnknownTopics(r *core.Rand, s *c19State) []string {
	var out []string
	for _, n := range c19TopicPool {
		if s.Topics[n] == nil {
			out = append(out, n)
		}
	}
	return out
}

// c19TopicList picks 1..4 topic names (known ones, sometimes unknown ones); must, when set, is included.
func c19TopicList(r *core.Rand, s *c19State, unknown []string, must string) (req, known []string) {
	n := r.Range(1, 4)
	seen := map[string]bool{}
	if must != "" && r.Chance(2, 3) {
		req = append(req, must)
		seen[must] = true
	}
	for len(req) < n {
		var t string
		if r.Chance(1, 4) && len(unknown) > 0 {
			t = unknown[r.Intn(len(unknown))]
		} else {
			t = s.Names[r.Intn(len(s.Names))]
		}
		if seen[t] {
			if len(seen) >= len(s.Names) {
				break
			}
			continue
		}
		seen[t] = true
		req = append(req, t)
	}
	if len(req) > 1 && r.Bool() {
		req[0], req[len(req)-1] = req[len(req)-1], req[0]
	}
	for _, t := range req {
		if s.Topics[t] != nil {
			known = append(known, t)
		}
	}
	return
}

var c19WhenceName = map[int]string{kafka.SeekStart: "start", kafka.SeekAbsolute: "absolute", kafka.SeekEnd: "end", kafka.SeekCurrent: "current"}

// seekSequence drives Conn.Seek against a model written from its doc comment:
// SeekStart/SeekEnd are relative to the first/last offset ("when seeking relative
// to the end, the offset is subtracted"), SeekAbsolute is absolute, SeekCurrent is
// relative to the current offset; a target outside [first, last] fails with
// OffsetOutOfRange and leaves the position alone; SeekDontCheck (with SeekAbsolute
// and SeekCurrent) skips the bounds check. The position is observed through Conn.Offset.
func (e *c19Env) seekSequence(r *core.Rand, cn *kafka.Conn, p *c19Part, where string) {
	first, last := p.Start, p.End
	initial := true // the position is "the first offset" until the first successful Seek
	var cur int64
	steps := r.Range(4, 7)
	var trace []string
	for i := 0; i < steps; i++ {
		whence := core.Pick(r, kafka.SeekStart, kafka.SeekAbsolute, kafka.SeekEnd, kafka.SeekCurrent, kafka.SeekCurrent)
		dont := (whence == kafka.SeekAbsolute || whence == kafka.SeekCurrent) && r.Chance(1, 4)
		if initial && whence == kafka.SeekCurrent && (dont || !r.Chance(1, 3)) {
			// relative to the initial position: only the checked form is defined; exercised in a third of the chances
			whence = kafka.SeekAbsolute
		}
		targets := []int64{first - 1, first, first + 1, (first + last) / 2, last - 1, last, last + 1, last + 5}
		target := targets[r.Intn(len(targets))]
		if r.Chance(1, 3) {
			target = last // the boundary that matters most
		}
		if dont && target < 0 {
			target = 0 // negative absolute offsets are the FirstOffset/LastOffset sentinels, not positions
		}
		var off int64
		fromInitial := false
		switch whence {
		case kafka.SeekStart:
			off = target - first
		case kafka.SeekAbsolute:
			off = target
		case kafka.SeekEnd:
			off = last - target
		case kafka.SeekCurrent:
			if initial {
				off = target - first
				fromInitial = true
			} else {
				off = target - cur
			}
		}
		key := "c19:seek:" + c19WhenceName[whence]
		w := whence
		if dont {
			key += ":dontcheck"
			w |= kafka.SeekDontCheck
		}
		if fromInitial {
			key += ":from-initial-position"
		}
		got, err := cn.Seek(off, w)
		trace = append(trace, fmt.Sprintf("Seek(%d,%s%s)=(%d,%v)", off, c19WhenceName[whence], map[bool]string{true: "|dontcheck", false: ""}[dont], got, err))
		inRange := target >= first && target <= last
		unchangedShortcut := whence == kafka.SeekAbsolute && !initial && target == cur
		ok := inRange || dont
		wit := map[string]any{"partition": c19Key(p.Topic, p.ID), "first": first, "last": last, "calls": append([]string(nil), trace...)}
		e.k.Count("partitions_compared", 1)
		e.sig("conn", "Seek/"+c19WhenceName[whence], 1, []*c19Part{p}, "")
		bad := false
		switch {
		case err != nil && c19IsDeadline(err):
			e.unexpected(key, where+" Seek", err)
			return
		case ok && err != nil:
			e.k.Viol(key, fmt.Sprintf("%s: Seek(%d, %s) failed with %v; the target %d is inside [%d, %d]", where, off, c19WhenceName[whence], err, target, first, last), wit)
			bad = true
		case ok && got != target:
			e.k.Viol(key, fmt.Sprintf("%s: Seek(%d, %s) returned %d, expected %d (first %d, last %d, previous position %s)", where, off, c19WhenceName[whence], got, target, first, last, c19Pos(initial, cur)), wit)
			bad = true
		case !ok && err == nil && !(unchangedShortcut && got == target):
			e.k.Viol(key, fmt.Sprintf("%s: Seek(%d, %s) returned (%d, nil); the target %d is outside [%d, %d] and OffsetOutOfRange was expected", where, off, c19WhenceName[whence], got, target, first, last), wit)
			bad = true
		case !ok && err != nil && !errors.Is(err, kafka.OffsetOutOfRange):
			e.k.Viol(key, fmt.Sprintf("%s: Seek(%d, %s) to %d outside [%d, %d] failed with %v, expected OffsetOutOfRange", where, off, c19WhenceName[whence], target, first, last, err), wit)
			bad = true
		}
		if bad {
			return
		}
		if err == nil {
			initial, cur = false, target
		}
		// the position as the Conn reports it
		po, pw := cn.Offset()
		if initial {
			if po != 0 || pw != kafka.SeekStart {
				e.k.Viol(key+":position", fmt.Sprintf("%s: after a failed Seek the position changed from the initial one to (%d, whence %d)", where, po, pw), wit)
				return
			}
		} else if po != cur || pw != kafka.SeekAbsolute {
			e.k.Viol(key+":position", fmt.Sprintf("%s: after %s the Conn reports position (%d, whence %d), expected (%d, absolute)", where, trace[len(trace)-1], po, pw, cur), wit)
			return
		}
	}
	// an invalid whence must be refused and leave the position alone
	if r.Chance(1, 4) {
		if _, err := cn.Seek(0, 4); err == nil {
			e.k.Viol("c19:seek:invalid-whence", where+": Seek(0, 4) succeeded", nil)
		}
	}
}

func c19Pos(initial bool, cur int64) string {
	if initial {
		return "initial (first offset)"
	}
	return fmt.Sprint(cur)
}

// moveLog appends records to a partition and possibly advances its log start, in the state and in the fake cluster.
func (e *c19Env) moveLog(r *core.Rand, p *c19Part) {
	off := p.End
	ts := tsBase + int64(r.Intn(3000))
	if n := len(p.Recs); n > 0 {
		ts = p.Recs[n-1].Ts
	}
	for i := r.Range(1, 3); i > 0; i-- {
		ts += int64(r.Intn(8)) - 2
		p.Recs = append(p.Recs, c19Rec{off, ts})
		off += int64(1 + r.Intn(2))
	}
	p.End = p.Recs[len(p.Recs)-1].Off + 1
	if r.Bool() {
		p.Start = p.Recs[r.Intn(len(p.Recs))].Off
	}
	e.cl.Lock()
	fp := e.cl.Topics[p.Topic].Partitions[p.ID]
	fp.Start, fp.End = p.Start, p.End
	fp.Records = nil
	for _, rc := range p.Recs {
		fp.Records = append(fp.Records, refcodec.Rec{Offset: rc.Off, TimestampMs: rc.Ts, Value: []byte("v")})
	}
	e.cl.Unlock()
}
