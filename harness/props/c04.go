package props

import (
	"bufio"
	"bytes"
	"crypto/sha256"
	"encoding/binary"
	"encoding/hex"
	"fmt"
	"io"
	"math"
	"os"
	"reflect"
	"sort"
	"strings"
	"syscall"
	"time"

	"github.com/segmentio/kafka-go/protocol"

	"verifharness/core"
	"verifharness/refcodec"
)

// C04 — every frame on the wire is the canonical Kafka encoding; decoding
// inverts it.
//
// Monitors (strongest first):
//   gen/a  library encode -> reference strict decode -> compare with the Go value
//   gen/b  reference encode (+ unknown tagged fields, + sentinel frame) -> library decode -> compare, exactly one frame consumed
//   gen/c  decode(encode(v)) == v through the library's own codec
//   wire   kafka.Conn / kafka.Client operations against the fake cluster; every request frame
//          on the wire is split by its size prefix, strictly decoded and re-encoded (c04_wire.go)
//   unsafe the same a/b/c digests from a second binary built with -tags unsafe -d=checkptr (c04_unsafe.go)

func init() {
	core.Register(&core.Prop{
		ID:    "C04",
		Level: "exploration",
		Rule: "gen list: one case = one registered (message type, version) x a block of generated values (shape classes zero/empty/max/min/varint-boundary lengths/nested-3/mixed/long); " +
			"each value is one evaluation of oracles a (library encode vs reference decode), b (reference encode + unknown tags + sentinel frame vs library decode) and c (library inversion); " +
			"signature = (api, req|resp, version, shape class, direction), non-trivial = the value has at least one non-zero field. " +
			"wire list: one case = one scripted sequence of kafka.Conn / kafka.Client operations against a fake cluster with a generated advertised version table; one evaluation per request frame tapped; signature = (api, version, codec=conn|transport). " +
			"unsafe list: one case = the a/b/c digests of a block of values recomputed by a child binary built with -tags 'verif unsafe' -gcflags=all=-d=checkptr and compared byte for byte",
		Assumptions: []string{
			"refcodec/schemas_text.go and schemas_text2.go transcribe the Kafka message definitions (field order, version ranges, nullable ranges, flexible boundaries) faithfully; they share nothing with kafka-go's struct tags",
			"Go fields are matched to protocol-definition fields by name (case-insensitive, plus the reviewed alias table c04Alias) and by position for the rest; kinds must agree",
			"null is equivalent to empty exactly where the definition marks a field nullable; kafka-go's convention 'the zero value of a field it declares nullable is null' is pinned per position (c04NullExempt lists the nullable positions where the pinned library can only express empty)",
			"string lengths stay within what the version's length prefix can represent (<= 32767 for non-flexible strings)",
			"record sets inside Produce/Fetch are compared record by record (key, value, headers, timestamp, offsets on decode); batch framing details belong to C05",
		},
		Shards:      16,
		CaseTimeout: 2 * time.Minute,
		Run:         runC04,
	})
}

type c04Pair struct {
	Msg   *c04Msg
	API   *refcodec.API
	Key   protocol.ApiKey
	Ver   int
	IsReq bool
}

func (p *c04Pair) dir() string {
	if p.IsReq {
		return "req"
	}
	return "resp"
}

func (p *c04Pair) String() string { return fmt.Sprintf("%s:%s:v%d", p.Msg.Name, p.dir(), p.Ver) }

func c04Pairs() []c04Pair {
	var out []c04Pair
	for i := range c04Msgs {
		m := &c04Msgs[i]
		key := m.Req().ApiKey()
		api := refcodec.APIs[int(key)]
		for v := int(key.MinVersion()); v <= int(key.MaxVersion()); v++ {
			out = append(out, c04Pair{m, api, key, v, true})
			if !m.Override {
				out = append(out, c04Pair{m, api, key, v, false})
			}
		}
	}
	return out
}

func c04FrameOK(frame []byte) (string, bool) {
	if len(frame) < 4 {
		return fmt.Sprintf("frame of %d bytes has no size prefix", len(frame)), false
	}
	sz := int(int32(binary.BigEndian.Uint32(frame)))
	if sz != len(frame)-4 {
		return fmt.Sprintf("size prefix says %d but %d bytes follow", sz, len(frame)-4), false
	}
	return "", true
}

type c04Digest struct {
	h   []byte
	tmp []byte
}

func (d *c04Digest) add(tag string, b []byte) {
	s := sha256.New()
	s.Write(d.h)
	s.Write([]byte(tag))
	var n [8]byte
	binary.BigEndian.PutUint64(n[:], uint64(len(b)))
	s.Write(n[:])
	s.Write(b)
	d.h = s.Sum(nil)
}

func (d *c04Digest) hex() string { return hex.EncodeToString(d.h) }

// c04Env is what one evaluation reports through (a real case or the digest
// child, which has no *core.Case).
type c04Env struct {
	viol  func(key, what string, witness any)
	count func(key string, n int64)
	dig   *c04Digest
}

func c04Witness(p *c04Pair, seed uint64, class int, extra map[string]any) map[string]any {
	w := map[string]any{"pair": p.String(), "seed": seed, "class": c04Classes[class]}
	for k, v := range extra {
		w[k] = v
	}
	return w
}

func c04Trunc(b []byte) string {
	if len(b) > 400 {
		return fmt.Sprintf("%x...(%d bytes)", b[:400], len(b))
	}
	return hex.EncodeToString(b)
}

func c04Join(d []string) string {
	if len(d) > 6 {
		d = append(d[:6:6], fmt.Sprintf("... %d more", len(d)-6))
	}
	return strings.Join(d, "; ")
}

// c04LibEncode runs WriteRequest / WriteResponse.
func c04LibEncode(p *c04Pair, m protocol.Message, corr int32, clientID string) ([]byte, error) {
	buf := &bytes.Buffer{}
	var err error
	if p.IsReq {
		err = protocol.WriteRequest(buf, int16(p.Ver), corr, clientID, m)
	} else {
		err = protocol.WriteResponse(buf, int16(p.Ver), corr, m)
	}
	return buf.Bytes(), err
}

type c04Decoded struct {
	Ver      int16
	Corr     int32
	ClientID string
	Msg      protocol.Message
	Err      error
	Left     []byte
}

// c04LibDecode runs ReadRequest / ReadResponse over stream (frame followed by
// the sentinel) and returns what is left on the reader afterwards.
func c04LibDecode(p *c04Pair, stream []byte, buffered bool) c04Decoded {
	var rd io.Reader
	br := bytes.NewReader(stream)
	rd = br
	var bw *bufio.Reader
	if buffered {
		bw = bufio.NewReaderSize(br, 64)
		rd = bw
	}
	var d c04Decoded
	if p.IsReq {
		d.Ver, d.Corr, d.ClientID, d.Msg, d.Err = protocol.ReadRequest(rd)
	} else {
		d.Ver = int16(p.Ver)
		d.Corr, d.Msg, d.Err = protocol.ReadResponse(rd, p.Key, int16(p.Ver))
	}
	if bw != nil {
		d.Left, _ = io.ReadAll(bw)
	} else {
		d.Left, _ = io.ReadAll(br)
	}
	return d
}

var c04Sentinel = []byte{0, 0, 0, 8, 0x5e, 0x17, 0x1e, 0x70, 0xca, 0xfe, 0xf0, 0x0d}

// c04Eval runs oracles a, b, c for one generated value.
func c04Eval(env *c04Env, p *c04Pair, seed uint64, class int) (nontrivial bool) {
	r := core.NewRand(seed)
	goSeed, refSeed := r.Uint64(), r.Uint64()
	corr := int32(r.Uint64())
	clientID := core.Pick(r, "", "verif", "c-"+strings.Repeat("i", r.Intn(130)))
	name, dir := p.Msg.Name, p.dir()
	var fields []*refcodec.Field
	if p.API != nil {
		fields = p.API.Resp
		if p.IsReq {
			fields = p.API.Req
		}
	}
	mk := p.Msg.Resp
	if p.IsReq {
		mk = p.Msg.Req
	}

	// ---- a: library encode -> reference decode
	m1, nz := c04GenGo(mk, goSeed, class, p.Ver)
	nontrivial = nz
	frame, err := c04LibEncode(p, m1, corr, clientID)
	if err != nil {
		env.viol(fmt.Sprintf("c04:encode-mismatch:%s:%s:v%d", name, dir, p.Ver), "the library refuses to encode a generated value: "+err.Error(), c04Witness(p, seed, class, nil))
		return
	}
	env.dig.add("a", frame)
	if what, ok := c04FrameOK(frame); !ok {
		env.viol("c04:frame-size:"+name, fmt.Sprintf("%s %s v%d: %s", name, dir, p.Ver, what), c04Witness(p, seed, class, map[string]any{"frame": c04Trunc(frame)}))
		return
	}
	if p.API != nil {
		env.count("a", 1)
		var wire map[string]any
		var derr error
		var body []byte
		if p.IsReq {
			hdr, herr := refcodec.ParseRequestHeader(frame[4:])
			wantOff := 2 + 2 + 4 + 2 + len(clientID)
			if p.API.Flexible(p.Ver) {
				wantOff++
			}
			got := ""
			if hdr.ClientID != nil {
				got = *hdr.ClientID
			}
			switch {
			case herr != nil:
				derr = fmt.Errorf("request header: %v", herr)
			case hdr.Key != int(p.Key) || hdr.Version != p.Ver || hdr.CorrelationID != corr || got != clientID || hdr.BodyOff != wantOff:
				env.viol("c04:header:"+name, fmt.Sprintf("%s v%d request header: api key %d version %d correlation id %d client id %q header length %d; want %d %d %d %q %d (flexible=%v)",
					name, p.Ver, hdr.Key, hdr.Version, hdr.CorrelationID, got, hdr.BodyOff, int(p.Key), p.Ver, corr, clientID, wantOff, p.API.Flexible(p.Ver)),
					c04Witness(p, seed, class, map[string]any{"frame": c04Trunc(frame)}))
				return
			default:
				body = frame[4+hdr.BodyOff:]
				wire, derr = refcodec.DecodeBody(p.API, p.Ver, true, body)
			}
		} else {
			var gotCorr int32
			hl := 8
			if p.API.ResponseHeaderFlexible(p.Ver) {
				hl = 9
			}
			gotCorr, wire, derr = refcodec.DecodeResponseFrame(p.API, p.Ver, frame)
			if derr == nil && (gotCorr != corr || (hl == 9 && frame[8] != 0)) {
				env.viol("c04:header:"+name, fmt.Sprintf("%s v%d response header: correlation id %d want %d, tag section byte %x", name, p.Ver, gotCorr, corr, frame[8]),
					c04Witness(p, seed, class, map[string]any{"frame": c04Trunc(frame)}))
				return
			}
			if len(frame) >= hl {
				body = frame[hl:]
			}
		}
		key := fmt.Sprintf("c04:encode-mismatch:%s:%s:v%d", name, dir, p.Ver)
		if derr != nil {
			switch {
			case strings.Contains(derr.Error(), "non-nullable"):
				key += ":unexpected-null"
				if m := strings.SplitN(strings.TrimPrefix(derr.Error(), "refcodec: "), ": ", 2); len(m) == 2 {
					key += ":" + c04SchemaPath(m[0])
				}
			case strings.Contains(derr.Error(), "trailing bytes"):
				key += ":trailing-bytes"
			default:
				key += ":undecodable"
			}
			env.viol(key, fmt.Sprintf("%s %s v%d as encoded by the library is rejected by the strict reference decoder: %v", name, dir, p.Ver, derr),
				c04Witness(p, seed, class, map[string]any{"frame": c04Trunc(frame), "decoded_so_far": c04Canon(wire)}))
		} else {
			m2, _ := c04GenGo(mk, goSeed, class, p.Ver)
			var probs []string
			want := c04GoToRef(reflect.ValueOf(m2).Elem(), fields, p.Ver, "", &probs)
			cmp := &c04Cmp{api: name, isReq: p.IsReq, ver: p.Ver, encode: true}
			cmp.fields(fields, want, wire, "")
			if c04HasTags(wire) {
				cmp.diff("the library wrote tagged fields although it declares none")
			}
			if re, rerr := refcodec.EncodeBody(p.API, p.Ver, p.IsReq, wire); rerr != nil {
				cmp.diff("reference re-encode failed: %v", rerr)
			} else if !bytes.Equal(re.B, body) {
				cmp.diff("body is not in canonical form: reference re-encoding of the decoded values gives %d bytes, the library wrote %d", len(re.B), len(body))
			}
			switch {
			case len(probs) > 0:
				key += ":shape"
			case cmp.nullc == len(cmp.diffs):
				key += ":null-convention"
			default:
				key += ":values"
			}
			if len(probs) > 0 || len(cmp.diffs) > 0 {
				env.viol(key, fmt.Sprintf("%s %s v%d: library encoding disagrees with the protocol definition: %s", name, dir, p.Ver, c04Join(append(probs, cmp.diffs...))),
					c04Witness(p, seed, class, map[string]any{"frame": c04Trunc(frame), "go_value": c04Canon(want), "reference_decoded": c04Canon(wire)}))
			}
		}
	}

	// ---- c: inversion through the library's own codec
	env.count("c", 1)
	{
		buffered := r.Bool()
		d := c04LibDecode(p, append(append([]byte{}, frame...), c04Sentinel...), buffered)
		ikey := fmt.Sprintf("c04:inversion:%s:%s", name, dir)
		switch {
		case d.Err != nil:
			env.viol(ikey, fmt.Sprintf("%s %s v%d: the library cannot decode its own encoding: %v", name, dir, p.Ver, d.Err), c04Witness(p, seed, class, map[string]any{"frame": c04Trunc(frame)}))
		case !bytes.Equal(d.Left, c04Sentinel):
			env.viol("c04:not-one-frame:"+name, fmt.Sprintf("%s %s v%d: after decoding the library's own frame %d bytes are left on the reader, want the %d sentinel bytes (buffered=%v)", name, dir, p.Ver, len(d.Left), len(c04Sentinel), buffered),
				c04Witness(p, seed, class, map[string]any{"frame": c04Trunc(frame)}))
		default:
			m3, _ := c04GenGo(mk, goSeed, class, p.Ver)
			var diffs []string
			if d.Corr != corr || int(d.Ver) != p.Ver || (p.IsReq && d.ClientID != clientID) {
				diffs = append(diffs, fmt.Sprintf("header: version %d correlation id %d client id %q, want %d %d %q", d.Ver, d.Corr, d.ClientID, p.Ver, corr, clientID))
			}
			c04CmpGo(reflect.ValueOf(m3).Elem(), reflect.ValueOf(d.Msg).Elem(), p.Ver, "", &diffs)
			env.dig.add("c", []byte(c04CanonGo(reflect.ValueOf(d.Msg).Elem(), p.Ver)))
			if len(diffs) > 0 {
				env.viol(ikey, fmt.Sprintf("%s %s v%d: decode(encode(v)) != v: %s", name, dir, p.Ver, c04Join(diffs)), c04Witness(p, seed, class, map[string]any{"frame": c04Trunc(frame)}))
			}
		}
	}

	// ---- b: reference encode -> library decode
	if p.API != nil && !p.Msg.Override {
		env.count("b", 1)
		rclass := class
		val, nz2 := c04GenRef(p.API, p.IsReq, p.Ver, refSeed, rclass)
		nontrivial = nontrivial || nz2
		body, eerr := refcodec.EncodeBody(p.API, p.Ver, p.IsReq, val)
		if eerr != nil {
			panic(fmt.Sprintf("c04: reference encoder failed for %s: %v", p, eerr))
		}
		w := &refcodec.W{}
		w.I32(0)
		var cid *string
		if p.IsReq {
			w.I16(int64(p.Key))
			w.I16(int64(p.Ver))
			w.I32(int64(corr))
			if clientID == "" && r.Bool() {
				w.I16(-1)
			} else {
				c := clientID
				cid = &c
				w.I16(int64(len(c)))
				w.B = append(w.B, c...)
			}
		} else {
			w.I32(int64(corr))
		}
		hdrFlex := p.API.Flexible(p.Ver)
		if !p.IsReq {
			hdrFlex = p.API.ResponseHeaderFlexible(p.Ver)
		}
		if hdrFlex {
			// header tag section: usually empty, sometimes unknown tags
			if class >= 2 && r.Chance(1, 3) {
				w.Uvarint(2)
				w.Uvarint(3)
				w.Uvarint(2)
				w.B = append(w.B, 0xaa, 0xbb)
				w.Uvarint(200)
				w.Uvarint(0)
			} else {
				w.Uvarint(0)
			}
		}
		w.B = append(w.B, body.B...)
		binary.BigEndian.PutUint32(w.B, uint32(len(w.B)-4))
		rframe := w.B
		buffered := r.Bool()
		d := c04LibDecode(p, append(append([]byte{}, rframe...), c04Sentinel...), buffered)
		dkey := fmt.Sprintf("c04:decode-mismatch:%s:%s", name, dir)
		wit := func() map[string]any {
			return c04Witness(p, seed, class, map[string]any{"frame": c04Trunc(rframe), "reference_value": c04Canon(val), "version": p.Ver})
		}
		switch {
		case d.Err != nil:
			env.viol(dkey, fmt.Sprintf("%s %s v%d: the library rejects a well-formed frame: %v", name, dir, p.Ver, d.Err), wit())
		case !bytes.Equal(d.Left, c04Sentinel):
			env.viol("c04:not-one-frame:"+name, fmt.Sprintf("%s %s v%d: after decoding one well-formed frame %d bytes are left on the reader, want exactly the %d sentinel bytes (buffered=%v)", name, dir, p.Ver, len(d.Left), len(c04Sentinel), buffered), wit())
		default:
			var probs []string
			got := c04GoToRef(reflect.ValueOf(d.Msg).Elem(), fields, p.Ver, "", &probs)
			env.dig.add("b", []byte(c04Canon(got)))
			cmp := &c04Cmp{api: name, isReq: p.IsReq, ver: p.Ver, encode: false}
			cmp.fields(fields, got, val, "")
			wantCID := ""
			if cid != nil {
				wantCID = *cid
			}
			if d.Corr != corr || int(d.Ver) != p.Ver || (p.IsReq && d.ClientID != wantCID) {
				cmp.diff("header: version %d correlation id %d client id %q, want %d %d %q", d.Ver, d.Corr, d.ClientID, p.Ver, corr, wantCID)
			}
			if len(probs) > 0 || len(cmp.diffs) > 0 {
				w := wit()
				w["library_decoded"] = c04Canon(got)
				env.viol(dkey, fmt.Sprintf("%s %s v%d: a frame encoded per the protocol definition decodes to other field values: %s", name, dir, p.Ver, c04Join(append(probs, cmp.diffs...))), w)
			}
		}
	}
	return
}

func c04HasTags(v any) bool {
	switch x := v.(type) {
	case map[string]any:
		if t, ok := x["_tags"].(map[int][]byte); ok && len(t) > 0 {
			return true
		}
		for _, e := range x {
			if c04HasTags(e) {
				return true
			}
		}
	case []any:
		for _, e := range x {
			if c04HasTags(e) {
				return true
			}
		}
	}
	return false
}

// c04CmpGo compares, field by field for the fields the library declares for
// version ver, the value handed to the encoder (a) with the decoded one (b).
// A nil slice may come back empty (non-nullable position) but an empty
// non-nil slice must not come back nil, and lengths and elements must agree.
func c04CmpGo(a, b reflect.Value, ver int, path string, diffs *[]string) {
	if len(*diffs) > 12 {
		return
	}
	t := a.Type()
	switch t {
	case c04RecordSetT:
		ra := a.Interface().(protocol.RecordSet)
		rb := b.Interface().(protocol.RecordSet)
		wa, ea := c04DrainRecords(ra.Records)
		wb, eb := c04DrainRecords(rb.Records)
		*diffs = append(*diffs, c04CmpRecs(c04Recs{Recs: wa, Err: ea}, c04Recs{Recs: wb, Err: eb}, false, path)...)
		return
	case c04RawRecordsT:
		return // an override request decodes as the plain type; compared through oracle a
	}
	if b.Type() != t {
		// RawProduce decodes as produce.Request: oracle a covers the content
		return
	}
	switch t.Kind() {
	case reflect.Struct:
		for _, f := range c04FieldsOf(t) {
			if ok, _ := f.in(ver); ok {
				c04CmpGo(a.FieldByIndex(f.Idx), b.FieldByIndex(f.Idx), ver, path+"."+f.Name, diffs)
			} else if !b.FieldByIndex(f.Idx).IsZero() {
				*diffs = append(*diffs, fmt.Sprintf("%s.%s: field outside v%d decoded to a non-zero value", path, f.Name, ver))
			}
		}
	case reflect.Slice:
		if t.Elem().Kind() == reflect.Uint8 {
			if !bytes.Equal(a.Bytes(), b.Bytes()) {
				*diffs = append(*diffs, fmt.Sprintf("%s: %s != %s", path, c04Hex(a.Bytes()), c04Hex(b.Bytes())))
			} else if !a.IsNil() && b.IsNil() {
				*diffs = append(*diffs, fmt.Sprintf("%s: empty non-nil []byte decoded to nil", path))
			}
			return
		}
		if a.Len() != b.Len() {
			*diffs = append(*diffs, fmt.Sprintf("%s: length %d != %d", path, a.Len(), b.Len()))
			return
		}
		if !a.IsNil() && b.IsNil() {
			*diffs = append(*diffs, fmt.Sprintf("%s: empty non-nil slice decoded to nil", path))
		}
		for i := 0; i < a.Len(); i++ {
			c04CmpGo(a.Index(i), b.Index(i), ver, fmt.Sprintf("%s[%d]", path, i), diffs)
		}
	case reflect.Float64:
		if math.Float64bits(a.Float()) != math.Float64bits(b.Float()) {
			*diffs = append(*diffs, fmt.Sprintf("%s: %v != %v", path, a.Float(), b.Float()))
		}
	default:
		if a.Interface() != b.Interface() {
			*diffs = append(*diffs, fmt.Sprintf("%s: %v != %v", path, c04Short(fmt.Sprint(a.Interface())), c04Short(fmt.Sprint(b.Interface()))))
		}
	}
}

// c04CanonGo renders a decoded Go message deterministically (for digests).
func c04CanonGo(v reflect.Value, ver int) string {
	var b strings.Builder
	var walk func(v reflect.Value)
	walk = func(v reflect.Value) {
		t := v.Type()
		switch t {
		case c04RecordSetT:
			rs := v.Interface().(protocol.RecordSet)
			recs, e := c04DrainRecords(rs.Records)
			fmt.Fprintf(&b, "%s", c04Canon(c04Recs{Recs: recs, Err: e}))
			return
		case c04RawRecordsT:
			b.WriteString("raw")
			return
		}
		switch t.Kind() {
		case reflect.Struct:
			b.WriteString("{")
			for _, f := range c04FieldsOf(t) {
				b.WriteString(f.Name + ":")
				walk(v.FieldByIndex(f.Idx))
				b.WriteString(" ")
			}
			b.WriteString("}")
		case reflect.Slice:
			if v.IsNil() {
				b.WriteString("nil")
				return
			}
			if t.Elem().Kind() == reflect.Uint8 {
				b.WriteString(c04Hex(v.Bytes()))
				return
			}
			b.WriteString("[")
			for i := 0; i < v.Len(); i++ {
				walk(v.Index(i))
				b.WriteString(" ")
			}
			b.WriteString("]")
		case reflect.String:
			b.WriteString(fmt.Sprintf("%q", c04Short(v.String())))
		case reflect.Float64:
			fmt.Fprintf(&b, "%x", v.Float())
		default:
			fmt.Fprintf(&b, "%v", v.Interface())
		}
	}
	walk(v)
	return b.String()
}

// c04Blocks returns (blocks per pair, values per block) for the tier.
func c04Blocks(c *core.Ctx) (int, int) {
	if c.Quick() {
		return 1, 40
	}
	return 20, 100
}

func c04ValueSeed(c *core.Ctx, pairIdx, block, i int) (uint64, int) {
	s := core.Mix(core.HashString("C04/gen"), c.Seed, uint64(pairIdx), uint64(block), uint64(i))
	class := i % len(c04Classes)
	if i >= 2*len(c04Classes) {
		class = 6 + int(s%2) // mixed
	}
	return s, class
}

// c04LimitMemory caps the address space of this shard (and of the children it
// starts): a decoder that is handed bytes it misreads (mutated library) asks
// for slices of many GB; with the cap that is a prompt fatal error (reported
// by the driver as a crash in library code) instead of minutes of paging on a
// shared machine. The unchanged library stays far below the cap.
func c04LimitMemory() {
	const limit = 12 << 30
	var cur syscall.Rlimit
	if syscall.Getrlimit(syscall.RLIMIT_AS, &cur) == nil && cur.Cur > limit {
		lim := syscall.Rlimit{Cur: limit, Max: cur.Max}
		syscall.Setrlimit(syscall.RLIMIT_AS, &lim)
	}
}

func runC04(c *core.Ctx) {
	c04LimitMemory()
	if what := os.Getenv("C04_DUMP"); what != "" {
		if c.Shard == 0 {
			c04Dump(what)
		}
		return
	}
	if out := os.Getenv("C04_DIGEST_OUT"); out != "" {
		c04DigestChild(c, out)
		return
	}
	pairs := c04Pairs()
	blocks, per := c04Blocks(c)
	noSchema := map[string]bool{}
	for i := range pairs {
		if pairs[i].API == nil {
			noSchema[pairs[i].Msg.Name] = true
		}
	}
	if c.Shard == 0 {
		var ns []string
		for n := range noSchema {
			ns = append(ns, n)
		}
		sort.Strings(ns)
		c.Count("pairs_total", int64(len(pairs)))
		c.Count("apis_inversion_only", int64(len(ns)))
		c.Sample(map[string]any{"type_version_pairs": len(pairs), "apis_covered_by_inversion_only": ns})
	}
	c.Cases("gen", len(pairs)*blocks, func(k *core.Case) {
		pi, block := k.Idx%len(pairs), k.Idx/len(pairs)
		p := &pairs[pi]
		k.Describe(map[string]any{"pair": p.String(), "block": block, "values": per})
		// evidence: (type, version) pairs per oracle and api (counted once, in block 0), values per oracle
		env := &c04Env{viol: k.Viol, dig: &c04Digest{}, count: func(o string, n int64) {
			k.Count("values_oracle_"+o, n)
		}}
		covered := map[string]bool{}
		envCount := env.count
		env.count = func(o string, n int64) {
			envCount(o, n)
			if block == 0 && !covered[o] {
				covered[o] = true
				k.Count(fmt.Sprintf("pairs_oracle_%s:%s", o, p.Msg.Name), 1)
			}
		}
		for i := 0; i < per; i++ {
			seed, class := c04ValueSeed(k.Ctx, pi, block, i)
			nz := c04Eval(env, p, seed, class)
			k.Eval(1)
			if nz {
				for _, d := range []string{"a", "b", "c"} {
					k.Distinct(fmt.Sprintf("%s|%s|%d|%s|%s", p.Msg.Name, p.dir(), p.Ver, c04Classes[class], d))
				}
			}
		}
		if block == 0 {
			k.Count("pairs_covered", 1)
		}
		if pi == 7 && block == 0 {
			k.Sample(map[string]any{"pair": p.String(), "values": per, "digest": env.dig.hex()})
		}
	})
	runC04Wire(c)
	runC04Unsafe(c, pairs)
}
