#!/usr/bin/env python3
"""Regenerates MANIFEST.json from the table below (claimed checks) and
properties.jsonl (everything else goes under not_applicable with a reason)."""
import json, subprocess

BASELINE_OFF = json.load(open('/root/.vp/BASELINE.json'))['cmd']

# id -> (level, technique, level text, level_note, design_ref)
CLAIMED = {
 "C12": ("exploration",
         "runtime monitor over the fake brokers' request journal and the wire tap: every request a Transport emits is matched to the metadata responses the pool had been served before the request's first byte (logical clock), and its receiver (dialled address) and version are checked against what those responses and the receiver's advertised version table designate",
         "Scenarios with 1-5 brokers, random per-broker version tables (full, old, mixed, raised minimums, absent APIs), topics/partitions/leaders/coordinators/controller, and histories of leader moves, broker additions, removals and re-addressing, controller moves and topic creations interleaved (also concurrently) with requests of every routed kind: produce/fetch/list-offsets (split per leader), group and transaction APIs (coordinator lookup by key type), topic administration (controller), ListGroups fan-out, metadata (cache probes compared with the last served response restricted to the filter). Version = highest mutually supported, never outside the advertised range when ranges overlap; after a move requests must follow within one TTL + round trip (window verdicts only reported if a second run draws the same key).",
         "trusted: the wire tap's logical timestamps; a served metadata response whose round trip took > 5 ms may have been dropped by the pool and is treated as 'possibly applied'; no designated broker (unknown topic, leader not in the broker list, metadata v0 controller) = anything goes, counted",
         "DESIGN.md section 5 C12"),
 "C13": ("exploration",
         "runtime oracle: independent reference hashes/partitioners + sequential-law monitor + porcupine linearizability check of recorded concurrent Balance histories",
         "Every built-in balancer is executed on generated keys (all lengths 0..67, nil/empty, high-bit, long) x 33 partition counts and compared with independently written FNV-1a/CRC-32/murmur2 + Sarama/librdkafka/Java partitioner formulas; Hash and ReferenceHash are also driven through a constant-sum Hasher over boundary (0, 2^31-1, 2^31, 2^32-1 ...) and random 32-bit codes; RoundRobin/LeastBytes are checked call by call against their sequential law, every balancer value is also offered partition lists whose length changes from call to call (several topics behind one Writer, growing partition counts: the answer must be in the list offered now) and, under concurrency, by porcupine on recorded call/return histories. Held on the executions listed in the evidence; not a proof over all keys.",
         "trusted: harness transcriptions of the reference clients' formulas; porcupine v1.3.0; partition lists are contiguous 0..n-1 as a Writer supplies them",
         "DESIGN.md section 5 C13"),
 "C01": ("exploration",
         "runtime monitor: offline oracle (R1-R5) over the fake brokers' journal, the byte-level wire tap and the recorded WriteMessages/Completion/Balancer history of a real kafka.Writer under seeded fault scripts",
         "Thousands of seeded Writer scenarios (1-4 brokers, produce v2-v8, every codec, sync/async, 1-8 concurrent callers, lost acks, cuts at byte k, temporary/permanent codes, leader moves, slow responses; a second list with calls that BatchBytes splits over several batches whose produce requests end differently) are executed against an in-memory cluster; afterwards every nil/WriteErrors entry and every Completion is matched against acknowledged attempts (applied + answered OK + response delivered in full), every stored record against the recorded balancer choice, every duplicate against a lost acknowledgement. Held on the executions run; interleavings are sampled, not enumerated.",
         "trusted: fakenet's delivery accounting, the fake broker's atomic append, refcodec's strict record decoder; scenarios in which the client itself reported a deadline error are only judged for the clauses that do not depend on who won the race with the deadline",
         "DESIGN.md section 5 C01"),
 "C07": ("exploration",
         "runtime monitor: per-partition log order vs per-goroutine submission sequence numbers embedded in message values, across retried batches; timer/size flush race and the hand-over of closed batches to the partition queue widened by two verif hooks",
         "Writer scenarios biased to many small batches per partition, Async, failures of batch k while k+1 is queued, batch timer racing the size flush (hooks writer.awaitBatch.timer and writer.batchQueue.Put); the oracle checks order inside every produce request and that every applied copy of an earlier batch precedes every copy of a later one.",
         "trusted: fake broker applies requests in arrival order; runs with client-side deadline errors are not judged",
         "DESIGN.md section 5 C07"),
 "C08": ("exploration",
         "runtime monitor: every produce request measured against BatchSize/BatchBytes in the library's own measure and in raw bytes; up-front rejection oracle; flush-without-further-input bounded-progress monitor",
         "Sizes are placed at BatchBytes-1/=/+1 in the library's own measure (exported under the verif tag), rejects (oversized, topic mix) must return an error with nothing sent, and in the flush list an open Writer must send every accepted message without further writes or Close (size trigger with a 10-minute timer, timer trigger, quiescence after retried batches).",
         "trusted: Message.totalSize as exported by the verif hook; the flush bound is 10 s of wall clock against timeouts <= 50 ms and is only reported after a confirmation re-run on an idle process",
         "DESIGN.md section 5 C08"),
 "C14": ("exploration",
         "runtime oracle over AssignGroups outputs: coverage/exactly-once, per-topic balance, closed-form Range/RoundRobin formulas, order independence, rack-locality bound; exhaustive small scope + random large inputs, repeated for Go map orders",
         "All inputs with one topic, members<=4, partitions<=7, 3 racks in every placement and two-topic subscription patterns are enumerated completely for the three balancers, plus 20k (quick) / 1M (thorough) random large groups; every input is evaluated 8/32 times under member-order permutations to exercise map iteration order.",
         "trusted: the oracle formulas written from the property statement; partition ids are treated as opaque listed values",
         "DESIGN.md section 5 C14"),
 "C16": ("exploration",
         "runtime differential oracle: library codecs vs reference decoders/encoders (stdlib gzip, golang/snappy + eapache xerial, pierrec/lz4 v2, klauspost zstd) over payload x chunking x read-size x pooled-object history prefixes, plus 32-goroutine use",
         "Every codec variant (31) is driven over boundary payload sizes, write chunkings and read plans, with the pooled readers/writers first dragged through random histories (complete, abandoned, truncated, corrupted streams, failing sinks, closed once or twice); two writers and two readers of one codec value open at once on one goroutine must not share state; 32 goroutines use one codec value at once (a quarter of those cases with small payloads, hundreds of rounds and 16 Ps); outputs must round-trip, be readable by the reference decoder and reference-encoded streams must be read back exactly.",
         "trusted: the reference libraries (zstd shares klauspost with the library: stated); pool reuse is observed by pointer identity, not forced",
         "DESIGN.md section 5 C16"),
 "C02": ("exploration",
         "runtime monitor: delivered sequence vs ground-truth partition log over generated physical layouts and fault scripts; logical bounded-progress budget counted in fetch requests at the fake broker; SetOffset call/return history aligned with deliveries",
         "A real Reader reads partition logs whose physical layout is generated by the independent reference codec (formats 0/1/2 mixed, all codecs, compaction holes, compacted tails, retained empty batches, relative-offset wrappers, truncated tails) through fetch v2/v5/v10/v11 under cuts, NotLeader with migration, OffsetOutOfRange, empty answers, drops, and SetOffset calls issued between or concurrently with FetchMessage; the delivered sequence must equal the stored records from the position, and must be complete within a fetch-count budget.",
         "trusted: refcodec encoders for the layouts, the fake broker's serving rule (whole batches from the one containing the offset; optional tail truncation); deliveries to calls overlapping a SetOffset may belong to either position",
         "DESIGN.md section 5 C02"),
 "C03": ("exploration",
         "runtime monitor: offline oracle G1-G5 over the fake coordinator's commit / offset-fetch / membership history, the brokers' fetch journal and the applications' delivery and CommitMessages history (all on one logical clock)",
         "Consumer-group histories with 1-4 real group Readers against a coordinator state machine (join/sync barriers, heartbeat answers, generation-checked commits, session and rebalance timers), with late joins, Close, crashes (network killed + eviction), forced rebalances, coordinator moves, error codes and dropped connections on every group API, lost commit responses and appends; checked: no over-commit, nil sync commit => recorded, resume exactly at the committed offset (broker side and application side, no gaps), every record below an acknowledged commit was delivered before it, and after the script every record is delivered within a request budget.",
         "trusted: the fake coordinator's state machine and timers; reader<->member identity through unique client ids; duplicates (backward restarts) are permitted by the statement and only counted",
         "DESIGN.md section 5 C03"),
 "C15": ("exploration",
         "runtime monitor: timeline of Next / Start / function begin / cancellation / end recorded at the API boundary, checked against the fake coordinator's journal of JoinGroup / SyncGroup / Heartbeat / LeaveGroup (one logical clock, client write stamps from the wire tap)",
         "A real kafka.ConsumerGroup runs application loops with functions that return at once, on cancellation, late after cancellation or after k ms, under coordinator error codes and dropped connections on every group API, forced rebalances, evictions, topic growth under the partition watcher, slow applications (Start on an already ended generation) and Close at random points; a second list closes the group while a formed generation is fetched, not yet fetched or being fetched, with 3 s / 4 s heartbeat and watch intervals, and takes a goroutine census 500 ms after Close returned; checked: Next never returns a generation while a function of the previous one runs, contexts are done before the member re-joins, heartbeat rate bounds, LeaveGroup before Close returns, ErrGroupClosed afterwards, join back-off lower bound; a third list lets the watched topic grow after polls of the partition watcher were answered with error codes or dropped and requires the running function's context to be cancelled (at most two answers with the new count delivered before that; within 2 s).",
         "trusted: fake coordinator; heartbeat rate and back-off are bounds that load can only lengthen; functions started after the following Next call are outside the claim",
         "DESIGN.md section 5 C15"),
 "C04": ("exploration",
         "runtime differential oracle against an independent schema-driven reference codec (39 APIs transcribed from the Kafka message definitions): (a) library-encoded bytes must be accepted by the strict reference decoder, decode to the same field values and re-encode byte-identically; (b) reference-encoded frames with unknown tagged fields at every level and a sentinel second frame must decode to the encoded values and consume exactly one frame; (c) decode(encode(v)) == v; a byte tap on the fake network checks every frame of real Conn / ConsumerGroup / Client traffic; the same values are run through a second binary built with -tags unsafe and -d=checkptr",
         "325 (message type, version) pairs x 9 value-shape classes (zero, empty, max, min, varint-boundary lengths, nested, mixed, long strings/blobs), fields paired by name then position so that a swap of same-typed fields is visible; on the wire: size prefix == bytes that follow, api key, version within the advertised range (full, 0.10.1 floor, random and raised-minimum tables), correlation and client id, strict decode and byte-identical re-encode of every request body emitted by the hand-written Conn codec (Metadata, Produce, Fetch, ListOffsets, topics and group APIs) and by 38 Client methods over the Transport.",
         "trusted: the reference schemas (hand-transcribed from the Kafka definitions), null == empty for schema-nullable positions where kafka-go can only write one of them (table c04NullExempt); strings are never longer than 32767 bytes; SASL frames are covered by C18, not tapped here",
         "DESIGN.md section 5 C04"),
 "C05": ("exploration",
         "runtime differential oracle: produced bytes judged by the strict reference record decoder on the fake broker; reference-encoded layouts (formats 0/1/2, every codec, wrappers with relative offsets and gaps, control batches, flipped bits) decoded through Client.Fetch and Conn.ReadBatch and compared with ground truth; held-page hash monitor with poisoned page reuse",
         "Record lists (nil/empty/large keys and values, 0-5 headers, sub-millisecond, equal, decreasing and unset times) are produced through Writer, Client.Produce and Conn at produce v2-v8 with every codec and must be accepted by the reference decoder and equal what was submitted; reference-encoded fetch layouts must come back identical through both read paths, control and corrupt batches hidden by Client.Fetch; bytes handed out by Client.Fetch are hashed when handed out and before Close while 2-8 goroutines keep decoding (pages recycled, poisoned under the verif tag).",
         "trusted: refcodec record codecs and its reference compression libraries; unset times only need to lie within a day of the run; the Conn path is not asked to verify checksums or hide control records (statement)",
         "DESIGN.md section 5 C05"),
 "C11": ("fault_enumeration",
         "runtime differential monitor, enumerated completely: (Conn operation, negotiated version, error field, error code, following operation) on the faulted connection vs a fresh connection against an identical fake broker; plus no-fault sequences, error-coded responses delivered in two pieces with a pause longer than the deadline at every byte position, and damaged frames",
         "Every pair of kafka.Conn operations (14 operations incl. partial batch reads and short-buffer reads) is run with the first one answered by each of 12 error codes in each error field of each negotiable version (and without fault); the second operation's value digest and error class on the same Conn must equal those on a fresh Conn. Every error-coded response is also delivered in two pieces split at every byte with a pause longer than the first operation's deadline on an otherwise healthy connection: a reported broker code means the second operation behaves as on a fresh Conn, a reported transport error means it fails. Damaged frames (wrong correlation id, wrong length, trailing garbage) must never yield a value that differs from the fresh connection's.",
         "trusted: the fake broker answers deterministically; an error placed in a field the operation does not surface may leave it successful",
         "DESIGN.md section 5 C11"),
 "C17": ("fault_enumeration",
         "runtime monitor with complete enumeration of cut positions: every byte offset of the sample response of every (path, operation/api, version) x ending (EOF, ECONNRESET; thorough: silence), through kafka.Conn and through Transport.RoundTrip; plus a fixed Reader and Writer scenario with the first fetch/produce response cut at every byte judged by the C02/C01/C07 oracles; plus the server tokens of a SCRAM authentication cut at every byte with the mechanism wrapped in a recorder of the challenges it is handed",
         "The undisturbed response of every kafka.Conn operation (18 operations incl. fetches of logs whose last batch is gzip / snappy / lz4 / zstd compressed, every negotiable version) and of 23 APIs x every mutually supported version through the Transport is measured, then the call is repeated once per cut position and ending: it must return an error (fetch: a prefix of the complete records then an error) or exactly the undisturbed result, within its deadline, without panic; the Conn must be dead afterwards; the Transport must not reuse the cut connection and the same call must succeed on a new one. The server-first and server-final tokens of a SCRAM-SHA-256 exchange (Transport and Dialer, raw and framed) are cut at every byte: the operation must fail and the sasl.StateMachine must only ever see complete server tokens.",
         "trusted: one sample response per (path, api, version) - other contents are sampled by C01/C02 with random cuts; the silence ending relies on the client's own deadline",
         "DESIGN.md section 5 C17"),
 "C18": ("exploration",
         "runtime monitor: per-connection authentication state machine in the fake broker (reference PLAIN checker, xdg-go/scram server conversation over harness-derived keys) journaling every request and raw token with the state at arrival; faults at every step of every exchange",
         "Dialer (Dial, DialLeader, LookupPartitions, Reader) and Transport (Client.Metadata, Client.Produce, Writer) paths with PLAIN and SCRAM-SHA-256/512, handshake v0 (raw tokens) and v1 (framed), credentials needing escaping and SASLprep, and failures injected at every step (unsupported mechanism, error codes, sabotaged SCRAM server messages, closes and cuts): nothing but ApiVersions/SaslHandshake/SaslAuthenticate may arrive before the broker accepted, failures must fail the dial and close the connection with nothing sent afterwards, and exchanges complete iff the credentials are right.",
         "trusted: the reference SASL server (xdg-go/scram server side, harness PBKDF2, hand-written SASLprep atom table); SASLprep-prohibited names are not judged",
         "DESIGN.md section 5 C18"),
 "C06": ("exploration",
         "runtime monitor: payload-tagged exchanges - every call asks for something only it asks for and the fake broker's answer is an injective function of the request; each returned call is checked against the answer to its own request",
         "2-16 goroutines share one kafka.Conn (ReadOffset with unique timestamps, ReadPartitions of topics with distinct partition counts, ReadBatch whose records spell their offsets, WriteMessages with unique values, deadline changes and expiry) and 2-64 goroutines share a Transport (ListOffsets, FindCoordinator, Produce, Fetch with random cancellation, deadlines, cuts mid-response, 5 ms idle timeout), with prompt, delayed and (Conn only, counted separately) reordered answers; hooks widen and count the hand-over windows (foreign response at the head of the stream, connection release after a round trip).",
         "trusted: the script rewriting answers as a function of the request; overlap of calls is measured on the logical clock and cases without overlap are not counted as non-trivial",
         "DESIGN.md section 5 C06"),
 "C09": ("exploration",
         "runtime monitor: call/return timeline of Close, WriteMessages, FetchMessage/ReadMessage, CommitMessages and Transport.RoundTrip with Completion callbacks, the fake brokers' request journal after Close returned, open fakenet connections per owner and the goroutine profile filtered to library frames",
         "Writers (sync/async, 1-8 callers, batch timers 1 ms..10 min, retries and back-off, slow / silent / unreachable brokers), group and partition Readers (rebalances in progress, blocked fetches, commits in flight) and Transports (broker silent on the request, or only on the forced metadata refresh after CreateTopics / auto-creating Metadata) are closed or have their contexts cancelled at seeded points; Close and cancelled calls must return within a bound derived from the configured timeouts, every accepted message must be sent or have exhausted its attempts with its Completion run before Close returns, after Close WriteMessages fails with io.ErrClosedPipe and FetchMessage/ReadMessage with io.EOF, the group was left, no request is journaled after Close returned, no library goroutine and no connection of the closed object remains.",
         "trusted: bounds are wall-clock (configured time-outs <= 200 ms against a 20 s bound) and a breach is only reported after it repeats on an idle re-run; goroutines are attributed to the library by stack frames; cases run one at a time per process",
         "DESIGN.md section 5 C09"),
 "C10": ("exploration",
         "Go race detector (verifrun built with -race -tags verif, GORACE halt_on_error=0 log_path per shard) over generated concurrent client programs per documented type plus the scenario engines of C02/C03/C05/C06/C09/C15; reports are parsed, attributed by the innermost frames of the two accesses and deduplicated by function pair; a tracker records which method pairs were in flight together",
         "k goroutines each run a random sequence from the menu of exported methods of Conn (+ Batches shared between goroutines, also after Close), Writer (WriteMessages/Stats/Close under the C01 fault scripts), Reader with and without group (FetchMessage/ReadMessage/CommitMessages/SetOffset/Offset/Lag/Stats/Close under cuts and error codes), Client and Transport (8 Client methods, raw RoundTrips of 23 APIs, CloseIdleConnections, short idle and metadata TTLs), every built-in Balancer and every compression codec from 32 goroutines (including writers on failing sinks and readers on cut streams closed twice). Every deduplicated report in which kafka-go code takes part is a violation. Held on the executions run: the detector only sees accesses that were executed.",
         "trusted: the Go race detector (no false positives; misses races between accesses that did not both execute); reports whose two accesses are both harness code fail the run as a harness error; Reader.SetOffsetAt/ReadLag/Config are not driven",
         "DESIGN.md section 5 C10"),
 "C19": ("exploration",
         "runtime differential oracle: every value returned by the offset and metadata queries of kafka.Conn and kafka.Client is compared with the generated cluster state installed in the fake cluster (the oracle recomputes expected values from the state, not from the fake brokers' answers); one injected per-partition failure per case",
         "Per case a random static cluster state (1-5 brokers with racks and version caps, 1-4 topics x 1-8 partitions over several leaders, replica/ISR/offline lists incl. ids missing from the broker list, logs with start != 0, empty logs, gaps, timestamp ties, committed offsets per group) is installed, then Conn.ReadFirstOffset/ReadLastOffset/ReadOffsets/ReadOffset(t), a Seek sequence against a model of the documented whence modes, ReadPartitions, Brokers, Controller, and Client.ListOffsets (spanning topics x partitions x leaders), Metadata, OffsetFetch, OffsetCommit, ConsumerOffsets are run and compared field by field; then one partition gets an error code / is unknown / has an unreachable leader: it must carry an error and every other partition must be reported as in the state.",
         "trusted: the state generator and the fake brokers' lookup rules (recomputed independently by the oracle); order of partitions/topics/brokers in a result is not part of the claim; ConsumerOffsets, which has no per-partition error slot, may fail the call, omit the partition or return the true offset",
         "DESIGN.md section 5 C19"),
 "C20": ("exploration",
         "runtime monitor in child processes (RLIMIT_AS 4 GiB, one decode at a time): process liveness, recovered panics, allocation accounting (runtime/metrics heap allocs, confirmed by an exact second decode) and outcome class for systematically mutated well-formed response frames through protocol.ReadResponse and through kafka.Client over the fake network",
         "For every response type and version (reference-encoded with a field map where a schema exists, library-encoded otherwise) every length/count field - frame size, string/bytes/array lengths fixed and compact, tagged-field counts and sizes, record-set size, batch length, message size, wrapper value length, record count and varint lengths - is set (alone, and for the large values also together with a frame size announcing 2^30 bytes while only the original bytes arrive) to -1, -2, 0, len-1, len+1, remaining+1, 2^15-1, 2^31-1, -2^31 and for varints 2^31, 2^32, 2^63, 2^64-1 and an unterminated varint; the decode must end as an error or a message, without panic or process death, allocating at most 1 MiB + 256 x the bytes received (one received byte may announce one array element, which is decoded into a Go struct of up to ~200 bytes). CRC-covered fields with a recomputed CRC are informational.",
         "trusted: allocation figures of the Go runtime in a single-threaded child; a first-run excess not reproduced by the immediate exact re-decode (cold pools) is not reported; decodes that do not return within 10 s are inconclusive",
         "DESIGN.md section 5 C20"),
}

REASON_NOT_BUILT = "check not built yet in this round (design in DESIGN.md section 5); no claim is made"

def main():
    props = [json.loads(l) for l in open('properties.jsonl')]
    checks = []
    na = []
    for p in props:
        pid = p['id']
        if pid in CLAIMED:
            level, tech, text, note, ref = CLAIMED[pid]
            checks.append({
                "property_id": pid,
                "quick_cmd": f"./check.sh {pid} quick",
                "thorough_cmd": f"./check.sh {pid} thorough",
                "evidence_file": f"/verif/evidence/{pid}.json",
                "replay_cmd_template": "./check.sh --replay {path}",
                "engine": "verifrun",
                "level_claimed": {"category": level, "text": text, "design_ref": ref},
                "level_note": note,
                "technique": tech,
            })
        else:
            na.append({"property_id": pid, "reason": NA.get(pid, REASON_NOT_BUILT)})
    m = {
        "version": 1,
        "setup_cmd": "./setup.sh",
        "hooks": {
            "guard": "verif",
            "enable": "go build -tags verif (the driver passes -tags verif to every build of harness/cmd/verifrun, whose go.mod replaces github.com/segmentio/kafka-go with /repo)",
            "baseline_off_cmd": BASELINE_OFF,
            "source_commits": HOOK_COMMITS,
            "add_only": True,
        },
        "engines": [
            {"name": "verifrun", "path": "/verif/harness", "serves_properties": [c["property_id"] for c in checks],
             "kind_free_text": "Go program linking the real kafka-go sources from /repo (-tags verif) with an in-memory network, an independent reference codec, a scripted fake cluster and one runtime monitor per property; run as sharded child processes by harness/cmd/verif"},
        ],
        "checks": checks,
        "not_applicable": na,
        "notes": "All checks are runtime monitors over executions of the real library code; see DESIGN.md. Exit 0 = held on everything explored, 1 = VIOLATION line printed, 2 = harness error / observed nothing.",
    }
    json.dump(m, open('MANIFEST.json', 'w'), indent=1)
    print("claimed", [c["property_id"] for c in checks], "na", len(na))

NA = {}
HOOK_COMMITS = subprocess.run(['git','-C','/repo','log','--format=%H','--grep=^verif:'],capture_output=True,text=True).stdout.split()

if __name__ == '__main__':
    main()
