package core

// Rand is a small deterministic PRNG (splitmix64). Every random choice in a
// scenario derives from (property, VERIF_SEED, case index) through it.
type Rand struct{ s uint64 }

func NewRand(seed uint64) *Rand { return &Rand{s: seed} }

func Mix(a ...uint64) uint64 {
	h := uint64(0x9e3779b97f4a7c15)
	for _, x := range a {
		h ^= x + 0x9e3779b97f4a7c15 + (h << 6) + (h >> 2)
		h = mix64(h)
	}
	return h
}

func HashString(s string) uint64 {
	h := uint64(1469598103934665603)
	for i := 0; i < len(s); i++ {
		h ^= uint64(s[i])
		h *= 1099511628211
	}
	return mix64(h)
}

func mix64(z uint64) uint64 {
	z = (z ^ (z >> 30)) * 0xbf58476d1ce4e5b9
	z = (z ^ (z >> 27)) * 0x94d049bb133111eb
	return z ^ (z >> 31)
}

func (r *Rand) Uint64() uint64 {
	r.s += 0x9e3779b97f4a7c15
	return mix64(r.s)
}

func (r *Rand) Intn(n int) int {
	if n <= 0 {
		return 0
	}
	return int(r.Uint64() % uint64(n))
}

// Range returns a value in [lo, hi].
func (r *Rand) Range(lo, hi int) int {
	if hi <= lo {
		return lo
	}
	return lo + r.Intn(hi-lo+1)
}

func (r *Rand) Bool() bool { return r.Uint64()&1 == 1 }

// Chance returns true with probability num/den.
func (r *Rand) Chance(num, den int) bool { return r.Intn(den) < num }

func (r *Rand) Int63() int64 { return int64(r.Uint64() >> 1) }

func (r *Rand) Bytes(n int) []byte {
	b := make([]byte, n)
	for i := 0; i < n; i += 8 {
		x := r.Uint64()
		for j := 0; j < 8 && i+j < n; j++ {
			b[i+j] = byte(x >> (8 * j))
		}
	}
	return b
}

func (r *Rand) Perm(n int) []int {
	p := make([]int, n)
	for i := range p {
		p[i] = i
	}
	for i := n - 1; i > 0; i-- {
		j := r.Intn(i + 1)
		p[i], p[j] = p[j], p[i]
	}
	return p
}

func Pick[T any](r *Rand, xs ...T) T { return xs[r.Intn(len(xs))] }

// Fork derives an independent generator.
func (r *Rand) Fork() *Rand { return NewRand(r.Uint64()) }
