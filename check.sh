#!/bin/bash
# ./check.sh <property> [quick|thorough]   |   ./check.sh --replay <file>
# Rebuilds the driver and (inside it) verifrun from /repo's current working tree.
set -u
export GOFLAGS=-mod=mod GOPROXY=off GOSUMDB=off GOTOOLCHAIN=local
DIR="$(cd "$(dirname "$0")" && pwd)"
export VERIF_DIR="$DIR"
cd "$DIR/harness" || exit 2
mkdir -p "$DIR/bin"
go build -o "$DIR/bin/verif" ./cmd/verif || { echo "verif: driver build failed"; exit 2; }
exec "$DIR/bin/verif" "$@"
