package refcodec

// schemaText transcribes the Kafka message definitions (clients/src/main/
// resources/common/message/*.json) for the APIs kafka-go registers, in the
// DSL of schema.go. Field order, version ranges, nullable ranges, flexible
// boundaries and tags follow the protocol definition, NOT kafka-go's struct
// tags. Versions above what kafka-go supports are not needed and are omitted
// where they would add fields.
const schemaText = `
api 0 Produce 0-8 flex=9
req
  TransactionalId string 3+ null=3+
  Acks int16 0+
  TimeoutMs int32 0+
  Topics []struct 0+ {
    Name string 0+
    Partitions []struct 0+ {
      Index int32 0+
      Records records 0+ null=0+
    }
  }
resp
  Responses []struct 0+ {
    Name string 0+
    PartitionResponses []struct 0+ {
      Index int32 0+
      ErrorCode int16 0+
      BaseOffset int64 0+
      LogAppendTimeMs int64 2+
      LogStartOffset int64 5+
      RecordErrors []struct 8+ {
        BatchIndex int32 8+
        BatchIndexErrorMessage string 8+ null=8+
      }
      ErrorMessage string 8+ null=8+
    }
  }
  ThrottleTimeMs int32 1+

api 1 Fetch 0-11 flex=12
req
  ReplicaId int32 0+
  MaxWaitMs int32 0+
  MinBytes int32 0+
  MaxBytes int32 3+
  IsolationLevel int8 4+
  SessionId int32 7+
  SessionEpoch int32 7+
  Topics []struct 0+ {
    Topic string 0+
    Partitions []struct 0+ {
      Partition int32 0+
      CurrentLeaderEpoch int32 9+
      FetchOffset int64 0+
      LogStartOffset int64 5+
      PartitionMaxBytes int32 0+
    }
  }
  ForgottenTopicsData []struct 7+ {
    Topic string 7+
    Partitions []int32 7+
  }
  RackId string 11+
resp
  ThrottleTimeMs int32 1+
  ErrorCode int16 7+
  SessionId int32 7+
  Responses []struct 0+ {
    Topic string 0+
    Partitions []struct 0+ {
      PartitionIndex int32 0+
      ErrorCode int16 0+
      HighWatermark int64 0+
      LastStableOffset int64 4+
      LogStartOffset int64 5+
      AbortedTransactions []struct 4+ null=4+ {
        ProducerId int64 4+
        FirstOffset int64 4+
      }
      PreferredReadReplica int32 11+
      Records records 0+ null=0+
    }
  }

api 2 ListOffsets 1-5 flex=6
req
  ReplicaId int32 0+
  IsolationLevel int8 2+
  Topics []struct 0+ {
    Name string 0+
    Partitions []struct 0+ {
      PartitionIndex int32 0+
      CurrentLeaderEpoch int32 4+
      Timestamp int64 0+
    }
  }
resp
  ThrottleTimeMs int32 2+
  Topics []struct 0+ {
    Name string 0+
    Partitions []struct 0+ {
      PartitionIndex int32 0+
      ErrorCode int16 0+
      Timestamp int64 1+
      Offset int64 1+
      LeaderEpoch int32 4+
    }
  }

api 3 Metadata 0-8 flex=9
req
  Topics []struct 0+ null=1+ {
    Name string 0+
  }
  AllowAutoTopicCreation bool 4+
  IncludeClusterAuthorizedOperations bool 8-10
  IncludeTopicAuthorizedOperations bool 8+
resp
  ThrottleTimeMs int32 3+
  Brokers []struct 0+ {
    NodeId int32 0+
    Host string 0+
    Port int32 0+
    Rack string 1+ null=1+
  }
  ClusterId string 2+ null=2+
  ControllerId int32 1+
  Topics []struct 0+ {
    ErrorCode int16 0+
    Name string 0+
    IsInternal bool 1+
    Partitions []struct 0+ {
      ErrorCode int16 0+
      PartitionIndex int32 0+
      LeaderId int32 0+
      LeaderEpoch int32 7+
      ReplicaNodes []int32 0+
      IsrNodes []int32 0+
      OfflineReplicas []int32 5+
    }
    TopicAuthorizedOperations int32 8+
  }
  ClusterAuthorizedOperations int32 8-10

api 8 OffsetCommit 0-7 flex=8
req
  GroupId string 0+
  GenerationId int32 1+
  MemberId string 1+
  GroupInstanceId string 7+ null=7+
  RetentionTimeMs int64 2-4
  Topics []struct 0+ {
    Name string 0+
    Partitions []struct 0+ {
      PartitionIndex int32 0+
      CommittedOffset int64 0+
      CommittedLeaderEpoch int32 6+
      CommitTimestamp int64 1
      CommittedMetadata string 0+ null=0+
    }
  }
resp
  ThrottleTimeMs int32 3+
  Topics []struct 0+ {
    Name string 0+
    Partitions []struct 0+ {
      PartitionIndex int32 0+
      ErrorCode int16 0+
    }
  }

api 9 OffsetFetch 0-5 flex=6
req
  GroupId string 0+
  Topics []struct 0+ null=2+ {
    Name string 0+
    PartitionIndexes []int32 0+
  }
resp
  ThrottleTimeMs int32 3+
  Topics []struct 0+ {
    Name string 0+
    Partitions []struct 0+ {
      PartitionIndex int32 0+
      CommittedOffset int64 0+
      CommittedLeaderEpoch int32 5+
      Metadata string 0+ null=0+
      ErrorCode int16 0+
    }
  }
  ErrorCode int16 2+

api 10 FindCoordinator 0-2 flex=3
req
  Key string 0+
  KeyType int8 1+
resp
  ThrottleTimeMs int32 1+
  ErrorCode int16 0+
  ErrorMessage string 1+ null=1+
  NodeId int32 0+
  Host string 0+
  Port int32 0+

api 11 JoinGroup 0-7 flex=6
req
  GroupId string 0+
  SessionTimeoutMs int32 0+
  RebalanceTimeoutMs int32 1+
  MemberId string 0+
  GroupInstanceId string 5+ null=5+
  ProtocolType string 0+
  Protocols []struct 0+ {
    Name string 0+
    Metadata bytes 0+
  }
resp
  ThrottleTimeMs int32 2+
  ErrorCode int16 0+
  GenerationId int32 0+
  ProtocolType string 7+ null=7+
  ProtocolName string 0+ null=7+
  Leader string 0+
  MemberId string 0+
  Members []struct 0+ {
    MemberId string 0+
    GroupInstanceId string 5+ null=5+
    Metadata bytes 0+
  }

api 12 Heartbeat 0-4 flex=4
req
  GroupId string 0+
  GenerationId int32 0+
  MemberId string 0+
  GroupInstanceId string 3+ null=3+
resp
  ThrottleTimeMs int32 1+
  ErrorCode int16 0+

api 13 LeaveGroup 0-4 flex=4
req
  GroupId string 0+
  MemberId string 0-2
  Members []struct 3+ {
    MemberId string 3+
    GroupInstanceId string 3+ null=3+
  }
resp
  ThrottleTimeMs int32 1+
  ErrorCode int16 0+
  Members []struct 3+ {
    MemberId string 3+
    GroupInstanceId string 3+ null=3+
    ErrorCode int16 3+
  }

api 14 SyncGroup 0-5 flex=4
req
  GroupId string 0+
  GenerationId int32 0+
  MemberId string 0+
  GroupInstanceId string 3+ null=3+
  ProtocolType string 5+ null=5+
  ProtocolName string 5+ null=5+
  Assignments []struct 0+ {
    MemberId string 0+
    Assignment bytes 0+
  }
resp
  ThrottleTimeMs int32 1+
  ErrorCode int16 0+
  ProtocolType string 5+ null=5+
  ProtocolName string 5+ null=5+
  Assignment bytes 0+

api 15 DescribeGroups 0-5 flex=5
req
  Groups []string 0+
  IncludeAuthorizedOperations bool 3+
resp
  ThrottleTimeMs int32 1+
  Groups []struct 0+ {
    ErrorCode int16 0+
    GroupId string 0+
    GroupState string 0+
    ProtocolType string 0+
    ProtocolData string 0+
    Members []struct 0+ {
      MemberId string 0+
      GroupInstanceId string 4+ null=4+
      ClientId string 0+
      ClientHost string 0+
      MemberMetadata bytes 0+
      MemberAssignment bytes 0+
    }
    AuthorizedOperations int32 3+
  }

api 16 ListGroups 0-2 flex=3
req
resp
  ThrottleTimeMs int32 1+
  ErrorCode int16 0+
  Groups []struct 0+ {
    GroupId string 0+
    ProtocolType string 0+
  }

api 17 SaslHandshake 0-1
req
  Mechanism string 0+
resp
  ErrorCode int16 0+
  Mechanisms []string 0+

api 18 ApiVersions 0-2 flex=3
req
resp
  ErrorCode int16 0+
  ApiKeys []struct 0+ {
    ApiKey int16 0+
    MinVersion int16 0+
    MaxVersion int16 0+
  }
  ThrottleTimeMs int32 1+

api 19 CreateTopics 0-5 flex=5
req
  Topics []struct 0+ {
    Name string 0+
    NumPartitions int32 0+
    ReplicationFactor int16 0+
    Assignments []struct 0+ {
      PartitionIndex int32 0+
      BrokerIds []int32 0+
    }
    Configs []struct 0+ {
      Name string 0+
      Value string 0+ null=0+
    }
  }
  TimeoutMs int32 0+
  ValidateOnly bool 1+
resp
  ThrottleTimeMs int32 2+
  Topics []struct 0+ {
    Name string 0+
    ErrorCode int16 0+
    ErrorMessage string 1+ null=1+
    TopicConfigErrorCode int16 none tag=0@5+
    NumPartitions int32 5+
    ReplicationFactor int16 5+
    Configs []struct 5+ null=5+ {
      Name string 5+
      Value string 5+ null=5+
      ReadOnly bool 5+
      ConfigSource int8 5+
      IsSensitive bool 5+
    }
  }

api 20 DeleteTopics 0-3 flex=4
req
  TopicNames []string 0+
  TimeoutMs int32 0+
resp
  ThrottleTimeMs int32 1+
  Responses []struct 0+ {
    Name string 0+
    ErrorCode int16 0+
  }

api 22 InitProducerId 0-4 flex=2
req
  TransactionalId string 0+ null=0+
  TransactionTimeoutMs int32 0+
  ProducerId int64 3+
  ProducerEpoch int16 3+
resp
  ThrottleTimeMs int32 0+
  ErrorCode int16 0+
  ProducerId int64 0+
  ProducerEpoch int16 0+

api 24 AddPartitionsToTxn 0-3 flex=3
req
  TransactionalId string 0+
  ProducerId int64 0+
  ProducerEpoch int16 0+
  Topics []struct 0+ {
    Name string 0+
    Partitions []int32 0+
  }
resp
  ThrottleTimeMs int32 0+
  Results []struct 0+ {
    Name string 0+
    Results []struct 0+ {
      PartitionIndex int32 0+
      ErrorCode int16 0+
    }
  }

api 25 AddOffsetsToTxn 0-3 flex=3
req
  TransactionalId string 0+
  ProducerId int64 0+
  ProducerEpoch int16 0+
  GroupId string 0+
resp
  ThrottleTimeMs int32 0+
  ErrorCode int16 0+

api 26 EndTxn 0-3 flex=3
req
  TransactionalId string 0+
  ProducerId int64 0+
  ProducerEpoch int16 0+
  Committed bool 0+
resp
  ThrottleTimeMs int32 0+
  ErrorCode int16 0+

api 28 TxnOffsetCommit 0-3 flex=3
req
  TransactionalId string 0+
  GroupId string 0+
  ProducerId int64 0+
  ProducerEpoch int16 0+
  GenerationId int32 3+
  MemberId string 3+
  GroupInstanceId string 3+ null=3+
  Topics []struct 0+ {
    Name string 0+
    Partitions []struct 0+ {
      PartitionIndex int32 0+
      CommittedOffset int64 0+
      CommittedLeaderEpoch int32 2+
      CommittedMetadata string 0+ null=0+
    }
  }
resp
  ThrottleTimeMs int32 0+
  Topics []struct 0+ {
    Name string 0+
    Partitions []struct 0+ {
      PartitionIndex int32 0+
      ErrorCode int16 0+
    }
  }

api 36 SaslAuthenticate 0-1 flex=2
req
  AuthBytes bytes 0+
resp
  ErrorCode int16 0+
  ErrorMessage string 0+ null=0+
  AuthBytes bytes 0+
  SessionLifetimeMs int64 1+

api 37 CreatePartitions 0-1 flex=2
req
  Topics []struct 0+ {
    Name string 0+
    Count int32 0+
    Assignments []struct 0+ null=0+ {
      BrokerIds []int32 0+
    }
  }
  TimeoutMs int32 0+
  ValidateOnly bool 0+
resp
  ThrottleTimeMs int32 0+
  Results []struct 0+ {
    Name string 0+
    ErrorCode int16 0+
    ErrorMessage string 0+ null=0+
  }

api 42 DeleteGroups 0-2 flex=2
req
  GroupsNames []string 0+
resp
  ThrottleTimeMs int32 0+
  Results []struct 0+ {
    GroupId string 0+
    ErrorCode int16 0+
  }

api 47 OffsetDelete 0-0
req
  GroupId string 0+
  Topics []struct 0+ {
    Name string 0+
    Partitions []struct 0+ {
      PartitionIndex int32 0+
    }
  }
resp
  ErrorCode int16 0+
  ThrottleTimeMs int32 0+
  Topics []struct 0+ {
    Name string 0+
    Partitions []struct 0+ {
      PartitionIndex int32 0+
      ErrorCode int16 0+
    }
  }
`
