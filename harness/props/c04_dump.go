package props

import (
	"fmt"
	"os"
	"reflect"
	"sort"

	"verifharness/refcodec"
)

// c04Dump prints development tables to stderr (C04_DUMP=alias|pairs).
func c04Dump(what string) {
	pairs := c04Pairs()
	switch what {
	case "pairs":
		for i := range pairs {
			fmt.Fprintf(os.Stderr, "%s schema=%v\n", pairs[i].String(), pairs[i].API != nil)
		}
	case "alias":
		seen := map[string]map[string]bool{}
		var walk func(t reflect.Type, sch []*refcodec.Field, ver int)
		walk = func(t reflect.Type, sch []*refcodec.Field, ver int) {
			ps, probs := c04PairFields(t, sch, ver)
			for _, p := range probs {
				fmt.Fprintf(os.Stderr, "PROBLEM %s\n", p)
			}
			schIn := c04SchemaFieldsIn(sch, ver)
			for i, p := range ps {
				if i < len(schIn) && schIn[i] != p.Sch {
					fmt.Fprintf(os.Stderr, "CROSS v%d %s paired by name with %s, which is at another position (position %d holds %s)\n", ver, p.Go.Key, p.Sch.Name, i, schIn[i].Name)
				}
				if c04Norm(p.Go.Name) != c04Norm(p.Sch.Name) {
					if seen[p.Go.Key] == nil {
						seen[p.Go.Key] = map[string]bool{}
					}
					seen[p.Go.Key][p.Sch.Name] = true
				}
				if !c04KindOK(p.Go.Type, p.Sch, false) {
					fmt.Fprintf(os.Stderr, "KIND v%d %s (%s) vs %s (%s array=%v)\n", ver, p.Go.Key, p.Go.Type, p.Sch.Name, p.Sch.Kind, p.Sch.Array)
					continue
				}
				if p.Sch.Kind == refcodec.KStruct {
					et := p.Go.Type
					if p.Sch.Array {
						et = et.Elem()
					}
					if et.Kind() == reflect.Struct {
						walk(et, p.Sch.Fields, ver)
					}
				}
			}
		}
		for i := range pairs {
			p := &pairs[i]
			if p.API == nil {
				continue
			}
			mk, fs := p.Msg.Resp, p.API.Resp
			if p.IsReq {
				mk, fs = p.Msg.Req, p.API.Req
			}
			walk(reflect.TypeOf(mk()).Elem(), fs, p.Ver)
		}
		var keys []string
		for k := range seen {
			keys = append(keys, k)
		}
		sort.Strings(keys)
		for _, k := range keys {
			var vs []string
			for v := range seen[k] {
				vs = append(vs, v)
			}
			sort.Strings(vs)
			if len(vs) == 1 {
				fmt.Fprintf(os.Stderr, "\t%q: %q,\n", k, vs[0])
			} else {
				fmt.Fprintf(os.Stderr, "CONFLICT %s -> %v\n", k, vs)
			}
		}
	}
}
