package props

import (
	"bytes"
	"context"
	"encoding/base64"
	"encoding/json"
	"errors"
	"fmt"
	"os"
	"os/exec"
	"path/filepath"
	"sort"
	"strconv"
	"strings"
	"sync"
	"time"

	kafka "github.com/segmentio/kafka-go"
	"github.com/segmentio/kafka-go/sasl"
	"github.com/segmentio/kafka-go/sasl/plain"
	kscram "github.com/segmentio/kafka-go/sasl/scram"

	"verifharness/core"
	"verifharness/fakecluster"
	"verifharness/fakenet"
	"verifharness/refcodec"
)

// C18 — With SASL configured, nothing is sent before authentication succeeds.
//
// One case = one fake cluster with a SASL server (fakecluster/sasl.go), one
// mechanism with one pair of credentials, one way of reaching the brokers
// (Dialer.Dial / DialLeader / LookupPartitions / Reader, Transport through
// Client.Metadata / Client.Produce / Writer), optionally one fault placed at
// one step of the exchange, optionally 8 concurrent callers.
//
// The monitor reads the brokers' journal (every framed request and every raw
// token with the connection's authentication state at arrival), the SASL
// server's per-connection records (state reached, logical time of a failure),
// and fakenet's wire tap (client writes, client close).

func init() {
	core.Register(&core.Prop{
		ID:    "C18",
		Level: "exploration",
		Rule: "one case = (path, mechanism, advertised SaslHandshake range, credentials, fault kind @ step, concurrency); evaluations = dial operations judged; oracles: " +
			"(a) every journaled request with api key outside {ApiVersions, SaslHandshake, SaslAuthenticate} arrived on a connection in state 'authenticated' (raw-mode payloads that decode as a Kafka request count as that request), and no undecodable frame arrives before authentication; " +
			"(b) on every connection whose exchange the server failed (mechanism refused, error code in a step, malformed/sabotaged server message, wrong proof, connection ended at a step, answer cut at byte k) the client writes nothing after the failure and closes the connection, and a Conn handed out by Dial/DialLeader belongs to a connection the server authenticated; " +
			"(c) without a fault the operation succeeds iff the credentials are right (PLAIN byte-exact; SCRAM after SASLprep of name and password, hand-normalised table) and the mechanism is enabled, and then the first real request on the connection works; " +
			"signature = (path, mechanism, handshake range, credential class, truth, fault kind@step, concurrency); non-trivial = a fault was injected, or the mechanism was refused, or the credentials are wrong, or they need escaping/SASLprep",
		Assumptions: []string{
			"the reference SASL server (fakecluster/sasl.go): PLAIN byte-exact; SCRAM through xdg-go/scram's server conversation over keys derived by the harness' own PBKDF2; names un-escaped strictly (=2C, =3D)",
			"SASLprep expectations come from a hand-written table of (raw, normalised) atoms (RFC 4013: map to nothing, map to space, NFKC); the server stores the normalised forms",
			"SCRAM iteration counts are >= 4096 (xdg-go/scram clients refuse less)",
			"a failure is timed at the server before any byte of the failing answer is written; the exchange is strictly request/response, so a client write after that time was sent after the failure",
			"when the server ends a connection it half-closes it (EOF or reset towards the client) and keeps reading, so later client writes are observed; stalls (silence) are not injected: the exchange code sets no deadline",
			"an ApiVersions error code is not a failure of the exchange (clients may fall back); only closing/cutting ApiVersions is injected",
			"SCRAM server-first with an iteration count below 4096 but positive is not treated as malformed (not injected)",
		},
		Shards:      16,
		CaseTimeout: 90 * time.Second,
		Run:         runC18,
	})
}

// ---------------------------------------------------------------- credentials

type c18Atom struct{ raw, norm string }

// SASLprep (RFC 4013) expectations, written by hand: B.1 "map to nothing",
// C.1.2 "map to space", NFKC.
var c18PrepAtoms = []c18Atom{
	// the first four change under SASLprep (used by "unnormalised-store")
	{"\u017f", "s"},                  // LATIN SMALL LETTER LONG S (NFKC)
	{"\u2168", "IX"},                 // ROMAN NUMERAL NINE (NFKC)
	{"\u00aa", "a"},                  // FEMININE ORDINAL INDICATOR (NFKC)
	{"\ufb01", "fi"},                 // LATIN SMALL LIGATURE FI (NFKC)
	{"\u00ad", ""},                   // SOFT HYPHEN -> nothing (B.1)
	{"\u00a0", " "},                  // NO-BREAK SPACE -> space (C.1.2)
	{"\u2460", "1"},                  // CIRCLED DIGIT ONE (NFKC)
	{"\uff21", "A"},                  // FULLWIDTH LATIN CAPITAL LETTER A (NFKC)
	{"\u200b", ""},                   // ZERO WIDTH SPACE -> nothing (B.1)
	{"\u2003", " "},                  // EM SPACE -> space (C.1.2)
	{"\u3000", " "},                  // IDEOGRAPHIC SPACE -> space (C.1.2)
	{"e\u0301", "\u00e9"},            // e + COMBINING ACUTE ACCENT -> precomposed (NFKC)
	{"\u00e9", "\u00e9"},             // precomposed e-acute stays
	{"\u00df", "\u00df"},             // SHARP S stays (no case folding)
	{"\u212b", "\u00c5"},             // ANGSTROM SIGN -> A WITH RING ABOVE (NFKC)
	{"\u00b2", "2"},                  // SUPERSCRIPT TWO (NFKC)
	{"\u2122", "TM"},                 // TRADE MARK SIGN (NFKC)
	{"\u65e5\u672c", "\u65e5\u672c"}, // CJK stays
	{"\ufe00", ""},                   // VARIATION SELECTOR-1 -> nothing (B.1)
	{"\u034f", ""},                   // COMBINING GRAPHEME JOINER -> nothing (B.1)
	{"\u2060", ""},                   // WORD JOINER -> nothing (B.1)
	{"\ufeff", ""},                   // ZERO WIDTH NO-BREAK SPACE -> nothing (B.1)
	{"\u180b", ""},                   // MONGOLIAN FREE VARIATION SELECTOR ONE -> nothing (B.1)
	{"\u200d", ""},                   // ZERO WIDTH JOINER -> nothing (B.1)
	{"\u1680", " "},                  // OGHAM SPACE MARK -> space (C.1.2)
	{"\u202f", " "},                  // NARROW NO-BREAK SPACE -> space (C.1.2)
	{"\u205f", " "},                  // MEDIUM MATHEMATICAL SPACE -> space (C.1.2)
}

// Atoms that only the exhaustive per-atom list uses: U+1806 is mapped to
// nothing by RFC 3454 B.1 but not by the pinned xdg-go/stringprep (finding
// c18:good-credentials-rejected:saslprep:U+1806); keeping it out of the random
// compositions stops that one finding from masking the rest of those cases.
var c18PrepAtomsExtra = []c18Atom{
	{"\u1806", ""}, // MONGOLIAN TODO SOFT HYPHEN -> nothing (B.1)
}

// code points SASLprep prohibits (C.2.1 controls, C.8 LRM, C.3 private use,
// C.6 replacement character, C.9 tag, C.1.2-unmapped none) or a bidi violation
var c18Forbidden = []string{"\u0007", "\u200e", "\ue000", "\ufffd", "\u0627a", "\t", "\u007f", "\U000e0001", "\u0080"}

const c18Simple = "abcdefghijklmnopqrstuvwxyzABCDEFGHIJKLMNOPQRSTUVWXYZ0123456789_-.@"

var c18EscapeAtoms = []string{",", "=", " ", "=2C", "=3D", "==", ",,", "=,", ",=", "=2", "=3d", "n=", "r=", ",p=", "  "}

func c18SimpleStr(r *core.Rand, n int) string {
	b := make([]byte, n)
	for i := range b {
		b[i] = c18Simple[r.Intn(len(c18Simple))]
	}
	return string(b)
}

// c18Gen returns (raw, normalised) of a string of the class.
func c18Gen(r *core.Rand, class string) (raw, norm string) {
	switch class {
	case "simple":
		s := c18SimpleStr(r, r.Range(1, 12))
		return s, s
	case "long":
		var sb strings.Builder
		for sb.Len() < 1024 {
			if r.Chance(1, 12) {
				sb.WriteString(core.Pick(r, c18EscapeAtoms...))
			} else {
				sb.WriteString(c18SimpleStr(r, r.Range(1, 40)))
			}
		}
		return sb.String(), sb.String()
	case "escape":
		var sb strings.Builder
		n := r.Range(1, 5)
		for i := 0; i < n; i++ {
			if r.Bool() {
				sb.WriteString(c18SimpleStr(r, r.Range(1, 4)))
			}
			sb.WriteString(core.Pick(r, c18EscapeAtoms...))
		}
		if r.Bool() {
			sb.WriteString(c18SimpleStr(r, r.Range(1, 4)))
		}
		return sb.String(), sb.String()
	case "prep", "forbidden":
		var a, b strings.Builder
		// an ASCII letter first: the normalised name is never empty and
		// never starts with a combining mark
		s := c18SimpleStr(r, r.Range(1, 3))
		a.WriteString(s)
		b.WriteString(s)
		n := r.Range(1, 4)
		bad := -1
		if class == "forbidden" {
			bad = r.Intn(n)
		}
		for i := 0; i < n; i++ {
			if i == bad {
				f := core.Pick(r, c18Forbidden...)
				a.WriteString(f)
				b.WriteString(f)
			}
			at := c18PrepAtoms[r.Intn(len(c18PrepAtoms))]
			a.WriteString(at.raw)
			b.WriteString(at.norm)
			if r.Chance(1, 3) {
				e := core.Pick(r, ",", "=", " ")
				a.WriteString(e)
				b.WriteString(e)
			}
			s := c18SimpleStr(r, r.Range(1, 3)) // never a combining mark after an atom
			a.WriteString(s)
			b.WriteString(s)
		}
		return a.String(), b.String()
	}
	return "", ""
}

// c18Mutate returns a string that differs from s (and from its normalised
// form norm) after normalisation.
func c18Mutate(r *core.Rand, s string) string {
	for try := 0; try < 20; try++ {
		var out string
		switch r.Intn(6) {
		case 0:
			out = s + core.Pick(r, "x", " ", ",", "=", "0")
		case 1:
			if len(s) > 0 {
				// drop the last ASCII byte if there is one
				if s[len(s)-1] < 0x80 {
					out = s[:len(s)-1]
				} else {
					out = s + "y"
				}
			} else {
				out = "x"
			}
		case 2:
			b := []byte(s)
			for i := range b {
				if b[i] >= 'a' && b[i] <= 'z' {
					b[i] -= 32
					break
				} else if b[i] >= 'A' && b[i] <= 'Z' {
					b[i] += 32
					break
				}
			}
			out = string(b)
		case 3:
			out = "z" + s
		case 4:
			out = strings.Replace(s, ",", "=2C", 1)
		case 5:
			out = strings.Replace(s, "=", "=3D", 1)
		}
		if out != s {
			return out
		}
	}
	return s + "#"
}

// ---------------------------------------------------------------- case descriptor

type c18Fault struct {
	Kind    string `json:"kind"` // close | cut | error | token
	Step    int    `json:"step"` // -1 ApiVersions, 0 handshake, 1.. tokens
	Code    int16  `json:"code,omitempty"`
	Keep    bool   `json:"keep_bytes,omitempty"`
	CutAt   int    `json:"cut_at,omitempty"`
	CutMode string `json:"cut_mode,omitempty"`
	Token   string `json:"token,omitempty"` // sabotage recipe
	Conn    int    `json:"conn"`            // 0 = every connection, n = n-th connection only
}

func (f *c18Fault) label() string {
	if f == nil {
		return "none"
	}
	s := f.Kind
	switch f.Kind {
	case "error":
		s += strconv.Itoa(int(f.Code))
		if f.Keep {
			s += "+bytes"
		}
	case "token", "rawbytes":
		s += ":" + f.Token
	case "cut":
		s += ":" + f.CutMode
	}
	return fmt.Sprintf("%s@%d", s, f.Step)
}

type c18Cfg struct {
	Path      string    `json:"path"`
	Mech      string    `json:"mech"`
	HsMin     int       `json:"hs_min"`
	HsMax     int       `json:"hs_max"`
	Adv36     bool      `json:"advertise_sasl_authenticate"`
	Brokers   int       `json:"brokers"`
	Leader    int32     `json:"leader"`
	Enabled   []string  `json:"enabled"`
	CredClass string    `json:"cred_class"`
	Forbidden bool      `json:"forbidden"` // name or password holds a code point SASLprep prohibits
	Atom      string    `json:"atom,omitempty"`
	Truth     string    `json:"truth"`
	User      string    `json:"user"`
	Pass      string    `json:"pass"`
	DBUser    string    `json:"db_user"`
	DBPass    string    `json:"db_pass"`
	Iters     int       `json:"iters"`
	Fault     *c18Fault `json:"fault,omitempty"`
	Conc      int       `json:"conc"`
	Chunk     int       `json:"chunk"`
}

func (c c18Cfg) desc() map[string]any {
	trim := func(s string) string {
		if len(s) > 80 {
			return fmt.Sprintf("%s...(%d bytes)", s[:80], len(s))
		}
		return s
	}
	return map[string]any{"path": c.Path, "mech": c.Mech, "hs": fmt.Sprintf("%d-%d", c.HsMin, c.HsMax), "adv36": c.Adv36, "brokers": c.Brokers, "leader": c.Leader,
		"enabled": c.Enabled, "cred_class": c.CredClass, "forbidden": c.Forbidden, "atom": c.Atom, "truth": c.Truth, "user": strconv.QuoteToASCII(trim(c.User)), "pass": strconv.QuoteToASCII(trim(c.Pass)),
		"db_user": strconv.QuoteToASCII(trim(c.DBUser)), "db_pass": strconv.QuoteToASCII(trim(c.DBPass)), "iters": c.Iters, "fault": c.Fault, "fault_label": c.Fault.label(), "conc": c.Conc, "chunk": c.Chunk}
}

func (c c18Cfg) hsVer() int {
	if c.HsMax >= 1 {
		return 1
	}
	return 0
}

func (c c18Cfg) right() bool { return c.Truth == "right" }

func (c c18Cfg) mechEnabled() bool {
	for _, m := range c.Enabled {
		if m == c.Mech {
			return true
		}
	}
	return false
}

var c18Paths = []string{"dialer.Dial", "dialer.Dial", "dialer.Dial", "dialer.DialLeader", "dialer.DialLeader", "dialer.LookupPartitions",
	"transport.Metadata", "transport.Metadata", "transport.Produce", "writer", "reader"}

var c18Mechs = []string{"PLAIN", "SCRAM-SHA-256", "SCRAM-SHA-512"}

func c18GenCfg(r *core.Rand, mode string) c18Cfg {
	cfg := c18Cfg{Conc: 1, Iters: 4096}
	cfg.Path = core.Pick(r, c18Paths...)
	cfg.Mech = core.Pick(r, c18Mechs...)
	switch r.Intn(5) {
	case 0, 1:
		cfg.HsMin, cfg.HsMax = 0, 0
	case 2, 3:
		cfg.HsMin, cfg.HsMax = 0, 1
	default:
		cfg.HsMin, cfg.HsMax = 1, 1
	}
	cfg.Adv36 = cfg.HsMax >= 1 || r.Bool()
	cfg.Brokers = r.Range(1, 2)
	cfg.Leader = int32(r.Range(1, cfg.Brokers))
	cfg.Enabled = append([]string(nil), c18Mechs...)
	if r.Chance(1, 4) {
		cfg.Iters = core.Pick(r, 4097, 5000, 8192, 10000)
	}
	if r.Chance(1, 3) {
		cfg.Chunk = core.Pick(r, 1, 2, 3, 5, 17)
	}

	// credentials
	cfg.CredClass = core.Pick(r, "simple", "escape", "escape", "prep", "prep", "empty-pass", "long", "forbidden")
	ucls, pcls := cfg.CredClass, cfg.CredClass
	switch cfg.CredClass {
	case "empty-pass":
		ucls = core.Pick(r, "simple", "escape", "prep")
	case "long":
		if r.Bool() {
			ucls = "simple"
		} else if r.Bool() {
			pcls = "escape"
		}
	case "forbidden":
		if r.Bool() {
			pcls = "prep"
		} else if r.Bool() {
			ucls = "prep"
		}
	case "escape", "prep":
		if r.Chance(1, 4) {
			pcls = core.Pick(r, "simple", "escape", "prep")
		}
	}
	uraw, unorm := c18Gen(r, ucls)
	var praw, pnorm string
	if cfg.CredClass != "empty-pass" {
		praw, pnorm = c18Gen(r, pcls)
	}
	cfg.User, cfg.Pass = uraw, praw
	cfg.Forbidden = cfg.CredClass == "forbidden"
	if cfg.Mech == "PLAIN" {
		// PLAIN is byte-exact: the server stores what the client is given
		cfg.DBUser, cfg.DBPass = uraw, praw
	} else {
		cfg.DBUser, cfg.DBPass = unorm, pnorm
	}
	cfg.Truth = "right"
	if mode != "fault" && r.Chance(2, 5) || mode == "fault" && r.Chance(1, 8) {
		cfg.Truth = core.Pick(r, "wrong-pass", "wrong-pass", "unknown-user", "escape-confusion", "unnormalised-store", "empty-mismatch")
		switch cfg.Truth {
		case "wrong-pass":
			cfg.DBPass = c18Mutate(r, cfg.DBPass)
		case "unknown-user":
			cfg.DBUser = c18Mutate(r, cfg.DBUser)
		case "escape-confusion":
			// the server knows "a,b"; the client is given the escaped spelling
			u := c18SimpleStr(r, r.Range(1, 3)) + core.Pick(r, ",", "=") + c18SimpleStr(r, r.Range(1, 3))
			cfg.DBUser = u
			cfg.User = strings.NewReplacer(",", "=2C", "=", "=3D").Replace(u)
			cfg.CredClass = "escape"
		case "unnormalised-store":
			// the server stores the raw spelling of something SASLprep changes
			// (SCRAM: no match after normalisation), or the normalised spelling
			// (PLAIN: no byte-exact match)
			at := c18PrepAtoms[r.Intn(4)] // atoms whose norm differs from raw
			base := c18SimpleStr(r, r.Range(1, 3))
			cfg.User = base + at.raw + "q"
			if cfg.Mech == "PLAIN" {
				cfg.DBUser = base + at.norm + "q"
			} else {
				cfg.DBUser = base + at.raw + "q"
			}
			cfg.CredClass = "prep"
		case "empty-mismatch":
			if cfg.DBPass == "" {
				cfg.DBPass = "x"
			} else {
				cfg.Pass = ""
			}
		}
	}
	if mode != "fault" && r.Chance(1, 12) {
		// the brokers do not enable the client's mechanism
		cfg.Enabled = nil
		for _, m := range c18Mechs {
			if m != cfg.Mech {
				cfg.Enabled = append(cfg.Enabled, m)
			}
		}
		if r.Chance(1, 3) {
			cfg.Enabled = cfg.Enabled[:1]
		}
	}
	cfg.Forbidden = false
	for _, f := range c18Forbidden {
		f = string([]rune(f)[:1])
		if strings.Contains(cfg.User, f) || strings.Contains(cfg.Pass, f) {
			cfg.Forbidden = true
		}
	}
	if r.Chance(1, 8) {
		cfg.Conc = 8
	}
	if mode == "fault" {
		cfg.Fault = c18GenFault(r, &cfg)
	}
	return cfg
}

var c18Step1Tokens = []string{"garbage", "empty", "wrong-nonce", "short-nonce", "iter0", "iter-neg", "iter-nan", "bad-salt", "missing-i", "missing-s", "m-extension", "server-error", "final-instead"}
var c18Step2Tokens = []string{"garbage", "empty", "bad-v", "v-notb64", "v-trunc", "v-empty", "e-invalid-proof", "e-other-error", "first-again"}

func c18GenFault(r *core.Rand, cfg *c18Cfg) *c18Fault {
	steps := 1 // token steps
	if cfg.Mech != "PLAIN" {
		steps = 2
	}
	f := &c18Fault{Step: r.Range(-1, steps)}
	if r.Chance(1, 3) {
		f.Step = steps // bias to the last step: the broker's verdict
	}
	raw := cfg.hsVer() == 0
	var kinds []string
	switch {
	case f.Step == -1:
		kinds = []string{"close", "cut"}
	case f.Step == 0:
		kinds = []string{"error", "error", "close", "cut"}
	case raw:
		kinds = []string{"close", "cut"}
	default:
		kinds = []string{"error", "error", "close", "cut"}
	}
	if f.Step >= 1 && cfg.Mech != "PLAIN" {
		kinds = append(kinds, "token", "token", "token")
	}
	f.Kind = core.Pick(r, kinds...)
	switch f.Kind {
	case "error":
		if f.Step == 0 {
			f.Code = core.Pick(r, int16(33), int16(33), int16(34), int16(58), int16(-1), int16(35))
		} else {
			f.Code = core.Pick(r, int16(58), int16(58), int16(34), int16(-1), int16(33))
			f.Keep = r.Chance(1, 3)
		}
	case "cut":
		if r.Bool() {
			f.CutAt = r.Intn(9)
		} else {
			f.CutAt = r.Intn(160)
		}
		f.CutMode = core.Pick(r, "eof", "reset")
	case "token":
		if f.Step == 1 {
			f.Token = core.Pick(r, c18Step1Tokens...)
		} else {
			f.Token = core.Pick(r, c18Step2Tokens...)
		}
	}
	switch cfg.Path {
	case "dialer.Dial":
		f.Conn = core.Pick(r, 0, 0, 1)
	default:
		f.Conn = core.Pick(r, 0, 0, 0, 1, 2)
	}
	if cfg.Conc > 1 {
		f.Conn = 0
	}
	return f
}

// c18Sabotage builds the sabotaged server message from the reference reply.
func c18Sabotage(recipe string, step int, reply []byte, seed uint64) []byte {
	r := core.NewRand(seed)
	s := string(reply)
	fields := strings.Split(s, ",")
	field := func(k string) string {
		for _, f := range fields {
			if strings.HasPrefix(f, k+"=") {
				return f[len(k)+1:]
			}
		}
		return ""
	}
	switch recipe {
	case "garbage":
		return r.Bytes(r.Range(1, 60))
	case "empty":
		return []byte{}
	case "wrong-nonce":
		// a nonce that does not extend the client's
		return []byte(fmt.Sprintf("r=%s,s=%s,i=%s", "Zm9v"+base64.StdEncoding.EncodeToString(r.Bytes(18)), field("s"), field("i")))
	case "short-nonce":
		n := field("r")
		return []byte(fmt.Sprintf("r=%s,s=%s,i=%s", n[:len(n)/4], field("s"), field("i")))
	case "iter0":
		return []byte(fmt.Sprintf("r=%s,s=%s,i=0", field("r"), field("s")))
	case "iter-neg":
		return []byte(fmt.Sprintf("r=%s,s=%s,i=-4096", field("r"), field("s")))
	case "iter-nan":
		return []byte(fmt.Sprintf("r=%s,s=%s,i=4096x", field("r"), field("s")))
	case "bad-salt":
		return []byte(fmt.Sprintf("r=%s,s=%s,i=%s", field("r"), "!!not*base64!!", field("i")))
	case "missing-i":
		return []byte(fmt.Sprintf("r=%s,s=%s", field("r"), field("s")))
	case "missing-s":
		return []byte(fmt.Sprintf("r=%s,i=%s", field("r"), field("i")))
	case "m-extension":
		return []byte("m=mandatory-ext," + s)
	case "server-error":
		return []byte("e=unknown-user")
	case "final-instead":
		return []byte("v=" + base64.StdEncoding.EncodeToString(r.Bytes(32)))
	case "bad-v":
		sig, _ := base64.StdEncoding.DecodeString(field("v"))
		if len(sig) == 0 {
			sig = r.Bytes(32)
		} else {
			sig[r.Intn(len(sig))] ^= byte(1 << r.Intn(8))
		}
		return []byte("v=" + base64.StdEncoding.EncodeToString(sig))
	case "v-notb64":
		return []byte("v=***" + field("v"))
	case "v-trunc":
		sig, _ := base64.StdEncoding.DecodeString(field("v"))
		if len(sig) > 4 {
			sig = sig[:len(sig)-r.Range(1, 4)]
		}
		return []byte("v=" + base64.StdEncoding.EncodeToString(sig))
	case "v-empty":
		return []byte("v=")
	case "e-invalid-proof":
		return []byte("e=invalid-proof")
	case "e-other-error":
		return []byte("e=other-error")
	case "first-again":
		return []byte(fmt.Sprintf("r=%s,s=%s,i=4096", base64.StdEncoding.EncodeToString(r.Bytes(24)), base64.StdEncoding.EncodeToString(r.Bytes(16))))
	}
	return []byte("?")
}

// ---------------------------------------------------------------- run

func runC18(c *core.Ctx) {
	// every fault kind at every step, both handshake versions, every mechanism
	c.Cases("fault", c.N(6000, 600000), func(k *core.Case) {
		cfg := c18GenCfg(k.R, "fault")
		c18Run(k, cfg)
	})
	// every SASLprep atom on its own, in the name and in the password
	atoms := append(append([]c18Atom(nil), c18PrepAtoms...), c18PrepAtomsExtra...)
	c.Cases("atoms", len(atoms)*8, func(k *core.Case) {
		at := atoms[k.Idx/8]
		v := k.Idx % 8
		cfg := c18Cfg{Path: "dialer.Dial", Mech: core.Pick(k.R, "SCRAM-SHA-256", "SCRAM-SHA-512"), Brokers: 1, Leader: 1, Enabled: c18Mechs, CredClass: "prep", Truth: "right", Conc: 1, Iters: 4096, Adv36: true}
		if v&1 == 1 {
			cfg.Path = "transport.Metadata"
		}
		cfg.HsMax = (v >> 1) & 1
		cfg.Atom = fmt.Sprintf("U+%04X", []rune(at.raw)[len([]rune(at.raw))-1])
		if v&4 == 0 {
			cfg.User, cfg.DBUser = "u"+at.raw+"v", "u"+at.norm+"v"
			cfg.Pass, cfg.DBPass = "secret", "secret"
			cfg.Atom += ":name"
		} else {
			cfg.User, cfg.DBUser = "user", "user"
			cfg.Pass, cfg.DBPass = "p"+at.raw+"w", "p"+at.norm+"w"
			cfg.Atom += ":password"
		}
		c18Run(k, cfg)
	})
	// credentials: right / wrong, escaping, SASLprep
	defer c18HostileLength(c)
	c.Cases("creds", c.N(4000, 400000), func(k *core.Case) {
		cfg := c18GenCfg(k.R, "creds")
		c18Run(k, cfg)
	})
}

type c18Op struct {
	err      error
	connID   int64 // fakenet id of the Conn handed out (Dial / DialLeader), 0 otherwise
	firstErr error // error of the first real request on a handed-out Conn
	firstWhy string
}

func c18IsTimeout(err error) bool {
	if err == nil {
		return false
	}
	if errors.Is(err, context.DeadlineExceeded) || fakenet.IsTimeout(err) {
		return true
	}
	s := err.Error()
	return strings.Contains(s, "timeout") || strings.Contains(s, "deadline")
}

func c18ConnID(conn *kafka.Conn) int64 {
	s := conn.LocalAddr().String()
	if i := strings.LastIndex(s, ":"); i >= 0 {
		n, _ := strconv.ParseInt(s[i+1:], 10, 64)
		return n
	}
	return 0
}

const c18Topic = "t"

func c18Run(k *core.Case, cfg c18Cfg) {
	c := k.Ctx
	r := k.R
	k.Describe(cfg.desc())

	// ---- mechanism (the client side under test)
	var mech sasl.Mechanism
	switch cfg.Mech {
	case "PLAIN":
		mech = plain.Mechanism{Username: cfg.User, Password: cfg.Pass}
	default:
		algo := kscram.SHA256
		if cfg.Mech == "SCRAM-SHA-512" {
			algo = kscram.SHA512
		}
		m, err := kscram.Mechanism(algo, cfg.User, cfg.Pass)
		if err != nil {
			// SASLprep refused the name or password: the client fails before
			// sending anything. Acceptable for forbidden code points only.
			c.Eval(1)
			if !cfg.Forbidden {
				k.Viol("c18:good-credentials-rejected:"+cfg.Mech+":mechanism-constructor", fmt.Sprintf("scram.Mechanism refused credentials that SASLprep allows: %v", err), nil)
			} else {
				c.Count("client_refused_saslprep", 1)
			}
			return
		}
		mech = m
	}
	judgeCreds := !(cfg.Forbidden && cfg.Mech != "PLAIN")
	if !judgeCreds {
		c.Count("forbidden_accepted_by_client_not_judged", 1)
	}

	// ---- cluster
	net := fakenet.New()
	net.ChunkMax = cfg.Chunk
	cl := fakecluster.New(net)
	for i := 1; i <= cfg.Brokers; i++ {
		b := cl.AddBroker(int32(i), "")
		b.Versions[fakecluster.KSaslHandshake] = fakecluster.VR{Min: cfg.HsMin, Max: cfg.HsMax}
		if cfg.Adv36 {
			b.Versions[fakecluster.KSaslAuthenticate] = fakecluster.VR{Min: 0, Max: 1}
		} else {
			delete(b.Versions, fakecluster.KSaslAuthenticate)
		}
	}
	cl.AddTopic(c18Topic, 1, func(int) int32 { return cfg.Leader })
	// one record for the reader
	cl.Lock()
	{
		p := cl.Topics[c18Topic].Partitions[0]
		recs := []refcodec.Rec{{Offset: 0, TimestampMs: 1700000000000, Key: []byte("k"), Value: []byte("c18-first")}}
		enc, _ := refcodec.NewBatchV2(recs, 0, -1, 0).Encode(refcodec.CompressOpts{})
		p.AppendStored(&fakecluster.Stored{Bytes: enc, BaseOffset: 0, LastOffset: 0}, recs)
	}
	cl.Unlock()

	users := map[string]string{cfg.DBUser: cfg.DBPass}
	for i := r.Intn(3); i > 0; i-- {
		u := c18SimpleStr(r, r.Range(13, 16)) // longer than any generated simple name: never collides
		users[u] = c18SimpleStr(r, r.Range(0, 8))
	}
	salts := map[string][]byte{}
	for u := range users {
		salts[u] = nil
	}
	{
		var names []string
		for u := range users {
			names = append(names, u)
		}
		sort.Strings(names)
		for _, u := range names {
			salts[u] = r.Bytes(r.Range(4, 32))
		}
	}
	sabSeed := r.Uint64()
	var hookMu sync.Mutex
	faultsFired := 0
	scfg := &fakecluster.SASLConfig{Mechanisms: cfg.Enabled, Users: users, ScramIterations: cfg.Iters, Linger: true,
		Salt: func(u string) []byte { return salts[u] }}
	f := cfg.Fault
	cutMode := func() fakenet.CutMode {
		if f.CutMode == "reset" {
			return fakenet.CutReset
		}
		return fakenet.CutEOF
	}
	if f != nil && f.Step >= 0 {
		scfg.Fault = func(st *fakecluster.SASLStep) *fakecluster.SASLFault {
			if st.Index != f.Step || (f.Conn != 0 && f.Conn != st.Ordinal) {
				return nil
			}
			out := &fakecluster.SASLFault{Kind: f.Kind, Code: f.Code, KeepBytes: f.Keep, CutAt: f.CutAt, CutMode: cutMode(), Label: f.label()}
			if f.Kind == "rawbytes" {
				// a reply frame whose length prefix is negative
				out.Token = []byte{0xff, 0xff, 0xff, 0xff}
				if f.Token == "neg-len-min" {
					out.Token = []byte{0x80, 0, 0, 0}
				}
				// PLAIN's only server message is empty: a client that reads
				// the frame as an empty token is not wrong to go on
				out.Accept = st.Mech == "PLAIN"
			}
			if f.Kind == "token" {
				if st.Reply == nil {
					// the reference server already rejected this step: nothing to sabotage
					return nil
				}
				out.Token = c18Sabotage(f.Token, st.Index, st.Reply, sabSeed+uint64(st.ConnID))
			}
			hookMu.Lock()
			faultsFired++
			hookMu.Unlock()
			return out
		}
	}
	cl.SASL = scfg
	cl.Script = func(rc *fakecluster.ReqCtx) *fakecluster.Action {
		if a := cl.SASLGate(rc); a != nil {
			return a
		}
		ord := cl.SASLConnOrdinal(rc)
		if f != nil && f.Step == -1 && rc.Ev.API == fakecluster.KApiVersions && rc.Ev.AuthState != fakecluster.AuthAuthenticated && (f.Conn == 0 || f.Conn == ord) {
			hookMu.Lock()
			faultsFired++
			hookMu.Unlock()
			return cl.SASLSabotageApiVersions(rc, &fakecluster.SASLFault{Kind: f.Kind, CutAt: f.CutAt, CutMode: cutMode(), Label: f.label()})
		}
		return nil
	}

	// ---- the operation
	ctx, cancel := context.WithTimeout(context.Background(), 40*time.Second)
	defer cancel()
	var cleanup []func()
	defer func() {
		for i := len(cleanup) - 1; i >= 0; i-- {
			cleanup[i]()
		}
	}()

	dialer := &kafka.Dialer{DialFunc: net.Dialer("c18"), SASLMechanism: mech, Timeout: 30 * time.Second, ClientID: "c18"}
	newTransport := func() *kafka.Transport {
		tctx, tcancel := context.WithCancel(context.Background())
		tr := &kafka.Transport{Dial: net.Dialer("c18"), SASL: mech, DialTimeout: 30 * time.Second, MetadataTTL: 24 * time.Hour, IdleTimeout: time.Hour, ClientID: "c18", Context: tctx}
		cleanup = append(cleanup, func() { tcancel(); tr.CloseIdleConnections() })
		return tr
	}
	addr := "b1:9092"
	var transport *kafka.Transport
	if strings.HasPrefix(cfg.Path, "transport.") || cfg.Path == "writer" {
		transport = newTransport()
	}
	var cleanupMu sync.Mutex
	closeLater := func(fn func()) {
		cleanupMu.Lock()
		cleanup = append(cleanup, fn)
		cleanupMu.Unlock()
	}

	do := func(g int) (op c18Op) {
		switch cfg.Path {
		case "dialer.Dial":
			conn, err := dialer.DialContext(ctx, "tcp", addr)
			op.err = err
			if err == nil {
				op.connID = c18ConnID(conn)
				closeLater(func() { conn.Close() })
				conn.SetDeadline(time.Now().Add(30 * time.Second))
				parts, err := conn.ReadPartitions(c18Topic)
				if err != nil {
					op.firstErr, op.firstWhy = err, "ReadPartitions"
				} else if len(parts) != 1 || parts[0].Leader.ID != int(cfg.Leader) {
					op.firstErr, op.firstWhy = fmt.Errorf("partitions %+v", parts), "ReadPartitions result"
				}
			}
		case "dialer.DialLeader":
			conn, err := dialer.DialLeader(ctx, "tcp", addr, c18Topic, 0)
			op.err = err
			if err == nil {
				op.connID = c18ConnID(conn)
				closeLater(func() { conn.Close() })
				conn.SetDeadline(time.Now().Add(30 * time.Second))
				off, err := conn.ReadLastOffset()
				if err != nil {
					op.firstErr, op.firstWhy = err, "ReadLastOffset"
				} else if off != 1 {
					op.firstErr, op.firstWhy = fmt.Errorf("last offset %d, want 1", off), "ReadLastOffset result"
				}
			}
		case "dialer.LookupPartitions":
			parts, err := dialer.LookupPartitions(ctx, "tcp", addr, c18Topic)
			op.err = err
			if err == nil && (len(parts) != 1 || parts[0].Leader.ID != int(cfg.Leader)) {
				op.firstErr, op.firstWhy = fmt.Errorf("partitions %+v", parts), "LookupPartitions result"
			}
		case "transport.Metadata":
			client := &kafka.Client{Addr: kafka.TCP(addr), Transport: transport, Timeout: 30 * time.Second}
			res, err := client.Metadata(ctx, &kafka.MetadataRequest{Topics: []string{c18Topic}})
			op.err = err
			if err == nil && (len(res.Topics) != 1 || len(res.Topics[0].Partitions) != 1 || res.Topics[0].Partitions[0].Leader.ID != int(cfg.Leader)) {
				op.firstErr, op.firstWhy = fmt.Errorf("metadata %+v", res.Topics), "Metadata result"
			}
		case "transport.Produce":
			client := &kafka.Client{Addr: kafka.TCP(addr), Transport: transport, Timeout: 30 * time.Second}
			res, err := client.Produce(ctx, &kafka.ProduceRequest{Topic: c18Topic, Partition: 0, RequiredAcks: kafka.RequireOne,
				Records: kafka.NewRecordReader(kafka.Record{Time: time.UnixMilli(1700000000001), Value: kafka.NewBytes([]byte(fmt.Sprintf("c18-produce-%d", g)))})})
			op.err = err
			if err == nil && res.Error != nil {
				op.err = res.Error
			}
		case "writer":
			w := &kafka.Writer{Addr: kafka.TCP(addr), Topic: c18Topic, Transport: transport, MaxAttempts: 1, BatchTimeout: time.Millisecond, BatchSize: 1,
				RequiredAcks: kafka.RequireOne, ReadTimeout: 30 * time.Second, WriteTimeout: 30 * time.Second, Balancer: &kafka.RoundRobin{}}
			op.err = w.WriteMessages(ctx, kafka.Message{Value: []byte(fmt.Sprintf("c18-writer-%d", g))})
			w.Close()
		case "reader":
			rd := kafka.NewReader(kafka.ReaderConfig{Brokers: []string{addr}, Topic: c18Topic, Partition: 0, Dialer: dialer, MinBytes: 1, MaxBytes: 1 << 20,
				MaxWait: 10 * time.Millisecond, ReadBatchTimeout: 30 * time.Second, ReadBackoffMin: time.Millisecond, ReadBackoffMax: 2 * time.Millisecond, ReadLagInterval: -1, MaxAttempts: 2})
			defer rd.Close()
			// The reader redials for ever; it is given until the brokers have
			// seen enough failed exchanges to know that it cannot get through.
			rctx, rcancel := context.WithCancel(ctx)
			defer rcancel()
			stop := make(chan struct{})
			go func() {
				defer rcancel()
				deadline := time.Now().Add(20 * time.Second)
				for time.Now().Before(deadline) {
					select {
					case <-stop:
						return
					default:
					}
					failed := 0
					for _, ci := range scfg.Conns() {
						if ci.FailedAt != 0 {
							failed++
						}
					}
					if failed >= 3 {
						return
					}
					time.Sleep(200 * time.Microsecond)
				}
			}()
			m, err := rd.FetchMessage(rctx)
			close(stop)
			op.err = err
			if err == nil && (m.Offset != 0 || string(m.Value) != "c18-first") {
				op.firstErr, op.firstWhy = fmt.Errorf("message %d %q", m.Offset, m.Value), "FetchMessage result"
			}
		}
		return
	}

	ops := make([]c18Op, cfg.Conc)
	if cfg.Conc == 1 {
		ops[0] = do(0)
	} else {
		var wg sync.WaitGroup
		for g := 0; g < cfg.Conc; g++ {
			wg.Add(1)
			go func(g int) {
				defer wg.Done()
				ops[g] = do(g)
			}(g)
		}
		wg.Wait()
	}

	// ---- which failed connections did the client leave open? (before the
	// harness closes anything) The close is synchronous in a correct client:
	// one 3 s allowance per case.
	notClosed := map[int64]bool{}
	closeDeadline := time.Now().Add(3 * time.Second)
	for _, ci := range scfg.Conns() {
		if ci.FailedAt == 0 {
			continue
		}
		cn := ci.Conn.Peer()
		closed := cn.ClosedByClient()
		for !closed && time.Now().Before(closeDeadline) {
			time.Sleep(time.Millisecond)
			closed = cn.ClosedByClient()
		}
		if !closed {
			notClosed[ci.ConnID] = true
		}
	}

	// ---- tear down: library objects first, then whatever is still open;
	// the brokers then drain what the client wrote and their handlers end,
	// so that the journal is complete and at rest when it is judged
	for i := len(cleanup) - 1; i >= 0; i-- {
		cleanup[i]()
	}
	cleanup = nil
	cancel()
	for _, cn := range net.Conns() {
		if !cn.ClosedByClient() {
			cn.Close()
		}
	}
	quiet := cl.Quiesce(20 * time.Second)
	cl.Close()
	if !quiet {
		c.Inconclusive("broker handlers still running 20 s after every connection was closed: " + k.ID)
		return
	}

	// ---- judge
	c18Judge(k, cfg, cl, scfg, net, ops, judgeCreds, notClosed)
}

func c18Judge(k *core.Case, cfg c18Cfg, cl *fakecluster.Cluster, scfg *fakecluster.SASLConfig, net *fakenet.Net, ops []c18Op, judgeCreds bool, notClosed map[int64]bool) {
	c := k.Ctx
	mech := cfg.Mech
	hs := fmt.Sprintf("hs%d", cfg.hsVer())
	infos := scfg.Conns()
	byID := map[int64]fakecluster.SASLConnInfo{}
	authenticated, failed, injected := 0, 0, 0
	for _, ci := range infos {
		byID[ci.ConnID] = ci
		if ci.State == fakecluster.AuthAuthenticated {
			authenticated++
		}
		if ci.FailedAt != 0 {
			failed++
			if ci.Injected || strings.Contains(ci.FailKind, "@-1") {
				injected++
			}
		}
	}
	c.Count("exchanges_completed", int64(authenticated))
	c.Count("exchanges_failed", int64(failed))
	c.Count("connections", int64(len(net.Conns())))

	connDesc := func(id int64) map[string]any {
		ci, ok := byID[id]
		if !ok {
			return map[string]any{"conn": id, "sasl": "no SASL request seen"}
		}
		return map[string]any{"conn": id, "ordinal": ci.Ordinal, "broker": ci.Broker, "mech": ci.Mech, "hs_version": ci.HsVer, "raw": ci.Raw, "state": ci.State, "steps": ci.Steps,
			"fail_kind": ci.FailKind, "fail_step": ci.FailStep, "failed_at": ci.FailedAt, "authenticated_at": ci.AuthenticatedAt, "linger_bytes": ci.LingerBytes, "user": strconv.QuoteToASCII(ci.User)}
	}
	journalOf := func(id int64) []string {
		var out []string
		for _, ev := range cl.Journal() {
			if ev.ConnID == id {
				out = append(out, fmt.Sprintf("seq=%d api=%d v%d state=%s fate=%s code=%d", ev.Seq, ev.API, ev.Version, ev.AuthState, ev.Fate, ev.Code))
			}
		}
		return out
	}

	// (a) nothing but the exchange before authentication
	journal := cl.Journal()
	for _, ev := range journal {
		c.Count("journal:"+map[bool]string{true: "exchange", false: "other"}[ev.API == fakecluster.KApiVersions || ev.API == fakecluster.KSaslHandshake || ev.API == fakecluster.KSaslAuthenticate || ev.API == fakecluster.APIRawToken]+":"+ev.AuthState, 1)
		switch ev.API {
		case fakecluster.KApiVersions, fakecluster.KSaslHandshake, fakecluster.KSaslAuthenticate, fakecluster.APIRawToken, fakecluster.APILinger:
			if ev.API == fakecluster.KSaslAuthenticate && ev.Extra["framed_request_in_raw_mode"] == true {
				k.Viol("c18:framed-authenticate-in-raw-mode:"+cfg.Path+":"+mech, "after a v0 SaslHandshake the client sent a framed SaslAuthenticate request where the broker expects a raw token",
					map[string]any{"conn": connDesc(ev.ConnID), "journal": journalOf(ev.ConnID)})
			}
			continue
		}
		if refcodec.APIs[ev.API] == nil || strings.HasPrefix(ev.Problem, "request header") {
			// not a Kafka request: reported through Problems() below
			continue
		}
		if ev.AuthState != fakecluster.AuthAuthenticated {
			name := refcodec.APIs[ev.API].Name
			k.Viol("c18:request-before-auth:"+cfg.Path+":"+name, fmt.Sprintf("%s v%d arrived on connection %d in authentication state %q (mechanism %s, %s)", name, ev.Version, ev.ConnID, ev.AuthState, mech, hs),
				map[string]any{"conn": connDesc(ev.ConnID), "journal": journalOf(ev.ConnID)})
		}
	}
	for _, p := range cl.Problems() {
		switch p.Kind {
		case "bad-header", "unknown-api", "bad-request-body", "bad-frame", "unknown-version", "version-out-of-range":
			before := p.Ev != nil && p.Ev.AuthState != fakecluster.AuthAuthenticated
			if p.Ev == nil {
				// frame-size garbage: no event; the detail names the connection
				var bid int32
				var cid int64
				if n, _ := fmt.Sscanf(p.Detail, "broker %d conn %d:", &bid, &cid); n == 2 {
					ci, seen := byID[cid]
					before = !seen || ci.State != fakecluster.AuthAuthenticated
				}
			}
			if before {
				k.Viol("c18:undecodable-before-auth:"+cfg.Path+":"+p.Kind, "bytes that are not part of the exchange arrived before authentication: "+p.Detail, nil)
			}
		}
	}

	// (b) per failed connection: nothing sent afterwards, closed by the client
	for _, ci := range infos {
		if ci.FailedAt == 0 {
			continue
		}
		c.Count(fmt.Sprintf("failure:%s", c18FailClass(ci)), 1)
		cn := ci.Conn.Peer()
		var late []string
		for _, te := range cn.Tap() {
			if te.Write && te.Seq > ci.FailedAt {
				late = append(late, fmt.Sprintf("seq=%d off=%d n=%d", te.Seq, te.Off, te.N))
			}
		}
		if len(late) > 0 || ci.LingerBytes > 0 {
			k.Viol("c18:sent-after-failure:"+cfg.Path+":"+c18FailClass(ci), fmt.Sprintf("after the broker failed the exchange on connection %d (%s at step %d, logical time %d) the client wrote %d more chunk(s)", ci.ConnID, ci.FailKind, ci.FailStep, ci.FailedAt, len(late)),
				map[string]any{"conn": connDesc(ci.ConnID), "late_writes": late, "journal": journalOf(ci.ConnID)})
		}
		if notClosed[ci.ConnID] {
			k.TimeViol("c18:conn-not-closed:"+cfg.Path+":"+c18FailClass(ci), fmt.Sprintf("connection %d whose exchange failed (%s at step %d) was not closed by the client within 3 s after the operation returned", ci.ConnID, ci.FailKind, ci.FailStep),
				map[string]any{"conn": connDesc(ci.ConnID), "journal": journalOf(ci.ConnID)})
		}
	}

	// per operation
	mustFail := judgeCreds && (!cfg.right() || !cfg.mechEnabled())
	mustSucceed := judgeCreds && cfg.right() && cfg.mechEnabled() && injected == 0
	if cfg.Fault != nil && cfg.Fault.Kind == "rawbytes" {
		// a reply frame with a negative length prefix is malformed: failing the dial is right, and for
		// PLAIN (whose only server message is empty) reading it as an empty token is tolerated too
		mustSucceed = false
	}
	nontrivial := cfg.Fault != nil || !cfg.right() || !cfg.mechEnabled() || cfg.CredClass == "escape" || cfg.CredClass == "prep" || cfg.CredClass == "forbidden"
	for g, op := range ops {
		c.Eval(1)
		if op.err == nil {
			c.Count("dials_ok", 1)
		} else {
			c.Count("dials_err", 1)
		}
		wit := func() map[string]any {
			w := map[string]any{"goroutine": g, "error": fmt.Sprint(op.err)}
			var cs []any
			for _, ci := range infos {
				cs = append(cs, connDesc(ci.ConnID))
			}
			w["connections"] = cs
			return w
		}
		if op.err == nil && op.connID != 0 {
			// the Conn handed out must sit on a connection the server authenticated
			ci, seen := byID[op.connID]
			switch {
			case seen && ci.FailedAt != 0:
				k.Viol("c18:dial-succeeded-after-failure:"+cfg.Path+":"+mech+":"+c18FailClass(ci), fmt.Sprintf("%s returned a Conn (connection %d) although the broker failed its exchange: %s at step %d", cfg.Path, op.connID, ci.FailKind, ci.FailStep), wit())
			case !seen || ci.State != fakecluster.AuthAuthenticated:
				st := "none"
				if seen {
					st = ci.State
				}
				k.Viol("c18:dial-succeeded-unauthenticated:"+cfg.Path+":"+mech+":"+hs+":"+st, fmt.Sprintf("%s returned a Conn (connection %d) whose exchange the broker has not accepted (state %q)", cfg.Path, op.connID, st), wit())
			}
		}
		if op.err == nil && op.connID == 0 && authenticated == 0 {
			k.Viol("c18:dial-succeeded-after-failure:"+cfg.Path+":"+mech+":no-authenticated-connection", fmt.Sprintf("%s succeeded although the brokers authenticated no connection", cfg.Path), wit())
		}
		if op.err == nil && mustFail {
			if !cfg.mechEnabled() {
				k.Viol("c18:dial-succeeded-after-failure:"+cfg.Path+":"+mech+":unsupported-mechanism", fmt.Sprintf("%s succeeded although the brokers do not enable %s", cfg.Path, mech), wit())
			} else {
				k.Viol("c18:bad-credentials-accepted:"+mech+":"+cfg.Truth, fmt.Sprintf("%s succeeded with wrong credentials (%s)", cfg.Path, cfg.Truth), wit())
			}
		}
		if op.err != nil && mustSucceed {
			if c18IsTimeout(op.err) {
				k.TimeViol("c18:good-credentials-rejected:"+mech+":"+cfg.Path+":timeout", fmt.Sprintf("%s with right credentials ran into a 30 s time-out: %v", cfg.Path, op.err), wit())
			} else {
				key := "c18:good-credentials-rejected:" + mech + ":" + hs + ":" + cfg.CredClass
				if cfg.Atom != "" {
					key = "c18:good-credentials-rejected:saslprep:" + cfg.Atom
				}
				k.Viol(key, fmt.Sprintf("%s failed with right credentials (class %s, handshake v%d): %v", cfg.Path, cfg.CredClass, cfg.hsVer(), op.err), wit())
			}
		}
		if op.err == nil && op.firstErr != nil && injected == 0 {
			if c18IsTimeout(op.firstErr) {
				k.TimeViol("c18:first-request-failed:"+cfg.Path+":"+mech+":"+hs+":timeout", fmt.Sprintf("first request after authentication (%s) timed out: %v", op.firstWhy, op.firstErr), wit())
			} else {
				k.Viol("c18:first-request-failed:"+cfg.Path+":"+mech+":"+hs, fmt.Sprintf("first request after a successful authentication failed (%s): %v", op.firstWhy, op.firstErr), wit())
			}
		}
	}
	if judgeCreds && mustFail && authenticated > 0 {
		// the reference server accepted what the scenario calls wrong: the harness is inconsistent
		panic(fmt.Sprintf("c18 harness: reference server authenticated %d connection(s) in a scenario with wrong credentials / disabled mechanism: %+v", authenticated, cfg.desc()))
	}
	if nontrivial {
		c.Distinct(fmt.Sprintf("%s|%s|%d-%d|%s|%s|%v|%s|%d", cfg.Path, mech, cfg.HsMin, cfg.HsMax, cfg.CredClass, cfg.Truth, cfg.mechEnabled(), cfg.Fault.label(), cfg.Conc))
	}
	if cfg.Fault != nil {
		c.Count(fmt.Sprintf("fault:%s@step%d", cfg.Fault.Kind, cfg.Fault.Step), 1)
		if injected == 0 {
			c.Count("fault_planned_not_reached", 1)
		}
	}
	c.Count("path:"+cfg.Path, int64(len(ops)))
	c.Count("mech:"+mech+":"+hs, int64(len(ops)))
	c.Count("truth:"+cfg.Truth, int64(len(ops)))
	if cfg.Conc > 1 {
		c.Count("concurrent_cases", 1)
	}
	c.Sample(map[string]any{"case": cfg.desc(), "connections": len(net.Conns()), "authenticated": authenticated, "failed": failed, "journal_events": len(journal),
		"errors": func() []string {
			var out []string
			for _, op := range ops {
				out = append(out, fmt.Sprint(op.err))
			}
			return out
		}()})
}

// c18FailClass names a failure for violation keys (no per-run detail).
func c18FailClass(ci fakecluster.SASLConnInfo) string {
	k := ci.FailKind
	if i := strings.Index(k, ": "); i >= 0 { // "rejected: <why>"
		k = k[:i]
	}
	k = strings.ReplaceAll(k, " ", "-")
	if len(k) > 40 {
		k = k[:40]
	}
	return k
}

// c18HostileLength: in raw mode the broker answers a token with a frame whose length prefix is
// negative. The client must fail the dial like for any other malformed server
// message; for PLAIN, whose only server message is empty, treating the frame
// as an empty token is tolerated (success is not judged).
func c18HostileLength(c *core.Ctx) {
	paths := []string{"dialer.Dial", "transport.Metadata", "dialer.DialLeader", "transport.Produce"}
	c.Cases("hostile-length", len(paths)*len(c18Mechs)*2*2, func(k *core.Case) {

		i := k.Idx
		cfg := c18Cfg{Brokers: 1, Leader: 1, Enabled: c18Mechs, CredClass: "simple", Truth: "right", Conc: 1, Iters: 4096, User: "user", Pass: "secret", DBUser: "user", DBPass: "secret"}
		cfg.Path = paths[i%len(paths)]
		i /= len(paths)
		cfg.Mech = c18Mechs[i%len(c18Mechs)]
		i /= len(c18Mechs)
		cfg.Fault = &c18Fault{Kind: "rawbytes", Token: []string{"neg-len", "neg-len-min"}[i%2]}
		i /= 2
		cfg.Fault.Step = 1 + i%2
		if cfg.Mech == "PLAIN" {
			cfg.Fault.Step = 1
		}
		cfg.Adv36 = k.R.Bool()
		if os.Getenv("C18_ISOLATED_CHILD") == "" {
			// run the case in a child process, so that a process death
			// costs this shard nothing else (and a replay reports it)
			k.Describe(cfg.desc())
			c18Isolated(k)
			return
		}
		c18Run(k, cfg)
	})
}

// c18Isolated re-executes verifrun for this one case and folds the child's
// result into this shard's. A child that dies without a result is a process
// death caused by the case.
func c18Isolated(k *core.Case) {
	c := k.Ctx
	exe, err := os.Executable()
	if err != nil {
		panic("c18 harness: " + err.Error())
	}
	out := filepath.Join(os.TempDir(), fmt.Sprintf("c18-iso-%d-%s-%d.json", os.Getpid(), k.List, k.Idx))
	defer os.Remove(out)
	ctx, cancel := context.WithTimeout(context.Background(), 80*time.Second)
	defer cancel()
	cmd := exec.CommandContext(ctx, exe, "-prop", c.Prop.ID, "-tier", c.Tier, "-seed", fmt.Sprint(c.Seed), "-only", fmt.Sprintf("%s/%d", k.List, k.Idx), "-out", out)
	cmd.Env = append(os.Environ(), "C18_ISOLATED_CHILD=1")
	var stderr bytes.Buffer
	cmd.Stderr = &stderr
	cmd.Stdout = &stderr
	runErr := cmd.Run()
	c.Count("isolated_child_runs", 1)
	b, rerr := os.ReadFile(out)
	if rerr == nil {
		var res core.ShardResult
		if json.Unmarshal(b, &res) != nil || !res.Done {
			panic("c18 harness: unreadable child result")
		}
		c.Eval(int(res.Evaluations))
		for key, n := range res.Counters {
			if !strings.HasPrefix(key, "violations:") {
				c.Count(key, n)
			}
		}
		for _, v := range res.Violations {
			c.Violation(v.Key, k.ID, v.What, v.Witness)
		}
		c.Distinct("isolated|" + k.ID)
		return
	}
	se := stderr.String()
	if strings.Contains(se, "HARNESS-PANIC") || ctx.Err() != nil {
		fmt.Fprintf(os.Stderr, "c18: isolated child for %s failed: %v\n%s\n", k.ID, runErr, se)
		if ctx.Err() != nil {
			c.Inconclusive("isolated child timed out: " + k.ID)
			return
		}
		os.Exit(2)
	}
	c.Eval(1)
	first := se
	if i := strings.Index(se, "panic:"); i >= 0 {
		first = se[i:]
	} else if i := strings.Index(se, "fatal error:"); i >= 0 {
		first = se[i:]
	}
	line := first
	if i := strings.Index(line, "\n"); i >= 0 {
		line = line[:i]
	}
	if len(first) > 3000 {
		first = first[:3000]
	}
	k.Viol("c18:process-death:"+core.PanicSite(first), fmt.Sprintf("the client process died while a raw-mode SASL answer with a negative length prefix was read (%v): %s", runErr, line), map[string]any{"stderr": first})
}
