package refcodec

import (
	"bytes"
	"compress/gzip"
	"encoding/binary"
	"fmt"
	"hash/crc32"
	"io"

	xerial "github.com/eapache/go-xerial-snappy"
	"github.com/golang/snappy"
	"github.com/klauspost/compress/zstd"
	lz4 "github.com/pierrec/lz4"
)

type Hdr struct {
	Key   string
	Value []byte // nil = null
}

type Rec struct {
	Offset      int64
	TimestampMs int64
	Key, Value  []byte // nil = null
	Headers     []Hdr
}

const (
	CodecNone   = 0
	CodecGzip   = 1
	CodecSnappy = 2
	CodecLz4    = 3
	CodecZstd   = 4
)

var CodecNames = []string{"none", "gzip", "snappy", "lz4", "zstd"}

var castagnoli = crc32.MakeTable(crc32.Castagnoli)

// SnappyRaw makes Compress emit one raw snappy block instead of xerial framing.
type CompressOpts struct {
	SnappyRaw bool
}

func Compress(codec int, b []byte, o CompressOpts) ([]byte, error) {
	switch codec {
	case CodecNone:
		return b, nil
	case CodecGzip:
		var buf bytes.Buffer
		w := gzip.NewWriter(&buf)
		w.Write(b)
		w.Close()
		return buf.Bytes(), nil
	case CodecSnappy:
		if o.SnappyRaw {
			return snappy.Encode(nil, b), nil
		}
		// own xerial framing over raw blocks of at most 32 KiB
		out := []byte{0x82, 'S', 'N', 'A', 'P', 'P', 'Y', 0, 0, 0, 0, 1, 0, 0, 0, 1}
		for len(b) > 0 {
			n := len(b)
			if n > 32*1024 {
				n = 32 * 1024
			}
			blk := snappy.Encode(nil, b[:n])
			out = binary.BigEndian.AppendUint32(out, uint32(len(blk)))
			out = append(out, blk...)
			b = b[n:]
		}
		return out, nil
	case CodecLz4:
		var buf bytes.Buffer
		w := lz4.NewWriter(&buf)
		w.Write(b)
		w.Close()
		return buf.Bytes(), nil
	case CodecZstd:
		enc, err := zstd.NewWriter(nil)
		if err != nil {
			return nil, err
		}
		defer enc.Close()
		return enc.EncodeAll(b, nil), nil
	}
	return nil, fmt.Errorf("refcodec: unknown codec %d", codec)
}

func Decompress(codec int, b []byte) ([]byte, error) {
	switch codec {
	case CodecNone:
		return b, nil
	case CodecGzip:
		r, err := gzip.NewReader(bytes.NewReader(b))
		if err != nil {
			return nil, err
		}
		return io.ReadAll(r)
	case CodecSnappy:
		// xerial.Decode handles both framed and raw input
		return xerial.Decode(b)
	case CodecLz4:
		return io.ReadAll(lz4.NewReader(bytes.NewReader(b)))
	case CodecZstd:
		dec, err := zstd.NewReader(nil)
		if err != nil {
			return nil, err
		}
		defer dec.Close()
		return dec.DecodeAll(b, nil)
	}
	return nil, fmt.Errorf("refcodec: unknown codec %d", codec)
}

// ---------------------------------------------------------------- legacy messages (magic 0 / 1)

func encodeLegacyMessage(magic int, attr int8, offset, ts int64, key, value []byte) []byte {
	w := &W{}
	w.I64(offset)
	w.I32(0) // size
	w.I32(0) // crc
	w.I8(int64(magic))
	w.I8(int64(attr))
	if magic >= 1 {
		w.I64(ts)
	}
	if key == nil {
		w.I32(-1)
	} else {
		w.I32(int64(len(key)))
		w.B = append(w.B, key...)
	}
	if value == nil {
		w.I32(-1)
	} else {
		w.I32(int64(len(value)))
		w.B = append(w.B, value...)
	}
	binary.BigEndian.PutUint32(w.B[8:], uint32(len(w.B)-12))
	binary.BigEndian.PutUint32(w.B[12:], crc32.ChecksumIEEE(w.B[16:]))
	return w.B
}

// EncodeLegacy encodes recs (absolute offsets in Rec.Offset) as magic 0 or 1
// messages; with a codec, as one wrapper message whose value is the
// compressed inner message set (magic 1: inner offsets relative 0..n-1,
// wrapper offset = last absolute offset, wrapper timestamp = max timestamp;
// magic 0: inner offsets absolute).
func EncodeLegacy(magic int, codec int, recs []Rec, o CompressOpts) ([]byte, error) {
	var out []byte
	if codec == CodecNone {
		for _, r := range recs {
			out = append(out, encodeLegacyMessage(magic, 0, r.Offset, r.TimestampMs, r.Key, r.Value)...)
		}
		return out, nil
	}
	if len(recs) == 0 {
		return nil, nil
	}
	var inner []byte
	maxTs := int64(-1)
	for i, r := range recs {
		off := r.Offset
		if magic >= 1 {
			// relative inner offsets; gaps left by compaction are preserved
			off = r.Offset - recs[0].Offset
		}
		_ = i
		if r.TimestampMs > maxTs {
			maxTs = r.TimestampMs
		}
		inner = append(inner, encodeLegacyMessage(magic, 0, off, r.TimestampMs, r.Key, r.Value)...)
	}
	comp, err := Compress(codec, inner, o)
	if err != nil {
		return nil, err
	}
	return encodeLegacyMessage(magic, int8(codec), recs[len(recs)-1].Offset, maxTs, nil, comp), nil
}

// ---------------------------------------------------------------- record batch v2

type BatchV2 struct {
	BaseOffset           int64
	PartitionLeaderEpoch int32
	Attributes           int16 // codec | 0x10 transactional | 0x20 control | 0x08 log-append-time
	LastOffsetDelta      int32
	FirstTimestamp       int64
	MaxTimestamp         int64
	ProducerID           int64
	ProducerEpoch        int16
	BaseSequence         int32
	Records              []Rec // Offset absolute
	// NumRecords overrides the count field when >= 0 (hostile layouts).
	NumRecordsOverride int32
}

func (b *BatchV2) Codec() int    { return int(b.Attributes & 7) }
func (b *BatchV2) Control() bool { return b.Attributes&0x20 != 0 }

// NewBatchV2 builds a well-formed batch for recs (absolute offsets, need not
// be contiguous). lastOffset, when >= the last record's offset, sets
// lastOffsetDelta (compacted tail); pass -1 for "last record".
func NewBatchV2(recs []Rec, baseOffset int64, lastOffset int64, codec int) *BatchV2 {
	b := &BatchV2{BaseOffset: baseOffset, PartitionLeaderEpoch: 0, Attributes: int16(codec), ProducerID: -1, ProducerEpoch: -1, BaseSequence: -1, NumRecordsOverride: -1}
	b.Records = recs
	if len(recs) > 0 {
		b.FirstTimestamp = recs[0].TimestampMs
		b.MaxTimestamp = recs[0].TimestampMs
		for _, r := range recs {
			if r.TimestampMs > b.MaxTimestamp {
				b.MaxTimestamp = r.TimestampMs
			}
		}
		if lastOffset < recs[len(recs)-1].Offset {
			lastOffset = recs[len(recs)-1].Offset
		}
	}
	if lastOffset < baseOffset {
		lastOffset = baseOffset
	}
	b.LastOffsetDelta = int32(lastOffset - baseOffset)
	return b
}

func encodeRecordV2(r Rec, baseOffset, firstTs int64) []byte {
	body := &W{}
	body.I8(0)
	body.Varint(r.TimestampMs - firstTs)
	body.Varint(r.Offset - baseOffset)
	if r.Key == nil {
		body.Varint(-1)
	} else {
		body.Varint(int64(len(r.Key)))
		body.B = append(body.B, r.Key...)
	}
	if r.Value == nil {
		body.Varint(-1)
	} else {
		body.Varint(int64(len(r.Value)))
		body.B = append(body.B, r.Value...)
	}
	body.Varint(int64(len(r.Headers)))
	for _, h := range r.Headers {
		body.Varint(int64(len(h.Key)))
		body.B = append(body.B, h.Key...)
		if h.Value == nil {
			body.Varint(-1)
		} else {
			body.Varint(int64(len(h.Value)))
			body.B = append(body.B, h.Value...)
		}
	}
	w := &W{}
	w.Varint(int64(len(body.B)))
	w.B = append(w.B, body.B...)
	return w.B
}

func (b *BatchV2) Encode(o CompressOpts) ([]byte, error) {
	var recs []byte
	for _, r := range b.Records {
		recs = append(recs, encodeRecordV2(r, b.BaseOffset, b.FirstTimestamp)...)
	}
	payload, err := Compress(b.Codec(), recs, o)
	if err != nil {
		return nil, err
	}
	w := &W{}
	w.I64(b.BaseOffset)
	w.I32(0) // batch length
	w.I32(int64(b.PartitionLeaderEpoch))
	w.I8(2)
	w.I32(0) // crc
	w.I16(int64(b.Attributes))
	w.I32(int64(b.LastOffsetDelta))
	w.I64(b.FirstTimestamp)
	w.I64(b.MaxTimestamp)
	w.I64(b.ProducerID)
	w.I16(int64(b.ProducerEpoch))
	w.I32(int64(b.BaseSequence))
	n := int32(len(b.Records))
	if b.NumRecordsOverride >= 0 {
		n = b.NumRecordsOverride
	}
	w.I32(int64(n))
	w.B = append(w.B, payload...)
	binary.BigEndian.PutUint32(w.B[8:], uint32(len(w.B)-12))
	binary.BigEndian.PutUint32(w.B[17:], crc32.Checksum(w.B[21:], castagnoli))
	return w.B, nil
}

// FixCRCv2 recomputes the checksum of an encoded v2 batch in place.
func FixCRCv2(b []byte) {
	if len(b) >= 61 {
		binary.BigEndian.PutUint32(b[17:], crc32.Checksum(b[21:], castagnoli))
	}
}

// ---------------------------------------------------------------- strict decoding

// DecodedBatch is one physical unit of a record set: a v2 batch, or (magic
// 0/1) a single message or a compressed wrapper with its inner messages.
type DecodedBatch struct {
	Magic           int
	Codec           int
	BaseOffset      int64 // v2: base offset; legacy: offset field of the (wrapper) message
	LastOffsetDelta int32
	FirstTimestamp  int64
	MaxTimestamp    int64
	Attributes      int16
	ProducerID      int64
	Count           int32
	Records         []Rec // absolute offsets reconstructed
	// RelativeInner: legacy compressed wrapper used relative inner offsets.
	RelativeInner bool
	Wrapper       bool
	// MaxTimestampOK: the header's max timestamp equals the records' maximum.
	MaxTimestampOK bool
	Size           int
}

type StrictOpts struct {
	// Produce: apply the checks a broker applies to produced data (offset
	// deltas 0..n-1, lastOffsetDelta = n-1, count > 0).
	Produce bool
}

func decodeLegacyOne(r *R, depth int) (off int64, magic int, attr int8, ts int64, key, value []byte, err error) {
	start := r.Off
	off = r.I64()
	size := r.I32()
	if r.Err != nil {
		return 0, 0, 0, 0, nil, nil, r.Err
	}
	if size < 14 || int(size) > r.Remain() {
		return 0, 0, 0, 0, nil, nil, fmt.Errorf("refcodec: legacy message at %d: size %d out of bounds (remain %d)", start, size, r.Remain())
	}
	body := r.take(int(size))
	mr := &R{B: body}
	crc := uint32(mr.I32())
	if crc32.ChecksumIEEE(body[4:]) != crc {
		return 0, 0, 0, 0, nil, nil, fmt.Errorf("refcodec: legacy message at %d: crc mismatch", start)
	}
	magic = int(mr.I8())
	attr = int8(mr.I8())
	if magic > 1 || magic < 0 {
		return 0, 0, 0, 0, nil, nil, fmt.Errorf("refcodec: legacy message at %d: magic %d", start, magic)
	}
	if attr&^0x0f != 0 {
		return 0, 0, 0, 0, nil, nil, fmt.Errorf("refcodec: legacy message at %d: unknown attribute bits %#x", start, attr)
	}
	if magic == 1 {
		ts = mr.I64()
	}
	kl := mr.I32()
	if kl < -1 {
		return 0, 0, 0, 0, nil, nil, fmt.Errorf("refcodec: legacy message at %d: key length %d", start, kl)
	}
	if kl >= 0 {
		key = append([]byte{}, mr.take(int(kl))...)
	}
	vl := mr.I32()
	if vl < -1 {
		return 0, 0, 0, 0, nil, nil, fmt.Errorf("refcodec: legacy message at %d: value length %d", start, vl)
	}
	if vl >= 0 {
		value = append([]byte{}, mr.take(int(vl))...)
	}
	if mr.Err != nil {
		return 0, 0, 0, 0, nil, nil, fmt.Errorf("refcodec: legacy message at %d: %v", start, mr.Err)
	}
	if mr.Remain() != 0 {
		return 0, 0, 0, 0, nil, nil, fmt.Errorf("refcodec: legacy message at %d: %d trailing bytes inside the message", start, mr.Remain())
	}
	return
}

// DecodeRecordSet strictly decodes a complete record set (no partial tail).
func DecodeRecordSet(b []byte, o StrictOpts) ([]DecodedBatch, error) {
	var out []DecodedBatch
	r := &R{B: b}
	for r.Remain() > 0 {
		if r.Remain() < 17 {
			return out, fmt.Errorf("refcodec: %d stray bytes at the end of the record set", r.Remain())
		}
		magic := int(b[r.Off+16])
		start := r.Off
		switch magic {
		case 0, 1:
			off, mg, attr, ts, key, value, err := decodeLegacyOne(r, 0)
			if err != nil {
				return out, err
			}
			codec := int(attr & 7)
			d := DecodedBatch{Magic: mg, Codec: codec, BaseOffset: off, Attributes: int16(attr), Size: r.Off - start, MaxTimestampOK: true}
			if codec == CodecNone {
				d.Records = []Rec{{Offset: off, TimestampMs: ts, Key: key, Value: value}}
				d.Count = 1
			} else {
				d.Wrapper = true
				if value == nil {
					return out, fmt.Errorf("refcodec: compressed wrapper at %d has a null value", start)
				}
				if key != nil {
					return out, fmt.Errorf("refcodec: compressed wrapper at %d has a key", start)
				}
				raw, err := Decompress(codec, value)
				if err != nil {
					return out, fmt.Errorf("refcodec: wrapper at %d: decompress: %v", start, err)
				}
				ir := &R{B: raw}
				var inner []Rec
				maxTs := int64(-1)
				for ir.Remain() > 0 {
					ioff, img, iattr, its, ikey, ival, err := decodeLegacyOne(ir, 1)
					if err != nil {
						return out, fmt.Errorf("refcodec: wrapper at %d inner: %v", start, err)
					}
					if img != mg {
						return out, fmt.Errorf("refcodec: wrapper at %d: inner magic %d differs from wrapper magic %d", start, img, mg)
					}
					if iattr&7 != 0 {
						return out, fmt.Errorf("refcodec: wrapper at %d: nested compression", start)
					}
					if its > maxTs {
						maxTs = its
					}
					inner = append(inner, Rec{Offset: ioff, TimestampMs: its, Key: ikey, Value: ival})
				}
				if len(inner) == 0 {
					return out, fmt.Errorf("refcodec: wrapper at %d holds no message", start)
				}
				if mg == 1 {
					// relative offsets 0..n-1 expected from producers; brokers may also
					// store absolute ones (older formats); detect which.
					rel := true
					for i, m := range inner {
						if m.Offset != int64(i) {
							rel = false
						}
					}
					if rel {
						d.RelativeInner = true
						last := int64(len(inner) - 1)
						for i := range inner {
							inner[i].Offset = off - (last - inner[i].Offset)
						}
					} else if o.Produce {
						return out, fmt.Errorf("refcodec: wrapper at %d: inner offsets are not 0..n-1", start)
					}
					d.MaxTimestampOK = ts == maxTs
				}
				d.Records = inner
				d.Count = int32(len(inner))
			}
			d.FirstTimestamp = ts
			out = append(out, d)
		case 2:
			base := r.I64()
			blen := r.I32()
			if blen < 49 || int(blen) > r.Remain() {
				return out, fmt.Errorf("refcodec: batch at %d: batch length %d out of bounds (remain %d)", start, blen, r.Remain())
			}
			body := r.take(int(blen))
			br := &R{B: body}
			d := DecodedBatch{Magic: 2, BaseOffset: base, Size: int(blen) + 12}
			br.I32() // leader epoch
			br.I8()  // magic
			crc := uint32(br.I32())
			if crc32.Checksum(body[9:], castagnoli) != crc {
				return out, fmt.Errorf("refcodec: batch at %d: crc32c mismatch", start)
			}
			d.Attributes = int16(br.I16())
			if d.Attributes&^0x3f != 0 {
				return out, fmt.Errorf("refcodec: batch at %d: unknown attribute bits %#x", start, d.Attributes)
			}
			d.Codec = int(d.Attributes & 7)
			if d.Codec > CodecZstd {
				return out, fmt.Errorf("refcodec: batch at %d: unknown codec %d", start, d.Codec)
			}
			d.LastOffsetDelta = int32(br.I32())
			d.FirstTimestamp = br.I64()
			d.MaxTimestamp = br.I64()
			d.ProducerID = br.I64()
			br.I16()
			br.I32()
			d.Count = int32(br.I32())
			if d.Count < 0 {
				return out, fmt.Errorf("refcodec: batch at %d: negative record count", start)
			}
			payload, err := Decompress(d.Codec, body[br.Off:])
			if err != nil {
				return out, fmt.Errorf("refcodec: batch at %d: decompress (%s): %v", start, CodecNames[d.Codec], err)
			}
			pr := &R{B: payload}
			maxTs := int64(-1 << 62)
			for i := int32(0); i < d.Count; i++ {
				rl := pr.Varint()
				if pr.Err != nil || rl < 0 || int(rl) > pr.Remain() {
					return out, fmt.Errorf("refcodec: batch at %d: record %d length %d out of bounds (remain %d)", start, i, rl, pr.Remain())
				}
				rb := &R{B: pr.take(int(rl))}
				if a := rb.I8(); a != 0 {
					return out, fmt.Errorf("refcodec: batch at %d: record %d attributes %d", start, i, a)
				}
				tsd := rb.Varint()
				od := rb.Varint()
				rec := Rec{Offset: base + od, TimestampMs: d.FirstTimestamp + tsd}
				kl := rb.Varint()
				if kl < -1 {
					return out, fmt.Errorf("refcodec: batch at %d: record %d key length %d", start, i, kl)
				}
				if kl >= 0 {
					rec.Key = append([]byte{}, rb.take(int(kl))...)
				}
				vl := rb.Varint()
				if vl < -1 {
					return out, fmt.Errorf("refcodec: batch at %d: record %d value length %d", start, i, vl)
				}
				if vl >= 0 {
					rec.Value = append([]byte{}, rb.take(int(vl))...)
				}
				nh := rb.Varint()
				if nh < 0 || nh > int64(rb.Remain()) {
					return out, fmt.Errorf("refcodec: batch at %d: record %d header count %d", start, i, nh)
				}
				for h := int64(0); h < nh; h++ {
					hkl := rb.Varint()
					if hkl < 0 {
						return out, fmt.Errorf("refcodec: batch at %d: record %d header %d key length %d (null header key)", start, i, h, hkl)
					}
					hk := string(rb.take(int(hkl)))
					hvl := rb.Varint()
					var hv []byte
					if hvl < -1 {
						return out, fmt.Errorf("refcodec: batch at %d: record %d header value length %d", start, i, hvl)
					}
					if hvl >= 0 {
						hv = append([]byte{}, rb.take(int(hvl))...)
					}
					rec.Headers = append(rec.Headers, Hdr{hk, hv})
				}
				if rb.Err != nil {
					return out, fmt.Errorf("refcodec: batch at %d: record %d: %v", start, i, rb.Err)
				}
				if rb.Remain() != 0 {
					return out, fmt.Errorf("refcodec: batch at %d: record %d: length field %d but %d bytes unused", start, i, rl, rb.Remain())
				}
				if od < 0 || od > int64(d.LastOffsetDelta) {
					return out, fmt.Errorf("refcodec: batch at %d: record %d offset delta %d outside [0,%d]", start, i, od, d.LastOffsetDelta)
				}
				if len(d.Records) > 0 && rec.Offset <= d.Records[len(d.Records)-1].Offset {
					return out, fmt.Errorf("refcodec: batch at %d: record offsets not increasing", start)
				}
				if o.Produce && od != int64(i) {
					return out, fmt.Errorf("refcodec: batch at %d: record %d has offset delta %d (a producer must number records 0..n-1)", start, i, od)
				}
				if rec.TimestampMs > maxTs {
					maxTs = rec.TimestampMs
				}
				d.Records = append(d.Records, rec)
			}
			if pr.Err != nil {
				return out, pr.Err
			}
			if pr.Remain() != 0 {
				return out, fmt.Errorf("refcodec: batch at %d: %d bytes after the last of %d records", start, pr.Remain(), d.Count)
			}
			if o.Produce {
				if d.Count == 0 {
					return out, fmt.Errorf("refcodec: batch at %d: empty batch in a produce request", start)
				}
				if int64(d.LastOffsetDelta) != int64(d.Count)-1 {
					return out, fmt.Errorf("refcodec: batch at %d: lastOffsetDelta %d but %d records", start, d.LastOffsetDelta, d.Count)
				}
			}
			d.MaxTimestampOK = d.Count == 0 || d.MaxTimestamp == maxTs
			out = append(out, d)
		default:
			return out, fmt.Errorf("refcodec: unknown magic %d at %d", magic, start)
		}
	}
	return out, r.Err
}
