package props

import (
	"context"
	"errors"
	"fmt"
	"sort"
	"time"

	kafka "github.com/segmentio/kafka-go"

	"verifharness/core"
	"verifharness/fakecluster"
	"verifharness/refcodec"
)

type c19Client struct {
	e    *c19Env
	tr   *kafka.Transport
	cli  *kafka.Client
	boot int32
}

func (e *c19Env) newClient(boot int32) *c19Client {
	tr := &kafka.Transport{Dial: e.net.Dialer("tr"), ClientID: "c19-tr", MetadataTTL: time.Hour, IdleTimeout: 5 * time.Second, DialTimeout: 5 * time.Second}
	return &c19Client{e: e, tr: tr, boot: boot, cli: &kafka.Client{Addr: kafka.TCP(fmt.Sprintf("b%d:9092", boot)), Transport: tr}}
}

func (c *c19Client) close() { c.tr.CloseIdleConnections() }

func c19Ctx() (context.Context, context.CancelFunc) {
	return context.WithTimeout(context.Background(), 10*time.Second)
}

type c19LOReq struct {
	Part  *c19Part // nil for an unknown partition
	Topic string
	ID    int32
	First bool
	Last  bool
	Times []int64
}

// genListOffsets builds a request over a random subset of the partitions.
func c19GenListOffsets(r *core.Rand, s *c19State, min int) []*c19LOReq {
	all := s.allParts()
	var out []*c19LOReq
	frac := r.Range(1, 4)
	for _, p := range all {
		if !r.Chance(frac, 4) {
			continue
		}
		q := &c19LOReq{Part: p, Topic: p.Topic, ID: p.ID}
		switch r.Intn(5) {
		case 0:
			q.First = true
		case 1:
			q.Last = true
		case 2:
			q.First, q.Last = true, true
		case 3:
			q.Times = c19Times(r, p, r.Range(1, 3))
		default:
			q.First, q.Last = r.Bool(), r.Bool()
			q.Times = c19Times(r, p, r.Range(1, 3))
		}
		out = append(out, q)
	}
	for len(out) < min && len(out) < len(all) {
		// top up with partitions not yet chosen
		for _, p := range all {
			found := false
			for _, q := range out {
				if q.Part == p {
					found = true
				}
			}
			if !found {
				out = append(out, &c19LOReq{Part: p, Topic: p.Topic, ID: p.ID, First: true, Last: r.Bool(), Times: c19Times(r, p, r.Intn(2))})
				break
			}
		}
	}
	if len(out) == 0 {
		p := all[r.Intn(len(all))]
		out = append(out, &c19LOReq{Part: p, Topic: p.Topic, ID: p.ID, First: true, Last: true})
	}
	return out
}

func c19BuildLO(r *core.Rand, reqs []*c19LOReq) map[string][]kafka.OffsetRequest {
	m := map[string][]kafka.OffsetRequest{}
	for _, q := range reqs {
		var l []kafka.OffsetRequest
		if q.First {
			l = append(l, kafka.FirstOffsetOf(int(q.ID)))
		}
		if q.Last {
			l = append(l, kafka.LastOffsetOf(int(q.ID)))
		}
		for _, ts := range q.Times {
			l = append(l, kafka.TimeOffsetOf(int(q.ID), time.UnixMilli(ts)))
		}
		for i := len(l) - 1; i > 0; i-- {
			j := r.Intn(i + 1)
			l[i], l[j] = l[j], l[i]
		}
		m[q.Topic] = append(m[q.Topic], l...)
	}
	// interleave the requests of different partitions of a topic
	for t, l := range m {
		if r.Bool() {
			for i := len(l) - 1; i > 0; i-- {
				j := r.Intn(i + 1)
				l[i], l[j] = l[j], l[i]
			}
			m[t] = l
		}
	}
	return m
}

// listOffsets runs one Client.ListOffsets call. failing lists the partitions (topic/id keys) that are expected to
// carry an error (with the expected code, 0 = any error); all others must be exact.
func (c *c19Client) listOffsets(r *core.Rand, reqs []*c19LOReq, failing map[string]int16, inj string) {
	e := c.e
	topics := c19BuildLO(r, reqs)
	ctx, cancel := c19Ctx()
	defer cancel()
	before := len(e.cl.Journal())
	res, err := c.cli.ListOffsets(ctx, &kafka.ListOffsetsRequest{Topics: topics})
	var parts []*c19Part
	for _, q := range reqs {
		if q.Part != nil {
			parts = append(parts, q.Part)
		}
	}
	subs := 0
	for _, ev := range e.cl.Journal()[before:] {
		if ev.API == fakecluster.KListOffsets && ev.ClientID == "c19-tr" {
			subs++
		}
	}
	e.k.Count("listoffsets_subrequests_at_brokers", int64(subs))
	e.sig("client", "ListOffsets", e.lastVersion(fakecluster.KListOffsets, "c19-tr"), parts, inj)
	desc := fmt.Sprintf("ListOffsets(%v)", topics)
	nFail := 0
	for _, q := range reqs {
		if _, f := failing[c19Key(q.Topic, q.ID)]; f {
			nFail++
		}
	}
	if err != nil {
		switch {
		case nFail == len(reqs):
			// every requested partition fails: one error for the call says the same
		case nFail > 0:
			e.k.Viol("c19:listoffsets:partial-failure-fails-call", fmt.Sprintf("%s failed as a whole (%v) although only %d of %d partitions are affected by the failure (%s)", desc, err, nFail, len(reqs), inj), map[string]any{"failing": failing})
		default:
			e.unexpected("c19:listoffsets", desc, err)
		}
		return
	}
	requested := map[string]*c19LOReq{}
	for _, q := range reqs {
		requested[c19Key(q.Topic, q.ID)] = q
	}
	seen := map[string]bool{}
	for topic, l := range res.Topics {
		for _, po := range l {
			key := c19Key(topic, int32(po.Partition))
			q := requested[key]
			wit := map[string]any{"request": topics, "response": fmt.Sprintf("%+v", res.Topics), "injected": inj}
			if q == nil {
				// a partition of another topic showing up here is a mix-up between topics
				kind := "partition-unrequested"
				for _, o := range reqs {
					if o.ID == int32(po.Partition) {
						kind = "cross-topic-mixup"
					}
				}
				e.k.Viol("c19:listoffsets:"+kind, fmt.Sprintf("%s: the answer lists %s, which was not requested", desc, key), wit)
				continue
			}
			if seen[key] {
				e.k.Viol("c19:listoffsets:partition-duplicated", fmt.Sprintf("%s: the answer lists %s twice", desc, key), wit)
				continue
			}
			seen[key] = true
			e.k.Count("partitions_compared", 1)
			if code, f := failing[key]; f {
				if po.Error == nil {
					e.k.Viol("c19:listoffsets:partition-error-lost", fmt.Sprintf("%s: %s was subject to a failure (%s) but is reported without error: %+v", desc, key, inj, po), wit)
				} else if code != 0 && !errors.Is(po.Error, kafka.Error(code)) {
					e.k.Viol("c19:listoffsets:partition-error-wrong", fmt.Sprintf("%s: %s was answered with error code %d, reported error is %v", desc, key, code, po.Error), wit)
				}
				continue
			}
			p := q.Part
			if po.Error != nil {
				k := "c19:listoffsets:unexpected-partition-error"
				if len(failing) > 0 {
					k = "c19:listoffsets:error-leaked-to-other-partition"
				}
				e.k.Viol(k, fmt.Sprintf("%s: %s carries error %v; nothing failed for this partition (%s)", desc, key, po.Error, inj), wit)
				continue
			}
			mix := func(kind string, got, exp int64) string {
				// is the wrong value the right answer for the same partition id of another topic?
				for _, o := range e.s.allParts() {
					if o.Topic != p.Topic && o.ID == p.ID {
						if (kind == "first" && o.Start == got) || (kind == "last" && o.End == got) {
							return "c19:listoffsets:cross-topic-mixup"
						}
					}
				}
				return "c19:listoffsets:wrong-" + kind
			}
			if q.First && po.FirstOffset != p.Start {
				e.k.Viol(mix("first", po.FirstOffset, p.Start), fmt.Sprintf("%s: %s FirstOffset = %d, log start offset is %d", desc, key, po.FirstOffset, p.Start), wit)
			}
			if q.Last && po.LastOffset != p.End {
				e.k.Viol(mix("last", po.LastOffset, p.End), fmt.Sprintf("%s: %s LastOffset = %d, log end offset is %d", desc, key, po.LastOffset, p.End), wit)
			}
			// time lookups: Offsets maps the found offset to the requested time
			expKeys := map[int64][]int64{}
			for _, ts := range q.Times {
				o, _ := p.at(ts)
				expKeys[o] = append(expKeys[o], ts)
			}
			for o, tm := range po.Offsets {
				tss, ok := expKeys[o]
				if !ok {
					e.k.Viol("c19:listoffsets:wrong-time-offset", fmt.Sprintf("%s: %s Offsets has offset %d (time %d ms); requested times %v resolve to %v (records %v, log start %d)", desc, key, o, tm.UnixMilli(), q.Times, expKeys, p.Recs, p.Start), wit)
					continue
				}
				found := false
				for _, ts := range tss {
					if tm.Equal(time.UnixMilli(ts)) {
						found = true
					}
				}
				if !found {
					e.k.Viol("c19:listoffsets:timestamp-not-restored", fmt.Sprintf("%s: %s Offsets[%d] = %d ms, but the requested time(s) resolving to that offset are %v", desc, key, o, tm.UnixMilli(), tss), wit)
				}
			}
			for o, tss := range expKeys {
				if _, ok := po.Offsets[o]; !ok {
					e.k.Viol("c19:listoffsets:wrong-time-offset", fmt.Sprintf("%s: %s Offsets lacks offset %d, the answer for requested time(s) %v; got %v", desc, key, o, tss, po.Offsets), wit)
				}
			}
		}
	}
	var missing []string
	for key := range requested {
		if !seen[key] {
			missing = append(missing, key)
		}
	}
	sort.Strings(missing)
	if len(missing) > 0 {
		e.k.Viol("c19:listoffsets:partition-missing", fmt.Sprintf("%s: the answer has no entry for %v", desc, missing), map[string]any{"response": fmt.Sprintf("%+v", res.Topics), "injected": inj})
	}
}

func (c *c19Client) metadataVersion() int { return c.e.lastVersion(fakecluster.KMetadata, "c19-tr") }

func (c *c19Client) metadata(r *core.Rand) {
	e, s := c.e, c.e.s
	unknown := c19UnknownTopics(r, s)
	for pass := 0; pass < 2; pass++ {
		var req []string
		known := s.Names
		if pass == 1 {
			req, known = c19TopicList(r, s, unknown, "")
		}
		ctx, cancel := c19Ctx()
		res, err := c.cli.Metadata(ctx, &kafka.MetadataRequest{Topics: req})
		cancel()
		desc := fmt.Sprintf("Metadata(%v)", req)
		ver := c.metadataVersion()
		var ps []*c19Part
		for _, t := range known {
			ps = append(ps, s.Topics[t]...)
		}
		inj := ""
		if pass == 1 && len(known) != len(req) {
			inj = "unknown-topic"
		}
		e.sig("client", map[int]string{0: "Metadata/all", 1: "Metadata/filter"}[pass], ver, ps, inj)
		if err != nil {
			e.unexpected("c19:metadata", desc, err)
			continue
		}
		e.cmpBrokerSet("c19:metadata", desc+" Brokers", res.Brokers)
		if res.Controller != s.broker(s.Controller) {
			e.k.Viol("c19:metadata:wrong-controller", fmt.Sprintf("%s: Controller = %+v, the cluster's controller is %+v", desc, res.Controller, s.broker(s.Controller)), nil)
		}
		if ver >= 2 && res.ClusterID != e.cl.ClusterID {
			e.k.Viol("c19:metadata:wrong-cluster-id", fmt.Sprintf("%s: ClusterID = %q, the cluster's id is %q", desc, res.ClusterID, e.cl.ClusterID), nil)
		}
		want := map[string]int{}
		if pass == 0 {
			for _, t := range s.Names {
				want[t]++
			}
		} else {
			for _, t := range req {
				want[t]++
			}
		}
		for _, t := range res.Topics {
			if want[t.Name] == 0 {
				e.k.Viol("c19:metadata:topic-unrequested-or-duplicated", fmt.Sprintf("%s: the answer lists topic %q once more than requested", desc, t.Name), map[string]any{"response": fmt.Sprintf("%+v", res.Topics)})
				continue
			}
			want[t.Name]--
			if s.Topics[t.Name] == nil {
				if !errors.Is(t.Error, kafka.UnknownTopicOrPartition) || len(t.Partitions) != 0 {
					e.k.Viol("c19:metadata:unknown-topic-not-reported", fmt.Sprintf("%s: topic %q does not exist; reported Error=%v with %d partitions", desc, t.Name, t.Error, len(t.Partitions)), nil)
				}
				continue
			}
			if t.Error != nil {
				e.k.Viol("c19:metadata:known-topic-reported-with-error", fmt.Sprintf("%s: topic %q exists without error in the cluster; reported Error=%v", desc, t.Name, t.Error), map[string]any{"cached_topics": s.Names})
				continue
			}
			e.cmpPartitionList("c19:metadata", desc, []string{t.Name}, t.Partitions, "skip")
			if ver >= 5 {
				for _, gp := range t.Partitions {
					if exp := s.part(t.Name, int32(gp.ID)); exp != nil && len(exp.Offline) > 0 {
						if eq, _ := c19BrokersEqual(s.brokers(exp.Offline), gp.OfflineReplicas); !eq {
							e.k.Viol("c19:metadata:offline-replicas", fmt.Sprintf("%s (metadata v%d): %s/%d offline replicas reported as %+v, the cluster has %+v", desc, ver, t.Name, gp.ID, gp.OfflineReplicas, s.brokers(exp.Offline)), nil)
							break
						}
					}
				}
			}
		}
		for t, n := range want {
			if n > 0 {
				e.k.Viol("c19:metadata:topic-missing", fmt.Sprintf("%s: the answer has no entry for topic %q", desc, t), map[string]any{"response": fmt.Sprintf("%+v", res.Topics)})
			}
		}
	}
}

type c19OFReq struct {
	Topic string
	IDs   []int
}

// genOffsetFetch picks partitions (known, with and without commits, unknown partition ids, unknown topics).
func c19GenOffsetFetch(r *core.Rand, s *c19State) map[string][]int {
	m := map[string][]int{}
	for _, t := range s.Names {
		if !r.Chance(3, 4) {
			continue
		}
		var ids []int
		for _, p := range s.Topics[t] {
			if r.Chance(3, 4) {
				ids = append(ids, int(p.ID))
			}
		}
		if r.Chance(1, 5) {
			ids = append(ids, len(s.Topics[t])+r.Intn(3)) // unknown partition
		}
		for i := len(ids) - 1; i > 0; i-- {
			j := r.Intn(i + 1)
			ids[i], ids[j] = ids[j], ids[i]
		}
		if len(ids) > 0 {
			m[t] = ids
		}
	}
	if r.Chance(1, 6) {
		if u := c19UnknownTopics(r, s); len(u) > 0 {
			m[u[r.Intn(len(u))]] = []int{0, 1}
		}
	}
	if len(m) == 0 {
		t := s.Names[r.Intn(len(s.Names))]
		m[t] = []int{0}
	}
	return m
}

// offsetFetch runs OffsetFetch for the listed partitions (all=true: every committed offset of the group).
func (c *c19Client) offsetFetch(group string, topics map[string][]int, all bool, fault *c19Fault) {
	e, s := c.e, c.e.s
	ctx, cancel := c19Ctx()
	defer cancel()
	req := &kafka.OffsetFetchRequest{GroupID: group, Topics: topics}
	if all {
		req.Topics = nil
		topics = map[string][]int{}
		for key := range s.Committed[group] {
			var t string
			var p int
			for i := len(key) - 1; i >= 0; i-- {
				if key[i] == '/' {
					t = key[:i]
					fmt.Sscanf(key[i+1:], "%d", &p)
					break
				}
			}
			topics[t] = append(topics[t], p)
		}
	}
	res, err := c.cli.OffsetFetch(ctx, req)
	ver := e.lastVersion(fakecluster.KOffsetFetch, "c19-tr")
	var parts []*c19Part
	for t, ids := range topics {
		for _, id := range ids {
			if p := s.part(t, int32(id)); p != nil {
				parts = append(parts, p)
			}
		}
	}
	inj := ""
	if fault != nil {
		inj = fault.Kind
	}
	kind := "OffsetFetch/listed"
	if all {
		kind = "OffsetFetch/all"
	}
	e.sig("client", kind, ver, parts, inj)
	desc := fmt.Sprintf("OffsetFetch(group %q, %v) v%d", group, req.Topics, ver)
	if err != nil {
		e.unexpected("c19:offsetfetch", desc, err)
		return
	}
	wit := map[string]any{"response": fmt.Sprintf("%+v", res.Topics), "committed": s.Committed[group], "injected": inj}
	if res.Error != nil {
		e.k.Viol("c19:offsetfetch:unexpected-group-error", fmt.Sprintf("%s: Error=%v, the coordinator reported none", desc, res.Error), wit)
	}
	for t, ids := range topics {
		got, ok := res.Topics[t]
		if !ok {
			e.k.Viol("c19:offsetfetch:topic-missing", fmt.Sprintf("%s: no entry for topic %q", desc, t), wit)
			continue
		}
		seen := map[int]bool{}
		for _, g := range got {
			found := false
			for _, id := range ids {
				if id == g.Partition {
					found = true
				}
			}
			if !found || seen[g.Partition] {
				e.k.Viol("c19:offsetfetch:partition-unrequested-or-duplicated", fmt.Sprintf("%s: topic %q lists partition %d which was not requested (or twice)", desc, t, g.Partition), wit)
				continue
			}
			seen[g.Partition] = true
			e.k.Count("partitions_compared", 1)
			if fault != nil && fault.Topic == t && int(fault.Partition) == g.Partition {
				if !errors.Is(g.Error, kafka.Error(fault.Code)) {
					e.k.Viol("c19:offsetfetch:partition-error-lost", fmt.Sprintf("%s: %s/%d was answered with error code %d; reported %+v", desc, t, g.Partition, fault.Code, g), wit)
				}
				continue
			}
			exp := s.committed(group, t, int32(g.Partition))
			if s.part(t, int32(g.Partition)) == nil {
				// unknown topic or partition: the coordinator flags the entry
				if !errors.Is(g.Error, kafka.UnknownTopicOrPartition) {
					e.k.Viol("c19:offsetfetch:unknown-partition-not-reported", fmt.Sprintf("%s: %s/%d does not exist; reported %+v", desc, t, g.Partition, g), wit)
				}
				continue
			}
			if g.Error != nil {
				k := "c19:offsetfetch:unexpected-partition-error"
				if fault != nil {
					k = "c19:offsetfetch:error-leaked-to-other-partition"
				}
				e.k.Viol(k, fmt.Sprintf("%s: %s/%d carries error %v; nothing failed for it", desc, t, g.Partition, g.Error), wit)
				continue
			}
			if g.CommittedOffset != exp {
				e.k.Viol("c19:offsetfetch:wrong-offset", fmt.Sprintf("%s: %s/%d CommittedOffset = %d, the coordinator holds %d", desc, t, g.Partition, g.CommittedOffset, exp), wit)
			} else if m := c19OffsetMeta(t, int32(g.Partition), exp); g.Metadata != m {
				e.k.Viol("c19:offsetfetch:wrong-metadata", fmt.Sprintf("%s: %s/%d Metadata = %q, the coordinator answered %q", desc, t, g.Partition, g.Metadata, m), wit)
			}
		}
		for _, id := range ids {
			if !seen[id] {
				e.k.Viol("c19:offsetfetch:partition-missing", fmt.Sprintf("%s: no entry for %s/%d", desc, t, id), wit)
			}
		}
	}
	for t := range res.Topics {
		if _, ok := topics[t]; !ok {
			e.k.Viol("c19:offsetfetch:topic-unrequested", fmt.Sprintf("%s: the answer lists topic %q which was not requested", desc, t), wit)
		}
	}
}

// offsetCommit commits random offsets and checks the answer and the coordinator's store.
func (c *c19Client) offsetCommit(r *core.Rand, group string, fault *c19Fault) {
	e, s := c.e, c.e.s
	commits := map[string][]kafka.OffsetCommit{}
	type ck struct {
		t  string
		p  int
		o  int64
		md string
	}
	var list []ck
	for _, t := range s.Names {
		for _, p := range s.Topics[t] {
			if r.Chance(2, 5) || (fault != nil && fault.Topic == t) {
				o := p.Start + int64(r.Intn(int(p.End-p.Start)+4))
				md := core.Pick(r, "", "m", fmt.Sprintf("by-%s/%d", t, p.ID))
				list = append(list, ck{t, int(p.ID), o, md})
			}
		}
		if r.Chance(1, 6) {
			list = append(list, ck{t, len(s.Topics[t]) + r.Intn(2), 7, ""}) // unknown partition: refused with code 3
		}
	}
	if len(list) == 0 {
		p := s.allParts()[r.Intn(len(s.allParts()))]
		list = append(list, ck{p.Topic, int(p.ID), p.End, "x"})
	}
	for i := len(list) - 1; i > 0; i-- {
		j := r.Intn(i + 1)
		list[i], list[j] = list[j], list[i]
	}
	for _, x := range list {
		commits[x.t] = append(commits[x.t], kafka.OffsetCommit{Partition: x.p, Offset: x.o, Metadata: x.md})
	}
	ctx, cancel := c19Ctx()
	defer cancel()
	before := len(e.cl.Journal())
	res, err := c.cli.OffsetCommit(ctx, &kafka.OffsetCommitRequest{GroupID: group, GenerationID: -1, Topics: commits})
	ver := e.lastVersion(fakecluster.KOffsetCommit, "c19-tr")
	var parts []*c19Part
	for _, x := range list {
		if p := s.part(x.t, int32(x.p)); p != nil {
			parts = append(parts, p)
		}
	}
	inj := ""
	if fault != nil {
		inj = fault.Kind
	}
	e.sig("client", "OffsetCommit", ver, parts, inj)
	desc := fmt.Sprintf("OffsetCommit(group %q, %v) v%d", group, commits, ver)
	if err != nil {
		e.unexpected("c19:offsetcommit", desc, err)
		return
	}
	wit := map[string]any{"response": fmt.Sprintf("%+v", res.Topics), "injected": inj}
	// what reached the coordinator
	for _, ev := range e.cl.Journal()[before:] {
		if ev.API != fakecluster.KOffsetCommit || ev.ClientID != "c19-tr" {
			continue
		}
		if ev.Broker != e.coordinator(group) {
			e.k.Viol("c19:offsetcommit:not-sent-to-coordinator", fmt.Sprintf("%s was sent to broker %d, the coordinator of the group is %d", desc, ev.Broker, e.coordinator(group)), nil)
		}
		for _, t := range refcodec.Arr(ev.Body["Topics"]) {
			tm := refcodec.Map(t)
			for _, p := range refcodec.Arr(tm["Partitions"]) {
				pm := refcodec.Map(p)
				for _, x := range list {
					if x.t == refcodec.Str(tm["Name"]) && x.p == int(refcodec.Int(pm["PartitionIndex"])) {
						if refcodec.Int(pm["CommittedOffset"]) != x.o || refcodec.Str(pm["CommittedMetadata"]) != x.md {
							e.k.Viol("c19:offsetcommit:wrong-request", fmt.Sprintf("%s: the coordinator received offset %d metadata %q for %s/%d", desc, refcodec.Int(pm["CommittedOffset"]), refcodec.Str(pm["CommittedMetadata"]), x.t, x.p), nil)
						}
					}
				}
			}
		}
	}
	for _, x := range list {
		var got *kafka.OffsetCommitPartition
		n := 0
		for i, g := range res.Topics[x.t] {
			if g.Partition == x.p {
				got = &res.Topics[x.t][i]
				n++
			}
		}
		e.k.Count("partitions_compared", 1)
		key := c19Key(x.t, int32(x.p))
		if n != 1 {
			e.k.Viol("c19:offsetcommit:partition-missing-or-duplicated", fmt.Sprintf("%s: the answer has %d entries for %s", desc, n, key), wit)
			continue
		}
		switch {
		case fault != nil && fault.Topic == x.t && int(fault.Partition) == x.p:
			if !errors.Is(got.Error, kafka.Error(fault.Code)) {
				e.k.Viol("c19:offsetcommit:partition-error-lost", fmt.Sprintf("%s: %s was answered with error code %d; reported Error=%v", desc, key, fault.Code, got.Error), wit)
			}
			// the fake coordinator applied it although it answered with an error: keep the model in step
			s.Committed[group][key] = x.o
		case s.part(x.t, int32(x.p)) == nil:
			if !errors.Is(got.Error, kafka.UnknownTopicOrPartition) {
				e.k.Viol("c19:offsetcommit:unknown-partition-not-reported", fmt.Sprintf("%s: %s does not exist; reported Error=%v", desc, key, got.Error), wit)
			}
		default:
			if got.Error != nil {
				k := "c19:offsetcommit:unexpected-partition-error"
				if fault != nil {
					k = "c19:offsetcommit:error-leaked-to-other-partition"
				}
				e.k.Viol(k, fmt.Sprintf("%s: %s carries error %v; nothing failed for it", desc, key, got.Error), wit)
			}
			s.Committed[group][key] = x.o
		}
	}
	// the store must now equal the model for every partition of every topic
	for _, p := range s.allParts() {
		if st, exp := e.cl.GroupCommitted(group, p.Topic, p.ID), s.committed(group, p.Topic, p.ID); st != exp {
			e.k.Viol("c19:offsetcommit:store-mismatch", fmt.Sprintf("after %s the coordinator holds %d for %s/%d, expected %d", desc, st, p.Topic, p.ID, exp), wit)
		}
	}
}

func (c *c19Client) consumerOffsets(r *core.Rand, group string, fault *c19Fault) {
	e, s := c.e, c.e.s
	topic := s.Names[r.Intn(len(s.Names))]
	if fault != nil {
		topic = fault.Topic
	} else if u := c19UnknownTopics(r, s); r.Chance(1, 8) && len(u) > 0 {
		topic = u[r.Intn(len(u))]
	}
	ctx, cancel := c19Ctx()
	defer cancel()
	got, err := c.cli.ConsumerOffsets(ctx, kafka.TopicAndGroup{Topic: topic, GroupId: group})
	inj := ""
	if fault != nil {
		inj = fault.Kind
	}
	e.sig("client", "ConsumerOffsets", e.lastVersion(fakecluster.KOffsetFetch, "c19-tr"), s.Topics[topic], inj)
	desc := fmt.Sprintf("ConsumerOffsets(topic %q, group %q)", topic, group)
	if err != nil {
		if fault != nil {
			return // the API has one error for the call
		}
		if s.Topics[topic] == nil {
			return
		}
		e.unexpected("c19:consumeroffsets", desc, err)
		return
	}
	wit := map[string]any{"result": got, "committed": s.Committed[group], "injected": inj}
	for _, p := range s.Topics[topic] {
		e.k.Count("partitions_compared", 1)
		exp := s.committed(group, topic, p.ID)
		v, ok := got[int(p.ID)]
		if fault != nil && fault.Partition == p.ID {
			// the result type cannot carry an error per partition: the entry may be absent; a value that
			// claims "nothing committed" for a partition with a commit misreports the failure as state
			if ok && v != exp {
				e.k.Viol("c19:consumeroffsets:partition-error-reported-as-offset", fmt.Sprintf("%s: the offset fetch for partition %d was answered with error code %d; the result holds %d for it without any error, the coordinator holds %d", desc, p.ID, fault.Code, v, exp), wit)
			}
			continue
		}
		if !ok {
			e.k.Viol("c19:consumeroffsets:partition-missing", fmt.Sprintf("%s: no entry for partition %d", desc, p.ID), wit)
		} else if v != exp {
			e.k.Viol("c19:consumeroffsets:wrong-offset", fmt.Sprintf("%s: partition %d = %d, the coordinator holds %d", desc, p.ID, v, exp), wit)
		}
	}
	for id := range got {
		if s.part(topic, int32(id)) == nil {
			e.k.Viol("c19:consumeroffsets:partition-invented", fmt.Sprintf("%s: the result lists partition %d which the topic does not have", desc, id), wit)
		}
	}
}
