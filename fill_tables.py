#!/usr/bin/env python3
"""Fills the THOROUGH_TABLE placeholder (or an earlier generated table) of design_asbuilt.md from the
SUMMARY lines of a thorough sweep log, and splices design_asbuilt.md into DESIGN.md after section 9.
usage: fill_tables.py <thorough-sweep-log>"""
import re, sys
log = open(sys.argv[1]).read()
rows = []
for m in re.finditer(r'SUMMARY property=(C\d+) tier=thorough seed=(\d+) evaluations=(\d+) distinct=(\d+) violations=(\d+) known=(\d+) inconclusive=(\d+) wall=([\d.]+)s', log):
    pid, seed, ev, di, vi, kn, inc, wall = m.groups()
    rows.append(f"| {pid} | {int(ev):,} | {int(di):,} | {vi} | {kn} | {inc} | {float(wall)/60:.1f} min |")
table = ("Last complete thorough sweep (`./check.sh <ID> thorough`, seed 1, one check at a time on the 16 cores, "
         "after the final library and harness commits):\n\n"
         "| id | evaluations | distinct non-trivial signatures | violations | known findings seen | inconclusive | wall |\n"
         "|---|---|---|---|---|---|---|\n" + "\n".join(rows) + "\n")
p = '/verif/design_asbuilt.md'
s = open(p).read()
start = s.index('### 13.4 Thorough tier')
s = s[:start] + '### 13.4 Thorough tier\n\n' + table
open(p, 'w').write(s)
d = open('/verif/DESIGN.md').read()
d = d[:d.index('\n---------------------------------------------------------------------------\n\n## 10. As built')].rstrip('\n') + '\n' + s
open('/verif/DESIGN.md', 'w').write(d)
print(len(rows), "rows")
