package props

// c04Alias maps kafka-go field names ("<pkg>.<Type>.<Field>") to the name the
// Kafka message definition uses, where the two differ by more than case.
// Generated once with C04_DUMP=alias from the positional pairing at the
// pinned commit and reviewed by hand for meaning.
var c04Alias = map[string]string{
	"alterclientquotas.Entry.Entities":                            "Entity",
	"alterclientquotas.Response.Results":                          "Entries",
	"alterclientquotas.ResponseQuotas.Entities":                   "Entity",
	"alterpartitionreassignments.Response.Results":                "Responses",
	"deleteacls.MatchingACL.ResourcePatternType":                  "PatternType",
	"deleteacls.RequestFilter.ResourcePatternTypeFilter":          "PatternTypeFilter",
	"deletegroups.Request.GroupIDs":                               "GroupsNames",
	"deletegroups.Response.Responses":                             "Results",
	"describeacls.ACLFilter.ResourcePatternTypeFilter":            "PatternTypeFilter",
	"describeclientquotas.ResponseQuotas.Entities":                "Entity",
	"describeconfigs.RequestResource.ConfigNames":                 "ConfigurationKeys",
	"describeconfigs.Response.Resources":                          "Results",
	"describeconfigs.ResponseConfigEntry.ConfigDocumentation":     "Documentation",
	"describeconfigs.ResponseConfigEntry.ConfigName":              "Name",
	"describeconfigs.ResponseConfigEntry.ConfigSynonyms":          "Synonyms",
	"describeconfigs.ResponseConfigEntry.ConfigValue":             "Value",
	"describeconfigs.ResponseConfigSynonym.ConfigName":            "Name",
	"describeconfigs.ResponseConfigSynonym.ConfigSource":          "Source",
	"describeconfigs.ResponseConfigSynonym.ConfigValue":           "Value",
	"describeconfigs.ResponseResource.ConfigEntries":              "Configs",
	"electleaders.RequestTopicPartitions.PartitionIDs":            "Partitions",
	"electleaders.Response.ThrottleTime":                          "ThrottleTimeMs",
	"electleaders.ResponseReplicaElectionResult.PartitionResults": "PartitionResult",
	"fetch.Request.ForgottenTopics":                               "ForgottenTopicsData",
	"fetch.Request.MaxWaitTime":                                   "MaxWaitMs",
	"fetch.Response.Topics":                                       "Responses",
	"fetch.ResponsePartition.Partition":                           "PartitionIndex",
	"fetch.ResponsePartition.RecordSet":                           "Records",
	"joingroup.Response.LeaderID":                                 "Leader",
	"listoffsets.RequestPartition.Partition":                      "PartitionIndex",
	"listoffsets.RequestTopic.Topic":                              "Name",
	"listoffsets.ResponsePartition.Partition":                     "PartitionIndex",
	"listoffsets.ResponseTopic.Topic":                             "Name",
	"metadata.Request.TopicNames":                                 "Topics",
	"offsetfetch.ResponsePartition.ComittedLeaderEpoch":           "CommittedLeaderEpoch",
	"produce.Request.Timeout":                                     "TimeoutMs",
	"produce.RequestPartition.Partition":                          "Index",
	"produce.RequestPartition.RecordSet":                          "Records",
	"produce.RequestTopic.Topic":                                  "Name",
	"produce.Response.Topics":                                     "Responses",
	"produce.ResponsePartition.LogAppendTime":                     "LogAppendTimeMs",
	"produce.ResponsePartition.Partition":                         "Index",
	"produce.ResponseTopic.Partitions":                            "PartitionResponses",
	"produce.ResponseTopic.Topic":                                 "Name",
	"rawproduce.Request.Timeout":                                  "TimeoutMs",
	"rawproduce.RequestPartition.Partition":                       "Index",
	"rawproduce.RequestPartition.RecordSet":                       "Records",
	"rawproduce.RequestTopic.Topic":                               "Name",
	"syncgroup.Response.Assignments":                              "Assignment",
	"txnoffsetcommit.RequestPartition.Partition":                  "PartitionIndex",
	"txnoffsetcommit.ResponsePartition.Partition":                 "PartitionIndex",
}

// c04NullExempt lists the positions ("<Api>:<req|resp>:<path>") that the
// protocol definition marks nullable but where the pinned kafka-go does not
// declare the field nullable: there a Go zero value can only be written as
// "empty", which is accepted (null is equivalent to empty for nullable
// fields). Value: "*" or a comma-separated list of versions.
var c04NullExempt = map[string]string{
	"Fetch:resp:Responses.Partitions.AbortedTransactions":     "*",
	"Produce:req:Topics.Partitions.Records":                   "*",
	"Fetch:resp:Responses.Partitions.Records":                 "*",
	"SyncGroup:req:ProtocolType":                              "*",
	"SyncGroup:req:ProtocolName":                              "*",
	"SyncGroup:resp:ProtocolType":                             "*",
	"SyncGroup:resp:ProtocolName":                             "*",
	"CreateTopics:resp:Topics.Configs":                        "*",
	"TxnOffsetCommit:req:Topics.Partitions.CommittedMetadata": "0,1,2",
	"ElectLeaders:req:TopicPartitions":                        "*",
	"DescribeClientQuotas:resp:Entries":                       "*",
	"DescribeUserScramCredentials:req:Users":                  "*",
}
