package props

import (
	"bytes"
	"context"
	"encoding/json"
	"fmt"
	"os"
	"os/exec"
	"path/filepath"
	"runtime"
	"sort"
	"strconv"
	"strings"
	"sync"
	"time"

	"verifharness/core"
)

// The protocol package has a second implementation of its value accessors
// (reflect_unsafe.go, build tag `unsafe`). The check builds a second verifrun
// with -tags "verif unsafe" -gcflags=all=-d=checkptr, lets it compute the
// a/b/c digests (library-encoded bytes, canonical dump of the library-decoded
// values) of the first values of every (type, version) pair and compares them
// byte for byte with the digests of this (default) build.

type c04DigestFile struct {
	Values   int               `json:"values"`
	Pairs    map[string]string `json:"pairs"`
	ViolKeys []string          `json:"viol_keys"`
	Viols    []core.Violation  `json:"viols"`
	Build    string            `json:"build"`
}

func c04UnsafeValues(c *core.Ctx) int {
	if s := os.Getenv("C04_DIGEST_VALUES"); s != "" {
		if n, err := strconv.Atoi(s); err == nil {
			return n
		}
	}
	return c.N(40, 1500)
}

// c04ComputeDigests evaluates the first n values of every pair (the same
// seeds as block 0 of the gen list) and returns the digest per pair plus the
// violations the oracles raised on the way.
func c04ComputeDigests(c *core.Ctx, pairs []c04Pair, n int) *c04DigestFile {
	out := &c04DigestFile{Values: n, Pairs: map[string]string{}}
	var mu sync.Mutex
	keys := map[string]bool{}
	workers := runtime.GOMAXPROCS(0)
	if workers > 8 {
		workers = 8
	}
	var wg sync.WaitGroup
	for w := 0; w < workers; w++ {
		wg.Add(1)
		go func(w int) {
			defer wg.Done()
			for pi := w; pi < len(pairs); pi += workers {
				p := &pairs[pi]
				dig := &c04Digest{}
				env := &c04Env{dig: dig, count: func(string, int64) {},
					viol: func(key, what string, wit any) {
						mu.Lock()
						if !keys[key] {
							keys[key] = true
							out.Viols = append(out.Viols, core.Violation{Key: key, What: what, Witness: wit})
						}
						mu.Unlock()
					}}
				for i := 0; i < n; i++ {
					seed, class := c04ValueSeed(c, pi, 0, i)
					func() {
						defer func() {
							if r := recover(); r != nil {
								env.viol("panic:"+p.String(), fmt.Sprintf("panic while evaluating %s: %v", p, r), nil)
							}
						}()
						c04Eval(env, p, seed, class)
					}()
				}
				mu.Lock()
				out.Pairs[p.String()] = dig.hex()
				mu.Unlock()
			}
		}(w)
	}
	wg.Wait()
	for k := range keys {
		out.ViolKeys = append(out.ViolKeys, k)
	}
	sort.Strings(out.ViolKeys)
	return out
}

// c04DigestChild is what the unsafe binary runs (C04_DIGEST_OUT is set).
func c04DigestChild(c *core.Ctx, out string) {
	d := c04ComputeDigests(c, c04Pairs(), c04UnsafeValues(c))
	d.Build = c04BuildKind
	b, _ := json.Marshal(d)
	if err := os.WriteFile(out, b, 0o644); err != nil {
		fmt.Fprintln(os.Stderr, "c04 digest child:", err)
		os.Exit(2)
	}
}

func c04BuildUnsafe(dir string) (string, string, error) {
	verifDir := os.Getenv("VERIF_DIR")
	if verifDir == "" {
		verifDir = "/verif"
	}
	harness := filepath.Join(verifDir, "harness")
	bin := filepath.Join(dir, "verifrun-unsafe")
	args := []string{"build", "-tags", "verif unsafe", "-gcflags=all=-d=checkptr"}
	if repo := os.Getenv("VERIF_REPO"); repo != "" && repo != "/repo" {
		gm, err := os.ReadFile(filepath.Join(harness, "go.mod"))
		if err != nil {
			return "", "", err
		}
		gm = bytes.Replace(gm, []byte("=> /repo"), []byte("=> "+repo), 1)
		os.WriteFile(filepath.Join(dir, "go.mod"), gm, 0o644)
		gs, _ := os.ReadFile(filepath.Join(harness, "go.sum"))
		os.WriteFile(filepath.Join(dir, "go.sum"), gs, 0o644)
		args = append(args, "-modfile", filepath.Join(dir, "go.mod"))
	}
	args = append(args, "-o", bin, "./cmd/verifrun")
	ctx, cancel := context.WithTimeout(context.Background(), 90*time.Second)
	defer cancel()
	cmd := exec.CommandContext(ctx, "go", args...)
	cmd.Dir = harness
	cmd.Env = append(os.Environ(), "GOFLAGS=-mod=mod", "GOPROXY=off", "GOSUMDB=off", "GOTOOLCHAIN=local", "GOMAXPROCS=8")
	outb, err := cmd.CombinedOutput()
	return bin, string(outb), err
}

func runC04Unsafe(c *core.Ctx, pairs []c04Pair) {
	if os.Getenv("C04_NO_UNSAFE") != "" {
		return
	}
	c.Cases("unsafe", 1, func(k *core.Case) {
		n := c04UnsafeValues(k.Ctx)
		k.Describe(map[string]any{"build": "-tags 'verif unsafe' -gcflags=all=-d=checkptr", "values_per_pair": n, "pairs": len(pairs)})
		dir, err := os.MkdirTemp("", "c04-unsafe-")
		if err != nil {
			k.Inconclusive("unsafe build: " + err.Error())
			return
		}
		defer os.RemoveAll(dir)
		bin, blog, err := c04BuildUnsafe(dir)
		if err != nil {
			// a tree on which the unsafe variant does not compile/link cannot be compared
			if len(blog) > 1500 {
				blog = blog[len(blog)-1500:]
			}
			k.Inconclusive("the -tags unsafe build of the protocol package failed: " + err.Error() + ": " + blog)
			k.Count("unsafe_build_failed", 1)
			return
		}
		// the default build's digests are computed while the child runs
		var mine *c04DigestFile
		done := make(chan struct{})
		go func() { defer close(done); mine = c04ComputeDigests(k.Ctx, pairs, n) }()
		outp := filepath.Join(dir, "digests.json")
		cmd := exec.Command(bin, "-prop", "C04", "-tier", k.Tier, "-seed", fmt.Sprint(k.Seed), "-shard", "0", "-nshards", "1", "-out", filepath.Join(dir, "child.json"))
		cmd.Env = append(os.Environ(), "C04_DIGEST_OUT="+outp, "C04_DIGEST_VALUES="+fmt.Sprint(n), "GOMAXPROCS=8")
		var stderr bytes.Buffer
		cmd.Stdout, cmd.Stderr = &stderr, &stderr
		rerr := cmd.Run()
		<-done
		if rerr != nil {
			tail := stderr.String()
			if len(tail) > 3000 {
				tail = tail[:3000]
			}
			k.Viol("c04:unsafe:crash", fmt.Sprintf("the verifrun built with -tags unsafe and -d=checkptr died while encoding/decoding generated values: %v", rerr), map[string]any{"stderr": tail})
			return
		}
		b, err := os.ReadFile(outp)
		var theirs c04DigestFile
		if err != nil || json.Unmarshal(b, &theirs) != nil {
			k.Inconclusive("unsafe child wrote no digests")
			return
		}
		if theirs.Build != "unsafe" {
			k.Inconclusive("the child binary was not built with the unsafe tag (build=" + theirs.Build + ")")
			return
		}
		k.Eval(len(pairs) * n)
		k.Count("unsafe_pairs_compared", int64(len(theirs.Pairs)))
		k.Count("unsafe_values_per_pair", int64(n))
		myKeys := map[string]bool{}
		for _, key := range mine.ViolKeys {
			myKeys[key] = true
		}
		var names []string
		for name := range mine.Pairs {
			names = append(names, name)
		}
		sort.Strings(names)
		for _, name := range names {
			k.Distinct("unsafe|" + name)
			if theirs.Pairs[name] != mine.Pairs[name] {
				parts := strings.Split(name, ":")
				k.Viol(fmt.Sprintf("c04:unsafe-differs:%s:%s", parts[0], parts[1]), fmt.Sprintf("%s: the unsafe build's encoded bytes / decoded values differ from the default build's over the same %d generated values (digest %s vs %s)", name, n, theirs.Pairs[name], mine.Pairs[name]), nil)
			}
		}
		for _, v := range theirs.Viols {
			if !myKeys[v.Key] {
				k.Viol("unsafe:"+v.Key, "only in the unsafe build: "+v.What, v.Witness)
			}
		}
	})
}
