// verif is the driver behind /verif/check.sh: it rebuilds verifrun from
// /repo's current working tree (hooks on: -tags verif), runs the property's
// shards as child processes under a watchdog, merges their results, applies
// /verif/known_findings.txt, writes /verif/evidence/<id>.json and prints
// VIOLATION / KNOWN-FINDING / INCONCLUSIVE lines.
//
// Exit codes: 0 held on everything explored (possibly with inconclusive
// cases and known findings), 1 violation, 2 harness broken / observed nothing.
package main

import (
	"bufio"
	"bytes"
	"crypto/sha256"
	"encoding/json"
	"fmt"
	"os"
	"os/exec"
	"path/filepath"
	"regexp"
	"sort"
	"strconv"
	"strings"
	"sync"
	"syscall"
	"time"

	"verifharness/core"
)

// verifDir is /verif for registered commands; check.sh exports VERIF_DIR as
// its own directory so that a private copy of the framework can be exercised
// elsewhere during development.
var verifDir = "/verif"

// repoDir is /repo for every registered command. VERIF_REPO points the build
// at a scratch copy of the repository instead (self-validation against
// mutants); it is never set by MANIFEST commands.
var repoDir = "/repo"

func altTag() string {
	if repoDir == "/repo" {
		return ""
	}
	h := sha256.Sum256([]byte(repoDir))
	return fmt.Sprintf("-alt%x", h[:4])
}

type propInfo struct {
	ID, Level, Rule string
	Assumptions     []string
	Race            bool
	Shards          int
}

func main() {
	args := os.Args[1:]
	if d := os.Getenv("VERIF_DIR"); d != "" {
		verifDir = d
	}
	if r := os.Getenv("VERIF_REPO"); r != "" {
		repoDir = r
	}
	if len(args) >= 2 && args[0] == "--replay" {
		os.Exit(replay(args[1]))
	}
	if len(args) == 1 && args[0] == "build" {
		if err := build(false); err != nil {
			fatal("%v", err)
		}
		if err := build(true); err != nil {
			fatal("%v", err)
		}
		return
	}
	if len(args) < 1 {
		fatal("usage: verif <property> [quick|thorough] | verif --replay <file> | verif build")
	}
	id := args[0]
	tier := "quick"
	if len(args) > 1 {
		tier = args[1]
	} else if t := os.Getenv("VERIF_TIER"); t != "" {
		tier = t
	}
	os.Exit(check(id, tier))
}

func fatal(f string, a ...any) {
	fmt.Fprintf(os.Stderr, "verif: "+f+"\n", a...)
	os.Exit(2)
}

func goEnv() []string {
	env := os.Environ()
	env = append(env, "GOFLAGS=-mod=mod", "GOPROXY=off", "GOSUMDB=off", "GOTOOLCHAIN=local")
	return env
}

func binPath(race bool) string {
	if race {
		return filepath.Join(verifDir, "bin", "verifrun"+altTag()+"-race")
	}
	return filepath.Join(verifDir, "bin", "verifrun"+altTag())
}

func build(race bool) error {
	os.MkdirAll(filepath.Join(verifDir, "bin"), 0o755)
	a := []string{"build", "-tags", "verif"}
	if race {
		a = append(a, "-race")
	}
	if repoDir != "/repo" {
		// alternate module file whose replace directive points at the scratch copy
		dir := filepath.Join(verifDir, "run", "mod"+altTag())
		os.MkdirAll(dir, 0o755)
		gm, err := os.ReadFile(filepath.Join(verifDir, "harness", "go.mod"))
		if err != nil {
			return err
		}
		gm = bytes.Replace(gm, []byte("=> /repo"), []byte("=> "+repoDir), 1)
		os.WriteFile(filepath.Join(dir, "go.mod"), gm, 0o644)
		gs, _ := os.ReadFile(filepath.Join(verifDir, "harness", "go.sum"))
		os.WriteFile(filepath.Join(dir, "go.sum"), gs, 0o644)
		a = append(a, "-modfile", filepath.Join(dir, "go.mod"))
	}
	a = append(a, "-o", binPath(race), "./cmd/verifrun")
	cmd := exec.Command("go", a...)
	cmd.Dir = filepath.Join(verifDir, "harness")
	cmd.Env = goEnv()
	out, err := cmd.CombinedOutput()
	if err != nil {
		return fmt.Errorf("go build failed: %v\n%s", err, out)
	}
	return nil
}

func repoStatus() string {
	out, _ := exec.Command("git", "-C", repoDir, "status", "--porcelain").Output()
	h := sha256.Sum256(out)
	return fmt.Sprintf("%x", h[:8])
}

func seed() uint64 {
	if s := os.Getenv("VERIF_SEED"); s != "" {
		if n, err := strconv.ParseUint(s, 10, 64); err == nil {
			return n
		}
		if n, err := strconv.ParseInt(s, 10, 64); err == nil {
			return uint64(n)
		}
	}
	return 1
}

func info(race bool) (map[string]propInfo, error) {
	out, err := exec.Command(binPath(race), "-info").Output()
	if err != nil {
		return nil, err
	}
	var all []propInfo
	if err := json.Unmarshal(out, &all); err != nil {
		return nil, err
	}
	m := map[string]propInfo{}
	for _, p := range all {
		m[p.ID] = p
	}
	return m, nil
}

type finding struct {
	open bool
	prop string
	key  string
	what string
}

func loadFindings() []finding {
	f, err := os.Open(filepath.Join(verifDir, "known_findings.txt"))
	if err != nil {
		return nil
	}
	defer f.Close()
	var fs []finding
	sc := bufio.NewScanner(f)
	for sc.Scan() {
		l := strings.TrimSpace(sc.Text())
		if l == "" || strings.HasPrefix(l, "#") {
			continue
		}
		var fd finding
		switch {
		case strings.HasPrefix(l, "open:"):
			fd.open = true
			l = strings.TrimSpace(l[5:])
		case strings.HasPrefix(l, "fixed:"):
			l = strings.TrimSpace(l[6:])
		default:
			continue
		}
		parts := strings.Fields(l)
		rest := []string{}
		for _, p := range parts {
			switch {
			case strings.HasPrefix(p, "property=") && fd.prop == "":
				fd.prop = p[9:]
			case strings.HasPrefix(p, "key=") && fd.key == "":
				fd.key = p[4:]
			default:
				rest = append(rest, p)
			}
		}
		fd.what = strings.Join(rest, " ")
		fs = append(fs, fd)
	}
	return fs
}

func matchKey(pat, key string) bool {
	if strings.HasSuffix(pat, "*") {
		return strings.HasPrefix(key, pat[:len(pat)-1])
	}
	return pat == key
}

func check(id, tier string) int {
	start := time.Now()
	before := repoStatus()
	if err := build(false); err != nil {
		fatal("%v", err)
	}
	pi, err := info(false)
	if err != nil {
		fatal("verifrun -info: %v", err)
	}
	p, ok := pi[id]
	if !ok {
		fatal("unknown property %s", id)
	}
	if p.Race {
		if err := build(true); err != nil {
			fatal("%v", err)
		}
	}
	nshards := p.Shards
	if nshards <= 0 {
		nshards = 16
	}
	sd := seed()
	runDir := filepath.Join(verifDir, "run", id+"-"+tier+altTag())
	os.RemoveAll(runDir)
	os.MkdirAll(runDir, 0o755)
	os.MkdirAll(filepath.Join(verifDir, "evidence"), 0o755)

	capDur := 20 * time.Minute
	if tier == "thorough" {
		capDur = 90 * time.Minute
	}

	results := make([]*core.ShardResult, nshards)
	crashes := make([]string, nshards)
	var wg sync.WaitGroup
	for i := 0; i < nshards; i++ {
		wg.Add(1)
		go func(i int) {
			defer wg.Done()
			out := filepath.Join(runDir, fmt.Sprintf("shard%d.json", i))
			logp := filepath.Join(runDir, fmt.Sprintf("shard%d.log", i))
			errp := filepath.Join(runDir, fmt.Sprintf("shard%d.stderr", i))
			ef, _ := os.Create(errp)
			cmd := exec.Command(binPath(p.Race), "-prop", id, "-tier", tier, "-seed", fmt.Sprint(sd),
				"-shard", fmt.Sprint(i), "-nshards", fmt.Sprint(nshards), "-out", out, "-log", logp)
			cmd.Stdout = ef
			cmd.Stderr = ef
			cmd.Env = os.Environ()
			if os.Getenv("GOMAXPROCS") == "" {
				// avoid oversubscribing the machine: 16 shards x 16 Ps makes
				// goroutines of timing-sensitive scenarios starve for seconds
				gmp := 32 / nshards
				if gmp < 2 {
					gmp = 2
				}
				if gmp > 16 {
					gmp = 16
				}
				cmd.Env = append(cmd.Env, fmt.Sprintf("GOMAXPROCS=%d", gmp))
			}
			if p.Race {
				cmd.Env = append(cmd.Env, "GORACE=halt_on_error=0 log_path="+filepath.Join(runDir, fmt.Sprintf("race%d", i)))
			}
			if err := cmd.Start(); err != nil {
				crashes[i] = "start: " + err.Error()
				return
			}
			done := make(chan error, 1)
			go func() { done <- cmd.Wait() }()
			var werr error
			select {
			case werr = <-done:
			case <-time.After(capDur):
				cmd.Process.Signal(syscall.SIGQUIT)
				select {
				case werr = <-done:
				case <-time.After(10 * time.Second):
					cmd.Process.Kill()
					werr = <-done
				}
				crashes[i] = "watchdog"
			}
			ef.Close()
			b, rerr := os.ReadFile(out)
			if rerr == nil {
				var r core.ShardResult
				if json.Unmarshal(b, &r) == nil && r.Done {
					results[i] = &r
					return
				}
			}
			if crashes[i] == "" {
				crashes[i] = fmt.Sprintf("exit: %v", werr)
			}
		}(i)
	}
	wg.Wait()

	// merge
	var evals int64
	distinct := map[uint64]struct{}{}
	counters := map[string]int64{}
	var samples []any
	var viols []core.Violation
	var incon []string
	exhaustive := (*bool)(nil)
	harnessBroken := false
	for i, r := range results {
		if r == nil {
			// a shard that died or was stopped at the time cap wrote no result: the verdicts it had logged
			// until then are still verdicts (a tree on which every case is slow must not end as "nothing observed")
			sv, ended := salvageLog(runDir, i)
			viols = append(viols, sv...)
			evals += int64(ended)
			if len(sv) > 0 || ended > 0 {
				counters["cases_salvaged_from_unfinished_shards"] += int64(ended)
			}
			v, harness := triageCrash(id, runDir, i, crashes[i])
			if harness {
				harnessBroken = true
				fmt.Printf("HARNESS-ERROR property=%s shard=%d %s (see %s)\n", id, i, crashes[i], runDir)
			} else if v != nil {
				viols = append(viols, *v)
			} else {
				incon = append(incon, fmt.Sprintf("shard %d: %s", i, crashes[i]))
			}
			continue
		}
		evals += r.Evaluations
		for _, h := range r.Distinct {
			distinct[h] = struct{}{}
		}
		for k, n := range r.Counters {
			if strings.HasPrefix(k, "max:") {
				if n > counters[k] {
					counters[k] = n
				}
			} else {
				counters[k] += n
			}
		}
		if len(samples) < 4 {
			for _, s := range r.Samples {
				if len(samples) < 4 {
					samples = append(samples, s)
				}
			}
		}
		viols = append(viols, r.Violations...)
		incon = append(incon, r.Inconclusive...)
		if r.Exhaustive != nil {
			if exhaustive == nil || !*r.Exhaustive {
				b := *r.Exhaustive
				exhaustive = &b
			}
		}
	}
	if p.Race {
		rv, nreports, nraw, hr := scanRaceLogs(runDir)
		counters["race_reports_raw"] = int64(nraw)
		counters["race_reports_deduped"] = int64(nreports)
		counters["harness_race_reports"] = int64(len(hr))
		viols = append(viols, rv...)
		for _, h := range hr {
			fmt.Printf("HARNESS-ERROR property=%s data race between harness accesses:\n%s\n", id, h)
			harnessBroken = true
		}
	}

	// known findings
	findings := loadFindings()
	os.MkdirAll(filepath.Join(verifDir, "replays", id), 0o755)
	var lines []string
	knownSeen := map[string]bool{}
	nviol := 0
	violKeys := map[string]bool{}
	sort.SliceStable(viols, func(i, j int) bool { return viols[i].Key < viols[j].Key })
	for _, v := range viols {
		known := false
		for _, f := range findings {
			if f.open && f.prop == id && matchKey(f.key, v.Key) {
				known = true
				if !knownSeen[f.key] {
					knownSeen[f.key] = true
					lines = append(lines, fmt.Sprintf("KNOWN-FINDING: property=%s %s (key=%s)", id, f.what, f.key))
				}
				break
			}
		}
		if known {
			continue
		}
		if violKeys[v.Key] {
			nviol++
			continue
		}
		violKeys[v.Key] = true
		nviol++
		name := fmt.Sprintf("%s-seed%d-%s.json", tier, sd, sanitize(v.Key))
		path := filepath.Join(verifDir, "replays", id, name)
		if repoDir != "/repo" {
			path = filepath.Join(verifDir, "run", "replays"+altTag(), id+"-"+name)
			os.MkdirAll(filepath.Dir(path), 0o755)
		}
		core.WriteJSON(path, map[string]any{"property": id, "tier": tier, "seed": sd, "case": v.Case, "key": v.Key, "what": v.What, "witness": v.Witness})
		lines = append(lines, fmt.Sprintf("VIOLATION property=%s replay=%s key=%s :: %s", id, path, v.Key, v.What))
	}
	// open findings that were not observed this run are reported as such (not a failure).
	for _, f := range findings {
		if f.open && f.prop == id && !knownSeen[f.key] {
			lines = append(lines, fmt.Sprintf("NOTE: known finding not reproduced in this run: property=%s key=%s", id, f.key))
		}
	}
	for i, s := range incon {
		if i < 10 {
			lines = append(lines, fmt.Sprintf("INCONCLUSIVE property=%s %s", id, s))
		}
	}

	cov := map[string]any{
		"evaluations":         evals,
		"distinct_nontrivial": len(distinct),
		"rule":                p.Rule,
		"samples":             samples,
		"counters":            counters,
		"inconclusive":        len(incon),
		"known_findings_seen": len(knownSeen),
		"shards":              nshards,
	}
	if exhaustive != nil {
		cov["exhaustive"] = *exhaustive
	}
	if samples == nil {
		cov["samples"] = []any{}
	}
	ev := map[string]any{
		"property_id": id,
		"tier":        tier,
		"seed":        sd,
		"level":       p.Level,
		"coverage":    cov,
		"assumptions": p.Assumptions,
		"wall_s":      time.Since(start).Seconds(),
		"violations":  nviol,
	}
	evPath := filepath.Join(verifDir, "evidence", id+".json")
	if repoDir != "/repo" {
		evPath = filepath.Join(runDir + ".evidence.json")
	}
	if err := core.WriteJSON(evPath, ev); err != nil {
		fatal("evidence: %v", err)
	}
	for _, l := range lines {
		fmt.Println(l)
	}
	after := repoStatus()
	if before != after {
		fmt.Printf("HARNESS-ERROR property=%s /repo working tree changed during the check\n", id)
		harnessBroken = true
	}
	fmt.Printf("SUMMARY property=%s tier=%s seed=%d evaluations=%d distinct=%d violations=%d known=%d inconclusive=%d wall=%.1fs\n",
		id, tier, sd, evals, len(distinct), nviol, len(knownSeen), len(incon), time.Since(start).Seconds())
	if nviol > 0 {
		return 1
	}
	if harnessBroken || evals == 0 {
		if evals == 0 {
			fmt.Printf("HARNESS-ERROR property=%s observed nothing\n", id)
		}
		return 2
	}
	// keep the run directory small: logs are only needed on failure
	if len(incon) == 0 {
		os.RemoveAll(runDir)
	}
	return 0
}

// salvageLog reads the VIOL lines a shard logged before it died or was stopped, and counts the cases it
// had finished.
func salvageLog(runDir string, shard int) ([]core.Violation, int) {
	b, err := os.ReadFile(filepath.Join(runDir, fmt.Sprintf("shard%d.log", shard)))
	if err != nil {
		return nil, 0
	}
	var out []core.Violation
	seen := map[string]int{}
	ended := 0
	for _, l := range strings.Split(string(b), "\n") {
		if strings.HasPrefix(l, "END ") {
			ended++
			continue
		}
		if !strings.HasPrefix(l, "VIOL ") {
			continue
		}
		f := strings.SplitN(l, " ", 4)
		if len(f) < 4 || !strings.HasPrefix(f[2], "key=") {
			continue
		}
		key := strings.TrimPrefix(f[2], "key=")
		if seen[key]++; seen[key] > 3 {
			continue
		}
		out = append(out, core.Violation{Key: key, Case: f[1], What: f[3] + " (from the log of a shard that did not finish)"})
	}
	return out, ended
}

func sanitize(s string) string {
	re := regexp.MustCompile(`[^A-Za-z0-9_.=-]+`)
	s = re.ReplaceAllString(s, "_")
	if len(s) > 80 {
		s = s[:80]
	}
	return s
}

// triageCrash decides what a dead shard means. A process death with a
// kafka-go frame innermost (unrecovered panic in a library goroutine, fatal
// error such as out of memory while decoding) is a violation attributed to
// the last case begun; a death in harness code is a harness error.
func triageCrash(id, runDir string, shard int, why string) (*core.Violation, bool) {
	errb, _ := os.ReadFile(filepath.Join(runDir, fmt.Sprintf("shard%d.stderr", shard)))
	logb, _ := os.ReadFile(filepath.Join(runDir, fmt.Sprintf("shard%d.log", shard)))
	last := ""
	open := map[string]bool{}
	var order []string
	for _, l := range strings.Split(string(logb), "\n") {
		if strings.HasPrefix(l, "BEGIN ") {
			open[l[6:]] = true
			order = append(order, l[6:])
		} else if strings.HasPrefix(l, "END ") {
			delete(open, l[4:])
		}
	}
	for i := len(order) - 1; i >= 0; i-- {
		if open[order[i]] {
			last = order[i]
			break
		}
	}
	es := string(errb)
	if why == "watchdog" {
		return nil, false // inconclusive
	}
	if strings.Contains(es, "HARNESS-PANIC") {
		return nil, true
	}
	idx := strings.Index(es, "panic: ")
	if j := strings.Index(es, "fatal error: "); j >= 0 && (idx < 0 || j < idx) {
		idx = j
	}
	if idx < 0 {
		return nil, true
	}
	st := es[idx:]
	// first goroutine block after the panic line
	if core.StackInLibrary(firstGoroutine(st)) || strings.Contains(firstLine(st), "out of memory") && strings.Contains(st, "github.com/segmentio/kafka-go") {
		site := core.PanicSite(firstGoroutine(st))
		if len(st) > 5000 {
			st = st[:5000]
		}
		return &core.Violation{Key: "crash:" + site, Case: last, What: "process died: " + firstLine(st), Witness: map[string]any{"stderr": st}}, false
	}
	return nil, true
}

func firstLine(s string) string {
	if i := strings.Index(s, "\n"); i >= 0 {
		return s[:i]
	}
	return s
}

func firstGoroutine(s string) string {
	i := strings.Index(s, "goroutine ")
	if i < 0 {
		return s
	}
	s = s[i:]
	if j := strings.Index(s, "\n\n"); j >= 0 {
		s = s[:j]
	}
	return s
}

var lineNo = regexp.MustCompile(`:\d+ \+0x[0-9a-f]+|:\d+`)

// scanRaceLogs counts WARNING: DATA RACE blocks and classifies each by the
// innermost non-runtime frame of its two accesses: a report is attributed to
// the library when kafka-go code takes part in it (a kafka-go frame in either
// access stack) unless both accesses are made by harness code itself (a
// harness callback or the fake network racing with itself), which is a
// harness defect and is returned separately. Library reports are deduped by
// the pair of innermost kafka-go functions.
func scanRaceLogs(runDir string) (viols []core.Violation, nreports, raw int, harness []string) {
	files, _ := filepath.Glob(filepath.Join(runDir, "race*"))
	seen := map[string]bool{}
	for _, f := range files {
		b, err := os.ReadFile(f)
		if err != nil {
			continue
		}
		blocks := bytes.Split(b, []byte("=================="))
		for _, blk := range blocks {
			s := string(blk)
			if !strings.Contains(s, "WARNING: DATA RACE") {
				continue
			}
			raw++
			accs := raceAccesses(s)
			lib, allHarness := false, len(accs) > 0
			var tops []string
			for _, a := range accs {
				if a.libTop != "" {
					lib = true
				}
				if !strings.HasPrefix(a.innermost, "verifharness/") {
					allHarness = false
				}
				t := a.libTop
				if t == "" {
					t = "[" + a.innermost + "]"
				}
				tops = append(tops, t)
			}
			if allHarness || !lib {
				if len(s) > 3000 {
					s = s[:3000]
				}
				if len(harness) < 5 {
					harness = append(harness, s)
				}
				continue
			}
			sort.Strings(tops)
			key := "race:" + strings.Join(tops, "|")
			if seen[key] {
				continue
			}
			seen[key] = true
			if len(s) > 6000 {
				s = s[:6000]
			}
			viols = append(viols, core.Violation{Key: key, What: "data race reported by the Go race detector", Witness: map[string]any{"report": s}})
		}
	}
	return viols, len(viols), raw, harness
}

type raceAccess struct {
	innermost string // innermost frame outside the Go runtime and standard library
	libTop    string // innermost kafka-go function, "" when none
}

// raceAccesses parses the access sections (not the goroutine creation
// stacks) of a race report.
func raceAccesses(rep string) []raceAccess {
	var out []raceAccess
	sections := regexp.MustCompile(`(?m)^(Read at|Write at|Previous read at|Previous write at|Atomic|Previous atomic)`).FindAllStringIndex(rep, -1)
	for i, loc := range sections {
		end := len(rep)
		if i+1 < len(sections) {
			end = sections[i+1][0]
		}
		sec := rep[loc[0]:end]
		if j := strings.Index(sec, "\n\n"); j >= 0 {
			sec = sec[:j]
		}
		var a raceAccess
		for _, l := range strings.Split(sec, "\n")[1:] {
			if !strings.HasPrefix(l, "  ") || strings.HasPrefix(l, "      ") {
				continue // file:line lines are indented deeper
			}
			l = strings.TrimSpace(l)
			if k := strings.LastIndex(l, "("); k > 0 {
				l = l[:k]
			}
			userFrame := strings.Contains(strings.SplitN(l, "/", 2)[0], ".") || strings.HasPrefix(l, "verifharness/")
			if !userFrame {
				continue
			}
			if a.innermost == "" {
				a.innermost = l
			}
			if a.libTop == "" && strings.HasPrefix(l, "github.com/segmentio/kafka-go") {
				a.libTop = strings.TrimPrefix(l, "github.com/segmentio/kafka-go")
			}
		}
		out = append(out, a)
	}
	return out
}

func replay(path string) int {
	if !filepath.IsAbs(path) {
		path = filepath.Join(verifDir, path)
	}
	b, err := os.ReadFile(path)
	if err != nil {
		fatal("%v", err)
	}
	var r struct {
		Property string `json:"property"`
		Tier     string `json:"tier"`
		Seed     uint64 `json:"seed"`
		Case     string `json:"case"`
		Key      string `json:"key"`
	}
	if err := json.Unmarshal(b, &r); err != nil {
		fatal("%v", err)
	}
	if err := build(false); err != nil {
		fatal("%v", err)
	}
	parts := strings.SplitN(r.Case, "/", 2)
	if len(parts) != 2 {
		fatal("replay file has no case id (process-level witness); re-run the check with VERIF_SEED=%d", r.Seed)
	}
	runDir := filepath.Join(verifDir, "run", "replay")
	os.MkdirAll(runDir, 0o755)
	for i := 0; i < 200; i++ {
		out := filepath.Join(runDir, "replay.json")
		cmd := exec.Command(binPath(false), "-prop", r.Property, "-tier", r.Tier, "-seed", fmt.Sprint(r.Seed), "-only", parts[1], "-out", out, "-log", filepath.Join(runDir, "replay.log"))
		cmd.Stderr = os.Stderr
		cmd.Run()
		var res core.ShardResult
		rb, _ := os.ReadFile(out)
		json.Unmarshal(rb, &res)
		for _, v := range res.Violations {
			if v.Key == r.Key {
				fmt.Printf("VIOLATION property=%s replay=%s reproduced on attempt %d: %s\n", r.Property, path, i+1, v.What)
				return 1
			}
		}
	}
	fmt.Printf("not reproduced in 200 attempts (schedules are not replayed bit-for-bit)\n")
	return 0
}
