package fakecluster

// The SASL server of the fake cluster.
//
// A connection of a cluster with a SASLConfig walks through the states
//
//	none -> handshaken -> in-progress -> authenticated
//	                 \________\________-> failed
//
// SaslHandshake v0 switches the connection to raw mode: the following frames
// are length-prefixed opaque tokens answered by length-prefixed opaque tokens;
// SaslHandshake v1 keeps Kafka framing and the tokens travel inside
// SaslAuthenticate requests. PLAIN is checked byte-exactly against Users;
// SCRAM-SHA-256/512 run xdg-go/scram's *server* conversation over credentials
// that are derived here (own PBKDF2, no code shared with the client side).
//
// Failures are signalled the way brokers do it: error code 33 for an unknown
// mechanism, 58 / 34 inside SaslAuthenticate responses in framed mode, and by
// closing the connection in raw mode. "Closing" is done as a half close when
// Linger is set: the client sees EOF, but the server keeps reading, so
// whatever the client still sends after the failure is observed and journaled
// (API == APILinger).
//
// Every step can be sabotaged through SASLConfig.Fault.

import (
	"bytes"
	"crypto/hmac"
	"crypto/sha256"
	"crypto/sha512"
	"encoding/binary"
	"errors"
	"fmt"
	"hash"
	"strings"
	"sync"
	"time"

	"github.com/xdg-go/scram"

	"verifharness/core"
	"verifharness/fakenet"
	"verifharness/refcodec"
)

const (
	// APIRawToken marks journal events of raw (handshake v0) SASL tokens.
	APIRawToken = -1
	// APILinger marks journal events of bytes received after the server ended
	// its side of the connection (only with SASLConfig.Linger).
	APILinger = -2
)

const (
	AuthNone          = "none"
	AuthHandshaken    = "handshaken"
	AuthInProgress    = "in-progress"
	AuthAuthenticated = "authenticated"
	AuthFailed        = "failed"
)

// SASLConfig enables the SASL gate on every broker connection.
type SASLConfig struct {
	// Mechanisms enabled on the brokers (nil = PLAIN, SCRAM-SHA-256, SCRAM-SHA-512).
	Mechanisms []string
	// Users maps user name to password, both in their stored (normalised)
	// form: PLAIN compares byte-exactly; the SCRAM credential lookup
	// un-escapes the name received (=2C, =3D) and looks it up byte-exactly,
	// and the stored keys are derived from the password bytes as given.
	Users map[string]string
	// ScramIterations for SCRAM credentials derived from Users (0 = 4096, the
	// minimum xdg-go/scram clients accept).
	ScramIterations int
	// Salt returns the salt of a user (nil = derived from the name).
	Salt func(user string) []byte
	// Linger: when the server ends a connection during or because of the SASL
	// exchange it only half-closes it (EOF towards the client) and keeps
	// reading until the client closes, journaling what arrives.
	Linger bool
	// LingerMax bounds a linger (0 = 30s).
	LingerMax time.Duration
	// Fault, when set, is consulted for every step of every exchange after
	// the reference verdict and reply have been computed.
	Fault func(*SASLStep) *SASLFault
	// RawScript is the simple hook for raw tokens: consulted before Fault for
	// raw-mode steps; a non-nil reply replaces the reference reply,
	// closeConn ends the connection without a reply. Both zero = no fault.
	RawScript func(step int, token []byte) (reply []byte, closeConn bool)

	mu    sync.Mutex
	conns map[int64]*SASLConnInfo
	order []int64
	creds map[string]scram.StoredCredentials
}

// SASLStep describes one step of an exchange to the fault hook.
type SASLStep struct {
	ConnID int64
	// Ordinal is the 1-based rank of the connection among the connections
	// that started a SASL exchange on this cluster.
	Ordinal int
	Broker  int32
	Mech    string
	HsVer   int
	Raw     bool
	// Index: 0 = SaslHandshake, 1.. = authentication tokens.
	Index int
	Token []byte
	// Reply is the reference server's reply token (nil for the handshake and
	// for rejected steps); OK its verdict on this step; Final: the exchange
	// is complete (and accepted) after this step.
	Reply []byte
	OK    bool
	Final bool
}

// SASLFault is what the hook wants done instead of the reference behaviour.
type SASLFault struct {
	// Kind: "close" (read the step, answer nothing, end the connection),
	// "cut" (answer, but only CutAt bytes of the reply frame, then CutMode),
	// "error" (answer with Code: handshake or framed SaslAuthenticate; in raw
	// mode the same as "close"), "token" (answer successfully, but with Token
	// instead of the reference reply), "rawbytes" (raw mode only: write Token
	// verbatim, without a length prefix, where the reply frame would go).
	Kind    string
	Code    int16
	CutAt   int
	CutMode fakenet.CutMode
	Token   []byte
	// KeepBytes: with Kind "error", still carry the reference reply token.
	KeepBytes bool
	// Accept: with Kind "rawbytes", the server keeps its reference verdict and
	// state (the step is not failed); only the bytes on the wire change.
	Accept bool
	// Label names the fault in SASLConnInfo.FailKind.
	Label string
}

// SASLConnInfo is the server-side record of one connection's exchange.
type SASLConnInfo struct {
	ConnID  int64
	Ordinal int
	Broker  int32
	Conn    *fakenet.Conn
	Mech    string
	HsVer   int
	Raw     bool
	State   string
	User    string
	// Steps counts the steps received (handshake included).
	Steps           int
	AuthenticatedAt int64
	// FailedAt is the logical time at which the server decided the failure
	// (before any byte of the failing answer was written); the client is
	// waiting for that answer, so anything it writes later was sent after
	// the failure.
	FailedAt int64
	FailKind string
	FailStep int
	Injected bool
	// LingerBytes counts bytes received after the server ended its side.
	LingerBytes int64
}

func (cfg *SASLConfig) info(b *Broker, s *fakenet.Conn) *SASLConnInfo {
	cfg.mu.Lock()
	defer cfg.mu.Unlock()
	if cfg.conns == nil {
		cfg.conns = map[int64]*SASLConnInfo{}
	}
	ci := cfg.conns[s.ID]
	if ci == nil {
		ci = &SASLConnInfo{ConnID: s.ID, Broker: b.ID, Conn: s, State: AuthNone, Ordinal: len(cfg.order) + 1}
		cfg.conns[s.ID] = ci
		cfg.order = append(cfg.order, s.ID)
	}
	return ci
}

// Conns returns copies of the per-connection records, in order of first SASL activity.
func (cfg *SASLConfig) Conns() []SASLConnInfo {
	cfg.mu.Lock()
	defer cfg.mu.Unlock()
	out := make([]SASLConnInfo, 0, len(cfg.order))
	for _, id := range cfg.order {
		out = append(out, *cfg.conns[id])
	}
	return out
}

func (cfg *SASLConfig) update(ci *SASLConnInfo, f func(*SASLConnInfo)) {
	cfg.mu.Lock()
	f(ci)
	cfg.mu.Unlock()
}

func (cfg *SASLConfig) mechanisms() []string {
	if cfg.Mechanisms != nil {
		return cfg.Mechanisms
	}
	return []string{"PLAIN", "SCRAM-SHA-256", "SCRAM-SHA-512"}
}

func (cfg *SASLConfig) enabled(m string) bool {
	for _, x := range cfg.mechanisms() {
		if x == m {
			return true
		}
	}
	return false
}

// ---------------------------------------------------------------- SCRAM

type scramServer struct {
	conv *scram.ServerConversation
	user string
}

func scramHash(mech string) (func() hash.Hash, scram.HashGeneratorFcn) {
	if mech == "SCRAM-SHA-512" {
		return sha512.New, scram.SHA512
	}
	return sha256.New, scram.SHA256
}

// hi is PBKDF2 with HMAC as PRF and one output block (RFC 5802 "Hi").
func hi(h func() hash.Hash, password, salt []byte, iters int) []byte {
	mac := hmac.New(h, password)
	mac.Write(salt)
	mac.Write([]byte{0, 0, 0, 1})
	u := mac.Sum(nil)
	out := append([]byte(nil), u...)
	for i := 1; i < iters; i++ {
		mac.Reset()
		mac.Write(u)
		u = mac.Sum(u[:0])
		for j := range out {
			out[j] ^= u[j]
		}
	}
	return out
}

// ScramUnescape strictly reverses the saslname escaping of RFC 5802.
func ScramUnescape(s string) (string, error) {
	var sb strings.Builder
	for i := 0; i < len(s); i++ {
		switch {
		case s[i] == ',':
			return "", errors.New("unescaped ',' in saslname")
		case s[i] != '=':
			sb.WriteByte(s[i])
		case strings.HasPrefix(s[i:], "=2C"):
			sb.WriteByte(',')
			i += 2
		case strings.HasPrefix(s[i:], "=3D"):
			sb.WriteByte('=')
			i += 2
		default:
			return "", errors.New("invalid '=' escape in saslname")
		}
	}
	return sb.String(), nil
}

func (cfg *SASLConfig) storedCredentials(mech, user string) (scram.StoredCredentials, error) {
	pass, ok := cfg.Users[user]
	if !ok {
		return scram.StoredCredentials{}, fmt.Errorf("unknown user %q", user)
	}
	cfg.mu.Lock()
	defer cfg.mu.Unlock()
	key := mech + "\x00" + user
	if sc, ok := cfg.creds[key]; ok {
		return sc, nil
	}
	iters := cfg.ScramIterations
	if iters <= 0 {
		iters = 4096
	}
	var salt []byte
	if cfg.Salt != nil {
		salt = cfg.Salt(user)
	} else {
		sum := sha256.Sum256([]byte("salt:" + user))
		salt = sum[:16]
	}
	h, _ := scramHash(mech)
	salted := hi(h, []byte(pass), salt, iters)
	mac := func(key []byte, msg string) []byte {
		m := hmac.New(h, key)
		m.Write([]byte(msg))
		return m.Sum(nil)
	}
	clientKey := mac(salted, "Client Key")
	hh := h()
	hh.Write(clientKey)
	sc := scram.StoredCredentials{KeyFactors: scram.KeyFactors{Salt: string(salt), Iters: iters},
		StoredKey: hh.Sum(nil), ServerKey: mac(salted, "Server Key")}
	if cfg.creds == nil {
		cfg.creds = map[string]scram.StoredCredentials{}
	}
	cfg.creds[key] = sc
	return sc, nil
}

func (cfg *SASLConfig) newScram(mech string, st *connState) {
	_, gen := scramHash(mech)
	srv, _ := gen.NewServer(func(name string) (scram.StoredCredentials, error) {
		user, err := ScramUnescape(name)
		if err != nil {
			return scram.StoredCredentials{}, err
		}
		st.scram.user = user
		return cfg.storedCredentials(mech, user)
	})
	st.scram.conv = srv.NewConversation()
}

// ---------------------------------------------------------------- reference verdicts

// refToken runs one authentication token through the reference server.
// It returns the reply token, whether the step is accepted and whether the
// exchange is complete.
func (cfg *SASLConfig) refToken(st *connState, idx int, token []byte) (reply []byte, ok, final bool, user, why string) {
	switch st.mech {
	case "PLAIN":
		if idx != 1 {
			return nil, false, false, "", "PLAIN: unexpected extra token"
		}
		parts := bytes.Split(token, []byte{0})
		if len(parts) != 3 {
			return nil, false, false, "", fmt.Sprintf("PLAIN: token has %d NUL-separated parts", len(parts))
		}
		authzid, authcid, passwd := string(parts[0]), string(parts[1]), string(parts[2])
		if authcid == "" {
			return nil, false, false, "", "PLAIN: empty authcid"
		}
		if authzid != "" && authzid != authcid {
			return nil, false, false, authcid, "PLAIN: authzid differs from authcid"
		}
		want, known := cfg.Users[authcid]
		if !known || want != passwd {
			return nil, false, false, authcid, "PLAIN: invalid user name or password"
		}
		return []byte{}, true, true, authcid, ""
	case "SCRAM-SHA-256", "SCRAM-SHA-512":
		if st.scram.conv == nil {
			cfg.newScram(st.mech, st)
		}
		if idx > 2 || st.scram.conv.Done() {
			return nil, false, false, st.scram.user, "SCRAM: token after the conversation ended"
		}
		resp, err := st.scram.conv.Step(string(token))
		if err != nil {
			return nil, false, false, st.scram.user, "SCRAM: " + err.Error()
		}
		if idx == 2 {
			if !st.scram.conv.Valid() {
				return nil, false, false, st.scram.user, "SCRAM: conversation not valid"
			}
			return []byte(resp), true, true, st.scram.user, ""
		}
		return []byte(resp), true, false, st.scram.user, ""
	}
	return nil, false, false, "", "mechanism " + st.mech + " has no server"
}

func (cfg *SASLConfig) consult(step *SASLStep) *SASLFault {
	if step.Raw && cfg.RawScript != nil {
		reply, cl := cfg.RawScript(step.Index, step.Token)
		if cl {
			return &SASLFault{Kind: "close", Label: "rawscript-close"}
		}
		if reply != nil {
			return &SASLFault{Kind: "token", Token: reply, Label: "rawscript-token"}
		}
	}
	if cfg.Fault != nil {
		return cfg.Fault(step)
	}
	return nil
}

func faultLabel(f *SASLFault) string {
	if f.Label != "" {
		return f.Label
	}
	if f.Kind == "error" {
		return fmt.Sprintf("error%d", f.Code)
	}
	return f.Kind
}

func (cfg *SASLConfig) fail(ci *SASLConnInfo, st *connState, step int, kind string, injected bool) {
	st.auth = AuthFailed
	cfg.update(ci, func(ci *SASLConnInfo) {
		ci.State = AuthFailed
		if ci.FailedAt == 0 {
			ci.FailedAt = core.Tick()
			ci.FailKind = kind
			ci.FailStep = step
			ci.Injected = injected
		}
	})
}

// ---------------------------------------------------------------- linger

// SASLEndConn ends the server's side of a connection the way the SASL server
// does: with Linger a half close followed by reading (and journaling) until
// the client closes, otherwise nothing (the caller's return closes the
// connection). It records the failure when the connection was not
// authenticated. Scripts may call it before returning ActDropBefore.
func (c *Cluster) SASLEndConn(b *Broker, s *fakenet.Conn, authState, kind string) {
	cfg := c.SASL
	if cfg == nil {
		return
	}
	ci := cfg.info(b, s)
	if authState != AuthAuthenticated {
		cfg.update(ci, func(ci *SASLConnInfo) {
			if ci.FailedAt == 0 {
				ci.FailedAt = core.Tick()
				ci.FailKind = kind
				ci.FailStep = ci.Steps - 1
				if ci.State != AuthAuthenticated {
					ci.State = AuthFailed
				}
			}
		})
	}
	if !cfg.Linger {
		return
	}
	s.Abort(fakenet.CutEOF)
	c.linger(b, s, ci, authState)
}

func (c *Cluster) linger(b *Broker, s *fakenet.Conn, ci *SASLConnInfo, authState string) {
	cfg := c.SASL
	max := cfg.LingerMax
	if max <= 0 {
		max = 30 * time.Second
	}
	s.SetReadDeadline(time.Now().Add(max))
	buf := make([]byte, 4096)
	for {
		n, err := s.Read(buf)
		if n > 0 {
			ev := &Event{Seq: core.Tick(), Broker: b.ID, ConnID: s.ID, Conn: s, API: APILinger, AuthState: authState, Wall: time.Now(),
				Fate: FateDroppedBefore, Extra: map[string]any{"bytes": n, "head": append([]byte(nil), buf[:min(n, 64)]...)}}
			c.mu.Lock()
			c.journal = append(c.journal, ev)
			c.mu.Unlock()
			cfg.update(ci, func(ci *SASLConnInfo) { ci.LingerBytes += int64(n) })
		}
		if err != nil {
			return
		}
		c.mu.Lock()
		closed := c.closed
		c.mu.Unlock()
		if closed {
			return
		}
	}
}

// SASLGate is the broker's gate for a Script: a request other than
// ApiVersions / SaslHandshake / SaslAuthenticate on a connection that is not
// authenticated is journaled (by handle) and the connection is ended, as
// brokers do. Returns nil when the request may pass.
func (c *Cluster) SASLGate(rc *ReqCtx) *Action {
	if c.SASL == nil || rc.Ev.AuthState == "" || rc.Ev.AuthState == AuthAuthenticated {
		return nil
	}
	switch rc.Ev.API {
	case KApiVersions, KSaslHandshake, KSaslAuthenticate:
		return nil
	}
	c.SASLEndConn(rc.Broker, rc.Conn, rc.Ev.AuthState, "request-before-auth")
	return &Action{Kind: ActDropBefore}
}

// ---------------------------------------------------------------- raw mode

func rawFrame(token []byte) []byte {
	f := make([]byte, 4+len(token))
	binary.BigEndian.PutUint32(f, uint32(len(token)))
	copy(f[4:], token)
	return f
}

// looksLikeRequest reports whether a raw payload is a well-formed Kafka
// request (header and body decode strictly under the reference schemas).
func looksLikeRequest(payload []byte) (refcodec.ReqHeader, map[string]any, bool) {
	hdr, err := refcodec.ParseRequestHeader(payload)
	if err != nil {
		return hdr, nil, false
	}
	api := refcodec.APIs[hdr.Key]
	if api == nil || !api.Versions.Has(hdr.Version) {
		return hdr, nil, false
	}
	body, err := refcodec.DecodeBody(api, hdr.Version, true, payload[hdr.BodyOff:])
	if err != nil {
		return hdr, nil, false
	}
	return hdr, body, true
}

func (c *Cluster) saslRaw(b *Broker, s *fakenet.Conn, st *connState, payload []byte) bool {
	cfg := c.SASL
	ci := cfg.info(b, s)
	ev := &Event{Seq: core.Tick(), Broker: b.ID, ConnID: s.ID, Conn: s, API: APIRawToken, AuthState: st.auth, Wall: time.Now(), ReqStart: st.reqStart,
		Extra: map[string]any{"raw_token": true, "len": len(payload)}}
	st.nconn++
	c.mu.Lock()
	c.journal = append(c.journal, ev)
	closed := c.closed
	c.mu.Unlock()
	if closed {
		return false
	}
	var idx int
	cfg.update(ci, func(ci *SASLConnInfo) { ci.Steps++; idx = ci.Steps - 1 })
	ev.Extra["step"] = idx

	if st.auth != AuthHandshaken && st.auth != AuthInProgress {
		// cannot happen: raw mode is left on completion and failure
		ev.Fate = FateDroppedBefore
		c.SASLEndConn(b, s, st.auth, "raw-token-in-state-"+st.auth)
		return false
	}
	reply, ok, final, user, why := cfg.refToken(st, idx, payload)
	if user != "" {
		cfg.update(ci, func(ci *SASLConnInfo) { ci.User = user })
	}
	if !ok {
		// A Kafka request where a token was expected is journaled as that
		// request: it is something other than the exchange sent before
		// authentication.
		if hdr, body, isReq := looksLikeRequest(payload); isReq {
			ev.API, ev.Version, ev.Corr, ev.Body = hdr.Key, hdr.Version, hdr.CorrelationID, body
			if hdr.ClientID != nil {
				ev.ClientID = *hdr.ClientID
			}
			ev.Extra["framed_request_in_raw_mode"] = true
		}
	}
	step := &SASLStep{ConnID: s.ID, Ordinal: ci.Ordinal, Broker: b.ID, Mech: st.mech, HsVer: st.hsVer, Raw: true, Index: idx, Token: payload, Reply: reply, OK: ok, Final: final}
	var override []byte
	f := cfg.consult(step)
	if f != nil && f.Accept && f.Kind == "rawbytes" && ok {
		// the step keeps the reference verdict; only the bytes are replaced
		override = f.Token
		ev.Extra["fault"] = faultLabel(f)
		cfg.update(ci, func(ci *SASLConnInfo) { ci.Injected = true })
		f = nil
	}
	if f != nil {
		label := faultLabel(f)
		ev.Extra["fault"] = label
		cfg.fail(ci, st, idx, label, true)
		st.rawMode = false
		switch f.Kind {
		case "cut":
			frame := rawFrame(reply)
			k := f.CutAt
			if k >= len(frame) {
				k = len(frame) - 1
			}
			ev.RespStart = s.Sent()
			ev.RespSeq = core.Tick()
			s.WriteCut(frame, k, f.CutMode)
			ev.RespEnd = ev.RespStart + int64(len(frame))
			ev.Fate = FateAppliedCut
		case "token", "rawbytes":
			frame := rawFrame(f.Token)
			if f.Kind == "rawbytes" {
				frame = f.Token
			}
			ev.RespStart = s.Sent()
			ev.RespSeq = core.Tick()
			s.Write(frame)
			ev.RespEnd = ev.RespStart + int64(len(frame))
			ev.Fate = FateRejected
			// the sabotaged answer claims success: the connection stays open
			// and whatever follows is served by handle (state "failed")
			return true
		default: // close, error
			ev.Fate = FateDroppedBefore
		}
		c.SASLEndConn(b, s, AuthFailed, label)
		return false
	}
	if !ok {
		ev.Fate = FateRejected
		ev.Problem = why
		ev.Code = 58
		cfg.fail(ci, st, idx, "rejected: "+why, false)
		st.rawMode = false
		c.SASLEndConn(b, s, AuthFailed, why)
		return false
	}
	if final {
		st.auth = AuthAuthenticated
		st.rawMode = false
		cfg.update(ci, func(ci *SASLConnInfo) { ci.State = AuthAuthenticated; ci.AuthenticatedAt = core.Tick() })
	} else {
		st.auth = AuthInProgress
		cfg.update(ci, func(ci *SASLConnInfo) { ci.State = AuthInProgress })
	}
	frame := rawFrame(reply)
	if override != nil {
		frame = override
	}
	ev.RespStart = s.Sent()
	ev.RespSeq = core.Tick()
	s.Write(frame)
	ev.RespEnd = ev.RespStart + int64(len(frame))
	ev.Fate = FateApplied
	return true
}

// ---------------------------------------------------------------- framed mode

// saslAPI serves SaslHandshake and SaslAuthenticate. Faulted answers are
// written here (the function then returns nil and asks handle to end the
// connection through Extra["close"]).
func (c *Cluster) saslAPI(rc *ReqCtx, st *connState) map[string]any {
	cfg := c.SASL
	ev := rc.Ev
	if ev.Extra == nil {
		ev.Extra = map[string]any{}
	}
	mechList := func() []any {
		var out []any
		if cfg != nil {
			for _, m := range cfg.mechanisms() {
				out = append(out, m)
			}
		}
		return out
	}
	if cfg == nil {
		// a broker without SASL listeners
		ev.Fate = FateRejected
		if ev.API == KSaslHandshake {
			ev.Code = 33
			return map[string]any{"ErrorCode": int64(33), "Mechanisms": []any{}}
		}
		ev.Code = 34
		return map[string]any{"ErrorCode": int64(34), "ErrorMessage": "SASL is not enabled", "AuthBytes": []byte{}, "SessionLifetimeMs": int64(0)}
	}
	ci := cfg.info(rc.Broker, rc.Conn)
	var idx int
	cfg.update(ci, func(ci *SASLConnInfo) { ci.Steps++; idx = ci.Steps - 1 })
	ev.Extra["step"] = idx

	// writes a (possibly cut) answer itself and ends the connection
	writeSelf := func(resp map[string]any, f *SASLFault) map[string]any {
		frame, _, err := refcodec.EncodeResponseFrame(rc.API, ev.Version, ev.Corr, resp)
		if err != nil {
			panic(fmt.Sprintf("fakecluster: cannot encode %s v%d response: %v", rc.API.Name, ev.Version, err))
		}
		ev.Resp = resp
		if f != nil && f.Kind == "cut" {
			k := f.CutAt
			if k >= len(frame) {
				k = len(frame) - 1
			}
			ev.RespStart = rc.Conn.Sent()
			ev.RespSeq = core.Tick()
			rc.Conn.WriteCut(frame, k, f.CutMode)
			ev.RespEnd = ev.RespStart + int64(len(frame))
			ev.Fate = FateAppliedCut
		} else {
			ev.Fate = FateDroppedBefore
		}
		c.SASLEndConn(rc.Broker, rc.Conn, AuthFailed, ci.FailKind)
		ev.Extra["close"] = true
		return nil
	}

	if ev.API == KSaslHandshake {
		mech := refcodec.Str(rc.Body["Mechanism"])
		legal := st.auth == AuthNone
		ok := legal && cfg.enabled(mech)
		if legal {
			st.mech, st.hsVer = mech, ev.Version
			cfg.update(ci, func(ci *SASLConnInfo) { ci.Mech, ci.HsVer, ci.Raw = mech, ev.Version, ev.Version == 0 })
		}
		okResp := map[string]any{"ErrorCode": int64(0), "Mechanisms": mechList()}
		step := &SASLStep{ConnID: rc.Conn.ID, Ordinal: ci.Ordinal, Broker: rc.Broker.ID, Mech: mech, HsVer: ev.Version, Raw: ev.Version == 0, Index: idx, OK: ok}
		if f := cfg.consult(step); f != nil {
			label := faultLabel(f)
			ev.Extra["fault"] = label
			cfg.fail(ci, st, idx, label, true)
			switch f.Kind {
			case "error":
				ev.Fate, ev.Code = FateRejected, f.Code
				return map[string]any{"ErrorCode": int64(f.Code), "Mechanisms": mechList()}
			case "cut":
				return writeSelf(okResp, f)
			default:
				return writeSelf(okResp, nil)
			}
		}
		if !legal {
			ev.Fate, ev.Code = FateRejected, 34
			cfg.fail(ci, st, idx, "handshake in state "+ev.AuthState, false)
			return map[string]any{"ErrorCode": int64(34), "Mechanisms": mechList()}
		}
		if !ok {
			ev.Fate, ev.Code = FateRejected, 33
			cfg.fail(ci, st, idx, "unsupported-mechanism", false)
			return map[string]any{"ErrorCode": int64(33), "Mechanisms": mechList()}
		}
		st.auth = AuthHandshaken
		cfg.update(ci, func(ci *SASLConnInfo) { ci.State = AuthHandshaken })
		if ev.Version == 0 {
			st.rawMode = true
		}
		ev.Fate = FateApplied
		return okResp
	}

	// SaslAuthenticate
	authResp := func(code int16, msg any, token []byte) map[string]any {
		if token == nil {
			token = []byte{}
		}
		return map[string]any{"ErrorCode": int64(code), "ErrorMessage": msg, "AuthBytes": token, "SessionLifetimeMs": int64(0)}
	}
	token := refcodec.Bytes(rc.Body["AuthBytes"])
	legal := (st.auth == AuthHandshaken || st.auth == AuthInProgress) && st.hsVer >= 1
	var reply []byte
	var ok, final bool
	var user, why string
	if legal {
		reply, ok, final, user, why = cfg.refToken(st, idx, token)
		if user != "" {
			cfg.update(ci, func(ci *SASLConnInfo) { ci.User = user })
		}
	} else {
		why = "SaslAuthenticate in state " + ev.AuthState
	}
	step := &SASLStep{ConnID: rc.Conn.ID, Ordinal: ci.Ordinal, Broker: rc.Broker.ID, Mech: st.mech, HsVer: st.hsVer, Index: idx, Token: token, Reply: reply, OK: ok, Final: final}
	if f := cfg.consult(step); f != nil {
		label := faultLabel(f)
		ev.Extra["fault"] = label
		cfg.fail(ci, st, idx, label, true)
		switch f.Kind {
		case "error":
			ev.Fate, ev.Code = FateRejected, f.Code
			var tk []byte
			if f.KeepBytes {
				tk = reply
			}
			return authResp(f.Code, "injected failure", tk)
		case "token":
			ev.Fate = FateRejected
			return authResp(0, nil, f.Token)
		case "cut":
			return writeSelf(authResp(0, nil, reply), f)
		default:
			return writeSelf(authResp(0, nil, reply), nil)
		}
	}
	if !legal {
		ev.Fate, ev.Code = FateRejected, 34
		ev.Problem = why
		cfg.fail(ci, st, idx, why, false)
		return authResp(34, why, nil)
	}
	if !ok {
		ev.Fate, ev.Code = FateRejected, 58
		ev.Problem = why
		cfg.fail(ci, st, idx, "rejected: "+why, false)
		return authResp(58, "Authentication failed", nil)
	}
	if final {
		st.auth = AuthAuthenticated
		cfg.update(ci, func(ci *SASLConnInfo) { ci.State = AuthAuthenticated; ci.AuthenticatedAt = core.Tick() })
	} else {
		st.auth = AuthInProgress
		cfg.update(ci, func(ci *SASLConnInfo) { ci.State = AuthInProgress })
	}
	ev.Fate = FateApplied
	return authResp(0, nil, reply)
}

// SASLConnOrdinal registers the connection of a request with the SASL server
// (if it is not yet) and returns its ordinal.
func (c *Cluster) SASLConnOrdinal(rc *ReqCtx) int {
	if c.SASL == nil {
		return 0
	}
	return c.SASL.info(rc.Broker, rc.Conn).Ordinal
}

// SASLSabotageApiVersions is for Scripts: it fails the ApiVersions request
// that precedes the exchange ("close": no answer; "cut": the answer cut at
// CutAt bytes) and ends the connection like the SASL server does.
func (c *Cluster) SASLSabotageApiVersions(rc *ReqCtx, f *SASLFault) *Action {
	cfg := c.SASL
	ci := cfg.info(rc.Broker, rc.Conn)
	label := faultLabel(f)
	cfg.update(ci, func(ci *SASLConnInfo) {
		if ci.FailedAt == 0 {
			ci.FailedAt = core.Tick()
			ci.FailKind = label
			ci.FailStep = -1
			ci.Injected = true
			ci.State = AuthFailed
		}
	})
	if rc.Ev.Extra == nil {
		rc.Ev.Extra = map[string]any{}
	}
	rc.Ev.Extra["fault"] = label
	if f.Kind == "cut" {
		resp := c.apiVersionsResponse(rc, &connState{versions: rc.Broker.Versions})
		frame, _, err := refcodec.EncodeResponseFrame(rc.API, rc.Ev.Version, rc.Ev.Corr, resp)
		if err != nil {
			panic(fmt.Sprintf("fakecluster: cannot encode ApiVersions v%d response: %v", rc.Ev.Version, err))
		}
		k := f.CutAt
		if k >= len(frame) {
			k = len(frame) - 1
		}
		rc.Ev.RespStart = rc.Conn.Sent()
		rc.Ev.RespSeq = core.Tick()
		rc.Conn.WriteCut(frame, k, f.CutMode)
		rc.Ev.RespEnd = rc.Ev.RespStart + int64(len(frame))
	}
	c.SASLEndConn(rc.Broker, rc.Conn, AuthFailed, label)
	return &Action{Kind: ActDropBefore}
}
