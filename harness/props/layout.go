package props

import (
	"fmt"

	"verifharness/core"
	"verifharness/fakecluster"
	"verifharness/refcodec"
)

// Layout generator: a ground-truth record list plus a physical layout
// (stored batches) that a broker could legitimately hold for it.

type layoutCfg struct {
	N         int  // number of offsets in the log (some removed by compaction)
	MaxMagic  int  // 0..2: highest message format allowed (fetch v2 only sees <= 1)
	Compact   bool // remove records (holes, compacted tails, empty batches)
	Empty     bool // allow retained empty v2 batches
	BigValues bool
	BatchMax  int
	Codecs    []int
	Headers   bool
	StartAt   int64 // first offset of the log
}

type layoutUnit struct {
	Magic   int
	Codec   int
	Base    int64
	Last    int64
	Present int
	Empty   bool
	Holes   bool
	Tail    bool // lastOffsetDelta beyond the last present record
}

type layout struct {
	Records []refcodec.Rec
	Units   []layoutUnit
	Stored  []*fakecluster.Stored
	End     int64
	MaxUnit int // largest stored unit in bytes
}

const tsBase = int64(1600000000000)

func recValue(off int64, pad int) []byte {
	v := []byte(fmt.Sprintf("v%d;", off))
	for i := 0; i < pad; i++ {
		v = append(v, byte('a'+i%26))
	}
	return v
}

func genLayout(r *core.Rand, cfg layoutCfg) *layout {
	l := &layout{}
	off := cfg.StartAt
	end := cfg.StartAt + int64(cfg.N)
	for off < end {
		n := r.Range(1, cfg.BatchMax)
		if off+int64(n) > end {
			n = int(end - off)
		}
		magic := r.Intn(cfg.MaxMagic + 1)
		if cfg.MaxMagic == 2 && r.Chance(1, 2) {
			magic = 2
		}
		codec := core.Pick(r, cfg.Codecs...)
		if magic < 2 && codec == refcodec.CodecZstd {
			codec = refcodec.CodecGzip
		}
		if magic == 0 && codec == refcodec.CodecLz4 {
			codec = refcodec.CodecSnappy
		}
		u := layoutUnit{Magic: magic, Codec: codec, Base: off, Last: off + int64(n) - 1}
		// which offsets of the unit survive compaction
		present := make([]bool, n)
		for i := range present {
			present[i] = true
		}
		if cfg.Compact && r.Chance(1, 3) {
			switch r.Intn(4) {
			case 0: // head
				for i := 0; i < r.Range(1, n) && i < n-1; i++ {
					present[i] = false
				}
			case 1: // middle
				for i := 1; i < n-1; i++ {
					if r.Bool() {
						present[i] = false
					}
				}
			case 2: // tail
				for i := n - 1; i > 0 && i >= n-r.Range(1, n); i-- {
					present[i] = false
				}
			case 3: // everything (only v2 keeps an empty batch; otherwise the unit vanishes)
				for i := range present {
					present[i] = false
				}
			}
		}
		var recs []refcodec.Rec
		for i := 0; i < n; i++ {
			if !present[i] {
				u.Holes = true
				continue
			}
			o := off + int64(i)
			pad := r.Intn(20)
			if cfg.BigValues && r.Chance(1, 15) {
				pad = r.Range(1000, 70000)
			}
			rec := refcodec.Rec{Offset: o, TimestampMs: tsBase + o*3 + int64(r.Intn(3)), Value: recValue(o, pad)}
			switch r.Intn(4) {
			case 0:
				rec.Key = nil
			case 1:
				rec.Key = []byte{}
			default:
				rec.Key = []byte(fmt.Sprintf("k%d", o%7))
			}
			if r.Chance(1, 20) {
				rec.Value = nil
			}
			if cfg.Headers && magic == 2 && r.Chance(1, 3) {
				for h := r.Range(1, 3); h > 0; h-- {
					rec.Headers = append(rec.Headers, refcodec.Hdr{Key: fmt.Sprintf("h%d", h), Value: r.Bytes(r.Intn(6))})
				}
			}
			if magic == 0 {
				rec.TimestampMs = 0
			}
			recs = append(recs, rec)
		}
		u.Present = len(recs)
		var enc []byte
		var err error
		switch {
		case magic == 2:
			if len(recs) == 0 {
				if !cfg.Empty {
					// the unit vanished entirely
					off += int64(n)
					continue
				}
				u.Empty = true
				// Kafka writes the header of a batch whose records were all removed with
				// compression none (DefaultRecordBatch.writeEmptyHeader)
				codec = refcodec.CodecNone
				u.Codec = codec
			}
			last := u.Last
			if len(recs) > 0 && recs[len(recs)-1].Offset < last {
				u.Tail = true
			}
			b := refcodec.NewBatchV2(recs, u.Base, last, codec)
			if len(recs) == 0 {
				b.FirstTimestamp, b.MaxTimestamp = tsBase, tsBase
			}
			enc, err = b.Encode(refcodec.CompressOpts{SnappyRaw: r.Chance(1, 4)})
		default:
			if len(recs) == 0 {
				off += int64(n)
				continue
			}
			u.Last = recs[len(recs)-1].Offset
			enc, err = refcodec.EncodeLegacy(magic, codec, recs, refcodec.CompressOpts{SnappyRaw: r.Chance(1, 4)})
		}
		if err != nil {
			panic(err)
		}
		l.Units = append(l.Units, u)
		l.Stored = append(l.Stored, &fakecluster.Stored{Bytes: enc, BaseOffset: u.Base, LastOffset: u.Last})
		if len(enc) > l.MaxUnit {
			l.MaxUnit = len(enc)
		}
		l.Records = append(l.Records, recs...)
		off += int64(n)
	}
	l.End = end
	return l
}

func (l *layout) classes() []string {
	seen := map[string]bool{}
	var out []string
	for _, u := range l.Units {
		c := fmt.Sprintf("m%d/%s", u.Magic, refcodec.CodecNames[u.Codec])
		if u.Holes {
			c += "/holes"
		}
		if u.Empty {
			c += "/empty"
		}
		if u.Tail {
			c += "/tail"
		}
		if !seen[c] {
			seen[c] = true
			out = append(out, c)
		}
	}
	sortStrings(out)
	return out
}

// install puts the layout into a partition of the cluster.
func (l *layout) install(cl *fakecluster.Cluster, topic string, part int32, start int64) {
	cl.Lock()
	defer cl.Unlock()
	p := cl.Topics[topic].Partitions[part]
	p.Start = start
	p.End = l.End
	p.Records = append([]refcodec.Rec(nil), l.Records...)
	p.Layout = append([]*fakecluster.Stored(nil), l.Stored...)
}
