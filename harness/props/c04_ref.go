package props

import (
	"strconv"
	"strings"

	"verifharness/core"
	"verifharness/refcodec"
)

// c04RefGen builds reference-side values (maps keyed by the protocol
// definition's field names) straight from the schema: this is what "the
// broker encoded" in the decode direction.
type c04RefGen struct {
	r       *core.Rand
	class   int
	ver     int
	flex    bool
	isReq   bool
	api     int
	nonzero bool
	long    int
	ntags   int
}

func (g *c04RefGen) intv(bits int) int64 {
	lo := -(int64(1) << (bits - 1))
	hi := (int64(1) << (bits - 1)) - 1
	switch g.class {
	case 0, 1:
		return 0
	case 2:
		return hi
	case 3:
		return lo
	}
	switch g.r.Intn(8) {
	case 0:
		return 0
	case 1:
		return 1
	case 2:
		return -1
	case 3:
		return lo
	case 4:
		return hi
	default:
		return int64(g.r.Uint64()) >> (64 - bits)
	}
}

func (g *c04RefGen) strv(nullable bool) any {
	switch g.class {
	case 0:
		if nullable {
			return nil
		}
		return ""
	case 1:
		return ""
	case 4:
		return strings.Repeat("x", core.Pick(g.r, 126, 127, 128, 129))
	case 8:
		if g.long > 0 {
			g.long--
			return strings.Repeat("L", core.Pick(g.r, 32767, 16383, 16384))
		}
	}
	switch g.r.Intn(9) {
	case 0:
		if nullable {
			return nil
		}
		return ""
	case 1:
		return ""
	case 2:
		return "héllo-wörld-✓"
	case 3:
		return strings.Repeat("y", core.Pick(g.r, 126, 127, 128))
	default:
		n := g.r.Range(1, 24)
		b := make([]byte, n)
		for i := range b {
			b[i] = byte('a' + g.r.Intn(26))
		}
		return string(b)
	}
}

func (g *c04RefGen) bytesv(nullable bool) any {
	switch g.class {
	case 0:
		if nullable {
			return nil
		}
		return []byte{}
	case 1:
		return []byte{}
	case 4:
		return g.r.Bytes(core.Pick(g.r, 126, 127, 128, 129))
	case 8:
		if g.long > 0 {
			g.long--
			return g.r.Bytes(core.Pick(g.r, 70000, 16383, 16384))
		}
	}
	switch g.r.Intn(7) {
	case 0:
		if nullable {
			return nil
		}
		return []byte{}
	case 1:
		return []byte{}
	case 2:
		return g.r.Bytes(core.Pick(g.r, 127, 128))
	default:
		return g.r.Bytes(g.r.Range(1, 40))
	}
}

func (g *c04RefGen) arrLen(depth int, scalar, nullable bool) int {
	switch g.class {
	case 0:
		if nullable {
			return -1
		}
		return 0
	case 1:
		return 0
	case 2, 3:
		return 1
	case 4:
		if scalar {
			return core.Pick(g.r, 126, 127, 128)
		}
		if depth == 0 {
			return core.Pick(g.r, 1, 127, 128)
		}
		return 1
	case 5:
		if depth >= 3 {
			return 2
		}
		return 3
	}
	switch g.r.Intn(6) {
	case 0:
		if nullable {
			return -1
		}
		return 0
	case 1:
		return 0
	case 2:
		return 1
	case 3:
		if depth >= 2 {
			return 2
		}
		return 3
	default:
		if depth >= 2 {
			return g.r.Range(0, 2)
		}
		return g.r.Range(1, 4)
	}
}

// records builds an encoded record set of the format a broker would use for
// this API version (Produce < 3 / Fetch < 4: magic 1, else record batch v2).
func (g *c04RefGen) records(nullable bool) any {
	switch g.r.Intn(8) {
	case 0:
		if nullable {
			return nil
		}
		return []byte{}
	case 1:
		return []byte{}
	}
	g.nonzero = true
	legacy := (g.api == 0 && g.ver < 3) || (g.api == 1 && g.ver < 4)
	var out []byte
	base := int64(0)
	if !g.isReq {
		base = int64(g.r.Intn(1 << 20))
	}
	nb := 1
	if !g.isReq && !legacy {
		nb = g.r.Range(1, 2)
	}
	for b := 0; b < nb; b++ {
		n := g.r.Range(1, 3)
		var recs []refcodec.Rec
		for i := 0; i < n; i++ {
			rec := refcodec.Rec{Offset: base + int64(i), TimestampMs: c04BaseTs + int64(g.r.Intn(100000))}
			if g.r.Chance(3, 4) {
				rec.Key = g.r.Bytes(g.r.Range(0, 12))
			}
			if g.r.Chance(7, 8) {
				rec.Value = g.r.Bytes(g.r.Range(0, 60))
			}
			if !legacy && g.r.Chance(1, 3) {
				for j := g.r.Range(1, 2); j > 0; j-- {
					h := refcodec.Hdr{Key: "h" + strconv.Itoa(j)}
					if g.r.Chance(3, 4) {
						h.Value = g.r.Bytes(g.r.Range(0, 9))
					}
					rec.Headers = append(rec.Headers, h)
				}
			}
			recs = append(recs, rec)
		}
		var enc []byte
		if legacy {
			enc, _ = refcodec.EncodeLegacy(1, refcodec.CodecNone, recs, refcodec.CompressOpts{})
		} else {
			enc, _ = refcodec.NewBatchV2(recs, base, -1, refcodec.CodecNone).Encode(refcodec.CompressOpts{})
		}
		out = append(out, enc...)
		base += int64(n)
	}
	return out
}

func (g *c04RefGen) fields(fields []*refcodec.Field, depth int) map[string]any {
	out := map[string]any{}
	known := map[int]bool{}
	for _, f := range fields {
		if f.Tag >= 0 && f.Tagged.Has(g.ver) {
			known[f.Tag] = true
			// a tagged field kafka-go does not declare: present in about half of the values
			if g.class >= 2 && g.r.Bool() {
				out[f.Name] = g.value(f, depth, false)
			}
			continue
		}
		if !f.Versions.Has(g.ver) {
			continue
		}
		out[f.Name] = g.value(f, depth, false)
	}
	if g.flex && g.class >= 2 && g.ntags < 12 && g.r.Chance(1, 2) {
		tags := map[int][]byte{}
		for n := g.r.Range(1, 3); n > 0; n-- {
			id := core.Pick(g.r, 0, 1, 2, 3, 4, 5, 6, 7, 127, 128, 16384, 1<<31-1)
			if known[id] {
				continue
			}
			tags[id] = g.r.Bytes(core.Pick(g.r, 0, 1, 2, 5, 127, 128, 300))
			g.ntags++
		}
		if len(tags) > 0 {
			out["_tags"] = tags
		}
	}
	return out
}

func (g *c04RefGen) value(f *refcodec.Field, depth int, elem bool) any {
	nullable := f.Nullable.Has(g.ver) && !elem
	if f.Array && !elem {
		n := g.arrLen(depth, f.Kind != refcodec.KStruct, nullable)
		if n < 0 {
			return nil
		}
		arr := make([]any, 0, n)
		for i := 0; i < n; i++ {
			arr = append(arr, g.value(f, depth+1, true))
		}
		g.nonzero = g.nonzero || n > 0
		return arr
	}
	switch f.Kind {
	case refcodec.KInt8:
		x := g.intv(8)
		g.nonzero = g.nonzero || x != 0
		return x
	case refcodec.KInt16:
		x := g.intv(16)
		g.nonzero = g.nonzero || x != 0
		return x
	case refcodec.KInt32:
		x := g.intv(32)
		g.nonzero = g.nonzero || x != 0
		return x
	case refcodec.KInt64:
		x := g.intv(64)
		g.nonzero = g.nonzero || x != 0
		return x
	case refcodec.KFloat64:
		var x float64
		if g.class >= 2 {
			x = core.Pick(g.r, 0, 1.5, -2.25, 1e300, -1e-300)
		}
		g.nonzero = g.nonzero || x != 0
		return x
	case refcodec.KBool:
		b := g.class == 2 || (g.class > 3 && g.r.Bool())
		g.nonzero = g.nonzero || b
		return b
	case refcodec.KString:
		s := g.strv(nullable)
		if x, ok := s.(string); ok && x != "" {
			g.nonzero = true
		}
		return s
	case refcodec.KBytes:
		b := g.bytesv(nullable)
		if x, ok := b.([]byte); ok && len(x) > 0 {
			g.nonzero = true
		}
		return b
	case refcodec.KRecords:
		return g.records(nullable)
	case refcodec.KStruct:
		return g.fields(f.Fields, depth)
	}
	return nil
}

func c04GenRef(api *refcodec.API, isReq bool, ver int, seed uint64, class int) (map[string]any, bool) {
	g := &c04RefGen{r: core.NewRand(seed), class: class, ver: ver, flex: api.Flexible(ver), isReq: isReq, api: api.Key, long: 2}
	fs := api.Resp
	if isReq {
		fs = api.Req
	}
	v := g.fields(fs, 0)
	return v, g.nonzero
}
