// Package refcodec is the harness' own Kafka codec. It shares no code with
// kafka-go's protocol package or root-package codec: primitives, a
// schema-table-driven generic message encoder/decoder (schemas transcribed
// from the Kafka message definitions in a small DSL), and record sets
// (message formats 0/1, record batch v2) with strict validation.
package refcodec

import (
	"fmt"
	"strconv"
	"strings"
)

type Kind int

const (
	KInt8 Kind = iota
	KInt16
	KInt32
	KInt64
	KFloat64
	KBool
	KString
	KBytes
	KRecords
	KStruct
)

var kindNames = map[string]Kind{"int8": KInt8, "int16": KInt16, "int32": KInt32, "int64": KInt64, "float64": KFloat64,
	"bool": KBool, "string": KString, "bytes": KBytes, "records": KRecords, "struct": KStruct}

func (k Kind) String() string {
	for n, v := range kindNames {
		if v == k {
			return n
		}
	}
	return "?"
}

const maxV = 1 << 14

type VRange struct{ Min, Max int }

func (r VRange) Has(v int) bool { return r.Min >= 0 && v >= r.Min && v <= r.Max }

var none = VRange{-1, -1}

type Field struct {
	Name     string
	Kind     Kind
	Array    bool
	Versions VRange
	Nullable VRange
	Tag      int    // -1 = regular field
	Tagged   VRange // versions in which it is a tagged field
	Fields   []*Field
}

type API struct {
	Key      int
	Name     string
	Versions VRange
	Flex     int // first flexible version (maxV if none)
	Req      []*Field
	Resp     []*Field
}

func (a *API) Flexible(v int) bool { return v >= a.Flex }

// RequestHeaderVersion: 1 for non-flexible, 2 for flexible requests.
// Response header: 0 non-flexible, 1 flexible, except ApiVersions (always 0).
func (a *API) ResponseHeaderFlexible(v int) bool { return a.Flexible(v) && a.Key != 18 }

func parseRange(s string) (VRange, error) {
	if s == "none" {
		return none, nil
	}
	if strings.HasSuffix(s, "+") {
		n, err := strconv.Atoi(s[:len(s)-1])
		return VRange{n, maxV}, err
	}
	if i := strings.Index(s, "-"); i > 0 {
		a, err1 := strconv.Atoi(s[:i])
		b, err2 := strconv.Atoi(s[i+1:])
		if err1 != nil || err2 != nil {
			return none, fmt.Errorf("bad range %q", s)
		}
		return VRange{a, b}, nil
	}
	n, err := strconv.Atoi(s)
	return VRange{n, n}, err
}

// ParseSchemas parses the DSL. Grammar (line oriented):
//
//	api <key> <Name> <versions> [flex=<v>]
//	req
//	  <Name> <type> <versions> [null=<versions>] [tag=<id>@<versions>] [{]
//	  }
//	resp
//	  ...
//
// <type> is a scalar kind, "struct", or either prefixed with "[]".
func ParseSchemas(src string) (map[int]*API, error) {
	apis := map[int]*API{}
	var cur *API
	var stack []*[]*Field
	for ln, line := range strings.Split(src, "\n") {
		if i := strings.Index(line, "#"); i >= 0 {
			line = line[:i]
		}
		f := strings.Fields(line)
		if len(f) == 0 {
			continue
		}
		fail := func(msg string) (map[int]*API, error) {
			return nil, fmt.Errorf("schema line %d: %s: %q", ln+1, msg, line)
		}
		switch f[0] {
		case "api":
			if len(f) < 4 {
				return fail("api needs key name versions")
			}
			k, err := strconv.Atoi(f[1])
			if err != nil {
				return fail("key")
			}
			vr, err := parseRange(f[3])
			if err != nil {
				return fail("versions")
			}
			cur = &API{Key: k, Name: f[2], Versions: vr, Flex: maxV}
			for _, o := range f[4:] {
				if strings.HasPrefix(o, "flex=") {
					cur.Flex, err = strconv.Atoi(o[5:])
					if err != nil {
						return fail("flex")
					}
				}
			}
			apis[k] = cur
			stack = nil
		case "req":
			stack = []*[]*Field{&cur.Req}
		case "resp":
			stack = []*[]*Field{&cur.Resp}
		case "}":
			if len(stack) < 2 {
				return fail("unbalanced }")
			}
			stack = stack[:len(stack)-1]
		default:
			if cur == nil || len(stack) == 0 {
				return fail("field outside req/resp")
			}
			if len(f) < 3 {
				return fail("field needs name type versions")
			}
			fd := &Field{Name: f[0], Tag: -1, Nullable: none, Tagged: none}
			t := f[1]
			if strings.HasPrefix(t, "[]") {
				fd.Array = true
				t = t[2:]
			}
			k, ok := kindNames[t]
			if !ok {
				return fail("type")
			}
			fd.Kind = k
			vr, err := parseRange(f[2])
			if err != nil {
				return fail("versions")
			}
			fd.Versions = vr
			open := false
			for _, o := range f[3:] {
				switch {
				case o == "{":
					open = true
				case strings.HasPrefix(o, "null="):
					fd.Nullable, err = parseRange(o[5:])
					if err != nil {
						return fail("null=")
					}
				case strings.HasPrefix(o, "tag="):
					p := strings.SplitN(o[4:], "@", 2)
					fd.Tag, err = strconv.Atoi(p[0])
					if err != nil || len(p) != 2 {
						return fail("tag=")
					}
					fd.Tagged, err = parseRange(p[1])
					if err != nil {
						return fail("tag versions")
					}
				default:
					return fail("option " + o)
				}
			}
			top := stack[len(stack)-1]
			*top = append(*top, fd)
			if fd.Kind == KStruct {
				if !open {
					return fail("struct needs {")
				}
				stack = append(stack, &fd.Fields)
			} else if open {
				return fail("{ on non-struct")
			}
		}
	}
	return apis, nil
}

var APIs map[int]*API

func init() {
	var err error
	APIs, err = ParseSchemas(schemaText + "\n" + schemaText2)
	if err != nil {
		panic(err)
	}
}
