// Package fakecluster is the scripted, hostile Kafka cluster: brokers with
// per-broker API version tables, partition logs with a physical layout that
// is separate from the ground truth, a group coordinator state machine, a
// SASL server, and a journal of everything that crossed the wire. It speaks
// the protocol through refcodec only.
package fakecluster

import (
	"encoding/binary"
	"fmt"
	"io"
	"sort"
	"sync"
	"time"

	"verifharness/core"
	"verifharness/fakenet"
	"verifharness/refcodec"
)

const (
	KProduce          = 0
	KFetch            = 1
	KListOffsets      = 2
	KMetadata         = 3
	KOffsetCommit     = 8
	KOffsetFetch      = 9
	KFindCoordinator  = 10
	KJoinGroup        = 11
	KHeartbeat        = 12
	KLeaveGroup       = 13
	KSyncGroup        = 14
	KDescribeGroups   = 15
	KListGroups       = 16
	KSaslHandshake    = 17
	KApiVersions      = 18
	KCreateTopics     = 19
	KDeleteTopics     = 20
	KInitProducerID   = 22
	KSaslAuthenticate = 36
)

type VR struct{ Min, Max int }

type Broker struct {
	ID       int32
	Host     string
	Port     int32
	Rack     string
	Versions map[int]VR
	// Down: the address refuses connections.
	Down bool
}

func (b *Broker) Addr() string { return fmt.Sprintf("%s:%d", b.Host, b.Port) }

type Stored struct {
	Bytes      []byte
	BaseOffset int64
	LastOffset int64
}

type Partition struct {
	Topic    string
	ID       int32
	Leader   int32
	Replicas []int32
	ISR      []int32
	Offline  []int32
	// ground truth
	Start   int64
	End     int64 // next offset to assign == high watermark
	Records []refcodec.Rec
	// physical layout served to fetches, ordered by offset
	Layout []*Stored
	// MagicForProduce decides how produced data is stored: 0 = as sent.
	ErrorCode int16 // metadata-level partition error
	cond      *sync.Cond
}

type Topic struct {
	Name       string
	Partitions []*Partition
	Internal   bool
	ErrorCode  int16
}

// Fate of a request.
type Fate string

const (
	FateApplied       Fate = "applied"
	FateRejected      Fate = "rejected" // error response, not applied
	FateDroppedBefore Fate = "dropped-before-apply"
	FateAppliedDrop   Fate = "applied-response-dropped"
	FateAppliedCut    Fate = "applied-response-cut"
	FateServed        Fate = "served"
)

// Event is one journal entry: a request received by a broker and what
// happened to it.
type Event struct {
	Seq      int64 // logical time of arrival (after the full frame was read)
	Broker   int32
	ConnID   int64
	Conn     *fakenet.Conn
	API      int
	Version  int
	Corr     int32
	ClientID string
	Body     map[string]any
	Fate     Fate
	Code     int16
	// RespStart/RespEnd delimit the response in the server->client stream
	// (RespEnd == RespStart when nothing was written).
	RespStart, RespEnd int64
	RespSeq            int64 // logical time the response was queued
	Resp               map[string]any
	// Produce specifics
	Topic     string
	Partition int32
	Batches   []refcodec.DecodedBatch
	BaseOff   int64
	// Decode problems found by the strict reference decoder
	Problem string
	// Metadata serial (for metadata responses) / auth state at arrival
	MetaSerial int64
	AuthState  string
	Extra      map[string]any
	// ReqStart is the offset of the request frame in the client->server stream.
	ReqStart int64
	// Wall is the wall-clock arrival time (diagnostics only, never an oracle input).
	Wall time.Time
}

// ClientWriteSeq returns the logical time at which the client wrote the
// first byte of this request (from the wire tap), 0 if unknown.
func (e *Event) ClientWriteSeq() int64 {
	if e.Conn == nil {
		return 0
	}
	for _, te := range e.Conn.Peer().Tap() {
		if te.Write && te.Off <= e.ReqStart && e.ReqStart < te.Off+int64(te.N) {
			return te.Seq
		}
	}
	return 0
}

// Delivered reports whether the whole response reached a client Read.
func (e *Event) Delivered() bool {
	return e.RespEnd > e.RespStart && e.Conn != nil && e.Conn.Delivered() >= e.RespEnd
}

type ActKind int

const (
	ActNormal     ActKind = iota
	ActDropBefore         // close the connection without applying
	ActApplyDrop          // apply, then close without a response
	ActError              // do not apply; answer with Code
	ActCut                // apply; deliver only CutAt bytes of the response, then CutMode
	ActIgnore             // read the request, never answer, keep the connection open
	ActErrorApply         // apply, but answer with Code (e.g. RequestTimedOut after append)
	ActSplit              // deliver CutAt bytes of the response, pause for SplitPause, deliver the rest; the connection stays healthy
)

type Action struct {
	Kind    ActKind
	Code    int16
	CutAt   int
	CutMode fakenet.CutMode
	Delay   time.Duration
	// ErrorBody (with ActCut / ActSplit): do not apply, the response carries Code like ActError.
	ErrorBody  bool
	SplitPause time.Duration
	// Async answers from a separate goroutine after Delay (allows reordering).
	Async bool
	// Mutate edits the response value before it is encoded.
	Mutate func(resp map[string]any)
	// MutateFrame edits the encoded frame.
	MutateFrame func(frame []byte) []byte
}

type ReqCtx struct {
	Ev     *Event
	Broker *Broker
	Conn   *fakenet.Conn
	API    *refcodec.API
	Body   map[string]any
	// N is the 1-based count of requests of this API received by this broker.
	N int
	// NConn is the 1-based count of requests on this connection.
	NConn int
}

type Cluster struct {
	mu         sync.Mutex
	Net        *fakenet.Net
	Brokers    map[int32]*Broker
	Controller int32
	ClusterID  string
	Topics     map[string]*Topic
	journal    []*Event
	metaSerial int64
	apiCount   map[[2]int]int
	// Script decides the fate of each request (nil = normal).
	Script func(*ReqCtx) *Action
	// AutoCreate creates unknown topics on metadata requests that allow it.
	AutoCreate           bool
	AutoCreatePartitions int
	// TruncateTail: fetch responses are cut at MaxBytes inside the next
	// batch (old-broker behaviour) instead of at a batch boundary.
	TruncateTail bool
	// MaxWaitCap bounds fetch long polls.
	MaxWaitCap time.Duration
	Groups     map[string]*Group
	SASL       *SASLConfig
	// Problems collects protocol-level observations that monitors turn into
	// violations (frames the reference decoder rejects, versions outside the
	// advertised range...).
	problems []Problem
	closed   bool
	active   int
	// ProduceHook is called (under the cluster lock) after a produce request
	// was applied.
	MetaHook func(resp map[string]any)
	// CoordinatorOf maps a group / transactional id to its coordinator broker.
	CoordinatorOf func(key string) int32
}

type Problem struct {
	Seq    int64
	Kind   string
	Detail string
	Ev     *Event
}

func New(n *fakenet.Net) *Cluster {
	return &Cluster{Net: n, Brokers: map[int32]*Broker{}, Topics: map[string]*Topic{}, apiCount: map[[2]int]int{},
		Groups: map[string]*Group{}, ClusterID: "verif-cluster", MaxWaitCap: 200 * time.Millisecond, AutoCreatePartitions: 1}
}

// DefaultVersions advertises, for every API refcodec has a schema for, the
// schema's range.
func DefaultVersions() map[int]VR {
	m := map[int]VR{}
	for k, a := range refcodec.APIs {
		m[k] = VR{a.Versions.Min, a.Versions.Max}
	}
	// real brokers advertise list offsets from 0
	m[KListOffsets] = VR{0, 5}
	return m
}

func (c *Cluster) AddBroker(id int32, rack string) *Broker {
	b := &Broker{ID: id, Host: fmt.Sprintf("b%d", id), Port: 9092, Rack: rack, Versions: DefaultVersions()}
	c.mu.Lock()
	c.Brokers[id] = b
	if len(c.Brokers) == 1 {
		c.Controller = id
	}
	c.mu.Unlock()
	c.Net.Listen(b.Addr(), func(s *fakenet.Conn) { c.serve(b, s) })
	return b
}

func (c *Cluster) RemoveBroker(id int32) {
	c.mu.Lock()
	b := c.Brokers[id]
	delete(c.Brokers, id)
	c.mu.Unlock()
	if b != nil {
		c.Net.Unlisten(b.Addr())
	}
}

func (c *Cluster) AddTopic(name string, nparts int, leaders func(p int) int32) *Topic {
	c.mu.Lock()
	defer c.mu.Unlock()
	return c.addTopicLocked(name, nparts, leaders)
}

func (c *Cluster) addTopicLocked(name string, nparts int, leaders func(p int) int32) *Topic {
	t := &Topic{Name: name}
	ids := c.brokerIDsLocked()
	for i := 0; i < nparts; i++ {
		var l int32
		if leaders != nil {
			l = leaders(i)
		} else if len(ids) > 0 {
			l = ids[i%len(ids)]
		}
		p := &Partition{Topic: name, ID: int32(i), Leader: l, Replicas: []int32{l}, ISR: []int32{l}}
		p.cond = sync.NewCond(&c.mu)
		t.Partitions = append(t.Partitions, p)
	}
	c.Topics[name] = t
	return t
}

// GrowTopic adds n partitions to an existing topic.
func (c *Cluster) GrowTopic(name string, n int) {
	c.mu.Lock()
	defer c.mu.Unlock()
	t := c.Topics[name]
	if t == nil {
		return
	}
	ids := c.brokerIDsLocked()
	for i := 0; i < n; i++ {
		id := int32(len(t.Partitions))
		l := ids[int(id)%len(ids)]
		p := &Partition{Topic: name, ID: id, Leader: l, Replicas: []int32{l}, ISR: []int32{l}}
		p.cond = sync.NewCond(&c.mu)
		t.Partitions = append(t.Partitions, p)
	}
}

func (c *Cluster) brokerIDsLocked() []int32 {
	var ids []int32
	for id := range c.Brokers {
		ids = append(ids, id)
	}
	sort.Slice(ids, func(i, j int) bool { return ids[i] < ids[j] })
	return ids
}

func (c *Cluster) Lock()   { c.mu.Lock() }
func (c *Cluster) Unlock() { c.mu.Unlock() }

func (c *Cluster) Partition(topic string, p int32) *Partition {
	c.mu.Lock()
	defer c.mu.Unlock()
	return c.partLocked(topic, p)
}

func (c *Cluster) partLocked(topic string, p int32) *Partition {
	t := c.Topics[topic]
	if t == nil || p < 0 || int(p) >= len(t.Partitions) {
		return nil
	}
	return t.Partitions[p]
}

// SetLeader moves a partition (takes effect in the next metadata answers).
func (c *Cluster) SetLeader(topic string, p int32, leader int32) {
	c.mu.Lock()
	defer c.mu.Unlock()
	if pt := c.partLocked(topic, p); pt != nil {
		pt.Leader = leader
		pt.Replicas = []int32{leader}
		pt.ISR = []int32{leader}
		pt.cond.Broadcast()
	}
}

// Journal returns a snapshot of the events so far.
func (c *Cluster) Journal() []*Event {
	c.mu.Lock()
	defer c.mu.Unlock()
	return append([]*Event(nil), c.journal...)
}

func (c *Cluster) Problems() []Problem {
	c.mu.Lock()
	defer c.mu.Unlock()
	return append([]Problem(nil), c.problems...)
}

func (c *Cluster) problem(ev *Event, kind, detail string) {
	c.mu.Lock()
	c.problems = append(c.problems, Problem{Seq: core.Tick(), Kind: kind, Detail: detail, Ev: ev})
	c.mu.Unlock()
}

// Close makes every pending long poll return and stops serving.
func (c *Cluster) Close() {
	c.mu.Lock()
	c.closed = true
	for _, t := range c.Topics {
		for _, p := range t.Partitions {
			p.cond.Broadcast()
		}
	}
	for _, g := range c.Groups {
		g.cond.Broadcast()
	}
	c.mu.Unlock()
}

// AppendStored appends pre-encoded physical batches and their ground-truth
// records to a partition (layout generator).
func (p *Partition) AppendStored(s *Stored, recs []refcodec.Rec) {
	p.Layout = append(p.Layout, s)
	p.Records = append(p.Records, recs...)
	if s.LastOffset+1 > p.End {
		p.End = s.LastOffset + 1
	}
	if p.cond != nil {
		p.cond.Broadcast()
	}
}

// ---------------------------------------------------------------- serving

type connState struct {
	auth     string // "" (no SASL configured) | "none" | "handshaken" | "in-progress" | "authenticated" | "failed"
	mech     string
	hsVer    int
	rawMode  bool // next frames are raw SASL tokens (after a v0 handshake)
	scram    scramServer
	nconn    int
	versions map[int]VR
	consumed int64
	reqStart int64
}

func readFrame(s *fakenet.Conn) ([]byte, error) {
	var szb [4]byte
	if _, err := io.ReadFull(s, szb[:]); err != nil {
		return nil, err
	}
	sz := int(int32(binary.BigEndian.Uint32(szb[:])))
	if sz < 0 || sz > 64<<20 {
		return nil, fmt.Errorf("fakecluster: frame size %d", sz)
	}
	b := make([]byte, sz)
	if _, err := io.ReadFull(s, b); err != nil {
		return nil, err
	}
	return b, nil
}

// FetchOffsets lists the fetch offsets of the fetch requests served so far,
// in arrival order.
func (c *Cluster) FetchOffsets() []int64 {
	c.mu.Lock()
	defer c.mu.Unlock()
	var out []int64
	for _, ev := range c.journal {
		if ev.API == KFetch && ev.Extra != nil {
			if v, ok := ev.Extra["fetch_offset"].(int64); ok {
				out = append(out, v)
			}
		}
	}
	return out
}

// Quiesce waits until every connection handler has finished (the clients
// closed their ends and all pending applies/answers are done). It reports
// false when handlers are still running after the timeout.
func (c *Cluster) Quiesce(timeout time.Duration) bool {
	deadline := time.Now().Add(timeout)
	for {
		c.mu.Lock()
		n := c.active
		c.mu.Unlock()
		if n == 0 {
			return true
		}
		if time.Now().After(deadline) {
			return false
		}
		time.Sleep(100 * time.Microsecond)
	}
}

func (c *Cluster) serve(b *Broker, s *fakenet.Conn) {
	c.mu.Lock()
	c.active++
	c.mu.Unlock()
	defer func() {
		c.mu.Lock()
		c.active--
		c.mu.Unlock()
	}()
	defer s.Close()
	st := &connState{versions: b.Versions}
	if c.SASL != nil {
		st.auth = "none"
	}
	for {
		payload, err := readFrame(s)
		if err != nil {
			if err != io.EOF && err != io.ErrUnexpectedEOF {
				// frame size garbage
				c.problem(nil, "bad-frame", fmt.Sprintf("broker %d conn %d: %v", b.ID, s.ID, err))
			}
			return
		}
		st.reqStart = st.consumed
		st.consumed += int64(4 + len(payload))
		if st.rawMode {
			if !c.saslRaw(b, s, st, payload) {
				return
			}
			continue
		}
		if !c.handle(b, s, st, payload) {
			return
		}
	}
}

func (c *Cluster) handle(b *Broker, s *fakenet.Conn, st *connState, payload []byte) bool {
	hdr, err := refcodec.ParseRequestHeader(payload)
	ev := &Event{Seq: core.Tick(), Broker: b.ID, ConnID: s.ID, Conn: s, API: hdr.Key, Version: hdr.Version, Corr: hdr.CorrelationID, AuthState: st.auth, Wall: time.Now(), ReqStart: st.reqStart}
	if hdr.ClientID != nil {
		ev.ClientID = *hdr.ClientID
	}
	st.nconn++
	c.mu.Lock()
	c.journal = append(c.journal, ev)
	closed := c.closed
	c.mu.Unlock()
	if closed {
		return false
	}
	if err != nil {
		ev.Problem = "request header: " + err.Error()
		c.problem(ev, "bad-header", ev.Problem)
		return false
	}
	api := refcodec.APIs[hdr.Key]
	if api == nil {
		ev.Problem = fmt.Sprintf("api key %d has no schema in the fake cluster", hdr.Key)
		c.problem(ev, "unknown-api", ev.Problem)
		return false
	}
	vr, adv := st.versions[hdr.Key]
	if !adv || hdr.Version < vr.Min || hdr.Version > vr.Max {
		// ApiVersions is exempt: a client may probe with a version the broker
		// does not know and must then be answered with v0 + error 35.
		if hdr.Key != KApiVersions {
			ev.Problem = fmt.Sprintf("%s v%d outside the advertised range %v (advertised=%v)", api.Name, hdr.Version, vr, adv)
			c.problem(ev, "version-out-of-range", ev.Problem)
			return false
		}
	}
	if !api.Versions.Has(hdr.Version) {
		ev.Problem = fmt.Sprintf("%s v%d has no schema", api.Name, hdr.Version)
		c.problem(ev, "unknown-version", ev.Problem)
		return false
	}
	body, derr := refcodec.DecodeBody(api, hdr.Version, true, payload[hdr.BodyOff:])
	ev.Body = body
	if derr != nil {
		ev.Problem = "request body: " + derr.Error()
		c.problem(ev, "bad-request-body", fmt.Sprintf("%s v%d: %v", api.Name, hdr.Version, derr))
		return false
	}
	c.mu.Lock()
	c.apiCount[[2]int{int(b.ID), hdr.Key}]++
	n := c.apiCount[[2]int{int(b.ID), hdr.Key}]
	script := c.Script
	c.mu.Unlock()

	rc := &ReqCtx{Ev: ev, Broker: b, Conn: s, API: api, Body: body, N: n, NConn: st.nconn}
	var act *Action
	if script != nil {
		act = script(rc)
	}
	if act == nil {
		act = &Action{}
	}
	// SASL gate bookkeeping happens in the monitors: the journal has AuthState.
	switch act.Kind {
	case ActDropBefore:
		ev.Fate = FateDroppedBefore
		return false
	case ActIgnore:
		ev.Fate = FateDroppedBefore
		return true
	}
	var resp map[string]any
	if act.Kind == ActError || ((act.Kind == ActCut || act.Kind == ActSplit) && act.ErrorBody) {
		resp = c.errorResponse(rc, act.Code)
		ev.Fate, ev.Code = FateRejected, act.Code
	} else {
		resp = c.apply(rc, st)
		if act.Kind == ActErrorApply {
			over := c.errorResponse(rc, act.Code)
			resp = over
			ev.Code = act.Code
		}
	}
	if resp == nil {
		// no response for this request (acks=0 produce) or connection to be closed
		if ev.Fate == "" {
			ev.Fate = FateApplied
		}
		if v, _ := ev.Extra["close"].(bool); v {
			return false
		}
		return true
	}
	if act.Mutate != nil {
		act.Mutate(resp)
	}
	ev.Resp = resp
	frame, _, err := refcodec.EncodeResponseFrame(api, hdr.Version, hdr.CorrelationID, resp)
	if err != nil {
		panic(fmt.Sprintf("fakecluster: cannot encode %s v%d response: %v", api.Name, hdr.Version, err))
	}
	if act.MutateFrame != nil {
		frame = act.MutateFrame(frame)
	}
	send := func() bool {
		if act.Delay > 0 {
			time.Sleep(act.Delay)
		}
		switch act.Kind {
		case ActApplyDrop:
			ev.Fate = FateAppliedDrop
			ev.RespStart = s.Sent()
			ev.RespEnd = ev.RespStart
			return false
		case ActSplit:
			k := act.CutAt
			if k > len(frame) {
				k = len(frame)
			}
			ev.RespStart = s.Sent()
			ev.RespSeq = core.Tick()
			s.Write(frame[:k])
			time.Sleep(act.SplitPause)
			s.Write(frame[k:])
			ev.RespEnd = ev.RespStart + int64(len(frame))
			if ev.Fate == "" {
				ev.Fate = FateApplied
			}
			return true
		case ActCut:
			ev.RespStart = s.Sent()
			k := act.CutAt
			if k > len(frame) {
				k = len(frame)
			}
			ev.RespSeq = core.Tick()
			s.WriteCut(frame, k, act.CutMode)
			ev.RespEnd = ev.RespStart + int64(len(frame)) // full length: never "delivered" unless k == len
			ev.Fate = FateAppliedCut
			if act.CutMode == fakenet.CutStall {
				// keep the server side open: the client must time out by itself
				c.waitClientClose(s)
			}
			return false
		}
		ev.RespStart = s.Sent()
		ev.RespSeq = core.Tick()
		s.Write(frame)
		ev.RespEnd = ev.RespStart + int64(len(frame))
		if ev.Fate == "" {
			ev.Fate = FateApplied
		}
		return true
	}
	if act.Async {
		go send()
		return true
	}
	if !send() {
		return false
	}
	if v, _ := ev.Extra["close"].(bool); v {
		return false
	}
	return true
}

func (c *Cluster) waitClientClose(s *fakenet.Conn) {
	for i := 0; i < 600000; i++ {
		if s.ClosedByClient() {
			return
		}
		c.mu.Lock()
		cl := c.closed
		c.mu.Unlock()
		if cl {
			return
		}
		time.Sleep(100 * time.Microsecond)
	}
}

// errorResponse builds a response that carries code in the API's natural
// error position without applying the request.
func (c *Cluster) errorResponse(rc *ReqCtx, code int16) map[string]any {
	b := rc.Body
	switch rc.Ev.API {
	case KProduce:
		var topics []any
		for _, t := range refcodec.Arr(b["Topics"]) {
			tm := refcodec.Map(t)
			var parts []any
			for _, p := range refcodec.Arr(tm["Partitions"]) {
				parts = append(parts, map[string]any{"Index": refcodec.Map(p)["Index"], "ErrorCode": code, "BaseOffset": int64(-1), "LogAppendTimeMs": int64(-1), "LogStartOffset": int64(-1)})
			}
			topics = append(topics, map[string]any{"Name": tm["Name"], "PartitionResponses": parts})
		}
		if refcodec.Int(b["Acks"]) == 0 {
			return nil
		}
		return map[string]any{"Responses": topics}
	case KFetch:
		var topics []any
		for _, t := range refcodec.Arr(b["Topics"]) {
			tm := refcodec.Map(t)
			var parts []any
			for _, p := range refcodec.Arr(tm["Partitions"]) {
				parts = append(parts, map[string]any{"PartitionIndex": refcodec.Map(p)["Partition"], "ErrorCode": code, "HighWatermark": int64(-1), "LastStableOffset": int64(-1), "LogStartOffset": int64(-1), "PreferredReadReplica": int64(-1), "Records": []byte(nil)})
			}
			topics = append(topics, map[string]any{"Topic": tm["Topic"], "Partitions": parts})
		}
		return map[string]any{"Responses": topics}
	case KListOffsets:
		var topics []any
		for _, t := range refcodec.Arr(b["Topics"]) {
			tm := refcodec.Map(t)
			var parts []any
			for _, p := range refcodec.Arr(tm["Partitions"]) {
				parts = append(parts, map[string]any{"PartitionIndex": refcodec.Map(p)["PartitionIndex"], "ErrorCode": code, "Timestamp": int64(-1), "Offset": int64(-1), "LeaderEpoch": int64(-1)})
			}
			topics = append(topics, map[string]any{"Name": tm["Name"], "Partitions": parts})
		}
		return map[string]any{"Topics": topics}
	case KOffsetCommit:
		var topics []any
		for _, t := range refcodec.Arr(b["Topics"]) {
			tm := refcodec.Map(t)
			var parts []any
			for _, p := range refcodec.Arr(tm["Partitions"]) {
				parts = append(parts, map[string]any{"PartitionIndex": refcodec.Map(p)["PartitionIndex"], "ErrorCode": code})
			}
			topics = append(topics, map[string]any{"Name": tm["Name"], "Partitions": parts})
		}
		return map[string]any{"Topics": topics}
	case KOffsetFetch:
		var topics []any
		for _, t := range refcodec.Arr(b["Topics"]) {
			tm := refcodec.Map(t)
			var parts []any
			for _, p := range refcodec.Arr(tm["PartitionIndexes"]) {
				parts = append(parts, map[string]any{"PartitionIndex": p, "CommittedOffset": int64(-1), "CommittedLeaderEpoch": int64(-1), "Metadata": "", "ErrorCode": code})
			}
			topics = append(topics, map[string]any{"Name": tm["Name"], "Partitions": parts})
		}
		return map[string]any{"Topics": topics, "ErrorCode": code}
	case KMetadata:
		resp := c.metadataResponse(rc)
		for _, t := range refcodec.Arr(resp["Topics"]) {
			refcodec.Map(t)["ErrorCode"] = code
			refcodec.Map(t)["Partitions"] = []any{}
		}
		return resp
	case KFindCoordinator:
		return map[string]any{"ErrorCode": code, "NodeId": int64(-1), "Host": "", "Port": int64(-1)}
	case KJoinGroup:
		return map[string]any{"ErrorCode": code, "GenerationId": int64(-1), "ProtocolName": "", "Leader": "", "MemberId": b["MemberId"], "Members": []any{}}
	case KSyncGroup:
		return map[string]any{"ErrorCode": code, "Assignment": []byte{}}
	case KCreateTopics:
		var topics []any
		for _, t := range refcodec.Arr(b["Topics"]) {
			topics = append(topics, map[string]any{"Name": refcodec.Map(t)["Name"], "ErrorCode": code})
		}
		return map[string]any{"Topics": topics}
	case KDeleteTopics:
		var topics []any
		for _, t := range refcodec.Arr(b["TopicNames"]) {
			topics = append(topics, map[string]any{"Name": t, "ErrorCode": code})
		}
		return map[string]any{"Responses": topics}
	case KSaslHandshake:
		return map[string]any{"ErrorCode": code, "Mechanisms": []any{}}
	case KApiVersions:
		return map[string]any{"ErrorCode": code, "ApiKeys": []any{}}
	default:
		return map[string]any{"ErrorCode": code}
	}
}

func (c *Cluster) apply(rc *ReqCtx, st *connState) map[string]any {
	switch rc.Ev.API {
	case KApiVersions:
		return c.apiVersionsResponse(rc, st)
	case KMetadata:
		c.mu.Lock()
		defer c.mu.Unlock()
		c.metaSerial++
		rc.Ev.MetaSerial = c.metaSerial
		rc.Ev.Fate = FateServed
		return c.metadataResponseLocked(rc)
	case KProduce:
		return c.produce(rc)
	case KFetch:
		return c.fetch(rc)
	case KListOffsets:
		return c.listOffsets(rc)
	case KFindCoordinator, KJoinGroup, KSyncGroup, KHeartbeat, KLeaveGroup, KOffsetCommit, KOffsetFetch, KDescribeGroups, KListGroups:
		return c.groupAPI(rc)
	case KSaslHandshake, KSaslAuthenticate:
		return c.saslAPI(rc, st)
	case KCreateTopics:
		return c.createTopics(rc)
	case KDeleteTopics:
		return c.deleteTopics(rc)
	}
	// APIs with a schema but no behaviour: success with zero values
	rc.Ev.Fate = FateServed
	return map[string]any{}
}

func (c *Cluster) apiVersionsResponse(rc *ReqCtx, st *connState) map[string]any {
	rc.Ev.Fate = FateServed
	var keys []any
	var ks []int
	for k := range st.versions {
		ks = append(ks, k)
	}
	sort.Ints(ks)
	for _, k := range ks {
		keys = append(keys, map[string]any{"ApiKey": int64(k), "MinVersion": int64(st.versions[k].Min), "MaxVersion": int64(st.versions[k].Max)})
	}
	return map[string]any{"ErrorCode": int64(0), "ApiKeys": keys}
}

func (c *Cluster) metadataResponse(rc *ReqCtx) map[string]any {
	c.mu.Lock()
	defer c.mu.Unlock()
	return c.metadataResponseLocked(rc)
}

func (c *Cluster) metadataResponseLocked(rc *ReqCtx) map[string]any {
	var brokers []any
	for _, id := range c.brokerIDsLocked() {
		b := c.Brokers[id]
		var rack any
		if b.Rack != "" {
			rack = b.Rack
		}
		brokers = append(brokers, map[string]any{"NodeId": int64(b.ID), "Host": b.Host, "Port": int64(b.Port), "Rack": rack})
	}
	var names []string
	req, isArr := rc.Body["Topics"].([]any)
	all := !isArr || rc.Body["Topics"] == nil
	if rc.Ev.Version == 0 && len(req) == 0 {
		all = true
	}
	if all {
		for n := range c.Topics {
			names = append(names, n)
		}
		sort.Strings(names)
	} else {
		for _, t := range req {
			names = append(names, refcodec.Str(refcodec.Map(t)["Name"]))
		}
	}
	allowCreate := rc.Ev.Version < 4 || rc.Body["AllowAutoTopicCreation"] == true
	var topics []any
	for _, n := range names {
		t := c.Topics[n]
		if t == nil && c.AutoCreate && allowCreate && !all {
			t = c.addTopicLocked(n, c.AutoCreatePartitions, nil)
			// a real broker answers LEADER_NOT_AVAILABLE while the topic is being created
			topics = append(topics, map[string]any{"ErrorCode": int64(5), "Name": n, "IsInternal": false, "Partitions": []any{}})
			continue
		}
		if t == nil {
			topics = append(topics, map[string]any{"ErrorCode": int64(3), "Name": n, "IsInternal": false, "Partitions": []any{}})
			continue
		}
		var parts []any
		for _, p := range t.Partitions {
			parts = append(parts, map[string]any{"ErrorCode": int64(p.ErrorCode), "PartitionIndex": int64(p.ID), "LeaderId": int64(p.Leader), "LeaderEpoch": int64(0),
				"ReplicaNodes": i32s(p.Replicas), "IsrNodes": i32s(p.ISR), "OfflineReplicas": i32s(p.Offline)})
		}
		topics = append(topics, map[string]any{"ErrorCode": int64(t.ErrorCode), "Name": n, "IsInternal": t.Internal, "Partitions": parts})
	}
	resp := map[string]any{"Brokers": brokers, "ClusterId": c.ClusterID, "ControllerId": int64(c.Controller), "Topics": topics}
	if c.MetaHook != nil {
		c.MetaHook(resp)
	}
	return resp
}

func i32s(v []int32) []any {
	out := make([]any, 0, len(v))
	for _, x := range v {
		out = append(out, int64(x))
	}
	return out
}

// ---------------------------------------------------------------- produce

func (c *Cluster) produce(rc *ReqCtx) map[string]any {
	b := rc.Body
	acks := refcodec.Int(b["Acks"])
	var topics []any
	c.mu.Lock()
	defer c.mu.Unlock()
	for _, t := range refcodec.Arr(b["Topics"]) {
		tm := refcodec.Map(t)
		name := refcodec.Str(tm["Name"])
		var parts []any
		for _, p := range refcodec.Arr(tm["Partitions"]) {
			pm := refcodec.Map(p)
			idx := int32(refcodec.Int(pm["Index"]))
			rc.Ev.Topic, rc.Ev.Partition = name, idx
			code := int64(0)
			base := int64(-1)
			pt := c.partLocked(name, idx)
			raw := refcodec.Bytes(pm["Records"])
			switch {
			case pt == nil:
				code = 3
			case pt.Leader != rc.Broker.ID:
				code = 6
			default:
				batches, err := refcodec.DecodeRecordSet(raw, refcodec.StrictOpts{Produce: true})
				if err == nil && len(batches) == 0 {
					err = fmt.Errorf("empty record set")
				}
				if err == nil {
					// format must match the produce version: v2 batches from v3, legacy before
					for _, bt := range batches {
						if (rc.Ev.Version >= 3) != (bt.Magic == 2) {
							err = fmt.Errorf("record format magic %d in a produce v%d request", bt.Magic, rc.Ev.Version)
						}
					}
				}
				if err != nil {
					rc.Ev.Problem = err.Error()
					c.problems = append(c.problems, Problem{Seq: core.Tick(), Kind: "produce-records-rejected", Detail: fmt.Sprintf("%s/%d produce v%d: %v", name, idx, rc.Ev.Version, err), Ev: rc.Ev})
					code = 2
					break
				}
				base = pt.End
				rc.Ev.BaseOff = base
				rc.Ev.Batches = append(rc.Ev.Batches, batches...)
				// store: ground truth + a re-encoded v2 (or legacy) layout unit per batch
				for _, bt := range batches {
					var recs []refcodec.Rec
					for _, r := range bt.Records {
						r.Offset = pt.End
						pt.End++
						recs = append(recs, r)
					}
					var enc []byte
					if bt.Magic == 2 {
						nb := refcodec.NewBatchV2(recs, recs[0].Offset, -1, bt.Codec)
						enc, _ = nb.Encode(refcodec.CompressOpts{})
					} else {
						enc, _ = refcodec.EncodeLegacy(bt.Magic, bt.Codec, recs, refcodec.CompressOpts{})
					}
					pt.Layout = append(pt.Layout, &Stored{Bytes: enc, BaseOffset: recs[0].Offset, LastOffset: recs[len(recs)-1].Offset})
					pt.Records = append(pt.Records, recs...)
				}
				pt.cond.Broadcast()
			}
			if code != 0 {
				rc.Ev.Code = int16(code)
			}
			parts = append(parts, map[string]any{"Index": int64(idx), "ErrorCode": code, "BaseOffset": base, "LogAppendTimeMs": int64(-1), "LogStartOffset": int64(0)})
		}
		topics = append(topics, map[string]any{"Name": name, "PartitionResponses": parts})
	}
	if rc.Ev.Code != 0 {
		rc.Ev.Fate = FateRejected
	} else {
		rc.Ev.Fate = FateApplied
	}
	if acks == 0 {
		return nil
	}
	return map[string]any{"Responses": topics, "ThrottleTimeMs": int64(0)}
}

// ---------------------------------------------------------------- fetch

func (c *Cluster) fetch(rc *ReqCtx) map[string]any {
	b := rc.Body
	maxWait := time.Duration(refcodec.Int(b["MaxWaitMs"])) * time.Millisecond
	if maxWait > c.MaxWaitCap {
		maxWait = c.MaxWaitCap
	}
	minBytes := int(refcodec.Int(b["MinBytes"]))
	deadline := time.Now().Add(maxWait)
	rc.Ev.Fate = FateServed
	c.mu.Lock()
	defer c.mu.Unlock()
	for {
		var topics []any
		total := 0
		for _, t := range refcodec.Arr(b["Topics"]) {
			tm := refcodec.Map(t)
			name := refcodec.Str(tm["Topic"])
			var parts []any
			for _, p := range refcodec.Arr(tm["Partitions"]) {
				pm := refcodec.Map(p)
				idx := int32(refcodec.Int(pm["Partition"]))
				off := refcodec.Int(pm["FetchOffset"])
				pmax := int(refcodec.Int(pm["PartitionMaxBytes"]))
				rc.Ev.Topic, rc.Ev.Partition = name, idx
				pr := map[string]any{"PartitionIndex": int64(idx), "ErrorCode": int64(0), "HighWatermark": int64(-1), "LastStableOffset": int64(-1), "LogStartOffset": int64(-1),
					"AbortedTransactions": nil, "PreferredReadReplica": int64(-1), "Records": []byte{}}
				pt := c.partLocked(name, idx)
				switch {
				case pt == nil:
					pr["ErrorCode"] = int64(3)
				case pt.Leader != rc.Broker.ID:
					pr["ErrorCode"] = int64(6)
				case off < pt.Start || off > pt.End:
					pr["ErrorCode"] = int64(1)
					pr["HighWatermark"] = pt.End
					pr["LogStartOffset"] = pt.Start
				default:
					data, nb, cut := pt.serve(off, pmax, c.TruncateTail)
					pr["HighWatermark"] = pt.End
					pr["LastStableOffset"] = pt.End
					pr["LogStartOffset"] = pt.Start
					pr["Records"] = data
					total += len(data)
					if rc.Ev.Extra == nil {
						rc.Ev.Extra = map[string]any{}
					}
					rc.Ev.Extra["fetch_offset"] = off
					rc.Ev.Extra["batches"] = nb
					rc.Ev.Extra["tail_cut"] = cut
					rc.Ev.Extra["hw"] = pt.End
				}
				if ec := refcodec.Int(pr["ErrorCode"]); ec != 0 {
					rc.Ev.Code = int16(ec)
					total += 1 << 30 // errors answer immediately
				}
				parts = append(parts, pr)
			}
			topics = append(topics, map[string]any{"Topic": name, "Partitions": parts})
		}
		if total >= minBytes && total > 0 || !time.Now().Before(deadline) || c.closed || rc.Conn.ClosedByClient() {
			return map[string]any{"ThrottleTimeMs": int64(0), "ErrorCode": int64(0), "SessionId": int64(0), "Responses": topics}
		}
		// long poll: wake up on append or every millisecond to re-check the deadline
		c.mu.Unlock()
		time.Sleep(500 * time.Microsecond)
		c.mu.Lock()
	}
}

// serve returns the bytes for a fetch at off: whole stored batches starting
// with the one containing off, the first one always whole, up to max bytes;
// with truncate, the next batch is cut at the byte limit.
func (p *Partition) serve(off int64, max int, truncate bool) (data []byte, nbatches int, cut bool) {
	i := sort.Search(len(p.Layout), func(i int) bool { return p.Layout[i].LastOffset >= off })
	for ; i < len(p.Layout); i++ {
		s := p.Layout[i]
		if len(data) > 0 && len(data)+len(s.Bytes) > max {
			if truncate && max > len(data) {
				data = append(data, s.Bytes[:max-len(data)]...)
				cut = true
			}
			break
		}
		data = append(data, s.Bytes...)
		nbatches++
	}
	if data == nil {
		data = []byte{}
	}
	return
}

func (c *Cluster) listOffsets(rc *ReqCtx) map[string]any {
	rc.Ev.Fate = FateServed
	c.mu.Lock()
	defer c.mu.Unlock()
	var topics []any
	for _, t := range refcodec.Arr(rc.Body["Topics"]) {
		tm := refcodec.Map(t)
		name := refcodec.Str(tm["Name"])
		var parts []any
		for _, p := range refcodec.Arr(tm["Partitions"]) {
			pm := refcodec.Map(p)
			idx := int32(refcodec.Int(pm["PartitionIndex"]))
			ts := refcodec.Int(pm["Timestamp"])
			rc.Ev.Topic, rc.Ev.Partition = name, idx
			pr := map[string]any{"PartitionIndex": int64(idx), "ErrorCode": int64(0), "Timestamp": int64(-1), "Offset": int64(-1), "LeaderEpoch": int64(0)}
			pt := c.partLocked(name, idx)
			switch {
			case pt == nil:
				pr["ErrorCode"] = int64(3)
			case pt.Leader != rc.Broker.ID:
				pr["ErrorCode"] = int64(6)
			case ts == -1:
				pr["Offset"] = pt.End
			case ts == -2:
				pr["Offset"] = pt.Start
			default:
				for _, r := range pt.Records {
					if r.Offset >= pt.Start && r.TimestampMs >= ts {
						pr["Offset"] = r.Offset
						pr["Timestamp"] = r.TimestampMs
						break
					}
				}
			}
			if rc.Ev.Extra == nil {
				rc.Ev.Extra = map[string]any{}
			}
			rc.Ev.Extra[fmt.Sprintf("answer:%s/%d/%d", name, idx, ts)] = pr["Offset"]
			if ec := refcodec.Int(pr["ErrorCode"]); ec != 0 {
				rc.Ev.Code = int16(ec)
			}
			parts = append(parts, pr)
		}
		topics = append(topics, map[string]any{"Name": name, "Partitions": parts})
	}
	return map[string]any{"ThrottleTimeMs": int64(0), "Topics": topics}
}

func (c *Cluster) createTopics(rc *ReqCtx) map[string]any {
	c.mu.Lock()
	defer c.mu.Unlock()
	rc.Ev.Fate = FateApplied
	var topics []any
	for _, t := range refcodec.Arr(rc.Body["Topics"]) {
		tm := refcodec.Map(t)
		name := refcodec.Str(tm["Name"])
		code := int64(0)
		switch {
		case rc.Broker.ID != c.Controller:
			code = 41
		case c.Topics[name] != nil:
			code = 36
		default:
			n := int(refcodec.Int(tm["NumPartitions"]))
			if n <= 0 {
				n = 1
			}
			if rc.Body["ValidateOnly"] != true {
				c.addTopicLocked(name, n, nil)
			}
		}
		topics = append(topics, map[string]any{"Name": name, "ErrorCode": code, "ErrorMessage": nil, "NumPartitions": int64(-1), "ReplicationFactor": int64(-1), "Configs": []any{}})
	}
	return map[string]any{"ThrottleTimeMs": int64(0), "Topics": topics}
}

func (c *Cluster) deleteTopics(rc *ReqCtx) map[string]any {
	c.mu.Lock()
	defer c.mu.Unlock()
	rc.Ev.Fate = FateApplied
	var topics []any
	for _, t := range refcodec.Arr(rc.Body["TopicNames"]) {
		name := refcodec.Str(t)
		code := int64(0)
		switch {
		case rc.Broker.ID != c.Controller:
			code = 41
		case c.Topics[name] == nil:
			code = 3
		default:
			delete(c.Topics, name)
		}
		topics = append(topics, map[string]any{"Name": name, "ErrorCode": code})
	}
	return map[string]any{"ThrottleTimeMs": int64(0), "Responses": topics}
}
