// Package props links every property check into verifrun.
package props
