package props

import (
	"context"
	"crypto/sha256"
	"errors"
	"fmt"
	"io"
	"strings"
	"time"

	kafka "github.com/segmentio/kafka-go"

	"verifharness/fakecluster"
	"verifharness/fakenet"
	"verifharness/refcodec"
)

// A table of operations of the low-level kafka.Conn, shared by C11
// (differential after broker-reported errors) and C17 (cut at every byte).

type connOp struct {
	Name string
	API  int // the API whose response the operation's outcome depends on (the last request it issues)
	// Versions: the versions of API the Conn can negotiate for this operation
	Versions []int
	// Run performs the operation and returns a digest of its result.
	Run func(c *kafka.Conn) (string, error)
	// Mutating operations change broker state when they succeed.
	Mutating bool
	// Fetch: the result is a record sequence (prefix semantics under cuts).
	Fetch bool
	// Codecs of the three stored batches of partition 0 (nil: none, gzip, none).
	Codecs []int
}

func (o connOp) codecs() []int {
	if o.Codecs == nil {
		return []int{0, 1, 0}
	}
	return o.Codecs
}

// connOpsC17 adds, for the cut enumeration, fetches of a log whose last batch is compressed with
// each codec: a cut inside a compressed payload at the end of a response is only noticed through the
// byte accounting of the message set, not by a following batch header.
func connOpsC17() []connOp {
	ops := connOps()
	var readBatch connOp
	for _, o := range ops {
		if o.Name == "ReadBatch" {
			readBatch = o
		}
	}
	for codec := 1; codec <= 4; codec++ {
		o := readBatch
		o.Name = "ReadBatch/" + refcodec.CodecNames[codec] + "-tail"
		o.Codecs = []int{0, 0, codec}
		if codec == 4 {
			o.Versions = []int{10} // zstd needs record batches
		}
		ops = append(ops, o)
	}
	return ops
}

func digest(v any) string {
	h := sha256.Sum256([]byte(fmt.Sprintf("%+v", v)))
	return fmt.Sprintf("%x", h[:6])
}

const connTopic = "ct"

func connOps() []connOp {
	msgs := func() []kafka.Message {
		return []kafka.Message{{Key: []byte("k1"), Value: []byte("hello"), Time: time.UnixMilli(tsBase + 5)}, {Value: []byte("world"), Time: time.UnixMilli(tsBase + 6)}}
	}
	readBatch := func(c *kafka.Conn) (string, error) {
		if _, err := c.Seek(2, kafka.SeekAbsolute|kafka.SeekDontCheck); err != nil {
			return "", err
		}
		b := c.ReadBatch(1, 1<<20)
		var out []string
		var rerr error
		for {
			m, err := b.ReadMessage()
			if err != nil {
				if !errors.Is(err, io.EOF) {
					rerr = err
				}
				break
			}
			out = append(out, fmt.Sprintf("%d:%s:%s", m.Offset, m.Key, m.Value))
			if len(out) > 200 {
				break
			}
		}
		if cerr := b.Close(); cerr != nil && rerr == nil {
			rerr = cerr
		}
		return strings.Join(out, ","), rerr
	}
	return []connOp{
		{Name: "ApiVersions", API: fakecluster.KApiVersions, Versions: []int{0}, Run: func(c *kafka.Conn) (string, error) {
			v, err := c.ApiVersions()
			return digest(v), err
		}},
		{Name: "Brokers", API: fakecluster.KMetadata, Versions: []int{1}, Run: func(c *kafka.Conn) (string, error) {
			v, err := c.Brokers()
			return digest(v), err
		}},
		{Name: "Controller", API: fakecluster.KMetadata, Versions: []int{1}, Run: func(c *kafka.Conn) (string, error) {
			v, err := c.Controller()
			return digest(v), err
		}},
		{Name: "ReadPartitions", API: fakecluster.KMetadata, Versions: []int{1, 6}, Run: func(c *kafka.Conn) (string, error) {
			v, err := c.ReadPartitions()
			return digest(v), err
		}},
		{Name: "ReadFirstOffset", API: fakecluster.KListOffsets, Versions: []int{1}, Run: func(c *kafka.Conn) (string, error) {
			v, err := c.ReadFirstOffset()
			return digest(v), err
		}},
		{Name: "ReadLastOffset", API: fakecluster.KListOffsets, Versions: []int{1}, Run: func(c *kafka.Conn) (string, error) {
			v, err := c.ReadLastOffset()
			return digest(v), err
		}},
		{Name: "ReadOffset", API: fakecluster.KListOffsets, Versions: []int{1}, Run: func(c *kafka.Conn) (string, error) {
			v, err := c.ReadOffset(time.UnixMilli(tsBase + 9))
			return digest(v), err
		}},
		{Name: "ReadBatch", API: fakecluster.KFetch, Versions: []int{2, 5, 10}, Fetch: true, Run: readBatch},
		{Name: "ReadBatchPartialClose", API: fakecluster.KFetch, Versions: []int{2, 5, 10}, Run: func(c *kafka.Conn) (string, error) {
			// read one message of several, then close the batch: the rest of the response must be skipped
			if _, err := c.Seek(1, kafka.SeekAbsolute|kafka.SeekDontCheck); err != nil {
				return "", err
			}
			b := c.ReadBatch(1, 1<<20)
			m, err := b.ReadMessage()
			cerr := b.Close()
			if err == nil {
				err = cerr
			}
			return fmt.Sprintf("%d:%s", m.Offset, m.Value), err
		}},
		{Name: "ReadBatchShortBuffer", API: fakecluster.KFetch, Versions: []int{2, 5, 10}, Run: func(c *kafka.Conn) (string, error) {
			// Batch.Read into a buffer that is too small fails with io.ErrShortBuffer; closing the batch must
			// still leave the connection aligned
			if _, err := c.Seek(0, kafka.SeekAbsolute|kafka.SeekDontCheck); err != nil {
				return "", err
			}
			b := c.ReadBatch(1, 1<<20)
			buf := make([]byte, 2)
			_, err := b.Read(buf)
			b.Close()
			if errors.Is(err, io.ErrShortBuffer) {
				return "short-buffer", nil
			}
			return "", err
		}},
		{Name: "WriteMessages", API: fakecluster.KProduce, Versions: []int{2, 3, 7}, Mutating: true, Run: func(c *kafka.Conn) (string, error) {
			n, err := c.WriteMessages(msgs()...)
			return digest(n), err
		}},
		{Name: "WriteCompressedMessages", API: fakecluster.KProduce, Versions: []int{2, 3, 7}, Mutating: true, Run: func(c *kafka.Conn) (string, error) {
			n, part, off, _, err := c.WriteCompressedMessagesAt(kafka.Compression(1).Codec(), msgs()...)
			return digest([]any{n, part, off}), err
		}},
		{Name: "CreateTopics", API: fakecluster.KCreateTopics, Versions: []int{0, 1, 2}, Mutating: true, Run: func(c *kafka.Conn) (string, error) {
			err := c.CreateTopics(kafka.TopicConfig{Topic: "newtopic", NumPartitions: 2, ReplicationFactor: 1})
			return "", err
		}},
		{Name: "DeleteTopics", API: fakecluster.KDeleteTopics, Versions: []int{0, 1}, Mutating: true, Run: func(c *kafka.Conn) (string, error) {
			err := c.DeleteTopics("victim")
			return "", err
		}},
	}
}

type connEnv struct {
	Net     *fakenet.Net
	Cluster *fakecluster.Cluster
	Dialer  *kafka.Dialer
}

// newConnEnv builds a one-broker cluster with topic connTopic (partition 0 holds 12 records in three
// batches) and topic "victim", with the given version caps.
func newConnEnv(caps map[int]int) *connEnv { return newConnEnvCodecs(caps, []int{0, 1, 0}) }

func newConnEnvCodecs(caps map[int]int, codecs []int) *connEnv {
	net := fakenet.New()
	cl := fakecluster.New(net)
	cl.MaxWaitCap = 5 * time.Millisecond
	b := cl.AddBroker(1, "r1")
	for api, max := range caps {
		v := b.Versions[api]
		v.Max = max
		b.Versions[api] = v
	}
	cl.AddTopic(connTopic, 2, nil)
	cl.AddTopic("victim", 1, nil)
	cl.Lock()
	pt := cl.Topics[connTopic].Partitions[0]
	magic := 2
	if m, ok := caps[fakecluster.KFetch]; ok && m < 4 {
		magic = 1
	}
	for base := int64(0); base < 12; base += 4 {
		var recs []refcodec.Rec
		for i := int64(0); i < 4; i++ {
			o := base + i
			recs = append(recs, refcodec.Rec{Offset: o, TimestampMs: tsBase + o, Key: []byte(fmt.Sprintf("k%d", o)), Value: []byte(fmt.Sprintf("value-%d", o))})
		}
		var enc []byte
		if magic == 2 {
			enc, _ = refcodec.NewBatchV2(recs, base, -1, codecs[base/4]).Encode(refcodec.CompressOpts{})
		} else {
			enc, _ = refcodec.EncodeLegacy(1, codecs[base/4], recs, refcodec.CompressOpts{})
		}
		pt.AppendStored(&fakecluster.Stored{Bytes: enc, BaseOffset: base, LastOffset: base + 3}, recs)
	}
	cl.Unlock()
	return &connEnv{Net: net, Cluster: cl, Dialer: &kafka.Dialer{DialFunc: net.Dialer("conn"), ClientID: "verif-conn", Timeout: 2 * time.Second}}
}

func (e *connEnv) dial() (*kafka.Conn, error) {
	ctx, cancel := context.WithTimeout(context.Background(), 3*time.Second)
	defer cancel()
	c, err := e.Dialer.DialLeader(ctx, "tcp", "b1:9092", connTopic, 0)
	if err != nil {
		return nil, err
	}
	c.SetDeadline(time.Now().Add(3 * time.Second))
	return c, nil
}

func errClass(err error) string {
	if err == nil {
		return "nil"
	}
	var ke kafka.Error
	if errors.As(err, &ke) {
		return fmt.Sprintf("kafka:%d", int(ke))
	}
	return "other"
}
