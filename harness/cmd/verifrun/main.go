// verifrun is the monitored program: one shard of one property's case list,
// run against the kafka-go sources in /repo (built with -tags verif).
package main

import (
	"encoding/json"
	"flag"
	"fmt"
	"os"
	"strconv"
	"strings"

	"verifharness/core"
	_ "verifharness/props"
)

func main() {
	prop := flag.String("prop", "", "property id")
	tier := flag.String("tier", "quick", "quick|thorough")
	seed := flag.Uint64("seed", 1, "VERIF_SEED")
	shard := flag.Int("shard", 0, "shard index")
	nshards := flag.Int("nshards", 1, "number of shards")
	out := flag.String("out", "", "result json")
	logp := flag.String("log", "", "case log")
	only := flag.String("only", "", "replay one case: list/idx")
	info := flag.Bool("info", false, "print property table as json")
	flag.Parse()

	if *info {
		type pi struct {
			ID, Level, Rule string
			Assumptions     []string
			Race            bool
			Shards          int
		}
		var all []pi
		for _, id := range core.IDs() {
			p := core.Lookup(id)
			all = append(all, pi{p.ID, p.Level, p.Rule, p.Assumptions, p.Race, p.Shards})
		}
		json.NewEncoder(os.Stdout).Encode(all)
		return
	}

	p := core.Lookup(*prop)
	if p == nil {
		fmt.Fprintf(os.Stderr, "unknown property %q\n", *prop)
		os.Exit(2)
	}
	var logf *os.File
	if *logp != "" {
		f, err := os.Create(*logp)
		if err != nil {
			fmt.Fprintln(os.Stderr, err)
			os.Exit(2)
		}
		logf = f
	}
	ctx := core.NewCtx(p, *tier, *seed, *shard, *nshards, logf)
	if *only != "" {
		i := strings.LastIndex(*only, "/")
		n, err := strconv.ParseInt((*only)[i+1:], 10, 64)
		if i < 0 || err != nil {
			fmt.Fprintln(os.Stderr, "bad -only")
			os.Exit(2)
		}
		ctx.Only, ctx.OnlyList = n, (*only)[:i]
	}
	p.Run(ctx)
	res := ctx.Finish()
	if *out != "" {
		if err := core.WriteJSON(*out, res); err != nil {
			fmt.Fprintln(os.Stderr, err)
			os.Exit(2)
		}
	} else {
		json.NewEncoder(os.Stdout).Encode(res)
	}
}
