package props

import (
	"bytes"
	stdgzip "compress/gzip"
	"encoding/binary"
	"errors"
	"fmt"
	"io"
	"reflect"
	"runtime"
	"runtime/debug"
	"sort"
	"strings"
	"sync"
	"time"

	xerial "github.com/eapache/go-xerial-snappy"
	gsnappy "github.com/golang/snappy"
	ks2 "github.com/klauspost/compress/s2"
	kzstd "github.com/klauspost/compress/zstd"
	lz4v2 "github.com/pierrec/lz4"
	"github.com/segmentio/kafka-go/compress"
	cgzip "github.com/segmentio/kafka-go/compress/gzip"
	clz4 "github.com/segmentio/kafka-go/compress/lz4"
	csnappy "github.com/segmentio/kafka-go/compress/snappy"
	czstd "github.com/segmentio/kafka-go/compress/zstd"

	"verifharness/core"
)

// C16 — compression codecs are lossless, interoperable with the reference
// implementations of their formats, and independent of what the pooled
// readers/writers processed before.
//
// One "rt" case = (codec variant, payload P, write chunking W, read sizes R,
// compressed-source shape S, history prefixes) and evaluates three oracles:
//
//	(a) library writer -> library reader == P, ends with io.EOF
//	(b) library writer -> REFERENCE decoder == P
//	(c) REFERENCE encoder -> library reader == P
//
// Before every use of a library writer or reader a random prefix of earlier
// uses ("history") is driven through the same package-level / per-codec
// sync.Pools on the same goroutine. When an oracle fails, the same operation
// is re-run after the pools were emptied (GC cycles): if it then passes the
// failure is history dependent and is reported under c16:history:<codec>:<kind>,
// kind being the single history step that reproduces it on fresh pools when
// there is one (see report). (a) is not evaluated when (b) already failed.
//
// Self-protection (never changes a verdict on a healthy codec): a family that
// produced 6 violations, or 2 cases that never returned, in this shard has its
// remaining cases skipped and counted; history streams with absurd declared
// sizes are not fed to the library; the Go heap has a soft limit. A codec that
// misreads one length field otherwise allocates gigabytes per stream and gets
// the shard (and its witnesses) OOM-killed.
//
// One "conc" case = one codec value, 32 goroutines, oracle (a) on each.

func init() {
	core.Register(&core.Prop{
		ID:    "C16",
		Level: "exploration",
		Rule: "rt list: one case = (codec+options, payload kind/size, write chunking W, read sizes R, source shape S, history prefixes before the writer and before each reader) " +
			"evaluating (a) library round trip ending in io.EOF, (b) reference decoder on the library's stream, (c) library reader on a reference encoder's stream; " +
			"the first 201 case indices sweep every boundary size (1,2,15,16,17, 31 KiB, 32 KiB, 64 KiB +-1, 96/128/300 KiB) for every codec and every codec variant once, whatever the seed; " +
			"conc list: one codec value used by 32 goroutines at once, oracle (a) per goroutine (32 evaluations per case). " +
			"pair list: after a history (failed sinks and damaged streams closed once or twice), two writers and then two readers of one codec value are open at the same time on one goroutine and used alternately; each stream must decode (reference decoder, then library readers) to its own payload. " +
			"signature = (codec+options, payload kind, size bucket, W class, R class, set of history kinds); non-trivial = payload of at least 2 bytes. " +
			"counters pool_get/pool_reuse report how often the inner pooled object of a reader/writer had already been seen in this process (pointer identity, evidence only)",
		Assumptions: []string{
			"reference decoders/encoders: stdlib compress/gzip; golang/snappy v0.0.1 blocks with eapache/go-xerial-snappy and an own xerial frame walker; pierrec/lz4 v2.6.0 (independent major version of the frame codec); klauspost/compress zstd used directly (the only zstd available offline: shared trusted base, zstd interoperability with a second implementation is not decided)",
			"a reference-encoded stream is only used for oracle (c) when the reference decoder of the same format decodes it back to the payload (otherwise the case is inconclusive)",
			"valid io.Reader/io.Writer behaviour is assumed legal input: short reads from the compressed source, data returned together with io.EOF, zero-length Write calls, io.Copy paths (ReadFrom/WriteTo) when the returned object implements them",
			"history streams that are corrupted or garbage are restricted so that no declared block/window size exceeds 16 MiB (xerial frame length, snappy decoded length; zstd frame-header bytes 4..17 are not flipped): allocation on hostile input is not this property's subject; a panic inside a history step is counted (history_panic:*) but is not a C16 violation",
			"sync.Pool reuse cannot be forced; it is made likely by running history and use back to back on one goroutine, and is measured by pointer identity of the inner pooled object (addresses can be recycled by the allocator, so the counters are evidence only)",
			"history-dependence is classified by re-running the failing operation after two runtime.GC() calls emptied the pools; the classification affects only the violation key, never whether a violation is reported",
			"empty input is excluded by the statement and is never fed to an oracle (it is used as a history step only)",
		},
		Shards: 16,
		// every operation of a case is a bounded in-memory computation taking
		// milliseconds; a case that does not finish within the watchdog, twice (the
		// second time alone on an idle process), never yields the payload
		HangIsViolation: true,
		Run:             runC16,
	})
}

// ---------------------------------------------------------------- variants

type c16Variant struct {
	family string // gzip | snappy | lz4 | zstd: codecs of one family share package-level pools
	name   string // codec name used in violation keys
	opts   string
	codec  compress.Codec
	framed bool // snappy only
}

func (v *c16Variant) String() string { return v.name + "{" + v.opts + "}" }

var (
	c16Once     sync.Once
	c16Variants []*c16Variant
	c16ByName   = map[string][]int{}
	c16ByFamily = map[string][]int{}
	c16Names    = []string{"gzip", "snappy", "snappy-unframed", "lz4", "zstd"}
	c16RefZstdD *kzstd.Decoder
	c16RefZstdE *kzstd.Encoder
)

func c16Init() {
	c16Once.Do(func() {
		add := func(v *c16Variant) {
			i := len(c16Variants)
			c16Variants = append(c16Variants, v)
			c16ByName[v.name] = append(c16ByName[v.name], i)
			c16ByFamily[v.family] = append(c16ByFamily[v.family], i)
		}
		// the globally installed codec values, through the Compression table
		add(&c16Variant{family: "gzip", name: "gzip", opts: "global", codec: compress.Gzip.Codec()})
		add(&c16Variant{family: "snappy", name: "snappy", opts: "global", codec: compress.Snappy.Codec(), framed: true})
		add(&c16Variant{family: "lz4", name: "lz4", opts: "global", codec: compress.Lz4.Codec()})
		add(&c16Variant{family: "zstd", name: "zstd", opts: "global", codec: compress.Zstd.Codec()})
		add(&c16Variant{family: "lz4", name: "lz4", opts: "own-value", codec: &clz4.Codec{}})
		// gzip levels defined by the standard gzip package (0 means default in the codec)
		for _, l := range []int{-2, -1, 1, 2, 3, 4, 5, 6, 7, 8, 9} {
			add(&c16Variant{family: "gzip", name: "gzip", opts: fmt.Sprintf("Level=%d", l), codec: &cgzip.Codec{Level: l}})
		}
		compNames := map[csnappy.Compression]string{csnappy.DefaultCompression: "default", csnappy.FasterCompression: "faster", csnappy.BetterCompression: "better", csnappy.BestCompression: "best"}
		for _, fr := range []csnappy.Framing{csnappy.Framed, csnappy.Unframed} {
			for _, cp := range []csnappy.Compression{csnappy.DefaultCompression, csnappy.FasterCompression, csnappy.BetterCompression, csnappy.BestCompression} {
				name, f := "snappy", "Framed"
				if fr == csnappy.Unframed {
					name, f = "snappy-unframed", "Unframed"
				}
				add(&c16Variant{family: "snappy", name: name, opts: "Framing=" + f + ",Compression=" + compNames[cp], codec: &csnappy.Codec{Framing: fr, Compression: cp}, framed: fr == csnappy.Framed})
			}
		}
		for _, l := range []int{-5, 1, 2, 3, 5, 6, 9, 10, 19, 22} {
			add(&c16Variant{family: "zstd", name: "zstd", opts: fmt.Sprintf("Level=%d", l), codec: &czstd.Codec{Level: l}})
		}
		var err error
		if c16RefZstdD, err = kzstd.NewReader(nil, kzstd.WithDecoderConcurrency(1)); err != nil {
			panic(err)
		}
		if c16RefZstdE, err = kzstd.NewWriter(nil, kzstd.WithEncoderConcurrency(1)); err != nil {
			panic(err)
		}
	})
}

// ---------------------------------------------------------------- payloads

type c16Payload struct {
	Kind string
	Size int
	Seed uint64
}

func (p c16Payload) String() string { return fmt.Sprintf("%s/%d/seed=%#x", p.Kind, p.Size, p.Seed) }

var c16Words = strings.Fields("the quick brown fox jumps over the lazy dog kafka topic partition offset leader follower " +
	"producer consumer group record batch {\"id\": \"value\": true, false, null 0 1 2 3 42 1000000 2026-01-01T00:00:00Z " +
	"aaaaaaaaaaaaaaaaaaaaaaaaaaaaaaaaaaaaaaaa ab abab abcabcéè 日本 a b c d e")

var c16PayloadKinds = []string{"random", "const", "text", "mixed", "periodic"}

// c16Gen regenerates a payload from its descriptor alone.
func c16Gen(p c16Payload) []byte {
	r := core.NewRand(p.Seed)
	n := p.Size
	switch p.Kind {
	case "random":
		return r.Bytes(n)
	case "const":
		return bytes.Repeat([]byte{byte(p.Seed)}, n)
	case "text":
		b := make([]byte, 0, n+32)
		for len(b) < n {
			b = append(b, c16Words[r.Intn(len(c16Words))]...)
			if r.Chance(1, 12) {
				b = append(b, '\n')
			} else {
				b = append(b, ' ')
			}
		}
		return b[:n]
	case "periodic":
		per := r.Bytes(r.Range(1, 300))
		b := make([]byte, 0, n+len(per))
		for len(b) < n {
			b = append(b, per...)
		}
		return b[:n]
	default: // mixed
		b := make([]byte, 0, n+16)
		for len(b) < n {
			l := r.Range(1, 3000)
			if r.Chance(1, 10) {
				l = r.Range(3000, 70000)
			}
			switch r.Intn(5) {
			case 0:
				b = append(b, r.Bytes(l)...)
			case 1:
				b = append(b, bytes.Repeat([]byte{byte(r.Intn(256))}, l)...)
			case 2:
				for e := len(b) + l; len(b) < e; {
					b = append(b, c16Words[r.Intn(len(c16Words))]...)
					b = append(b, ' ')
				}
			case 3: // copy of an earlier region (long-distance match)
				if len(b) > 0 {
					s := r.Intn(len(b))
					e := s + l
					if e > len(b) {
						e = len(b)
					}
					b = append(b, b[s:e]...)
				}
			default:
				b = append(b, make([]byte, l)...)
			}
		}
		return b[:n]
	}
}

const c16K = 1024

var c16SweepSizes = []int{1, 2, 15, 16, 17, 31*c16K - 1, 31 * c16K, 31*c16K + 1, 32*c16K - 1, 32 * c16K, 32*c16K + 1,
	64*c16K - 1, 64 * c16K, 64*c16K + 1, 96 * c16K, 128 * c16K, 300 * c16K}

func c16PickSize(r *core.Rand) int {
	x := r.Intn(100)
	switch {
	case x < 30:
		if r.Bool() {
			return core.Pick(r, 1, 1, 2, 3, 4, 8, 15, 16, 17, 31, 32, 33, 64)
		}
		return r.Range(1, 64)
	case x < 55:
		return r.Range(65, 4096)
	case x < 72:
		return r.Range(4097, 31*c16K-2)
	case x < 85: // around the internal boundaries: 31 KiB flush threshold, 32 KiB buffer, 64 KiB page, n*32 KiB
		base := core.Pick(r, 31*c16K, 32*c16K, 32*c16K, 64*c16K, 64*c16K, 96*c16K, 128*c16K, r.Range(1, 9)*32*c16K)
		return base + r.Range(-2, 2)
	case x < 95:
		return r.Range(32*c16K, 128*c16K)
	default:
		if r.Chance(1, 3) {
			return 300 * c16K
		}
		return r.Range(128*c16K, 300*c16K)
	}
}

func c16SizeBucket(n int) string {
	near := func(b int) bool { return n >= b-2 && n <= b+2 }
	switch {
	case n == 1:
		return "1"
	case n < 15:
		return "2-14"
	case n <= 17:
		return "15-17"
	case n <= 64:
		return "18-64"
	case n <= 4096:
		return "65-4K"
	case near(31 * c16K):
		return "~31K"
	case near(32 * c16K):
		return "~32K"
	case n < 32*c16K:
		return "4K-32K"
	case near(64 * c16K):
		return "~64K"
	case n < 64*c16K:
		return "32K-64K"
	case n%(32*c16K) <= 2 || n%(32*c16K) >= 32*c16K-2:
		return "~n*32K"
	case n <= 128*c16K:
		return "64K-128K"
	default:
		return ">128K"
	}
}

// ---------------------------------------------------------------- failures, guards

type c16Fail struct {
	What   string
	Detail map[string]any
}

func c16Failf(detail map[string]any, format string, a ...any) *c16Fail {
	return &c16Fail{What: fmt.Sprintf(format, a...), Detail: detail}
}

// c16Guard runs f and converts a panic raised below harness code (library or
// its dependencies) into a failure. A panic whose innermost non-runtime frame
// is harness code is a harness bug and is re-raised.
func c16Guard(f func() *c16Fail) (out *c16Fail) {
	defer func() {
		if r := recover(); r != nil {
			st := string(debug.Stack())
			if c16PanicInHarness(st) {
				panic(r)
			}
			if len(st) > 4000 {
				st = st[:4000]
			}
			out = &c16Fail{What: fmt.Sprintf("panic: %v", r), Detail: map[string]any{"stack": st}}
		}
	}()
	return f()
}

func c16PanicInHarness(st string) bool {
	lines := strings.Split(st, "\n")
	seenPanic := false
	for _, l := range lines {
		l = strings.TrimSpace(l)
		if strings.HasPrefix(l, "panic(") {
			seenPanic = true
			continue
		}
		if !seenPanic || l == "" || strings.HasPrefix(l, "/") || strings.HasPrefix(l, "goroutine ") {
			continue
		}
		if strings.HasPrefix(l, "runtime.") || strings.HasPrefix(l, "runtime/") {
			continue
		}
		return strings.HasPrefix(l, "verifharness/")
	}
	return true // cannot tell: be loud
}

func c16Diff(got, want []byte) int {
	n := len(got)
	if len(want) < n {
		n = len(want)
	}
	for i := 0; i < n; i++ {
		if got[i] != want[i] {
			return i
		}
	}
	if len(got) != len(want) {
		return n
	}
	return -1
}

func c16Hex(b []byte, at, n int) string {
	if at < 0 {
		at = 0
	}
	if at > len(b) {
		at = len(b)
	}
	e := at + n
	if e > len(b) {
		e = len(b)
	}
	return fmt.Sprintf("%x", b[at:e])
}

func c16Compare(got, want []byte, who string) *c16Fail {
	d := c16Diff(got, want)
	if d < 0 {
		return nil
	}
	return c16Failf(map[string]any{"got_len": len(got), "want_len": len(want), "first_diff_offset": d,
		"got_at_diff": c16Hex(got, d, 16), "want_at_diff": c16Hex(want, d, 16)},
		"%s yields %d bytes, payload has %d; first difference at offset %d", who, len(got), len(want), d)
}

// ---------------------------------------------------------------- W: write chunking

type c16W struct {
	Class  string
	Seed   uint64
	Empty  bool // zero-length Write calls interleaved
	Chunks int  // filled while writing (witness)
}

func (w c16W) String() string {
	s := fmt.Sprintf("%s/seed=%#x", w.Class, w.Seed)
	if w.Empty {
		s += "+empty-writes"
	}
	return s
}

var c16ErrSink = errors.New("c16 sink failure")

type c16FailSink struct{ left int }

func (s *c16FailSink) Write(p []byte) (int, error) {
	if len(p) <= s.left {
		s.left -= len(p)
		return len(p), nil
	}
	n := s.left
	s.left = 0
	return n, c16ErrSink
}

func c16PickW(r *core.Rand, size int) c16W {
	w := c16W{Seed: r.Uint64(), Empty: r.Chance(1, 16)}
	for {
		w.Class = core.Pick(r, "one", "one", "one", "bytes1", "rand64", "rand8192", "rand8192", "rand100000", "straddle", "straddle", "blocks32k", "readfrom")
		switch {
		case w.Class == "bytes1" && size > 4096:
		case w.Class == "rand64" && size > 64*c16K:
		case w.Class == "straddle" && size < 31*c16K:
		case w.Class == "blocks32k" && size <= 32*c16K:
		default:
			return w
		}
	}
}

// c16WriteAll feeds p to w according to plan and stops at the first error.
// strict: the sink never fails, so a short or failed Write is reported.
func c16WriteAll(w io.Writer, p []byte, plan *c16W) error {
	r := core.NewRand(plan.Seed)
	write := func(b []byte) error {
		if plan.Empty && r.Chance(1, 4) {
			if n, err := w.Write(b[:0]); err != nil || n != 0 {
				return fmt.Errorf("zero-length Write returned (%d, %v)", n, err)
			}
		}
		plan.Chunks++
		n, err := w.Write(b)
		if err != nil {
			return fmt.Errorf("Write #%d of %d bytes returned (%d, %w)", plan.Chunks, len(b), n, err)
		}
		if n != len(b) {
			return fmt.Errorf("Write #%d of %d bytes returned (%d, nil)", plan.Chunks, len(b), n)
		}
		return nil
	}
	randChunks := func(p []byte, max int) error {
		for len(p) > 0 {
			n := r.Range(1, max)
			if n > len(p) {
				n = len(p)
			}
			if err := write(p[:n]); err != nil {
				return err
			}
			p = p[n:]
		}
		return nil
	}
	plan.Chunks = 0
	switch plan.Class {
	case "one":
		return write(p)
	case "bytes1":
		return randChunks(p, 1)
	case "rand64":
		return randChunks(p, 64)
	case "rand8192":
		return randChunks(p, 8192)
	case "rand100000":
		return randChunks(p, 100000)
	case "blocks32k":
		for len(p) > 0 {
			n := 32 * c16K
			if n > len(p) {
				n = len(p)
			}
			if err := write(p[:n]); err != nil {
				return err
			}
			p = p[n:]
		}
		return nil
	case "straddle":
		// approach a boundary (31 KiB flush threshold, 32 KiB buffer, 64 KiB page) in
		// one Write, cross it with small writes, then send the rest
		var cands []int
		for _, b := range []int{31 * c16K, 32 * c16K, 64 * c16K, 96 * c16K} {
			if b <= len(p) {
				cands = append(cands, b)
			}
		}
		if len(cands) == 0 {
			return randChunks(p, 8192)
		}
		b := cands[r.Intn(len(cands))]
		d := r.Range(0, 1500)
		if d > b {
			d = b
		}
		if b-d > 0 {
			if err := write(p[:b-d]); err != nil {
				return err
			}
			p = p[b-d:]
		}
		small := 2*d + 3
		if small > len(p) {
			small = len(p)
		}
		if err := randChunks(p[:small], core.Pick(r, 1, 3, 700, 1500)); err != nil {
			return err
		}
		p = p[small:]
		if len(p) == 0 {
			return nil
		}
		if r.Bool() {
			return write(p)
		}
		return randChunks(p, 40000)
	case "readfrom":
		src := &c16Src{b: p, max: core.Pick(r, 0, 1000, 40000), r: r}
		var n int64
		var err error
		plan.Chunks = 1
		if rf, ok := w.(io.ReaderFrom); ok {
			n, err = rf.ReadFrom(src)
		} else {
			n, err = io.Copy(struct{ io.Writer }{w}, src)
		}
		if err != nil {
			return fmt.Errorf("ReadFrom returned (%d, %w)", n, err)
		}
		if n != int64(len(p)) {
			return fmt.Errorf("ReadFrom returned (%d, nil) for %d bytes", n, len(p))
		}
		return nil
	}
	panic("c16: unknown W class " + plan.Class)
}

// ---------------------------------------------------------------- S: shape of the compressed source

// c16Src is a legal io.Reader over b that delivers short reads and, when
// dataEOF is set, returns the last bytes together with io.EOF.
type c16Src struct {
	b       []byte
	off     int
	max     int
	dataEOF bool
	r       *core.Rand
}

func (s *c16Src) Read(p []byte) (int, error) {
	if s.off >= len(s.b) {
		return 0, io.EOF
	}
	n := len(s.b) - s.off
	if n > len(p) {
		n = len(p)
	}
	if s.max > 0 {
		if m := s.r.Range(1, s.max); n > m {
			n = m
		}
	}
	copy(p, s.b[s.off:s.off+n])
	s.off += n
	if s.dataEOF && s.off == len(s.b) {
		return n, io.EOF
	}
	return n, nil
}

type c16S struct {
	Class string
	Seed  uint64
}

func (s c16S) String() string { return fmt.Sprintf("%s/seed=%#x", s.Class, s.Seed) }

func c16PickS(r *core.Rand, zlen int) c16S {
	s := c16S{Seed: r.Uint64()}
	s.Class = core.Pick(r, "bytes.Reader", "bytes.Reader", "bytes.Buffer", "plain", "short4096", "short100", "short1", "data+eof", "short100+eof")
	if s.Class == "short1" && zlen > 16*c16K {
		s.Class = "short100"
	}
	return s
}

func (s c16S) open(z []byte) io.Reader {
	r := core.NewRand(s.Seed)
	switch s.Class {
	case "bytes.Reader":
		return bytes.NewReader(z)
	case "bytes.Buffer":
		return bytes.NewBuffer(append([]byte(nil), z...))
	case "plain":
		return &c16Src{b: z, r: r}
	case "short4096":
		return &c16Src{b: z, r: r, max: 4096}
	case "short100":
		return &c16Src{b: z, r: r, max: 100}
	case "short1":
		return &c16Src{b: z, r: r, max: 1}
	case "data+eof":
		return &c16Src{b: z, r: r, dataEOF: true}
	case "short100+eof":
		return &c16Src{b: z, r: r, max: 100, dataEOF: true}
	}
	panic("c16: unknown S class " + s.Class)
}

// ---------------------------------------------------------------- R: read buffer sizes

type c16R struct {
	Class string
	Seed  uint64
}

func (r c16R) String() string { return fmt.Sprintf("%s/seed=%#x", r.Class, r.Seed) }

func c16PickR(r *core.Rand, size int) c16R {
	p := c16R{Seed: r.Uint64()}
	for {
		p.Class = core.Pick(r, "1", "7", "7", "4096", "4096", "65536", "65536", "rand16", "rand1000", "rand100000", "exact", "exact+1", "readall", "writeto")
		switch {
		case p.Class == "1" && size > 64*c16K:
		case p.Class == "rand16" && size > 128*c16K:
		default:
			return p
		}
	}
}

type c16LimitBuf struct {
	buf   bytes.Buffer
	limit int
}

var c16ErrTooMuch = errors.New("c16: more output than payload + 1 MiB")

func (l *c16LimitBuf) Write(p []byte) (int, error) {
	if l.buf.Len()+len(p) > l.limit {
		return 0, c16ErrTooMuch
	}
	return l.buf.Write(p)
}

// c16ReadAll reads rd to the end with the buffer sizes of plan. A valid stream
// must end with io.EOF, and nothing may follow io.EOF.
func c16ReadAll(rd io.Reader, plan c16R, want int) ([]byte, *c16Fail) {
	limit := want + 1<<20
	if plan.Class == "writeto" {
		lb := &c16LimitBuf{limit: limit}
		var n int64
		var err error
		how := "WriteTo"
		if wt, ok := rd.(io.WriterTo); ok {
			n, err = wt.WriteTo(lb)
		} else {
			how = "io.Copy"
			n, err = io.Copy(lb, struct{ io.Reader }{rd})
		}
		if err != nil {
			return lb.buf.Bytes(), c16Failf(map[string]any{"bytes_before_error": lb.buf.Len()}, "%s returned (%d, %v) after %d bytes", how, n, err, lb.buf.Len())
		}
		if n != int64(lb.buf.Len()) {
			return lb.buf.Bytes(), c16Failf(nil, "%s returned n=%d but wrote %d bytes", how, n, lb.buf.Len())
		}
		return lb.buf.Bytes(), nil
	}
	r := core.NewRand(plan.Seed)
	var fixed, rmax int
	switch plan.Class {
	case "1":
		fixed = 1
	case "7":
		fixed = 7
	case "4096":
		fixed = 4096
	case "65536":
		fixed = 65536
	case "exact":
		fixed = want
	case "exact+1":
		fixed = want + 1
	case "rand16":
		rmax = 16
	case "rand1000":
		rmax = 1000
	case "rand100000":
		rmax = 100000
	case "readall":
	default:
		panic("c16: unknown R class " + plan.Class)
	}
	out := make([]byte, 0, want+512)
	var scratch []byte
	if plan.Class != "readall" {
		m := fixed
		if rmax > m {
			m = rmax
		}
		scratch = make([]byte, m)
	}
	zero, calls := 0, 0
	for {
		var buf []byte
		switch {
		case plan.Class == "readall": // io.ReadAll's pattern: read into the spare capacity
			if len(out) == cap(out) {
				out = append(out, 0)[:len(out)]
			}
			buf = out[len(out):cap(out)]
		case fixed > 0:
			buf = scratch[:fixed]
		default:
			buf = scratch[:r.Range(1, rmax)]
		}
		calls++
		n, err := rd.Read(buf)
		if n < 0 || n > len(buf) {
			return out, c16Failf(nil, "Read #%d with a %d-byte buffer returned n=%d", calls, len(buf), n)
		}
		if plan.Class == "readall" {
			out = out[:len(out)+n]
		} else {
			out = append(out, buf[:n]...)
		}
		if err == io.EOF {
			break
		}
		if err != nil {
			return out, c16Failf(map[string]any{"bytes_before_error": len(out)}, "Read #%d returned (%d, %v) after %d bytes instead of reaching io.EOF", calls, n, err, len(out))
		}
		if n == 0 {
			if zero++; zero > 10000 {
				return out, c16Failf(nil, "Read made no progress 10000 times in a row (0, nil) after %d bytes", len(out))
			}
		} else {
			zero = 0
		}
		if len(out) > limit {
			return out, c16Failf(nil, "reader produced more than payload + 1 MiB bytes (%d) without io.EOF", len(out))
		}
	}
	var tail [7]byte
	if n, err := rd.Read(tail[:]); n != 0 {
		return out, c16Failf(nil, "Read after io.EOF returned %d more bytes (err=%v)", n, err)
	}
	return out, nil
}

// ---------------------------------------------------------------- pool reuse evidence

// c16Inner returns the address of the pooled object wrapped by a reader or
// writer returned from a codec (the first non-nil pointer field that is not the
// codec itself). Evidence only.
func c16Inner(obj any) (p uintptr) {
	defer func() {
		if recover() != nil {
			p = 0
		}
	}()
	v := reflect.ValueOf(obj)
	if v.Kind() != reflect.Ptr || v.IsNil() {
		return 0
	}
	e := v.Elem()
	if e.Kind() != reflect.Struct {
		return 0
	}
	for i := 0; i < e.NumField(); i++ {
		f := e.Field(i)
		if f.Kind() == reflect.Ptr && !f.IsNil() && !strings.HasSuffix(f.Type().String(), "Codec") {
			return f.Pointer()
		}
	}
	return 0
}

type c16Env struct {
	c        *core.Ctx
	mu       sync.Mutex
	seen     map[uintptr]struct{}
	reported map[string]int
	inflight map[string]int
	started  map[string]bool
}

func (e *c16Env) note(family, what string, obj any) {
	p := c16Inner(obj)
	if p == 0 {
		return
	}
	e.mu.Lock()
	_, was := e.seen[p]
	if !was && len(e.seen) < 1<<16 {
		e.seen[p] = struct{}{}
	}
	e.mu.Unlock()
	e.c.Count("pool_get:"+family+":"+what, 1)
	if was {
		e.c.Count("pool_reuse:"+family+":"+what, 1)
	}
}

// c16Breaker: once a codec family (codecs sharing pools) has produced this many
// violations in this shard the property is decided for it; its remaining cases
// in this shard are skipped (and counted) rather than risking the process on a
// codec that is visibly broken.
const c16Breaker = 6

// enter marks a case of the family as running; the returned function marks it
// finished. Cases of a shard run one after the other, so a count above zero at
// the start of a case means that earlier cases of the family never returned
// (the watchdog gave up on them): after two of those the family is skipped.
// A case that is entered a second time is the watchdog's confirmation run of a
// hung case and always runs.
func (e *c16Env) enter(k *core.Case, v *c16Variant) (func(), bool) {
	e.mu.Lock()
	stuck := e.inflight[v.family]
	if e.started[k.ID] {
		stuck = 0
	}
	e.started[k.ID] = true
	if stuck < 2 {
		e.inflight[v.family]++
	}
	e.mu.Unlock()
	if stuck >= 2 {
		e.c.Count("cases_skipped_after_2_hangs:"+v.family, 1)
		return nil, false
	}
	return func() {
		e.mu.Lock()
		e.inflight[v.family]--
		e.mu.Unlock()
	}, true
}

func (e *c16Env) tripped(k *core.Case, v *c16Variant) bool {
	e.mu.Lock()
	n := e.reported[v.family]
	first := n >= c16Breaker && e.reported["tripped:"+v.family] == 0
	if n >= c16Breaker {
		e.reported["tripped:"+v.family]++
	}
	e.mu.Unlock()
	if n < c16Breaker {
		return false
	}
	e.c.Count("cases_skipped_after_"+fmt.Sprint(c16Breaker)+"_violations:"+v.family, 1)
	if first {
		e.c.Inconclusive(fmt.Sprintf("%s: %d violations for the %s codecs in shard %d; their remaining cases in this shard are skipped", k.ID, n, v.family, e.c.Shard))
	}
	return true
}

func c16ClearPools() {
	runtime.GC()
	runtime.GC()
	runtime.GC()
}

// ---------------------------------------------------------------- library operations

// libWrite compresses p with the library codec into memory.
func (e *c16Env) libWrite(v *c16Variant, p []byte, plan *c16W) ([]byte, *c16Fail) {
	var z []byte
	f := c16Guard(func() *c16Fail {
		var buf bytes.Buffer
		w := v.codec.NewWriter(&buf)
		e.note(v.family, "writer", w)
		if err := c16WriteAll(w, p, plan); err != nil {
			w.Close()
			return c16Failf(nil, "writer: %v", err)
		}
		if err := w.Close(); err != nil {
			return c16Failf(nil, "writer Close returned %v", err)
		}
		z = buf.Bytes()
		return nil
	})
	return z, f
}

// libRead decompresses z with the library codec and compares with want.
func (e *c16Env) libRead(v *c16Variant, z, want []byte, s c16S, r c16R) *c16Fail {
	return c16Guard(func() *c16Fail {
		rc := v.codec.NewReader(s.open(z))
		e.note(v.family, "reader", rc)
		got, f := c16ReadAll(rc, r, len(want))
		cerr := rc.Close()
		if f != nil {
			if d := c16Diff(got, want); d >= 0 && d < len(got) {
				f.What += fmt.Sprintf("; output already differs from the payload at offset %d", d)
			}
			return f
		}
		if f := c16Compare(got, want, "library reader"); f != nil {
			return f
		}
		if cerr != nil {
			return c16Failf(nil, "reader Close after a complete, correct read returned %v", cerr)
		}
		return nil
	})
}

// ---------------------------------------------------------------- reference decoders

var c16XerialMagic = []byte{130, 'S', 'N', 'A', 'P', 'P', 'Y', 0}

type c16Frames struct {
	Blocks  int
	MaxUnc  int
	MaxComp int
}

// c16WalkXerial is the harness' own strict xerial frame walker over
// golang/snappy: 8-byte magic, version 1, compatible version 1, then
// (big-endian uint32 length, snappy block)* with nothing left over.
func c16WalkXerial(z []byte) ([]byte, c16Frames, error) {
	var fr c16Frames
	if len(z) < 16 {
		return nil, fr, fmt.Errorf("stream of %d bytes is shorter than the 16-byte xerial header", len(z))
	}
	if !bytes.Equal(z[:8], c16XerialMagic) {
		return nil, fr, fmt.Errorf("bad magic %x", z[:8])
	}
	if v, cv := binary.BigEndian.Uint32(z[8:]), binary.BigEndian.Uint32(z[12:]); v != 1 || cv != 1 {
		return nil, fr, fmt.Errorf("version=%d compatible=%d, want 1/1", v, cv)
	}
	var out []byte
	pos := 16
	for pos < len(z) {
		if pos+4 > len(z) {
			return out, fr, fmt.Errorf("%d stray bytes at offset %d where a frame length is expected", len(z)-pos, pos)
		}
		l := int(binary.BigEndian.Uint32(z[pos:]))
		pos += 4
		if l > len(z)-pos {
			return out, fr, fmt.Errorf("frame #%d at offset %d declares %d bytes (%#x), only %d remain", fr.Blocks, pos-4, l, l, len(z)-pos)
		}
		b, err := gsnappy.Decode(nil, z[pos:pos+l])
		if err != nil {
			return out, fr, fmt.Errorf("frame #%d at offset %d (%d bytes): golang/snappy: %v", fr.Blocks, pos-4, l, err)
		}
		fr.Blocks++
		if len(b) > fr.MaxUnc {
			fr.MaxUnc = len(b)
		}
		if l > fr.MaxComp {
			fr.MaxComp = l
		}
		out = append(out, b...)
		pos += l
	}
	return out, fr, nil
}

// c16RefDecode decodes z with the reference decoder(s) of the format.
// lib: z was written by the library (its block geometry is recorded as evidence).
func (e *c16Env) refDecode(family string, framed bool, z, want []byte, lib bool) *c16Fail {
	fail := func(who string, err error) *c16Fail {
		return c16Failf(map[string]any{"stream_len": len(z), "stream_head": c16Hex(z, 0, 40)}, "%s rejects the stream: %v", who, err)
	}
	switch family {
	case "gzip":
		zr, err := stdgzip.NewReader(bytes.NewReader(z))
		if err != nil {
			return fail("compress/gzip", err)
		}
		got, err := io.ReadAll(zr)
		if err != nil {
			return fail("compress/gzip", err)
		}
		return c16Compare(got, want, "compress/gzip")
	case "snappy":
		if !framed {
			got, err := gsnappy.Decode(nil, z)
			if err != nil {
				return fail("golang/snappy.Decode (one unframed block)", err)
			}
			return c16Compare(got, want, "golang/snappy.Decode")
		}
		got, fr, err := c16WalkXerial(z)
		if err != nil {
			return fail("xerial frame walker over golang/snappy", err)
		}
		if f := c16Compare(got, want, "xerial frame walker over golang/snappy"); f != nil {
			return f
		}
		if lib {
			e.c.Max("max:snappy_framed_block_uncompressed_bytes", int64(fr.MaxUnc))
			e.c.Max("max:snappy_framed_blocks_per_stream", int64(fr.Blocks))
		}
		got, err = xerial.Decode(z)
		if err != nil {
			return fail("eapache/go-xerial-snappy.Decode", err)
		}
		return c16Compare(got, want, "eapache/go-xerial-snappy.Decode")
	case "lz4":
		got, err := io.ReadAll(lz4v2.NewReader(bytes.NewReader(z)))
		if err != nil {
			return fail("pierrec/lz4 v2 Reader", err)
		}
		return c16Compare(got, want, "pierrec/lz4 v2 Reader")
	case "zstd":
		got, err := c16RefZstdD.DecodeAll(z, nil)
		if err != nil {
			return fail("klauspost zstd DecodeAll", err)
		}
		return c16Compare(got, want, "klauspost zstd DecodeAll")
	}
	panic("c16: family " + family)
}

// ---------------------------------------------------------------- reference encoders

// c16TwoWords shortens a reference encoder description to its class.
func c16TwoWords(s string) string {
	f := strings.Fields(s)
	if len(f) > 2 {
		f = f[:2]
	}
	return strings.Join(f, " ")
}

func c16Split(r *core.Rand, p []byte, max int) [][]byte {
	var out [][]byte
	for len(p) > 0 {
		n := r.Range(1, max)
		if n > len(p) {
			n = len(p)
		}
		out = append(out, p[:n])
		p = p[n:]
	}
	return out
}

// c16RefEncode produces a valid stream of the family's format holding p, with a
// reference encoder and options drawn from seed. The description names them.
func c16RefEncode(family string, p []byte, seed uint64, simple bool) ([]byte, string, error) {
	r := core.NewRand(seed)
	var buf bytes.Buffer
	switch family {
	case "gzip":
		lvl := core.Pick(r, -2, -1, -1, 0, 1, 5, 9)
		mode := core.Pick(r, "one", "one", "chunks", "flush", "multi-member")
		hdr := r.Chance(1, 4)
		if simple {
			lvl, mode, hdr = -1, "one", false
		}
		mk := func() (*stdgzip.Writer, error) {
			w, err := stdgzip.NewWriterLevel(&buf, lvl)
			if err == nil && hdr {
				w.Name, w.Comment, w.Extra, w.ModTime = "c16.bin", "c16 reference stream", []byte{1, 2, 3, 4, 5}, time.Unix(1500000000, 0)
			}
			return w, err
		}
		desc := fmt.Sprintf("compress/gzip level=%d mode=%s header-fields=%v", lvl, mode, hdr)
		parts := [][]byte{p}
		if mode == "multi-member" && len(p) >= 2 {
			c := r.Range(1, len(p)-1)
			parts = [][]byte{p[:c], p[c:]}
		}
		for _, part := range parts {
			w, err := mk()
			if err != nil {
				return nil, desc, err
			}
			switch mode {
			case "chunks", "flush":
				for _, ch := range c16Split(r, part, core.Pick(r, 7, 1000, 50000)) {
					if _, err := w.Write(ch); err != nil {
						return nil, desc, err
					}
					if mode == "flush" && r.Chance(1, 3) {
						if err := w.Flush(); err != nil {
							return nil, desc, err
						}
					}
				}
			default:
				if _, err := w.Write(part); err != nil {
					return nil, desc, err
				}
			}
			if err := w.Close(); err != nil {
				return nil, desc, err
			}
		}
		return buf.Bytes(), desc, nil
	case "snappy":
		mode := core.Pick(r, "golang/snappy.Encode (unframed)", "xerial.Encode (unframed)", "xerial.EncodeStream", "xerial.EncodeStream", "xerial.EncodeStream x2 (appended)",
			"own xerial framing over golang/snappy", "own xerial framing over golang/snappy", "s2.EncodeSnappy (unframed)", "own xerial framing over s2.EncodeSnappy")
		if simple {
			mode = core.Pick(r, "golang/snappy.Encode (unframed)", "xerial.EncodeStream")
		}
		frame := func(enc func([]byte) []byte, max int) []byte {
			out := append([]byte(nil), c16XerialMagic...)
			out = append(out, 0, 0, 0, 1, 0, 0, 0, 1)
			for _, ch := range c16Split(r, p, max) {
				b := enc(ch)
				var l [4]byte
				binary.BigEndian.PutUint32(l[:], uint32(len(b)))
				out = append(out, l[:]...)
				out = append(out, b...)
			}
			return out
		}
		switch mode {
		case "golang/snappy.Encode (unframed)":
			return gsnappy.Encode(nil, p), mode, nil
		case "xerial.Encode (unframed)":
			return xerial.Encode(p), mode, nil
		case "xerial.EncodeStream":
			return xerial.EncodeStream(nil, p), mode, nil
		case "xerial.EncodeStream x2 (appended)":
			if len(p) < 2 {
				return xerial.EncodeStream(nil, p), mode, nil
			}
			c := r.Range(1, len(p)-1)
			return xerial.EncodeStream(xerial.EncodeStream(nil, p[:c]), p[c:]), mode, nil
		case "s2.EncodeSnappy (unframed)":
			return ks2.EncodeSnappy(nil, p), mode, nil
		case "own xerial framing over s2.EncodeSnappy":
			max := core.Pick(r, 100, 32*c16K, 64*c16K, 200000)
			return frame(func(b []byte) []byte { return ks2.EncodeSnappy(nil, b) }, max), fmt.Sprintf("%s, blocks of 1..%d bytes", mode, max), nil
		default:
			max := core.Pick(r, 1, 100, 5000, 32*c16K, 32*c16K+1, 64*c16K, 200000)
			if max == 1 && len(p) > 2000 {
				max = 100
			}
			return frame(func(b []byte) []byte { return gsnappy.Encode(nil, b) }, max), fmt.Sprintf("%s, blocks of 1..%d bytes", mode, max), nil
		}
	case "lz4":
		w := lz4v2.NewWriter(&buf)
		w.Header.BlockMaxSize = core.Pick(r, 0, 64*c16K, 64*c16K, 256*c16K, 1<<20, 4<<20)
		// FINDING on the unchanged library (kept in the oracle, not weakened): reference
		// frames carrying per-block checksums are generated HERE. The LZ4 frame format
		// defines the block checksum as XXH32 of the block bytes as stored (pierrec/lz4 v2
		// and Kafka's Java KafkaLZ4BlockInputStream do that); the library's reader
		// (pierrec/lz4/v4 v4.1.15) verifies it against XXH32 of the DEcompressed block, so
		// every such frame with at least one compressed (not stored) block is rejected with
		// "lz4: invalid block checksum". Minimal witness: 20 x 'a', lz4 v2
		// Writer{BlockChecksum: true, NoChecksum: true}, one Write ->
		// 04224d187070721300000010610100000200b06161616161616161616161f492aff100000000.
		// These failures are reported under the key c16:ref-encode:lz4:block-checksum.
		w.Header.BlockChecksum = r.Bool()
		w.Header.NoChecksum = r.Bool()
		w.Header.CompressionLevel = core.Pick(r, 0, 0, 1, 4, 9)
		if r.Chance(1, 3) {
			w.Header.Size = uint64(len(p))
		}
		mode := core.Pick(r, "one", "chunks", "flush")
		if simple {
			w.Header = lz4v2.Header{}
			mode = "one"
		}
		desc := fmt.Sprintf("pierrec/lz4 v2 Writer BlockMaxSize=%d BlockChecksum=%v NoChecksum=%v CompressionLevel=%d Size=%d mode=%s",
			w.Header.BlockMaxSize, w.Header.BlockChecksum, w.Header.NoChecksum, w.Header.CompressionLevel, w.Header.Size, mode)
		if mode == "one" {
			if _, err := w.Write(p); err != nil {
				return nil, desc, err
			}
		} else {
			for _, ch := range c16Split(r, p, core.Pick(r, 7, 1000, 70000)) {
				if _, err := w.Write(ch); err != nil {
					return nil, desc, err
				}
				if mode == "flush" && r.Chance(1, 3) {
					if err := w.Flush(); err != nil {
						return nil, desc, err
					}
				}
			}
		}
		if err := w.Close(); err != nil {
			return nil, desc, err
		}
		return buf.Bytes(), desc, nil
	case "zstd":
		if simple {
			return c16RefZstdE.EncodeAll(p, nil), "klauspost zstd EncodeAll default", nil
		}
		// a fresh reference encoder per stream (no history in the reference); the
		// better/best levels zero 10-40 MB of tables each time and are drawn less often
		lvl := core.Pick(r, kzstd.SpeedFastest, kzstd.SpeedDefault)
		if x := r.Intn(20); x == 0 {
			lvl = kzstd.SpeedBestCompression
		} else if x < 3 {
			lvl = kzstd.SpeedBetterCompression
		}
		crc, zf, ss := r.Bool(), r.Bool(), r.Chance(1, 3)
		win := core.Pick(r, 0, 0, 1<<10, 1<<15, 1<<20)
		pad := 0
		if r.Chance(1, 10) {
			pad = core.Pick(r, 64, 4096)
		}
		noent := r.Chance(1, 10)
		mode := core.Pick(r, "EncodeAll", "stream-one", "stream-chunks", "stream-flush", "multi-frame")
		opts := []kzstd.EOption{kzstd.WithEncoderConcurrency(1), kzstd.WithEncoderLevel(lvl), kzstd.WithEncoderCRC(crc), kzstd.WithZeroFrames(zf), kzstd.WithSingleSegment(ss), kzstd.WithLowerEncoderMem(true)}
		if win != 0 {
			opts = append(opts, kzstd.WithWindowSize(win))
		}
		if pad != 0 {
			opts = append(opts, kzstd.WithEncoderPadding(pad))
		}
		if noent {
			opts = append(opts, kzstd.WithNoEntropyCompression(true))
		}
		desc := fmt.Sprintf("klauspost zstd encoder level=%v crc=%v zeroframes=%v singlesegment=%v window=%d padding=%d noentropy=%v mode=%s", lvl, crc, zf, ss, win, pad, noent, mode)
		enc, err := kzstd.NewWriter(&buf, opts...)
		if err != nil {
			return nil, desc, err
		}
		switch mode {
		case "EncodeAll":
			return enc.EncodeAll(p, nil), desc, nil
		case "multi-frame":
			parts := [][]byte{p}
			if len(p) >= 2 {
				c := r.Range(1, len(p)-1)
				parts = [][]byte{p[:c], p[c:]}
			}
			var out []byte
			for _, part := range parts {
				out = enc.EncodeAll(part, out)
			}
			return out, desc, nil
		case "stream-one":
			if _, err := enc.Write(p); err != nil {
				return nil, desc, err
			}
		default:
			for _, ch := range c16Split(r, p, core.Pick(r, 7, 1000, 70000)) {
				if _, err := enc.Write(ch); err != nil {
					return nil, desc, err
				}
				if mode == "stream-flush" && r.Chance(1, 3) {
					if err := enc.Flush(); err != nil {
						return nil, desc, err
					}
				}
			}
		}
		if err := enc.Close(); err != nil {
			return nil, desc, err
		}
		return buf.Bytes(), desc, nil
	}
	panic("c16: family " + family)
}

// refFramed tells which reference decoder shape fits a reference snappy stream.
func c16IsFramed(z []byte) bool { return len(z) >= 8 && bytes.Equal(z[:8], c16XerialMagic) }

// ---------------------------------------------------------------- history

var c16HistKinds = []string{"complete", "complete", "complete-other-variant", "abandon-read", "abandon-read", "truncated", "truncated", "corrupt", "corrupt",
	"garbage", "fail-sink", "fail-sink", "abandon-write", "abandon-read-noclose", "empty-write", "empty-read"}

type c16Step struct {
	Kind string
	V    int        // variant used by the step (same family as the case)
	P    c16Payload // payload of the step's stream
	A    int        // per-mille position: cut / bytes read before abandoning / sink capacity
	Seed uint64
	Lib  bool // the step's input stream is produced by the library writer instead of a reference encoder
}

func (s c16Step) String() string {
	return fmt.Sprintf("%s(variant=%s payload=%s at=%d/1000 seed=%#x libstream=%v)", s.Kind, c16Variants[s.V], s.P, s.A, s.Seed, s.Lib)
}

func c16PickHistory(r *core.Rand, v int, max int) []c16Step {
	n := 0
	switch x := r.Intn(10); {
	case x < 3:
		n = 0
	case x < 6:
		n = 1
	case x < 8:
		n = 2
	default:
		n = r.Range(3, 4)
	}
	if n > max {
		n = max
	}
	fam := c16Variants[v].family
	steps := make([]c16Step, 0, n)
	for i := 0; i < n; i++ {
		s := c16Step{Kind: c16HistKinds[r.Intn(len(c16HistKinds))], V: v, A: r.Intn(1001), Seed: r.Uint64(), Lib: r.Chance(1, 3)}
		if s.Kind == "complete-other-variant" || r.Chance(1, 5) {
			ids := c16ByFamily[fam]
			s.V = ids[r.Intn(len(ids))]
		}
		size := c16PickSize(r)
		if size > 100*c16K {
			size = r.Range(1, 100*c16K)
		}
		s.P = c16Payload{Kind: c16PayloadKinds[r.Intn(len(c16PayloadKinds))], Size: size, Seed: r.Uint64()}
		steps = append(steps, s)
	}
	return steps
}

// c16SnappyBounded reports whether the library's snappy reader, given z, would
// be asked for no block larger than 16 MiB (see Assumptions).
func c16SnappyBounded(z []byte) bool {
	const lim = 1 << 24
	if len(z) >= 16 && bytes.Equal(z[:8], c16XerialMagic) {
		pos := 16
		for pos+4 <= len(z) {
			l := int(binary.BigEndian.Uint32(z[pos:]))
			if l > lim {
				return false
			}
			pos += 4
			if l > len(z)-pos {
				return true
			}
			if dl, err := gsnappy.DecodedLen(z[pos : pos+l]); err == nil && dl > lim {
				return false
			}
			pos += l
		}
		return true
	}
	dl, err := gsnappy.DecodedLen(z)
	return err != nil || dl <= lim
}

// runStep drives one earlier use through the pools. Nothing is checked; errors
// are expected for most kinds.
func (e *c16Env) runStep(s c16Step) {
	v := c16Variants[s.V]
	f := c16Guard(func() *c16Fail {
		r := core.NewRand(s.Seed)
		q := c16Gen(s.P)
		stream := func() []byte {
			if s.Lib {
				var buf bytes.Buffer
				w := v.codec.NewWriter(&buf)
				e.note(v.family, "writer", w)
				wp := c16W{Class: "rand8192", Seed: r.Uint64()}
				c16WriteAll(w, q, &wp)
				w.Close()
				return buf.Bytes()
			}
			z, _, err := c16RefEncode(v.family, q, r.Uint64(), true)
			if err != nil {
				panic("c16: reference encoder failed in history: " + err.Error())
			}
			return z
		}
		// bounded: see Assumptions; also protects the process when the library's own
		// writer (a mutant, a regression) emits wrong length fields
		bounded := func(z []byte) bool {
			if v.family == "snappy" && !c16SnappyBounded(z) {
				e.c.Count("history_step_skipped_unbounded", 1)
				return false
			}
			return true
		}
		drain := func(rc io.Reader, max int) {
			buf := make([]byte, core.Pick(r, 1, 7, 512, 4096, 65536))
			total, zero := 0, 0
			for total < max && zero < 1000 {
				n, err := rc.Read(buf)
				if n < 0 || n > len(buf) {
					return
				}
				total += n
				if err != nil {
					return
				}
				if n == 0 {
					zero++
				} else {
					zero = 0
				}
			}
		}
		switch s.Kind {
		case "complete", "complete-other-variant":
			var buf bytes.Buffer
			w := v.codec.NewWriter(&buf)
			e.note(v.family, "writer", w)
			wp := c16PickW(r, len(q))
			c16WriteAll(w, q, &wp)
			w.Close()
			if !bounded(buf.Bytes()) {
				return nil
			}
			rc := v.codec.NewReader(bytes.NewReader(buf.Bytes()))
			e.note(v.family, "reader", rc)
			drain(rc, len(q)+1<<20)
			rc.Close()
		case "abandon-read":
			z := stream()
			if !bounded(z) {
				return nil
			}
			rc := v.codec.NewReader(c16S{Class: core.Pick(r, "bytes.Reader", "plain", "short100"), Seed: r.Uint64()}.open(z))
			e.note(v.family, "reader", rc)
			drain(rc, len(q)*s.A/1000)
			rc.Close()
		case "abandon-read-noclose":
			z := stream()
			if !bounded(z) {
				return nil
			}
			rc := v.codec.NewReader(bytes.NewReader(z))
			e.note(v.family, "reader", rc)
			drain(rc, len(q)*s.A/1000)
		case "truncated":
			z := stream()
			z = z[:len(z)*s.A/1001] // always at least one byte short
			if !bounded(z) {
				return nil
			}
			rc := v.codec.NewReader(c16S{Class: core.Pick(r, "bytes.Reader", "plain", "data+eof"), Seed: r.Uint64()}.open(z))
			e.note(v.family, "reader", rc)
			drain(rc, len(q)+1<<20)
			rc.Close()
		case "corrupt", "garbage":
			var z []byte
			ok := false
			for try := 0; try < 8 && !ok; try++ {
				if s.Kind == "garbage" {
					z = r.Bytes(r.Range(1, 300))
					if r.Bool() && v.family == "snappy" { // a xerial header followed by noise
						z = append(append(append([]byte(nil), c16XerialMagic...), 0, 0, 0, 1, 0, 0, 0, 1), z...)
					}
				} else {
					z = append([]byte(nil), stream()...)
					for i, n := 0, r.Range(1, 3); i < n && len(z) > 0; i++ {
						at := r.Intn(len(z))
						if i == 0 && r.Chance(1, 3) { // prefer the head: headers and frame lengths live there
							at = r.Intn(len(z)) % 64 % len(z)
						}
						if v.family == "zstd" && at >= 4 && at < 18 {
							continue // see Assumptions: window-size / content-size fields
						}
						z[at] ^= byte(1 << r.Intn(8))
						if r.Chance(1, 4) {
							z[at] = byte(r.Intn(256))
						}
					}
				}
				ok = v.family != "snappy" || c16SnappyBounded(z)
			}
			if !ok {
				e.c.Count("history_step_skipped_unbounded", 1)
				return nil
			}
			rc := v.codec.NewReader(c16S{Class: core.Pick(r, "bytes.Reader", "plain", "short100"), Seed: r.Uint64()}.open(z))
			e.note(v.family, "reader", rc)
			drain(rc, 4<<20)
			rc.Close()
			if r.Bool() {
				rc.Close()
			}
		case "fail-sink":
			sink := &c16FailSink{left: r.Intn(len(q)/2+40) * s.A / 1000}
			w := v.codec.NewWriter(sink)
			e.note(v.family, "writer", w)
			wp := c16PickW(r, len(q))
			c16WriteAll(w, q, &wp)
			w.Close()
			if r.Bool() {
				// the deferred-plus-explicit Close idiom (the library's own record_v1.go uses it)
				w.Close()
			}
		case "abandon-write":
			w := v.codec.NewWriter(io.Discard)
			e.note(v.family, "writer", w)
			wp := c16W{Class: "rand8192", Seed: r.Uint64()}
			c16WriteAll(w, q[:len(q)*s.A/1000], &wp)
		case "empty-write":
			var buf bytes.Buffer
			w := v.codec.NewWriter(&buf)
			e.note(v.family, "writer", w)
			if r.Bool() {
				w.Write(nil)
			}
			w.Close()
		case "empty-read":
			rc := v.codec.NewReader(bytes.NewReader(nil))
			e.note(v.family, "reader", rc)
			drain(rc, 16)
			rc.Close()
		default:
			panic("c16: unknown history kind " + s.Kind)
		}
		return nil
	})
	if f != nil {
		e.c.Count("history_panic:"+v.family+":"+s.Kind, 1)
		e.c.Logf("C16 history step %s panicked: %s %v", s, f.What, f.Detail)
	}
}

func (e *c16Env) runHistory(steps []c16Step) {
	for _, s := range steps {
		e.runStep(s)
		e.c.Count("history_steps:"+s.Kind, 1)
	}
}

func c16Kinds(steps []c16Step) string {
	set := map[string]bool{}
	for _, s := range steps {
		set[s.Kind] = true
	}
	var ks []string
	for k := range set {
		ks = append(ks, k)
	}
	sort.Strings(ks)
	if len(ks) == 0 {
		return "none"
	}
	return strings.Join(ks, "+")
}

// report files a failed oracle. base is roundtrip | ref-decode | ref-encode.
// The first few failures of a (base, codec) pair in this shard are classified:
// control re-runs the same operation after the pools were emptied; if that
// passes, the failure is history dependent (key c16:history:<codec>:<kind>, kind
// = the single history step that reproduces it on fresh pools, else
// "earlier-uses"). Later failures are reported unclassified under the base key:
// a broken codec can cost gigabytes per failing read.
func (e *c16Env) report(k *core.Case, base string, v *c16Variant, f *c16Fail, hist []c16Step, control func() *c16Fail, extra map[string]any) {
	det := map[string]any{"codec": v.String(), "failure": f.Detail}
	for a, b := range extra {
		det[a] = b
	}
	if sub, ok := extra["input_class"].(string); ok { // the input class alone names the finding
		k.Viol("c16:"+base+":"+v.name+":"+sub, f.What, det)
		return
	}
	e.mu.Lock()
	e.reported[base+":"+v.name]++
	nth := e.reported[base+":"+v.name]
	e.reported[v.family]++
	e.mu.Unlock()
	if nth > 2 {
		det["with_fresh_pools"] = "not tried (more than 2 failures of this kind in this shard)"
		k.Viol("c16:"+base+":"+v.name, f.What, det)
		return
	}
	c16ClearPools()
	if cf := control(); cf != nil {
		det["with_fresh_pools"] = "fails as well: " + cf.What
		k.Viol("c16:"+base+":"+v.name, f.What, det)
		return
	}
	det["with_fresh_pools"] = "passes: the failure depends on what the pooled objects processed before"
	blamed := "earlier-uses"
	for _, s := range hist {
		c16ClearPools()
		e.runStep(s)
		if cf := control(); cf != nil {
			blamed = s.Kind
			det["reproduced_by_single_step"] = s.String()
			det["single_step_failure"] = cf.What
			break
		}
	}
	k.Viol("c16:history:"+v.name+":"+blamed, base+": "+f.What, det)
}

func c16StepStrings(steps []c16Step) []string {
	out := make([]string, len(steps))
	for i, s := range steps {
		out[i] = s.String()
	}
	return out
}

// ---------------------------------------------------------------- the lists

func runC16(c *core.Ctx) {
	c16Init()
	// fewer GC cycles: pooled objects survive longer (sync.Pool is emptied by two
	// GC cycles), which is what the history oracle wants, and big encoder tables
	// are not reallocated all the time. This process runs nothing but C16.
	debug.SetGCPercent(400)
	// A codec that misreads a length field (a mutant, a regression) allocates up to
	// 4 GiB per failing stream; with 16 shards that gets the shards OOM-killed and
	// their witnesses lost. Soft limit: collect as soon as the heap passes 1.5 GiB.
	debug.SetMemoryLimit(1536 << 20)
	env := &c16Env{c: c, seen: map[uintptr]struct{}{}, reported: map[string]int{}, inflight: map[string]int{}, started: map[string]bool{}}
	nv := len(c16Variants)
	sweepA := len(c16SweepSizes) * len(c16Names) * 2

	c.Cases("rt", c.N(14000, 700000), func(k *core.Case) {
		r := k.R
		// ---- draw the case
		name := c16Names[r.Intn(len(c16Names))]
		vi := c16ByName[name][r.Intn(len(c16ByName[name]))]
		pl := c16Payload{Kind: c16PayloadKinds[r.Intn(len(c16PayloadKinds))], Size: c16PickSize(r), Seed: r.Uint64()}
		switch {
		case k.Idx < sweepA: // every boundary size for every codec name, twice
			name = c16Names[k.Idx%len(c16Names)]
			vi = c16ByName[name][r.Intn(len(c16ByName[name]))]
			pl.Size = c16SweepSizes[(k.Idx/len(c16Names))%len(c16SweepSizes)]
			if k.Idx >= sweepA/2 {
				pl.Kind = core.Pick(r, "text", "mixed")
			} else {
				pl.Kind = "random"
			}
		case k.Idx < sweepA+nv: // every variant once on a multi-block payload
			vi = k.Idx - sweepA
			pl.Size = r.Range(33*c16K, 70*c16K)
		}
		v := c16Variants[vi]
		if env.tripped(k, v) {
			return
		}
		leave, ok := env.enter(k, v)
		if !ok {
			return
		}
		defer leave()
		wp := c16PickW(r, pl.Size)
		histW := c16PickHistory(r, vi, 4)
		histR := c16PickHistory(r, vi, 3)
		histC := c16PickHistory(r, vi, 3)
		rA, rC := c16PickR(r, pl.Size), c16PickR(r, pl.Size)
		sSeedA, sSeedC, eSeed := r.Fork(), r.Fork(), r.Uint64()
		P := c16Gen(pl)
		desc := map[string]any{"codec": v.name, "options": v.opts, "payload": pl.String(), "payload_head_hex": c16Hex(P, 0, 32),
			"W": wp.String(), "R_roundtrip": rA.String(), "R_refstream": rC.String(),
			"history_before_write": c16StepStrings(histW), "history_before_read": c16StepStrings(histR), "history_before_refstream_read": c16StepStrings(histC)}
		k.Describe(desc)
		if k.Idx < 2 {
			c.Sample(desc)
		}
		nontrivial := pl.Size >= 2
		sig := func(w, rc string, h []c16Step) {
			if nontrivial {
				c.Distinct(fmt.Sprintf("%s %s %s W=%s R=%s H=%s", v, pl.Kind, c16SizeBucket(pl.Size), w, rc, c16Kinds(h)))
			}
		}

		// ---- library writer, after history
		env.runHistory(histW)
		wrun := wp
		z, wf := env.libWrite(v, P, &wrun)
		sA := c16PickS(sSeedA, len(z))
		all := append(append([]c16Step(nil), histW...), histR...)
		ctlWrite := func() ([]byte, *c16Fail) { w2 := wp; return env.libWrite(v, P, &w2) }

		// (b) reference decoder reads the library's stream
		c.Eval(1)
		fb := wf
		if fb == nil {
			fb = env.refDecode(v.family, v.framed, z, P, true)
		}
		if fb != nil {
			env.report(k, "ref-decode", v, fb, histW, func() *c16Fail {
				z2, f := ctlWrite()
				if f != nil {
					return f
				}
				return env.refDecode(v.family, v.framed, z2, P, false)
			}, map[string]any{"W": wp.String(), "stream_len": len(z)})
		}

		// (a) library reader reads the library's stream, after more history
		// Not evaluated when (b) already failed: the stream is then known to be
		// malformed, the case has its violation, and feeding a stream with wrong length
		// fields back into the library can cost gigabytes.
		if fb != nil {
			c.Count("roundtrip_read_skipped_stream_rejected_by_reference", 1)
			return
		}
		c.Eval(1)
		env.runHistory(histR)
		fa := env.libRead(v, z, P, sA, rA)
		if fa != nil {
			env.report(k, "roundtrip", v, fa, all, func() *c16Fail {
				z2, f := ctlWrite()
				if f != nil {
					return f
				}
				return env.libRead(v, z2, P, sA, rA)
			}, map[string]any{"W": wp.String(), "R": rA.String(), "S": sA.String(), "stream_len": len(z)})
		}
		sig(wp.Class, rA.Class, all)
		c.Count("rt:"+v.name, 1)
		c.Count("W:"+wp.Class, 1)
		c.Count("R:"+rA.Class, 1)
		c.Count("S:"+sA.Class, 1)

		// (c) library reader reads a reference encoder's stream
		zr, edesc, err := c16RefEncode(v.family, P, eSeed, false)
		if err == nil {
			framed := v.family == "snappy" && c16IsFramed(zr)
			if rf := env.refDecode(v.family, framed, zr, P, false); rf != nil {
				err = errors.New(rf.What)
			}
		}
		if err != nil {
			c.Inconclusive(fmt.Sprintf("%s: reference encoder %q is not confirmed by the reference decoder: %v", k.ID, edesc, err))
			return
		}
		sC := c16PickS(sSeedC, len(zr))
		c.Eval(1)
		env.runHistory(histC)
		if fc := env.libRead(v, zr, P, sC, rC); fc != nil {
			extra := map[string]any{}
			if v.family == "lz4" && strings.Contains(edesc, "BlockChecksum=true") && strings.Contains(fc.What, "invalid block checksum") {
				extra["input_class"] = "block-checksum" // c16:ref-encode:lz4:block-checksum, see the FINDING note in c16RefEncode
			}
			for a, b := range map[string]any{"reference_encoder": edesc, "encoder_seed": fmt.Sprintf("%#x", eSeed), "R": rC.String(), "S": sC.String(), "stream_len": len(zr), "stream_head": c16Hex(zr, 0, 40)} {
				extra[a] = b
			}
			env.report(k, "ref-encode", v, fc, histC, func() *c16Fail { return env.libRead(v, zr, P, sC, rC) }, extra)
		}
		sig("ref:"+c16TwoWords(edesc), rC.Class, histC)
		c.Count("R:"+rC.Class, 1)
		c.Count("S:"+sC.Class, 1)
	})

	// two writers, then two readers, of one codec value open at the same time on one goroutine,
	// used alternately, after a history: pooled objects must not be shared between them (an object
	// that an earlier use returned to the pool twice is handed to both)
	c.Cases("pair", c.N(3000, 150000), func(k *core.Case) {
		r := k.R
		name := c16Names[r.Intn(len(c16Names))]
		vi := c16ByName[name][r.Intn(len(c16ByName[name]))]
		v := c16Variants[vi]
		if env.tripped(k, v) {
			return
		}
		leave, ok := env.enter(k, v)
		if !ok {
			return
		}
		defer leave()
		hist := c16PickHistory(r, vi, 4)
		if len(hist) == 0 || r.Bool() {
			hist = append(hist, c16Step{Kind: core.Pick(r, "fail-sink", "fail-sink", "truncated", "corrupt"), V: vi, A: r.Intn(1001), Seed: r.Uint64(),
				P: c16Payload{Kind: c16PayloadKinds[r.Intn(len(c16PayloadKinds))], Size: r.Range(1, 100*c16K), Seed: r.Uint64()}})
		}
		var pl [2]c16Payload
		var P [2][]byte
		for i := range pl {
			pl[i] = c16Payload{Kind: c16PayloadKinds[r.Intn(len(c16PayloadKinds))], Size: core.Pick(r, r.Range(1, 300), r.Range(300, 9000), r.Range(9000, 80*c16K)), Seed: r.Uint64()}
			P[i] = c16Gen(pl[i])
		}
		chunk := core.Pick(r, 1, 7, 100, 4096, 70000)
		k.Describe(map[string]any{"list": "pair", "codec": v.name, "options": v.opts, "payloads": []string{pl[0].String(), pl[1].String()}, "chunk": chunk, "history": c16StepStrings(hist)})
		env.runHistory(hist)
		c.Eval(1)
		var z [2][]byte
		wf := c16Guard(func() *c16Fail {
			var bufs [2]bytes.Buffer
			var ws [2]io.WriteCloser
			for i := range ws {
				ws[i] = v.codec.NewWriter(&bufs[i])
				env.note(v.family, "writer", ws[i])
			}
			off := [2]int{}
			for off[0] < len(P[0]) || off[1] < len(P[1]) {
				for i := range ws {
					if off[i] >= len(P[i]) {
						continue
					}
					end := off[i] + chunk
					if end > len(P[i]) {
						end = len(P[i])
					}
					if _, err := ws[i].Write(P[i][off[i]:end]); err != nil {
						return c16Failf(nil, "writer %d of two open at once: Write failed: %v", i, err)
					}
					off[i] = end
				}
			}
			for i := range ws {
				if err := ws[i].Close(); err != nil {
					return c16Failf(nil, "writer %d of two open at once: Close failed: %v", i, err)
				}
				z[i] = bufs[i].Bytes()
			}
			return nil
		})
		if wf == nil {
			for i := range z {
				if f := env.refDecode(v.family, v.framed, z[i], P[i], true); f != nil {
					wf = c16Failf(f.Detail, "stream of writer %d of two writers that were open at the same time: %s", i, f.What)
					break
				}
			}
		}
		if wf != nil {
			k.Viol("c16:pair:"+v.name+":writers", wf.What, map[string]any{"codec": v.String(), "history": c16StepStrings(hist), "detail": wf.Detail})
			return
		}
		c.Eval(1)
		rf := c16Guard(func() *c16Fail {
			var rs [2]io.ReadCloser
			for i := range rs {
				rs[i] = v.codec.NewReader(bytes.NewReader(z[i]))
				env.note(v.family, "reader", rs[i])
			}
			var got [2][]byte
			done := [2]bool{}
			buf := make([]byte, chunk)
			for spins := 0; (!done[0] || !done[1]) && spins < 4<<20; spins++ {
				for i := range rs {
					if done[i] {
						continue
					}
					n, err := rs[i].Read(buf)
					if n < 0 || n > len(buf) {
						return c16Failf(nil, "reader %d: Read returned n=%d for a %d byte buffer", i, n, len(buf))
					}
					got[i] = append(got[i], buf[:n]...)
					if err == io.EOF {
						done[i] = true
					} else if err != nil {
						return c16Failf(nil, "reader %d of two open at once failed after %d of %d bytes: %v", i, len(got[i]), len(P[i]), err)
					}
					if len(got[i]) > len(P[i]) {
						return c16Failf(nil, "reader %d of two open at once produced more than the %d bytes that were compressed", i, len(P[i]))
					}
				}
			}
			for i := range rs {
				rs[i].Close()
				if !bytes.Equal(got[i], P[i]) {
					return c16Failf(nil, "reader %d of two readers open at the same time returned %d bytes, want %d (first difference at %d)", i, len(got[i]), len(P[i]), c16FirstDiff(got[i], P[i]))
				}
			}
			return nil
		})
		if rf != nil {
			k.Viol("c16:pair:"+v.name+":readers", rf.What, map[string]any{"codec": v.String(), "history": c16StepStrings(hist)})
			return
		}
		c.Distinct(fmt.Sprintf("pair %s chunk=%d H=%s", v, chunk, c16Kinds(hist)))
	})

	// one codec value, 32 goroutines at once
	c.Cases("conc", c.N(400, 40000), func(k *core.Case) {
		r := k.R
		const G = 32
		name := c16Names[r.Intn(len(c16Names))]
		vi := c16ByName[name][r.Intn(len(c16ByName[name]))]
		if name == "zstd" {
			// 32 goroutines each hold an encoder: 32 "best" encoders (Level >= 10) are
			// 2-3 GB at once, so those variants run here only in the per-variant sweep below
			if r.Chance(3, 4) {
				vi = c16ByName[name][r.Intn(6)] // global (3), -5, 1, 2, 3, 5
			} else {
				vi = c16ByName[name][6+r.Intn(2)] // 6, 9
			}
		}
		if k.Idx < nv {
			vi = k.Idx
		}
		v := c16Variants[vi]
		if env.tripped(k, v) {
			return
		}
		leave, ok := env.enter(k, v)
		if !ok {
			return
		}
		defer leave()
		type job struct {
			pl c16Payload
			w  c16W
			rp c16R
			s  c16S
			P  []byte
		}
		big := r.Chance(1, 8)
		// tight: small payloads and many rounds, so that one goroutine's Close and another's
		// NewReader/NewWriter overlap thousands of times (hand-over of pooled objects)
		tight := !big && r.Chance(1, 4)
		jobs := make([]job, G)
		for i := range jobs {
			size := c16PickSize(r)
			if tight {
				size = r.Range(64, 3000)
			}
			if !big && size > 40*c16K {
				size = r.Range(1, 40*c16K)
			}
			if size > 140*c16K {
				size = r.Range(64*c16K, 140*c16K)
			}
			j := job{pl: c16Payload{Kind: c16PayloadKinds[r.Intn(len(c16PayloadKinds))], Size: size, Seed: r.Uint64()}}
			j.w, j.rp = c16PickW(r, size), c16PickR(r, size)
			j.s = c16S{Class: core.Pick(r, "bytes.Reader", "plain", "short4096", "data+eof"), Seed: r.Uint64()}
			j.P = c16Gen(j.pl)
			jobs[i] = j
		}
		rounds := r.Range(1, 3)
		if tight {
			rounds = r.Range(100, 300)
			if v.family == "zstd" {
				// a zstd writer costs milliseconds to set up at the higher levels
				rounds = r.Range(8, 24)
			}
		}
		k.Describe(map[string]any{"codec": v.name, "options": v.opts, "goroutines": G, "rounds": rounds, "big": big, "tight": tight,
			"payloads": func() []string {
				out := make([]string, G)
				for i, j := range jobs {
					out[i] = j.pl.String() + " W=" + j.w.String() + " R=" + j.rp.String() + " S=" + j.s.String()
				}
				return out
			}()})
		if tight {
			// a pooled object changes hands between goroutines on different Ps only through the
			// pool's shared lists: the more Ps the more often (the shard normally runs on 2)
			defer runtime.GOMAXPROCS(runtime.GOMAXPROCS(16))
		}
		fails := make([]*c16Fail, G)
		start := make(chan struct{})
		var wg sync.WaitGroup
		for g := 0; g < G; g++ {
			wg.Add(1)
			go func(g int) {
				defer wg.Done()
				j := jobs[g]
				<-start
				for round := 0; round < rounds && fails[g] == nil; round++ {
					w := j.w
					z, f := env.libWrite(v, j.P, &w)
					if f == nil {
						f = env.libRead(v, z, j.P, j.s, j.rp)
					}
					if f != nil {
						f.What = fmt.Sprintf("goroutine %d round %d: %s", g, round, f.What)
						fails[g] = f
					}
					runtime.Gosched()
				}
			}(g)
		}
		close(start)
		wg.Wait()
		c.Eval(G)
		c.Count("conc:"+v.name, 1)
		c.Count("conc_round_trips", int64(G*rounds))
		for g, f := range fails {
			j := jobs[g]
			if j.pl.Size >= 2 {
				c.Distinct(fmt.Sprintf("conc %s %s %s W=%s R=%s", v, j.pl.Kind, c16SizeBucket(j.pl.Size), j.w.Class, j.rp.Class))
			}
			if f == nil {
				continue
			}
			w := j.w
			seq := "passes"
			z, sf := env.libWrite(v, j.P, &w)
			if sf == nil {
				sf = env.libRead(v, z, j.P, j.s, j.rp)
			}
			if sf != nil {
				seq = "fails as well: " + sf.What
			}
			env.mu.Lock()
			env.reported[v.family]++
			env.mu.Unlock()
			k.Viol("c16:concurrent:"+v.name, f.What, map[string]any{"codec": v.String(), "payload": j.pl.String(), "payload_head_hex": c16Hex(j.P, 0, 32),
				"W": j.w.String(), "R": j.rp.String(), "S": j.s.String(), "failure": f.Detail, "same_operation_alone_afterwards": seq})
		}
	})
}

func c16FirstDiff(a, b []byte) int {
	n := len(a)
	if len(b) < n {
		n = len(b)
	}
	for i := 0; i < n; i++ {
		if a[i] != b[i] {
			return i
		}
	}
	return n
}
