package props

import (
	"bytes"
	"context"
	"fmt"
	"net"
	"strings"
	"sync"
	"sync/atomic"
	"time"

	kafka "github.com/segmentio/kafka-go"
	"github.com/segmentio/kafka-go/compress"

	"verifharness/core"
	"verifharness/fakecluster"
	"verifharness/fakenet"
	"verifharness/refcodec"
)

// C05 — Record batches: what is produced is exactly what a consumer decodes.
//
// Three case lists:
//   produce: a generated record list goes through kafka.Writer, kafka.Client.Produce and
//            kafka.Conn.Write(Compressed)Messages; the fake broker's strict reference decoder has to accept
//            the bytes and the decoded records have to equal the submitted ones (c05.go);
//   fetch:   the reference encoder lays a record list out as batches (formats 0/1/2, every codec, splits,
//            v1 wrappers, control batches, one flipped bit) and kafka.Client.Fetch and kafka.Conn.ReadBatch
//            have to decode it to the same records and offsets (c05_fetch.go);
//   pages:   concurrent Client.Fetch decodes while record keys/values are held open (c05_fetch.go).

func init() {
	core.Register(&core.Prop{
		ID:    "C05",
		Level: "exploration",
		Rule: "produce: one case = one generated record list (0..40 records; keys/values null, empty, 1 B .. 3x64 KiB around the 64 KiB page size; 0..5 headers incl. null/empty values where the format has headers; timestamps unset, equal, increasing, decreasing, unordered, with sub-millisecond parts) sent through kafka.Writer, kafka.Client.Produce and kafka.Conn.Write(Compressed)Messages with a produce version cap in {2,3,5,7,8}, a codec and a split of the list into calls/batches; the broker's strict reference decoder must accept every record set (lengths, CRC, count, offset deltas, lastOffsetDelta, v2 max timestamp) and the decoded records must equal the submitted ones in order (null distinct from empty, timestamp = floor(t/1ms), unset times within +-1 day of the run); " +
			"fetch: one case = one record list laid out by the reference encoder (format 0 uncompressed, format 1 and 2 with every codec, mixed formats, splits into batches, v1 wrappers with relative inner offsets (also with compaction gaps), control batches, transactional batches, one flipped bit inside the checksummed range / in the checksum field / in the leader epoch) read back through kafka.Client.Fetch (fetch version cap 2..11, several MaxBytes classes, start at a batch boundary or inside a batch) and through kafka.Conn.ReadBatch+Batch.ReadMessage; both must return the stored records with their absolute offsets, Client.Fetch must hide control records and every record of a batch whose checksum does not match; " +
			"pages: W goroutines decode fetch responses of several partitions concurrently through Client.Fetch while holders keep Record.Key/Value open for a seeded number of further decode steps; the bytes are compared with the stored ones when handed out and again right before Close; " +
			"signature = (list, path, format, codec, split class, record shape class); non-trivial = at least 2 records, or a compressed or split layout",
		Assumptions: []string{
			"refcodec (independent encoder/decoder for message formats 0/1/2, checked against the Kafka protocol documentation; gzip: stdlib, snappy: golang/snappy + own xerial framing, lz4: pierrec/lz4 v2, zstd: klauspost) is the judge of what is on the wire",
			"the fake broker serves whole stored batches starting with the one that contains the fetch offset (the first always whole) and never down-converts: layouts only hold formats that the negotiated fetch version may carry",
			"unset record times are only required to lie within +-1 day of the wall clock of the run (the one place wall clock is consulted)",
			"the wrapper timestamp of a format-1 compressed message set is not compared with the inner maximum (brokers overwrite it)",
			"a single flipped bit is always detected by CRC-32/CRC-32C, so a batch with one flipped bit inside the checksummed range or in the checksum field is never valid",
		},
		Shards:          16,
		CaseTimeout:     90 * time.Second,
		HangIsViolation: false,
		Run:             runC05,
	})
}

func runC05(c *core.Ctx) {
	runStart := time.Now()
	// pinned: minimal hand-written inputs (the witnesses of the recorded findings and their healthy
	// neighbours) judged by the same oracles as the generated lists
	c.Cases("pinned", len(c05Pins), func(k *core.Case) {
		pin := c05Pins[k.Idx]
		if pin.Produce != nil {
			c05ProduceCase(k, runStart, pin.Produce)
		} else {
			c05FetchCase(k, pin.Fetch)
		}
	})
	c.Cases("produce", c.N(5000, 240000), func(k *core.Case) { c05ProduceCase(k, runStart, nil) })
	c.Cases("fetch", c.N(6000, 240000), func(k *core.Case) { c05FetchCase(k, nil) })
	c.Cases("pages", c.N(240, 15000), func(k *core.Case) { c05PagesCase(k) })
}

type c05ProducePin struct {
	Name  string
	Cap   int
	Codec int
	Recs  []c05Rec
	Mode  string
	Far   bool
}

type c05FetchPin struct {
	Name  string
	Cap   int
	Build func() *c05Layout
}

type c05Pin struct {
	Produce *c05ProducePin
	Fetch   *c05FetchPin
}

func c05At(ms int64, ns int64) time.Time {
	return time.Unix(0, c05TimeBase+ms*int64(time.Millisecond)+ns)
}

var c05Pins = []c05Pin{
	// t0 = ...000.9 ms, t1 = ...001.1 ms: record 1 has to carry ...001 ms
	{Produce: &c05ProducePin{Name: "sub-millisecond", Cap: 7, Mode: "increasing", Recs: []c05Rec{
		{Key: []byte("a"), Value: []byte("v0"), T: c05At(0, 900000)}, {Key: []byte("b"), Value: []byte("v1"), T: c05At(1, 100000)}}}},
	// same with whole milliseconds: must hold on every path
	{Produce: &c05ProducePin{Name: "whole-milliseconds", Cap: 7, Mode: "increasing", Recs: []c05Rec{
		{Key: []byte("a"), Value: []byte("v0"), T: c05At(0, 0)}, {Key: []byte("b"), Value: []byte("v1"), T: c05At(1, 0)}}}},
	// decreasing whole milliseconds: the batch's max timestamp is the first record's
	{Produce: &c05ProducePin{Name: "decreasing", Cap: 7, Mode: "decreasing", Recs: []c05Rec{
		{Key: []byte("a"), Value: []byte("v0"), T: c05At(5, 0)}, {Key: []byte("b"), Value: []byte("v1"), T: c05At(1, 0)}}}},
	// 30 days apart: the delta does not fit into 32 bits of milliseconds
	{Produce: &c05ProducePin{Name: "30-days-apart", Cap: 7, Mode: "far", Far: true, Recs: []c05Rec{
		{Key: []byte("a"), Value: []byte("v0"), T: c05At(0, 0)}, {Key: []byte("b"), Value: []byte("v1"), T: c05At(30*24*3600*1000, 0)}}}},
	// null / empty keys and values, null / empty header values, format 2 and format 1
	{Produce: &c05ProducePin{Name: "null-empty-v2", Cap: 8, Codec: 1, Mode: "equal", Recs: []c05Rec{
		{Key: nil, Value: []byte{}, T: c05At(7, 0), Hdrs: []kafka.Header{{Key: "n", Value: nil}, {Key: "e", Value: []byte{}}}}, {Key: []byte{}, Value: nil, T: c05At(7, 0)}}}},
	{Produce: &c05ProducePin{Name: "null-empty-v1", Cap: 2, Codec: 2, Mode: "equal", Recs: []c05Rec{
		{Key: nil, Value: []byte{}, T: c05At(7, 0)}, {Key: []byte{}, Value: nil, T: c05At(7, 0)}}}},
	// a format-1 gzip wrapper from which offset 11 was compacted away: records 10, 12, 13 (inner offsets 0, 2, 3; wrapper offset 13)
	{Fetch: &c05FetchPin{Name: "v1-wrapper-with-compaction-gap", Cap: 3, Build: func() *c05Layout {
		return c05HandLayout(10, []*c05Unit{{Magic: 1, Codec: refcodec.CodecGzip, Gaps: true, Recs: []refcodec.Rec{
			{Offset: 10, TimestampMs: 1600000000001, Key: []byte("k10"), Value: []byte("v10")},
			{Offset: 12, TimestampMs: 1600000000002, Key: []byte("k12"), Value: []byte("v12")},
			{Offset: 13, TimestampMs: 1600000000003, Key: []byte("k13"), Value: []byte("v13")}}}}, 14)
	}}},
	// the same wrapper without a gap
	{Fetch: &c05FetchPin{Name: "v1-wrapper", Cap: 3, Build: func() *c05Layout {
		return c05HandLayout(10, []*c05Unit{{Magic: 1, Codec: refcodec.CodecGzip, Recs: []refcodec.Rec{
			{Offset: 10, TimestampMs: 1600000000001, Key: []byte("k10"), Value: []byte("v10")},
			{Offset: 11, TimestampMs: 1600000000002, Key: nil, Value: []byte{}},
			{Offset: 12, TimestampMs: 1600000000003, Key: []byte{}, Value: nil}}}}, 13)
	}}},
}

// c05IdleTimeout: Transport.CloseIdleConnections leaves the idle timer of every pooled connection armed, and
// the timer keeps the connection (and through it the whole fake cluster of the case) reachable until it
// fires; a short idle timeout bounds what a shard retains.
const c05IdleTimeout = time.Second

// c05Timeouts is the per-shard circuit breaker for operations that ran into a
// (generous) deadline: on a tree where a length field is wrong the broker
// waits for bytes that never come, and every case would cost seconds.
var c05Timeouts int32

const c05MaxTimeouts = 3

// ---------------------------------------------------------------- record lists

type c05Rec struct {
	Key, Value []byte
	Hdrs       []kafka.Header
	T          time.Time // zero = unset
}

var c05SizeClasses = []string{"nil", "empty", "1", "small", "mid", "page-1", "page", "page+1", "2pages", "3pages"}

func c05Fill(r *core.Rand, n int) []byte {
	if n == 0 {
		return []byte{}
	}
	if r.Bool() {
		return r.Bytes(n)
	}
	// compressible: a short random motif repeated
	motif := r.Bytes(r.Range(1, 40))
	b := make([]byte, n)
	for i := range b {
		b[i] = motif[i%len(motif)]
	}
	return b
}

func c05Bytes(r *core.Rand, class string) []byte {
	switch class {
	case "nil":
		return nil
	case "empty":
		return []byte{}
	case "1":
		return r.Bytes(1)
	case "small":
		return c05Fill(r, r.Range(2, 200))
	case "mid":
		return c05Fill(r, r.Range(1000, 9000))
	case "page-1":
		return c05Fill(r, 65535)
	case "page":
		return c05Fill(r, 65536)
	case "page+1":
		return c05Fill(r, 65537)
	case "2pages":
		return c05Fill(r, r.Range(100000, 131073))
	case "3pages":
		return c05Fill(r, 3*65536)
	}
	return nil
}

// c05PickClass chooses a size class; big says whether page-sized values are still within the list's budget.
func c05PickClass(r *core.Rand, big bool) string {
	if big && r.Chance(1, 6) {
		return core.Pick(r, "page-1", "page", "page+1", "2pages", "3pages")
	}
	return core.Pick(r, "nil", "empty", "1", "small", "small", "small", "mid")
}

type c05List struct {
	Recs    []c05Rec
	TsMode  string
	Classes map[string]bool // shape classes seen
	Far     bool            // effective times may be further apart than 2^31 ms
}

const c05TimeBase = int64(1600000000) * int64(time.Second)

func c05GenList(r *core.Rand, headers bool) *c05List {
	l := &c05List{Classes: map[string]bool{}}
	n := core.Pick(r, 0, 1, 1, 2, 2, 3, 3, 5, 8, 8, 17, 40)
	if n == 8 || n == 17 || n == 40 {
		n = r.Range(n/2, n)
	}
	bigBudget := 0
	if r.Chance(1, 5) {
		bigBudget = r.Range(1, 3)
	}
	l.TsMode = core.Pick(r, "unset", "increasing", "increasing", "equal", "decreasing", "unordered", "mixed-unset", "far")
	if l.TsMode == "far" && !r.Chance(1, 3) {
		l.TsMode = "increasing"
	}
	if l.TsMode == "mixed-unset" && !r.Chance(1, 3) {
		l.TsMode = "unordered"
	}
	l.Far = l.TsMode == "far" || l.TsMode == "mixed-unset"
	base := c05TimeBase + r.Int63()%(int64(400*24*time.Hour))
	cur := base
	for i := 0; i < n; i++ {
		var rec c05Rec
		kc := c05PickClass(r, bigBudget > 0)
		if strings.Contains(kc, "page") {
			bigBudget--
		}
		vc := c05PickClass(r, bigBudget > 0)
		if strings.Contains(vc, "page") {
			bigBudget--
		}
		rec.Key, rec.Value = c05Bytes(r, kc), c05Bytes(r, vc)
		l.Classes["k:"+kc] = true
		l.Classes["v:"+vc] = true
		if headers && r.Chance(1, 3) {
			nh := r.Range(1, 5)
			for h := 0; h < nh; h++ {
				hd := kafka.Header{Key: core.Pick(r, "", "h", "trace-id", "k"+fmt.Sprint(h))}
				switch r.Intn(4) {
				case 0:
					hd.Value = nil
					l.Classes["h:nil"] = true
				case 1:
					hd.Value = []byte{}
					l.Classes["h:empty"] = true
				default:
					hd.Value = r.Bytes(r.Range(1, 30))
				}
				rec.Hdrs = append(rec.Hdrs, hd)
			}
			l.Classes[fmt.Sprintf("h:%d", nh)] = true
		}
		// sub-millisecond parts everywhere
		sub := int64(r.Intn(int(time.Millisecond)))
		switch l.TsMode {
		case "unset":
		case "equal":
			rec.T = time.Unix(0, base)
		case "increasing":
			cur += int64(r.Intn(3))*int64(time.Millisecond) + int64(r.Intn(int(time.Millisecond)))
			rec.T = time.Unix(0, cur)
		case "decreasing":
			cur -= int64(r.Intn(3))*int64(time.Millisecond) + int64(r.Intn(int(time.Millisecond)))
			rec.T = time.Unix(0, cur)
		case "unordered":
			rec.T = time.Unix(0, base+int64(r.Intn(20000))*int64(time.Millisecond)-int64(10*time.Second)+sub)
		case "mixed-unset":
			if r.Bool() {
				rec.T = time.Unix(0, base+int64(r.Intn(20000))*int64(time.Millisecond)+sub)
			}
		case "far":
			rec.T = time.Unix(0, base+int64(r.Intn(3000))*int64(24*time.Hour)-int64(1500*24*time.Hour)+sub)
		}
		l.Recs = append(l.Recs, rec)
	}
	return l
}

func (l *c05List) shape() string {
	var cs []string
	for c := range l.Classes {
		if strings.Contains(c, "page") || strings.HasSuffix(c, ":nil") || strings.HasSuffix(c, ":empty") || strings.HasPrefix(c, "h:") {
			cs = append(cs, c)
		}
	}
	sortStrings(cs)
	n := len(l.Recs)
	nc := "0"
	switch {
	case n == 1:
		nc = "1"
	case n >= 2 && n <= 3:
		nc = "2-3"
	case n > 3:
		nc = "4+"
	}
	return fmt.Sprintf("n%s ts=%s %s", nc, l.TsMode, strings.Join(cs, ","))
}

// c05Split cuts n items into chunks; returns the chunk sizes and the class name.
func c05Split(r *core.Rand, n int) ([]int, string) {
	if n == 0 {
		return nil, "none"
	}
	switch r.Intn(4) {
	case 0:
		out := make([]int, n)
		for i := range out {
			out[i] = 1
		}
		if n == 1 {
			return out, "one"
		}
		return out, "each"
	case 1:
		var out []int
		for n > 0 {
			s := r.Range(1, n)
			out = append(out, s)
			n -= s
		}
		if len(out) == 1 {
			return out, "one"
		}
		return out, "random"
	}
	return []int{n}, "one"
}

// ---------------------------------------------------------------- produce

var c05Sampled sync.Map

// c05SampleOnce lets every list contribute at most n samples per shard.
func c05SampleOnce(list string, n int32) bool {
	v, _ := c05Sampled.LoadOrStore(list, new(int32))
	return atomic.AddInt32(v.(*int32), 1) <= n
}

type c05ProduceRun struct {
	verdicts []string
	k        *core.Case
	net      *fakenet.Net
	cl       *fakecluster.Cluster
	list     *c05List
	cap      int
	format   int
	codec    int
	runStart time.Time
	hdrs     bool
}

func c05Msgs(recs []c05Rec) []kafka.Message {
	out := make([]kafka.Message, len(recs))
	for i, rc := range recs {
		out[i] = kafka.Message{Key: rc.Key, Value: rc.Value, Headers: rc.Hdrs, Time: rc.T}
	}
	return out
}

func c05ProduceCase(k *core.Case, runStart time.Time, pin *c05ProducePin) {
	c := k.Ctx
	r := k.R
	if atomic.LoadInt32(&c05Timeouts) >= c05MaxTimeouts && !k.Second {
		c.Count("cases_skipped_after_timeouts", 1)
		return
	}
	pr := &c05ProduceRun{k: k, runStart: runStart}
	pr.cap = core.Pick(r, 2, 3, 5, 7, 8)
	pr.format = 2
	if pr.cap < 3 {
		pr.format = 1
	}
	pr.codec = r.Intn(5)
	pr.hdrs = pr.format == 2
	pr.list = c05GenList(r, pr.hdrs)
	if pin != nil {
		pr.cap, pr.codec, pr.format, pr.hdrs = pin.Cap, pin.Codec, 2, pin.Cap >= 3
		if pin.Cap < 3 {
			pr.format = 1
		}
		pr.list = &c05List{Recs: pin.Recs, TsMode: pin.Mode, Far: pin.Far, Classes: map[string]bool{"pinned:" + pin.Name: true}}
	}
	chunkMax := 0
	if r.Chance(1, 5) {
		chunkMax = core.Pick(r, 1, 7, 64, 4096)
	}
	wBatch := core.Pick(r, 1, 2, 3, 7, 100)
	cSplit, cClass := c05Split(r, len(pr.list.Recs))
	nSplit, nClass := c05Split(r, len(pr.list.Recs))
	if pin != nil {
		chunkMax, wBatch = 0, 100
		cSplit, cClass, nSplit, nClass = []int{len(pin.Recs)}, "one", []int{len(pin.Recs)}, "one"
	}
	boundary := pr.format == 2 && pin == nil && r.Chance(1, 10)
	boundaryDelta := r.Range(-12, 100)
	if boundary {
		cClass += "+header-at-page-boundary"
	}
	wClass := "one"
	if wBatch < len(pr.list.Recs) {
		wClass = fmt.Sprintf("batchsize%d", wBatch)
	}
	k.Describe(map[string]any{"list": "produce", "produce_max": pr.cap, "format": pr.format, "codec": refcodec.CodecNames[pr.codec], "records": len(pr.list.Recs),
		"shape": pr.list.shape(), "writer_batch_size": wBatch, "client_split": cSplit, "conn_split": nSplit, "chunk_max": chunkMax, "client_batch_header_at_page_boundary": boundary, "boundary_delta": boundaryDelta})

	pr.net = fakenet.New()
	pr.net.ChunkMax = chunkMax
	pr.cl = fakecluster.New(pr.net)
	b := pr.cl.AddBroker(1, "")
	v := b.Versions[fakecluster.KProduce]
	v.Max = pr.cap
	b.Versions[fakecluster.KProduce] = v
	for _, t := range []string{"tw", "tc", "tn"} {
		pr.cl.AddTopic(t, 1, func(int) int32 { return 1 })
	}
	defer func() {
		pr.cl.Close()
		pr.cl.Quiesce(5 * time.Second)
	}()

	sig := func(path, split string) {
		c.Eval(1)
		if len(pr.list.Recs) >= 2 || pr.codec != 0 || split != "one" {
			c.Distinct(fmt.Sprintf("produce|%s|m%d|%s|%s|%s", path, pr.format, refcodec.CodecNames[pr.codec], split, pr.list.shape()))
		}
	}

	// ---- (a1) Writer
	{
		p0 := len(pr.cl.Problems())
		dl := c05NewDial(pr.net, "c05-writer")
		defer dl.release()
		tr := &kafka.Transport{Dial: dl.Dial, ClientID: "c05-writer", DialTimeout: 5 * time.Second, IdleTimeout: c05IdleTimeout}
		w := &kafka.Writer{Addr: kafka.TCP("b1:9092"), Topic: "tw", Balancer: &kafka.RoundRobin{}, MaxAttempts: 1, BatchSize: wBatch, BatchBytes: 256 << 20,
			BatchTimeout: 2 * time.Millisecond, ReadTimeout: 10 * time.Second, WriteTimeout: 10 * time.Second, RequiredAcks: kafka.RequireAll,
			Compression: kafka.Compression(pr.codec), Transport: tr}
		var err error
		if len(pr.list.Recs) > 0 {
			ctx, cancel := context.WithTimeout(context.Background(), 20*time.Second)
			err = w.WriteMessages(ctx, c05Msgs(pr.list.Recs)...)
			cancel()
		}
		w.Close()
		tr.CloseIdleConnections()
		pr.check("writer", "tw", p0, []error{err})
		sig("writer", wClass)
	}
	// ---- (a2) Client.Produce
	// (An empty record list with message format 1 is not offered: the library then sends an empty message
	// set - with a codec an empty compressed wrapper - instead of the documented no-op; no record was given to
	// the library, so the property has nothing to say about it.)
	if len(pr.list.Recs) > 0 || pr.format == 2 {
		p0 := len(pr.cl.Problems())
		dl := c05NewDial(pr.net, "c05-client")
		defer dl.release()
		clientID, txnID := "c05-client", ""
		if boundary {
			// long header strings put the start of the record batch next to the 64 KiB page boundary of the
			// request buffer, so that the batch header fields patched in afterwards straddle two pages
			clientID = strings.Repeat("c", 32767) // strings are limited to 2^15-1 bytes
			txnID = strings.Repeat("x", 65536-42-32767-boundaryDelta)
		}
		tr := &kafka.Transport{Dial: dl.Dial, ClientID: clientID, DialTimeout: 5 * time.Second, IdleTimeout: c05IdleTimeout}
		cli := &kafka.Client{Addr: kafka.TCP("b1:9092"), Transport: tr, Timeout: 10 * time.Second}
		var errs []error
		i := 0
		chunks := cSplit
		if len(pr.list.Recs) == 0 {
			chunks = []int{0} // an empty record list: nothing may reach the log
		}
		for _, n := range chunks {
			var recs []kafka.Record
			for _, rc := range pr.list.Recs[i : i+n] {
				recs = append(recs, kafka.Record{Key: kafka.NewBytes(rc.Key), Value: kafka.NewBytes(rc.Value), Headers: rc.Hdrs, Time: rc.T})
			}
			i += n
			ctx, cancel := context.WithTimeout(context.Background(), 20*time.Second)
			res, err := cli.Produce(ctx, &kafka.ProduceRequest{Topic: "tc", Partition: 0, TransactionalID: txnID, RequiredAcks: kafka.RequireAll, Records: kafka.NewRecordReader(recs...), Compression: kafka.Compression(pr.codec)})
			cancel()
			if err == nil && res != nil && res.Error != nil {
				err = res.Error
			}
			errs = append(errs, err)
		}
		tr.CloseIdleConnections()
		pr.check("client", "tc", p0, errs)
		sig("client", cClass)
	}
	// ---- (b) Conn
	if len(pr.list.Recs) > 0 {
		p0 := len(pr.cl.Problems())
		d := &kafka.Dialer{DialFunc: pr.net.Dialer("c05-conn"), ClientID: "c05-conn", Timeout: 5 * time.Second}
		ctx, cancel := context.WithTimeout(context.Background(), 10*time.Second)
		conn, err := d.DialLeader(ctx, "tcp", "b1:9092", "tn", 0)
		cancel()
		var errs []error
		if err != nil {
			errs = append(errs, fmt.Errorf("DialLeader: %w", err))
		} else {
			conn.SetRequiredAcks(-1)
			i := 0
			for _, n := range nSplit {
				msgs := c05Msgs(pr.list.Recs[i : i+n])
				i += n
				conn.SetDeadline(time.Now().Add(4 * time.Second))
				if pr.codec == 0 {
					_, err = conn.WriteMessages(msgs...)
				} else {
					_, err = conn.WriteCompressedMessages(compress.Compression(pr.codec).Codec(), msgs...)
				}
				errs = append(errs, err)
				if err != nil {
					break
				}
			}
			conn.Close()
		}
		pr.check("conn", "tn", p0, errs)
		sig("conn", nClass)
	}
	if pin == nil && len(pr.list.Recs) >= 2 && c05SampleOnce("produce", 1) {
		c.Sample(map[string]any{"case": k.ID, "config": k.Desc(), "observed": map[string]any{"paths": "writer, client, conn", "records_per_path": len(pr.list.Recs), "verdicts": pr.verdicts}})
	}
}

func c05ShortBytes(b []byte) string {
	if b == nil {
		return "null"
	}
	if len(b) <= 12 {
		return fmt.Sprintf("%x(len %d)", b, len(b))
	}
	return fmt.Sprintf("%x..(len %d)", b[:12], len(b))
}

func c05FirstDiff(a, b []byte) int {
	for i := 0; i < len(a) && i < len(b); i++ {
		if a[i] != b[i] {
			return i
		}
	}
	if len(a) != len(b) {
		if len(a) < len(b) {
			return len(a)
		}
		return len(b)
	}
	return -1
}

// check judges one path: problems the broker recorded since p0, the call
// results, and the decoded batches of the topic against the submitted list.
func (pr *c05ProduceRun) check(path, topic string, p0 int, errs []error) {
	v := pr.check1(path, topic, p0, errs)
	if v == "" {
		v = "accepted by the strict decoder, records equal"
	}
	pr.verdicts = append(pr.verdicts, path+": "+v)
}

// check1 returns the key of the violation it reported ("" = none).
func (pr *c05ProduceRun) check1(path, topic string, p0 int, errs []error) (verdict string) {
	k0 := pr.k
	k := &c05Reporter{Case: k0, verdict: &verdict}
	c := k.Ctx
	fc := fmt.Sprintf("%s:m%d:%s", path, pr.format, refcodec.CodecNames[pr.codec])
	probs := pr.cl.Problems()[p0:]
	for _, p := range probs {
		k.Viol("c05:produce-rejected:"+fc, fmt.Sprintf("%s path, produce cap v%d: the broker's reference decoder rejected what was sent (%s): %s", path, pr.cap, p.Kind, p.Detail), pr.witness(nil))
		break
	}
	failed := false
	for i, err := range errs {
		if err == nil {
			continue
		}
		failed = true
		if len(probs) > 0 {
			break // already reported
		}
		if isDeadlineErr(err) {
			atomic.AddInt32(&c05Timeouts, 1)
			k.TimeViol("c05:produce-rejected:"+fc, fmt.Sprintf("%s path, produce cap v%d: call #%d on a healthy broker ran into its deadline: %v", path, pr.cap, i, err), pr.witness(nil))
		} else {
			k.Viol("c05:produce-rejected:"+fc, fmt.Sprintf("%s path, produce cap v%d: call #%d failed on a healthy broker: %v", path, pr.cap, i, err), pr.witness(nil))
		}
		break
	}
	if failed || len(probs) > 0 {
		return
	}
	// decoded batches in arrival order
	var got []refcodec.Rec
	nb := 0
	maxTsProblem := "" // reported only when the record timestamps themselves are right
	for _, ev := range pr.cl.Journal() {
		if ev.API != fakecluster.KProduce || ev.Topic != topic {
			continue
		}
		for _, bt := range ev.Batches {
			nb++
			c.Count(fmt.Sprintf("produce_batches:%s:m%d:%s", path, bt.Magic, refcodec.CodecNames[bt.Codec]), 1)
			if bt.Magic == 2 && !bt.MaxTimestampOK {
				var ts []int64
				for _, rc := range bt.Records {
					ts = append(ts, rc.TimestampMs)
				}
				if len(ts) > 8 {
					ts = ts[:8]
				}
				if maxTsProblem == "" {
					maxTsProblem = fmt.Sprintf("%s path: v2 batch header says maxTimestamp=%d but the largest record timestamp in the batch is not that (first record timestamps %v)", path, bt.MaxTimestamp, ts)
				}
			}
			got = append(got, bt.Records...)
		}
	}
	exp := pr.list.Recs
	if len(got) != len(exp) {
		k.Viol("c05:produce-mismatch:"+path+":count", fmt.Sprintf("%s path: %d records submitted, %d records in the %d batches the broker decoded", path, len(exp), len(got), nb), pr.witness(nil))
		return
	}
	c.Count("produce_records_compared:"+path, int64(len(got)))
	lo := pr.runStart.Add(-24*time.Hour).UnixNano() / 1e6
	for i, e := range exp {
		g := got[i]
		if (e.Key == nil) != (g.Key == nil) || !bytes.Equal(e.Key, g.Key) {
			k.Viol("c05:produce-mismatch:"+path+":key", fmt.Sprintf("%s path: record %d key submitted %s, on the wire %s (first difference at byte %d)", path, i, c05ShortBytes(e.Key), c05ShortBytes(g.Key), c05FirstDiff(e.Key, g.Key)), pr.witness(&i))
			return
		}
		if (e.Value == nil) != (g.Value == nil) || !bytes.Equal(e.Value, g.Value) {
			k.Viol("c05:produce-mismatch:"+path+":value", fmt.Sprintf("%s path: record %d value submitted %s, on the wire %s (first difference at byte %d)", path, i, c05ShortBytes(e.Value), c05ShortBytes(g.Value), c05FirstDiff(e.Value, g.Value)), pr.witness(&i))
			return
		}
		if pr.format == 2 {
			if len(e.Hdrs) != len(g.Headers) {
				k.Viol("c05:produce-mismatch:"+path+":headers", fmt.Sprintf("%s path: record %d submitted with %d headers, %d on the wire", path, i, len(e.Hdrs), len(g.Headers)), pr.witness(&i))
				return
			}
			for h := range e.Hdrs {
				eh, gh := e.Hdrs[h], g.Headers[h]
				if eh.Key != gh.Key || (eh.Value == nil) != (gh.Value == nil) || !bytes.Equal(eh.Value, gh.Value) {
					k.Viol("c05:produce-mismatch:"+path+":headers", fmt.Sprintf("%s path: record %d header %d submitted %q=%s, on the wire %q=%s", path, i, h, eh.Key, c05ShortBytes(eh.Value), gh.Key, c05ShortBytes(gh.Value)), pr.witness(&i))
					return
				}
			}
		}
		if e.T.IsZero() {
			hi := time.Now().Add(24*time.Hour).UnixNano() / 1e6
			if g.TimestampMs < lo || g.TimestampMs > hi {
				key := "c05:produce-timestamp:" + path + fmt.Sprintf("-v%d", pr.format)
				if pr.list.Far {
					key += ":delta-over-int32-ms"
				}
				k.Viol(key, fmt.Sprintf("%s path: record %d was submitted without a time and is on the wire with timestamp %d ms, more than a day away from the run (%d..%d)", path, i, g.TimestampMs, lo, hi), pr.witness(&i))
				return
			}
			continue
		}
		want := e.T.UnixNano() / 1e6 // all generated times are after 1970: truncation == floor
		if g.TimestampMs != want {
			key := "c05:produce-timestamp:" + path + fmt.Sprintf("-v%d", pr.format)
			if pr.list.Far {
				key += ":delta-over-int32-ms"
			}
			first := int64(0)
			if !exp[0].T.IsZero() {
				first = exp[0].T.UnixNano()
			}
			k.Viol(key, fmt.Sprintf("%s path, format %d: record %d submitted with time %d ns (= %d ms) is on the wire with timestamp %d ms (%+d ms); first record of the list: %d ns", path, pr.format, i, e.T.UnixNano(), want, g.TimestampMs, g.TimestampMs-want, first), pr.witness(&i))
			return
		}
	}
	if maxTsProblem != "" {
		k.Viol("c05:produce-mismatch:"+path+":max-timestamp", maxTsProblem, pr.witness(nil))
	}
	return
}

// c05Reporter remembers the key of the first violation reported through it.
type c05Reporter struct {
	*core.Case
	verdict *string
}

func (r *c05Reporter) Viol(key, what string, witness any) {
	if *r.verdict == "" {
		*r.verdict = "VIOLATED " + key
	}
	r.Case.Viol(key, what, witness)
}

func (r *c05Reporter) TimeViol(key, what string, witness any) {
	if *r.verdict == "" {
		*r.verdict = "deadline exceeded, " + key
	}
	r.Case.TimeViol(key, what, witness)
}

func (pr *c05ProduceRun) witness(idx *int) map[string]any {
	w := map[string]any{"produce_max": pr.cap, "codec": refcodec.CodecNames[pr.codec], "records": len(pr.list.Recs), "ts_mode": pr.list.TsMode}
	var ts []string
	for i, rc := range pr.list.Recs {
		if i >= 12 {
			ts = append(ts, "...")
			break
		}
		if rc.T.IsZero() {
			ts = append(ts, "unset")
		} else {
			ts = append(ts, fmt.Sprint(rc.T.UnixNano()))
		}
	}
	w["times_ns"] = ts
	if idx != nil && *idx < len(pr.list.Recs) {
		rc := pr.list.Recs[*idx]
		w["record"] = map[string]any{"index": *idx, "key": c05ShortBytes(rc.Key), "value": c05ShortBytes(rc.Value), "headers": len(rc.Hdrs)}
	}
	return w
}

// ---------------------------------------------------------------- connection wrapper

// c05Dial wraps a fakenet dial function so that a finished case can cut the
// references from the library's still-armed idle timers to the case's network
// and cluster (see c05IdleTimeout): after release() every wrapped connection
// only points at a closed stub.
type c05Dial struct {
	mu    sync.Mutex
	dial  func(context.Context, string, string) (net.Conn, error)
	conns []*c05WrapConn
}

type c05WrapConn struct {
	mu sync.Mutex
	c  net.Conn
}

type c05ClosedConn struct{}

var errC05Closed = &net.OpError{Op: "io", Net: "tcp", Err: net.ErrClosed}

func (c05ClosedConn) Read([]byte) (int, error)         { return 0, errC05Closed }
func (c05ClosedConn) Write([]byte) (int, error)        { return 0, errC05Closed }
func (c05ClosedConn) Close() error                     { return nil }
func (c05ClosedConn) LocalAddr() net.Addr              { return fakenet.Addr{Net: "tcp", Str: "released"} }
func (c05ClosedConn) RemoteAddr() net.Addr             { return fakenet.Addr{Net: "tcp", Str: "released"} }
func (c05ClosedConn) SetDeadline(time.Time) error      { return nil }
func (c05ClosedConn) SetReadDeadline(time.Time) error  { return nil }
func (c05ClosedConn) SetWriteDeadline(time.Time) error { return nil }

func (w *c05WrapConn) get() net.Conn {
	w.mu.Lock()
	c := w.c
	w.mu.Unlock()
	return c
}

func (w *c05WrapConn) Read(b []byte) (int, error)         { return w.get().Read(b) }
func (w *c05WrapConn) Write(b []byte) (int, error)        { return w.get().Write(b) }
func (w *c05WrapConn) Close() error                       { return w.get().Close() }
func (w *c05WrapConn) LocalAddr() net.Addr                { return w.get().LocalAddr() }
func (w *c05WrapConn) RemoteAddr() net.Addr               { return w.get().RemoteAddr() }
func (w *c05WrapConn) SetDeadline(t time.Time) error      { return w.get().SetDeadline(t) }
func (w *c05WrapConn) SetReadDeadline(t time.Time) error  { return w.get().SetReadDeadline(t) }
func (w *c05WrapConn) SetWriteDeadline(t time.Time) error { return w.get().SetWriteDeadline(t) }

func c05NewDial(n *fakenet.Net, owner string) *c05Dial {
	return &c05Dial{dial: n.Dialer(owner)}
}

func (d *c05Dial) Dial(ctx context.Context, network, addr string) (net.Conn, error) {
	d.mu.Lock()
	dial := d.dial
	d.mu.Unlock()
	if dial == nil {
		return nil, errC05Closed
	}
	c, err := dial(ctx, network, addr)
	if err != nil {
		return nil, err
	}
	w := &c05WrapConn{c: c}
	d.mu.Lock()
	d.conns = append(d.conns, w)
	d.mu.Unlock()
	return w, nil
}

// release closes what is still open and drops every reference to the case's network.
func (d *c05Dial) release() {
	d.mu.Lock()
	conns := d.conns
	d.conns, d.dial = nil, nil
	d.mu.Unlock()
	for _, w := range conns {
		w.mu.Lock()
		c := w.c
		w.c = c05ClosedConn{}
		w.mu.Unlock()
		c.Close()
	}
}
