package props

import (
	"bytes"
	"context"
	"encoding/binary"
	"errors"
	"fmt"
	"io"
	"net"
	"reflect"
	"sort"
	"strings"
	"sync"
	"time"

	kafka "github.com/segmentio/kafka-go"
	"github.com/segmentio/kafka-go/protocol"

	"verifharness/core"
	"verifharness/fakecluster"
	"verifharness/fakenet"
	"verifharness/refcodec"
)

// ---------------------------------------------------------------- byte tap

// c04TapConn records every byte the library writes on a connection (the
// fakenet tap records offsets and lengths only).
type c04TapConn struct {
	net.Conn
	fc  *fakenet.Conn
	mu  sync.Mutex
	out []byte
}

func (t *c04TapConn) Write(b []byte) (int, error) {
	n, err := t.Conn.Write(b)
	if n > 0 {
		t.mu.Lock()
		t.out = append(t.out, b[:n]...)
		t.mu.Unlock()
	}
	return n, err
}

type c04Taps struct {
	mu    sync.Mutex
	conns []*c04TapConn
}

func (t *c04Taps) wrap(dial func(context.Context, string, string) (net.Conn, error)) func(context.Context, string, string) (net.Conn, error) {
	return func(ctx context.Context, network, addr string) (net.Conn, error) {
		c, err := dial(ctx, network, addr)
		if err != nil {
			return nil, err
		}
		tc := &c04TapConn{Conn: c}
		tc.fc, _ = c.(*fakenet.Conn)
		t.mu.Lock()
		t.conns = append(t.conns, tc)
		t.mu.Unlock()
		return tc, nil
	}
}

// ---------------------------------------------------------------- advertised version tables

// c04Floor is the version table of the oldest broker kafka-go documents
// support for (0.10.1): the hand-written Conn codec hard-codes these.
var c04Floor = map[int]int{0: 2, 1: 3, 2: 1, 3: 2, 8: 2, 9: 1, 10: 0, 11: 1, 12: 0, 13: 0, 14: 0, 15: 0, 16: 0, 17: 0, 18: 0, 19: 0, 20: 0}

// c04Mins40 are the minimum versions a 4.0 broker still accepts.
var c04Mins40 = map[int]int{0: 3, 1: 4, 2: 1, 8: 2, 9: 1, 11: 2, 19: 2, 20: 1}

func c04VersionTable(r *core.Rand) (map[int]fakecluster.VR, string) {
	def := fakecluster.DefaultVersions()
	out := map[int]fakecluster.VR{}
	kind := core.Pick(r, "full", "floor", "random", "random", "mins-raised")
	for k, vr := range def {
		lo := c04Floor[k]
		if lo > vr.Max {
			lo = vr.Max
		}
		switch kind {
		case "full":
			out[k] = fakecluster.VR{Min: 0, Max: vr.Max}
		case "floor":
			out[k] = fakecluster.VR{Min: 0, Max: lo}
		case "random":
			out[k] = fakecluster.VR{Min: 0, Max: r.Range(lo, vr.Max)}
		case "mins-raised":
			// brokers that dropped old versions are the newest ones: full maxima
			out[k] = fakecluster.VR{Min: c04Mins40[k], Max: vr.Max}
		}
	}
	return out, kind
}

// ---------------------------------------------------------------- frame checks

type c04WireEnv struct {
	k     *core.Case
	codec string // conn | transport
	desc  map[string]any
}

// c04CheckStream splits what the client wrote on one connection into frames
// and checks each against the protocol definition.
func c04CheckStream(w *c04WireEnv, tc *c04TapConn, versions map[int]fakecluster.VR) {
	tc.mu.Lock()
	stream := append([]byte{}, tc.out...)
	tc.mu.Unlock()
	k := w.k
	off := 0
	lastAPI := "?"
	for off < len(stream) {
		if len(stream)-off < 4 {
			k.Viol("c04:wire:frame-size:"+lastAPI, fmt.Sprintf("%s: %d stray bytes after the last whole frame on a connection (after a %s request)", w.codec, len(stream)-off, lastAPI), map[string]any{"tail": c04Trunc(stream[off:])})
			return
		}
		sz := int(int32(binary.BigEndian.Uint32(stream[off:])))
		if sz < 8 || off+4+sz > len(stream) {
			// find the api of this frame if the header is there
			api := lastAPI
			if len(stream)-off >= 8 {
				if a := refcodec.APIs[int(int16(binary.BigEndian.Uint16(stream[off+4:])))]; a != nil {
					api = a.Name
				}
			}
			k.Viol("c04:frame-size:"+api, fmt.Sprintf("%s: size prefix %d but only %d bytes follow on the connection (the request stream does not split into whole frames)", w.codec, sz, len(stream)-off-4),
				map[string]any{"frame_and_rest": c04Trunc(stream[off:]), "codec": w.codec})
			return
		}
		frame := stream[off : off+4+sz]
		off += 4 + sz
		k.Eval(1)
		hdr, err := refcodec.ParseRequestHeader(frame[4:])
		api := refcodec.APIs[hdr.Key]
		if err != nil || api == nil {
			k.Viol(fmt.Sprintf("c04:wire:bad-header:%d", hdr.Key), fmt.Sprintf("%s: request header does not parse (api key %d): %v", w.codec, hdr.Key, err), map[string]any{"frame": c04Trunc(frame)})
			continue
		}
		lastAPI = api.Name
		k.Count(fmt.Sprintf("tapped:%s:%s:v%d", w.codec, api.Name, hdr.Version), 1)
		k.Distinct(fmt.Sprintf("wire|%s|%d|%s", api.Name, hdr.Version, w.codec))
		if vr, ok := versions[hdr.Key]; (!ok || hdr.Version > vr.Max || hdr.Version < vr.Min) && hdr.Key != fakecluster.KApiVersions {
			k.Viol("c04:wire:version-out-of-range:"+api.Name, fmt.Sprintf("%s: %s request sent at v%d, the broker advertised %v (advertised=%v)", w.codec, api.Name, hdr.Version, vr, ok), map[string]any{"frame": c04Trunc(frame)})
			continue
		}
		if !api.Versions.Has(hdr.Version) {
			k.Viol("c04:wire:unknown-version:"+api.Name, fmt.Sprintf("%s: %s v%d is outside the protocol definition's range", w.codec, api.Name, hdr.Version), nil)
			continue
		}
		body, derr := refcodec.DecodeBody(api, hdr.Version, true, frame[4+hdr.BodyOff:])
		if derr != nil {
			k.Viol("c04:wire:bad-request-body:"+api.Name, fmt.Sprintf("%s: %s v%d request body rejected by the strict reference decoder: %v", w.codec, api.Name, hdr.Version, derr),
				map[string]any{"frame": c04Trunc(frame), "decoded_so_far": c04Canon(body)})
			continue
		}
		re, rerr := refcodec.EncodeRequestFrame(api, hdr.Version, hdr.CorrelationID, hdr.ClientID, body)
		if rerr != nil || !bytes.Equal(re, frame) {
			k.Viol("c04:wire:not-canonical:"+api.Name, fmt.Sprintf("%s: %s v%d request is not in canonical form: re-encoding the decoded header and body gives %d bytes, %d were sent (%v)", w.codec, api.Name, hdr.Version, len(re), len(frame), rerr),
				map[string]any{"frame": c04Trunc(frame), "reencoded": c04Trunc(re)})
		}
		if c04HasTags(body) {
			k.Viol("c04:wire:not-canonical:"+api.Name, fmt.Sprintf("%s: %s v%d request carries tagged fields the library does not declare", w.codec, api.Name, hdr.Version), map[string]any{"frame": c04Trunc(frame)})
		}
	}
}

func c04WireFinish(w *c04WireEnv, cl *fakecluster.Cluster, taps *c04Taps, versions map[int]fakecluster.VR) {
	cl.Quiesce(2 * time.Second)
	taps.mu.Lock()
	conns := append([]*c04TapConn{}, taps.conns...)
	taps.mu.Unlock()
	for _, tc := range conns {
		c04CheckStream(w, tc, versions)
	}
	for _, p := range cl.Problems() {
		api := "?"
		if p.Ev != nil {
			if a := refcodec.APIs[p.Ev.API]; a != nil {
				api = a.Name
			}
		}
		w.k.Viol(fmt.Sprintf("c04:wire:%s:%s", p.Kind, api), fmt.Sprintf("%s: the fake broker reports %s: %s", w.codec, p.Kind, p.Detail), w.desc)
	}
	cl.Close()
}

// ---------------------------------------------------------------- scripted group coordinator (one member)

func c04GroupScript(rc *fakecluster.ReqCtx) *fakecluster.Action {
	b := rc.Body
	switch rc.Ev.API {
	case fakecluster.KJoinGroup:
		return &fakecluster.Action{Mutate: func(resp map[string]any) {
			name, meta := "", []byte{}
			if ps := refcodec.Arr(b["Protocols"]); len(ps) > 0 {
				name = refcodec.Str(refcodec.Map(ps[0])["Name"])
				meta = refcodec.Bytes(refcodec.Map(ps[0])["Metadata"])
			}
			resp["ErrorCode"] = int64(0)
			resp["GenerationId"] = int64(1)
			resp["ProtocolType"] = b["ProtocolType"]
			resp["ProtocolName"] = name
			resp["Leader"] = "m1"
			resp["MemberId"] = "m1"
			resp["Members"] = []any{map[string]any{"MemberId": "m1", "GroupInstanceId": nil, "Metadata": meta}}
		}}
	case fakecluster.KSyncGroup:
		return &fakecluster.Action{Mutate: func(resp map[string]any) {
			as := []byte{}
			if l := refcodec.Arr(b["Assignments"]); len(l) > 0 {
				as = refcodec.Bytes(refcodec.Map(l[0])["Assignment"])
			}
			resp["ErrorCode"] = int64(0)
			resp["Assignment"] = as
		}}
	case fakecluster.KHeartbeat, fakecluster.KLeaveGroup:
		return &fakecluster.Action{Mutate: func(resp map[string]any) {
			resp["ErrorCode"] = int64(0)
			resp["Members"] = []any{}
		}}
	case fakecluster.KOffsetFetch:
		return &fakecluster.Action{Mutate: func(resp map[string]any) {
			var topics []any
			for _, t := range refcodec.Arr(b["Topics"]) {
				tm := refcodec.Map(t)
				var parts []any
				for _, p := range refcodec.Arr(tm["PartitionIndexes"]) {
					parts = append(parts, map[string]any{"PartitionIndex": p, "CommittedOffset": int64(-1), "CommittedLeaderEpoch": int64(-1), "Metadata": "", "ErrorCode": int64(0)})
				}
				topics = append(topics, map[string]any{"Name": tm["Name"], "Partitions": parts})
			}
			resp["ErrorCode"] = int64(0)
			resp["Topics"] = topics
		}}
	case fakecluster.KOffsetCommit:
		return &fakecluster.Action{Mutate: func(resp map[string]any) {
			var topics []any
			for _, t := range refcodec.Arr(b["Topics"]) {
				tm := refcodec.Map(t)
				var parts []any
				for _, p := range refcodec.Arr(tm["Partitions"]) {
					parts = append(parts, map[string]any{"PartitionIndex": refcodec.Map(p)["PartitionIndex"], "ErrorCode": int64(0)})
				}
				topics = append(topics, map[string]any{"Name": tm["Name"], "Partitions": parts})
			}
			delete(resp, "ErrorCode")
			resp["Topics"] = topics
		}}
	}
	return nil
}

// ---------------------------------------------------------------- scenarios

func c04Setup(k *core.Case) (*fakenet.Net, *fakecluster.Cluster, *c04Taps, map[int]fakecluster.VR, string) {
	nw := fakenet.New()
	cl := fakecluster.New(nw)
	cl.MaxWaitCap = 5 * time.Millisecond
	versions, kind := c04VersionTable(k.R)
	b := cl.AddBroker(1, core.Pick(k.R, "", "rack-a"))
	b.Versions = versions
	cl.AddTopic("t", 2, nil)
	cl.AddTopic("u", 1, nil)
	cl.Script = c04GroupScript
	return nw, cl, &c04Taps{}, versions, kind
}

func c04Msgs4(r *core.Rand, headers bool) []kafka.Message {
	n := r.Range(1, 4)
	var out []kafka.Message
	for i := 0; i < n; i++ {
		// values of 64 bytes and more make the record's varint-encoded lengths take two bytes
		m := kafka.Message{Value: r.Bytes(core.Pick(r, r.Range(0, 50), r.Range(0, 50), r.Range(60, 70), r.Range(120, 400))), Time: time.Unix(0, (c04BaseTs+int64(r.Intn(100000)))*int64(time.Millisecond))}
		if r.Chance(2, 3) {
			m.Key = r.Bytes(r.Range(0, 10))
		}
		if headers && r.Chance(1, 3) {
			m.Headers = []kafka.Header{{Key: "h", Value: r.Bytes(r.Range(0, 6))}}
		}
		out = append(out, m)
	}
	return out
}

// c04ConnScenario drives the hand-written Conn codec.
func c04ConnScenario(k *core.Case) {
	nw, cl, taps, versions, kind := c04Setup(k)
	r := k.R
	clientID := core.Pick(r, "verif-conn", "x", strings.Repeat("c", 130))
	desc := map[string]any{"scenario": "conn", "table": kind, "client_id_len": len(clientID)}
	var ops []string
	w := &c04WireEnv{k: k, codec: "conn", desc: desc}
	dialer := &kafka.Dialer{DialFunc: taps.wrap(nw.Dialer("c04")), Timeout: 10 * time.Second, ClientID: clientID}
	ctx, cancel := context.WithTimeout(context.Background(), 30*time.Second)
	defer cancel()
	part := r.Intn(2)
	desc["partition"] = part
	conn, err := dialer.DialLeader(ctx, "tcp", "b1:9092", "t", part)
	if err != nil {
		desc["dial_error"] = err.Error()
		k.Describe(desc)
		c04WireFinish(w, cl, taps, versions)
		return
	}
	conn.SetDeadline(time.Now().Add(5 * time.Second))
	produceMax := versions[0].Max
	// readCompare reads the partition from its start through Conn.ReadBatch while the response arrives in
	// pieces of at most chunk bytes (0: whole) - the Conn codec decodes from a buffer that is then
	// refilled in the middle of fields - and compares what was decoded with the records the broker stores.
	readCompare := func(chunk int, all bool, n int) {
		if _, err := conn.Seek(0, kafka.SeekStart); err != nil {
			return
		}
		nw.ChunkMax = chunk
		bt := conn.ReadBatch(1, 1<<20)
		if all {
			n = 1 << 20
		}
		var got []kafka.Message
		var rerr error
		for j := 0; j < n; j++ {
			m, err := bt.ReadMessage()
			if err != nil {
				rerr = err
				break
			}
			got = append(got, m)
		}
		bt.Close()
		nw.ChunkMax = 0
		p := cl.Partition("t", int32(part))
		if p == nil || (rerr != nil && !errors.Is(rerr, io.EOF)) {
			return
		}
		cl.Lock()
		want := append([]refcodec.Rec(nil), p.Records...)
		cl.Unlock()
		if all && len(got) != len(want) && errors.Is(rerr, io.EOF) {
			k.Viol("c04:wire:decoded-result:Fetch", fmt.Sprintf("Conn.ReadBatch from the start returned %d messages then io.EOF, the broker encoded %d records (delivery in chunks of %d bytes)", len(got), len(want), chunk), desc)
		}
		for j, m := range got {
			if j >= len(want) {
				break
			}
			wr := want[j]
			if m.Offset != wr.Offset || !bytes.Equal(m.Key, wr.Key) || !bytes.Equal(m.Value, wr.Value) || m.Time.UnixMilli() != wr.TimestampMs || len(m.Headers) != len(wr.Headers) {
				k.Viol("c04:wire:decoded-result:Fetch", fmt.Sprintf("Conn.ReadBatch message %d decoded to offset %d, key %d bytes, value %d bytes, time %d, %d headers; the broker encoded offset %d, key %d bytes, value %d bytes, time %d, %d headers (delivery in chunks of %d bytes)", j, m.Offset, len(m.Key), len(m.Value), m.Time.UnixMilli(), len(m.Headers), wr.Offset, len(wr.Key), len(wr.Value), wr.TimestampMs, len(wr.Headers), chunk), desc)
				break
			}
		}
		k.Ctx.Count("conn_fetch_messages_compared", int64(len(got)))
	}
	nops := r.Range(6, 12)
	for i := 0; i < nops; i++ {
		op := core.Pick(r, "apiversions", "brokers", "controller", "partitions", "partitions-all", "offsets", "offset-at", "write", "write", "write-compressed", "read", "read", "create", "delete", "acks")
		ops = append(ops, op)
		switch op {
		case "apiversions":
			got, err := conn.ApiVersions()
			if err == nil {
				m := map[int]fakecluster.VR{}
				for _, a := range got {
					m[int(a.ApiKey)] = fakecluster.VR{Min: int(a.MinVersion), Max: int(a.MaxVersion)}
				}
				if !reflect.DeepEqual(m, versions) {
					k.Viol("c04:wire:decoded-result:ApiVersions", fmt.Sprintf("Conn.ApiVersions returned %v, the broker encoded %v", m, versions), desc)
				}
			}
		case "brokers":
			bs, err := conn.Brokers()
			if err == nil && (len(bs) != 1 || bs[0].ID != 1 || bs[0].Host != "b1" || bs[0].Port != 9092) {
				k.Viol("c04:wire:decoded-result:Metadata", fmt.Sprintf("Conn.Brokers returned %v, the broker encoded [{b1 9092 1}]", bs), desc)
			}
		case "controller":
			b, err := conn.Controller()
			if err == nil && (b.ID != 1 || b.Host != "b1" || b.Port != 9092) {
				k.Viol("c04:wire:decoded-result:Metadata", fmt.Sprintf("Conn.Controller returned %v, the broker encoded node 1 b1:9092", b), desc)
			}
		case "partitions":
			ps, err := conn.ReadPartitions("t")
			if err == nil && len(ps) != 2 {
				k.Viol("c04:wire:decoded-result:Metadata", fmt.Sprintf("Conn.ReadPartitions(t) returned %d partitions, the broker encoded 2", len(ps)), desc)
			}
		case "partitions-all":
			conn.ReadPartitions()
		case "offsets":
			first, last, err := conn.ReadOffsets()
			p := cl.Partition("t", int32(part))
			if err == nil && p != nil {
				cl.Lock()
				s, e := p.Start, p.End
				cl.Unlock()
				if first != s || last != e {
					k.Viol("c04:wire:decoded-result:ListOffsets", fmt.Sprintf("Conn.ReadOffsets returned (%d,%d), the broker encoded (%d,%d)", first, last, s, e), desc)
				}
			}
		case "offset-at":
			conn.ReadOffset(time.Unix(0, (c04BaseTs+int64(r.Intn(100000)))*int64(time.Millisecond)))
		case "write":
			conn.WriteMessages(c04Msgs4(r, produceMax >= 3)...)
		case "write-compressed":
			codecs := []kafka.CompressionCodec{kafka.Gzip.Codec(), kafka.Snappy.Codec(), kafka.Lz4.Codec()}
			if produceMax >= 7 {
				codecs = append(codecs, kafka.Zstd.Codec())
			}
			conn.WriteCompressedMessages(codecs[r.Intn(len(codecs))], c04Msgs4(r, produceMax >= 3)...)
		case "read":
			readCompare(core.Pick(r, 0, 0, 1, 3, 17, 100), r.Bool(), r.Range(0, 3))
		case "create":
			tc := kafka.TopicConfig{Topic: "n" + fmt.Sprint(r.Intn(5)), NumPartitions: r.Range(1, 3), ReplicationFactor: 1}
			if r.Bool() {
				tc.NumPartitions, tc.ReplicationFactor = -1, -1
				tc.ReplicaAssignments = []kafka.ReplicaAssignment{{Partition: 0, Replicas: []int{1}}}
			}
			if r.Bool() {
				tc.ConfigEntries = []kafka.ConfigEntry{{ConfigName: "retention.ms", ConfigValue: "1000"}, {ConfigName: "x", ConfigValue: ""}}
			}
			conn.CreateTopics(tc)
		case "delete":
			conn.DeleteTopics("n"+fmt.Sprint(r.Intn(5)), "u")
		case "acks":
			conn.SetRequiredAcks(core.Pick(r, -1, 1, 1))
		}
	}
	// whatever was written is read back whole and in pieces of 1, 3 and 17 bytes
	conn.SetDeadline(time.Now().Add(10 * time.Second))
	for _, chunk := range []int{0, 1, 3, 17} {
		readCompare(chunk, true, 0)
	}
	conn.Close()
	desc["ops"] = ops
	k.Describe(desc)
	c04WireFinish(w, cl, taps, versions)
}

// c04GroupScenario drives the Conn codec's group requests through ConsumerGroup.
func c04GroupScenario(k *core.Case) {
	nw, cl, taps, versions, kind := c04Setup(k)
	desc := map[string]any{"scenario": "group", "table": kind}
	k.Describe(desc)
	w := &c04WireEnv{k: k, codec: "conn", desc: desc}
	dialer := &kafka.Dialer{DialFunc: taps.wrap(nw.Dialer("c04")), Timeout: 10 * time.Second, ClientID: "verif-group"}
	cg, err := kafka.NewConsumerGroup(kafka.ConsumerGroupConfig{ID: "g-" + fmt.Sprint(k.R.Intn(100)), Brokers: []string{"b1:9092"}, Dialer: dialer, Topics: []string{"t"},
		HeartbeatInterval: 20 * time.Millisecond, SessionTimeout: 10 * time.Second, RebalanceTimeout: 10 * time.Second, JoinGroupBackoff: 50 * time.Millisecond,
		PartitionWatchInterval: time.Hour, Timeout: 5 * time.Second, RetentionTime: core.Pick(k.R, time.Duration(0), time.Hour)})
	if err == nil {
		ctx, cancel := context.WithTimeout(context.Background(), 20*time.Second)
		gen, err := cg.Next(ctx)
		if err == nil {
			gen.CommitOffsets(map[string]map[int]int64{"t": {0: int64(k.R.Intn(1000)), 1: 7}})
			time.Sleep(60 * time.Millisecond) // a few heartbeats
		} else {
			desc["next_error"] = err.Error()
		}
		cancel()
		cg.Close()
	}
	c04WireFinish(w, cl, taps, versions)
}

// ---------------------------------------------------------------- Client / Transport scenario

var c04ClientMethods = []string{
	"Metadata", "ApiVersions", "CreateTopics", "DeleteTopics", "CreatePartitions", "ListOffsets", "Produce", "Fetch", "FindCoordinator",
	"JoinGroup", "SyncGroup", "Heartbeat", "LeaveGroup", "OffsetCommit", "OffsetFetch", "OffsetDelete", "DescribeGroups", "ListGroups", "DeleteGroups",
	"InitProducerID", "AddPartitionsToTxn", "AddOffsetsToTxn", "EndTxn", "TxnOffsetCommit", "DescribeConfigs", "AlterConfigs", "IncrementalAlterConfigs",
	"DescribeACLs", "CreateACLs", "DeleteACLs", "ElectLeaders", "AlterPartitionReassignments", "ListPartitionReassignments",
	"DescribeClientQuotas", "AlterClientQuotas", "DescribeUserScramCredentials", "AlterUserScramCredentials", "RawProduce",
}

var (
	c04AddrT     = reflect.TypeOf((*net.Addr)(nil)).Elem()
	c04DurT      = reflect.TypeOf(time.Duration(0))
	c04TimeT     = reflect.TypeOf(time.Time{})
	c04RecRdrT   = reflect.TypeOf((*kafka.RecordReader)(nil)).Elem()
	c04BalancerT = reflect.TypeOf((*kafka.GroupBalancer)(nil)).Elem()
)

// c04FillArg fills a kafka.XxxRequest with small sane values: topic "t",
// partitions 0/1, short strings, 0-2 element slices and maps.
func c04FillArg(r *core.Rand, v reflect.Value, name string, depth int) {
	t := v.Type()
	switch {
	case t == c04AddrT:
		return // Client.Addr is used
	case t == c04DurT:
		v.SetInt(int64(time.Duration(r.Range(1, 3000)) * time.Millisecond))
		return
	case t == c04TimeT:
		v.Set(reflect.ValueOf(time.Unix(0, (c04BaseTs+int64(r.Intn(100000)))*int64(time.Millisecond))))
		return
	case t == c04RecRdrT:
		var recs []kafka.Record
		for i := r.Range(1, 3); i > 0; i-- {
			recs = append(recs, kafka.Record{Time: time.Unix(0, (c04BaseTs+int64(r.Intn(1000)))*int64(time.Millisecond)), Key: kafka.NewBytes(r.Bytes(r.Range(0, 6))), Value: kafka.NewBytes(r.Bytes(r.Range(0, 30)))})
		}
		v.Set(reflect.ValueOf(kafka.NewRecordReader(recs...)))
		return
	case t == c04RawRecordsT:
		g := &c04Gen{r: r, ver: 2}
		g.fill(v, 0)
		return
	}
	ln := strings.ToLower(name)
	switch t.Kind() {
	case reflect.String:
		switch {
		case strings.Contains(ln, "topic") || ln == "name" && depth <= 1:
			v.SetString(core.Pick(r, "t", "t", "u"))
		case strings.HasSuffix(ln, "#elem"):
			// elements of string lists: "" is written as a null string by the
			// library (reported by the gen monitor with a precise key); keep
			// the in-situ tap clear of that input class
			v.SetString(core.Pick(r, "a", "group-1", "some.config"))
		default:
			v.SetString(core.Pick(r, "", "a", "group-1", "member-x", "some.config", strings.Repeat("s", r.Range(1, 40))))
		}
	case reflect.Bool:
		v.SetBool(r.Bool())
	case reflect.Int, reflect.Int8, reflect.Int16, reflect.Int32, reflect.Int64:
		switch {
		case strings.Contains(ln, "partition") && t.Kind() != reflect.Int8:
			v.SetInt(int64(r.Intn(2)))
		case strings.Contains(ln, "acks"):
			v.SetInt(core.Pick(r, int64(-1), 1))
		case t.Kind() == reflect.Int8:
			v.SetInt(int64(r.Range(0, 4)))
		default:
			v.SetInt(int64(r.Range(0, 3)))
		}
	case reflect.Float64:
		v.SetFloat(core.Pick(r, 0, 1.5, 1e6))
	case reflect.Slice:
		if t.Elem().Kind() == reflect.Uint8 {
			v.SetBytes(r.Bytes(r.Range(0, 12)))
			return
		}
		n := r.Range(0, 2)
		if depth == 0 || strings.Contains(ln, "topic") || strings.Contains(ln, "partition") || strings.Contains(ln, "protocol") || strings.Contains(ln, "member") {
			n = r.Range(1, 2)
		}
		s := reflect.MakeSlice(t, n, n)
		for i := 0; i < n; i++ {
			en := name
			if t.Elem().Kind() == reflect.String {
				en += "#elem"
			}
			c04FillArg(r, s.Index(i), en, depth+1)
		}
		v.Set(s)
	case reflect.Map:
		m := reflect.MakeMap(t)
		for i := r.Range(1, 2); i > 0; i-- {
			kv := reflect.New(t.Key()).Elem()
			c04FillArg(r, kv, name+"topic", depth+1)
			ev := reflect.New(t.Elem()).Elem()
			c04FillArg(r, ev, name, depth+1)
			m.SetMapIndex(kv, ev)
		}
		v.Set(m)
	case reflect.Struct:
		for i := 0; i < t.NumField(); i++ {
			if t.Field(i).PkgPath == "" {
				c04FillArg(r, v.Field(i), t.Field(i).Name, depth+1)
			}
		}
	case reflect.Ptr:
		p := reflect.New(t.Elem())
		c04FillArg(r, p.Elem(), name, depth+1)
		v.Set(p)
	case reflect.Interface:
		if t == c04BalancerT {
			v.Set(reflect.ValueOf(kafka.RangeGroupBalancer{}))
		}
	}
}

func c04ClientScenario(k *core.Case) {
	nw, cl, taps, versions, kind := c04Setup(k)
	r := k.R
	clientID := core.Pick(r, "verif-client", "", strings.Repeat("k", 128))
	desc := map[string]any{"scenario": "client", "table": kind, "client_id_len": len(clientID)}
	w := &c04WireEnv{k: k, codec: "transport", desc: desc}
	tr := &kafka.Transport{Dial: taps.wrap(nw.Dialer("c04")), ClientID: clientID, DialTimeout: 5 * time.Second, IdleTimeout: 30 * time.Second, MetadataTTL: time.Hour}
	client := &kafka.Client{Addr: kafka.TCP("b1:9092"), Transport: tr, Timeout: 5 * time.Second}
	cv := reflect.ValueOf(client)
	var calls []string
	hbCode := int64(0)
	// in-situ result check for Heartbeat / LeaveGroup: the broker answers with a chosen error code
	cl.Script = func(rc *fakecluster.ReqCtx) *fakecluster.Action {
		a := c04GroupScript(rc)
		if a != nil && (rc.Ev.API == fakecluster.KHeartbeat || rc.Ev.API == fakecluster.KLeaveGroup) {
			code := hbCode
			return &fakecluster.Action{Mutate: func(resp map[string]any) {
				resp["ErrorCode"] = code
				resp["ThrottleTimeMs"] = int64(0)
				resp["Members"] = []any{}
			}}
		}
		return a
	}
	n := r.Range(8, 14)
	for i := 0; i < n; i++ {
		name := c04ClientMethods[r.Intn(len(c04ClientMethods))]
		m := cv.MethodByName(name)
		if !m.IsValid() {
			panic("c04: kafka.Client has no method " + name)
		}
		req := reflect.New(m.Type().In(1).Elem())
		c04FillArg(r, req.Elem(), "", 0)
		calls = append(calls, name)
		if name == "RawProduce" {
			// raw record bytes are the caller's: use the format the negotiated produce version takes
			g := &c04Gen{r: r, ver: 2}
			if versions[0].Max < 3 {
				g.ver = 1
			}
			g.fill(req.Elem().FieldByName("RawRecords"), 0)
		}
		if name == "Heartbeat" || name == "LeaveGroup" {
			hbCode = core.Pick(r, int64(0), 27, 25, 16)
		}
		ctx, cancel := context.WithTimeout(context.Background(), 5*time.Second)
		out := m.Call([]reflect.Value{reflect.ValueOf(ctx), req})
		cancel()
		if (name == "Heartbeat" || name == "LeaveGroup") && out[1].IsNil() {
			errv := out[0].Elem().FieldByName("Error")
			gotErr := !errv.IsNil()
			if gotErr != (hbCode != 0) {
				k.Viol("c04:wire:decoded-result:"+name, fmt.Sprintf("Client.%s: the broker answered error code %d and throttle time 0, the decoded response has Error=%v Throttle=%v", name, hbCode, errv.Interface(), out[0].Elem().FieldByName("Throttle").Interface()),
					map[string]any{"desc": desc, "version_advertised": versions[map[string]int{"Heartbeat": 12, "LeaveGroup": 13}[name]]})
			}
		}
	}
	tr.CloseIdleConnections()
	desc["calls"] = calls
	k.Describe(desc)
	c04WireFinish(w, cl, taps, versions)
}

func runC04Wire(c *core.Ctx) {
	n := c.N(96, 12000)
	c.Cases("wire", n, func(k *core.Case) {
		switch k.Idx % 8 {
		case 0, 1, 2:
			c04ConnScenario(k)
		case 3:
			c04GroupScenario(k)
		default:
			c04ClientScenario(k)
		}
	})
	if c.Shard == 0 {
		var names []string
		for _, m := range c04ClientMethods {
			names = append(names, m)
		}
		sort.Strings(names)
		c.Count("client_methods_driven", int64(len(names)))
	}
	_ = protocol.Produce
}
