package props

import (
	"encoding/json"
	"errors"
	"fmt"
	"math"
	"sort"
	"strings"
	"time"

	kafka "github.com/segmentio/kafka-go"

	"verifharness/core"
	"verifharness/fakecluster"
	"verifharness/fakenet"
	"verifharness/refcodec"
)

// The C12 monitor: replays the broker-side journal of one scenario against
// the metadata responses the pool was served.

type c12VB struct {
	Addr string
	Host string
	Port int
	Rack string
}

type c12VP struct {
	Leader   int32
	Replicas []int32
	Isr      []int32
	Err      int
}

type c12VT struct {
	Err      int
	Internal bool
	Parts    map[int32]*c12VP
	PartIDs  []int32
}

// c12View is one metadata response as the pool was served it (fields a version does not carry are absent).
type c12View struct {
	Serial     int
	Deliv      int64 // logical time the last byte was handed to the client
	ReqSeq     int64 // logical time the request arrived at the broker (the content is younger)
	Ver        int
	Brokers    map[int32]c12VB
	BrokerIDs  []int32
	Controller int32 // -1: not designated (metadata v0)
	Topics     map[string]*c12VT
	Latency    time.Duration
	// Suspect: the pool may have dropped this response (its metadata round trips are bounded by MetadataTTL):
	// slow delivery or a scheduling stall around it.
	Suspect bool
}

func (v *c12View) addr(id int32) (string, bool) {
	b, ok := v.Brokers[id]
	return b.Addr, ok
}

func (v *c12View) leader(topic string, part int32) (int32, bool) {
	t := v.Topics[topic]
	if t == nil {
		return 0, false
	}
	p := t.Parts[part]
	if p == nil {
		return 0, false
	}
	if _, ok := v.Brokers[p.Leader]; !ok {
		return 0, false
	}
	return p.Leader, true
}

func c12MakeView(ev *fakecluster.Event) *c12View {
	v := &c12View{Ver: ev.Version, ReqSeq: ev.Seq, Brokers: map[int32]c12VB{}, Topics: map[string]*c12VT{}, Controller: -1}
	for _, b := range refcodec.Arr(ev.Resp["Brokers"]) {
		bm := refcodec.Map(b)
		id := int32(refcodec.Int(bm["NodeId"]))
		vb := c12VB{Host: refcodec.Str(bm["Host"]), Port: int(refcodec.Int(bm["Port"]))}
		vb.Addr = fmt.Sprintf("%s:%d", vb.Host, vb.Port)
		if ev.Version >= 1 && bm["Rack"] != nil {
			vb.Rack = refcodec.Str(bm["Rack"])
		}
		v.Brokers[id] = vb
		v.BrokerIDs = append(v.BrokerIDs, id)
	}
	sort.Slice(v.BrokerIDs, func(i, j int) bool { return v.BrokerIDs[i] < v.BrokerIDs[j] })
	if ev.Version >= 1 {
		v.Controller = int32(refcodec.Int(ev.Resp["ControllerId"]))
	}
	ids := func(x any) []int32 {
		var out []int32
		for _, e := range refcodec.Arr(x) {
			out = append(out, int32(refcodec.Int(e)))
		}
		return out
	}
	for _, t := range refcodec.Arr(ev.Resp["Topics"]) {
		tm := refcodec.Map(t)
		vt := &c12VT{Err: int(refcodec.Int(tm["ErrorCode"])), Parts: map[int32]*c12VP{}}
		if ev.Version >= 1 {
			vt.Internal, _ = tm["IsInternal"].(bool)
		}
		for _, p := range refcodec.Arr(tm["Partitions"]) {
			pm := refcodec.Map(p)
			id := int32(refcodec.Int(pm["PartitionIndex"]))
			vt.Parts[id] = &c12VP{Leader: int32(refcodec.Int(pm["LeaderId"])), Replicas: ids(pm["ReplicaNodes"]), Isr: ids(pm["IsrNodes"]), Err: int(refcodec.Int(pm["ErrorCode"]))}
			vt.PartIDs = append(vt.PartIDs, id)
		}
		sort.Slice(vt.PartIDs, func(i, j int) bool { return vt.PartIDs[i] < vt.PartIDs[j] })
		v.Topics[refcodec.Str(tm["Name"])] = vt
	}
	return v
}

type c12Verdict struct {
	Key, What string
	Witness   any
}

type c12Stats struct {
	window     []c12Verdict
	cappedSeen bool
	sigs       map[string]bool
	checked    int
	views      int
	kinds      []string
}

type c12FC struct {
	Key   string
	Typ   int // -1: v0, the key type is not expressible
	Node  int32
	Err   int
	Deliv int64
}

type c12TP struct {
	Topic string
	Part  int32
}

func c12RouteClass(api int) string {
	switch api {
	case 0, 1, 2:
		return "leader"
	case 8, 9, 11, 12, 13, 14, 15, 42, 47, 28:
		return "group"
	case 22, 24, 25, 26:
		return "txn"
	case 19, 20, 37:
		return "controller"
	}
	return "any"
}

// c12EvKeys extracts the routing keys of a decoded request.
func c12EvKeys(ev *fakecluster.Event) (tps []c12TP, keys []string) {
	b := ev.Body
	switch ev.API {
	case 0:
		for _, t := range refcodec.Arr(b["Topics"]) {
			tm := refcodec.Map(t)
			for _, p := range refcodec.Arr(tm["Partitions"]) {
				tps = append(tps, c12TP{refcodec.Str(tm["Name"]), int32(refcodec.Int(refcodec.Map(p)["Index"]))})
			}
		}
	case 1:
		for _, t := range refcodec.Arr(b["Topics"]) {
			tm := refcodec.Map(t)
			for _, p := range refcodec.Arr(tm["Partitions"]) {
				tps = append(tps, c12TP{refcodec.Str(tm["Topic"]), int32(refcodec.Int(refcodec.Map(p)["Partition"]))})
			}
		}
	case 2:
		for _, t := range refcodec.Arr(b["Topics"]) {
			tm := refcodec.Map(t)
			for _, p := range refcodec.Arr(tm["Partitions"]) {
				tps = append(tps, c12TP{refcodec.Str(tm["Name"]), int32(refcodec.Int(refcodec.Map(p)["PartitionIndex"]))})
			}
		}
	case 15:
		for _, g := range refcodec.Arr(b["Groups"]) {
			keys = append(keys, "g:"+refcodec.Str(g))
		}
	case 42:
		for _, g := range refcodec.Arr(b["GroupsNames"]) {
			keys = append(keys, "g:"+refcodec.Str(g))
		}
	case 8, 9, 11, 12, 13, 14, 47, 28:
		keys = append(keys, "g:"+refcodec.Str(b["GroupId"]))
	case 22, 24, 25, 26:
		if b["TransactionalId"] != nil {
			keys = append(keys, "x:"+refcodec.Str(b["TransactionalId"]))
		}
	}
	for _, tp := range tps {
		keys = append(keys, fmt.Sprintf("tp:%s/%d", tp.Topic, tp.Part))
	}
	return
}

type c12Monitor struct {
	k     *core.Case
	e     *c12Env
	views []*c12View
	taps  map[int64][]fakenet.TapEvent
	st    *c12Stats
	hist  string
	// failedFirst: a metadata request of the pool went unanswered before the first response was delivered
	failedFirst bool
}

func (m *c12Monitor) tapOf(ev *fakecluster.Event) []fakenet.TapEvent {
	if t, ok := m.taps[ev.ConnID]; ok {
		return t
	}
	t := ev.Conn.Peer().Tap()
	m.taps[ev.ConnID] = t
	return t
}

func (m *c12Monitor) writeAt(ev *fakecluster.Event) (int64, time.Time) {
	for _, te := range m.tapOf(ev) {
		if te.Write && te.Off <= ev.ReqStart && ev.ReqStart < te.Off+int64(te.N) {
			return te.Seq, te.Wall
		}
	}
	return 0, time.Time{}
}

func (m *c12Monitor) deliveredAt(ev *fakecluster.Event) (int64, time.Time, bool) {
	if ev.RespEnd <= ev.RespStart {
		return 0, time.Time{}, false
	}
	for _, te := range m.tapOf(ev) {
		if !te.Write && te.Off < ev.RespEnd && ev.RespEnd <= te.Off+int64(te.N) {
			return te.Seq, te.Wall, true
		}
	}
	return 0, time.Time{}, false
}

// served returns how many metadata responses had been delivered to the pool before logical time t.
func (m *c12Monitor) served(t int64) int {
	return sort.Search(len(m.views), func(i int) bool { return m.views[i].Deliv >= t })
}

func (m *c12Monitor) view(serial int) *c12View { return m.views[serial-1] }

// lower returns the oldest served response the pool can still have been using at logical time t0 (the start of a
// call): the one before the last one delivered before t0, or an older one if that one may have been dropped;
// ok=false: the pool may have had no metadata at all.
func (m *c12Monitor) lower(t0 int64) (int, bool) {
	base := m.served(t0) - 1
	if base < 1 {
		if m.failedFirst {
			return 0, false // the pool became ready on a failed metadata attempt, without any layout
		}
		base = 1 // calls wait for the first update
	}
	if base > len(m.views) {
		base = len(m.views)
	}
	for s := base; s >= 1; s-- {
		if !m.view(s).Suspect {
			return s, true
		}
	}
	return 0, false
}

// window-class verdicts depend on the lower bracket of the pool's view: they are only reported when a second run
// of the same scenario draws a verdict with the same key again (runC12).
func (m *c12Monitor) windowViol(key, what string, witness any) {
	if b, err := json.Marshal(witness); err == nil {
		m.k.Logf("WINDOW %s key=%s %s :: %s", m.k.ID, key, what, b)
	}
	m.k.Count("window_verdicts", 1)
	m.st.window = append(m.st.window, c12Verdict{key, what, witness})
}

func (m *c12Monitor) viewsBrief(lo, hi int, tps []c12TP) []string {
	var out []string
	for s := lo; s <= hi && s <= len(m.views); s++ {
		if s < 1 {
			continue
		}
		v := m.view(s)
		var sb strings.Builder
		fmt.Fprintf(&sb, "#%d(v%d) controller=%d brokers=", s, v.Ver, v.Controller)
		for _, id := range v.BrokerIDs {
			fmt.Fprintf(&sb, "%d@%s ", id, v.Brokers[id].Addr)
		}
		for _, tp := range tps {
			if l, ok := v.leader(tp.Topic, tp.Part); ok {
				fmt.Fprintf(&sb, "leader(%s/%d)=%d ", tp.Topic, tp.Part, l)
			} else {
				fmt.Fprintf(&sb, "leader(%s/%d)=none ", tp.Topic, tp.Part)
			}
		}
		out = append(out, strings.TrimSpace(sb.String()))
		if len(out) >= 8 {
			break
		}
	}
	return out
}

func (m *c12Monitor) explainLeader(tps []c12TP, addr string, lo, hi int) bool {
	for s1 := lo; s1 <= hi; s1++ {
		v1 := m.view(s1)
		var leaders []int32
		for _, tp := range tps {
			if l, ok := v1.leader(tp.Topic, tp.Part); ok {
				leaders = append(leaders, l)
			}
		}
		if len(leaders) == 0 {
			return true // this view designates no broker for the request
		}
		for s2 := lo; s2 <= hi; s2++ {
			v2 := m.view(s2)
			ok := true
			for _, l := range leaders {
				if a, has := v2.addr(l); !has || a != addr {
					ok = false
					break
				}
			}
			if ok {
				return true
			}
		}
	}
	return false
}

func (m *c12Monitor) explainController(addr string, lo, hi int) bool {
	for s1 := lo; s1 <= hi; s1++ {
		v1 := m.view(s1)
		if _, ok := v1.Brokers[v1.Controller]; v1.Controller < 0 || !ok {
			return true
		}
		for s2 := lo; s2 <= hi; s2++ {
			if a, ok := m.view(s2).addr(v1.Controller); ok && a == addr {
				return true
			}
		}
	}
	return false
}

func (m *c12Monitor) explainNodes(ids []int32, addr string, lo, hi int) bool {
	for s := lo; s <= hi; s++ {
		v := m.view(s)
		for _, id := range ids {
			if a, ok := v.addr(id); ok && a == addr {
				return true
			}
		}
	}
	return false
}

func c12Check(k *core.Case, e *c12Env) *c12Stats {
	c := k.Ctx
	st := &c12Stats{sigs: map[string]bool{}}
	m := &c12Monitor{k: k, e: e, taps: map[int64][]fakenet.TapEvent{}, st: st}
	for kind := range e.kinds {
		st.kinds = append(st.kinds, kind)
	}
	sort.Strings(st.kinds)
	m.hist = strings.Join(st.kinds, "+")
	journal := e.cl.Journal()

	// ---- the metadata responses served to the pool, in delivery order
	for _, ev := range journal {
		if ev.API != fakecluster.KMetadata || ev.Conn == nil {
			continue
		}
		if ev.Resp == nil {
			if len(m.views) == 0 {
				m.failedFirst = true
			}
			continue
		}
		d, dw, ok := m.deliveredAt(ev)
		if !ok {
			if len(m.views) == 0 {
				m.failedFirst = true
			}
			continue
		}
		v := c12MakeView(ev)
		v.Deliv = d
		_, ww := m.writeAt(ev)
		if ww.IsZero() {
			v.Suspect = true
		} else {
			v.Latency = dw.Sub(ww)
			if v.Latency > 5*time.Millisecond {
				v.Suspect = true
			}
			for _, st := range e.stalls {
				if st[1].After(ww.Add(-10*time.Millisecond)) && st[0].Before(dw.Add(5*time.Millisecond)) {
					v.Suspect = true
				}
			}
		}
		if v.Suspect {
			c.Count("metadata_responses_possibly_dropped", 1)
		}
		m.views = append(m.views, v)
	}
	sort.Slice(m.views, func(i, j int) bool { return m.views[i].Deliv < m.views[j].Deliv })
	for i, v := range m.views {
		v.Serial = i + 1
	}
	st.views = len(m.views)
	c.Count("metadata_refreshes", int64(len(m.views)))
	c.Count("leader_moves", int64(len(e.moves)))
	if len(e.stalls) > 0 {
		c.Count("scenarios_with_scheduling_stalls", 1)
	}
	for _, b := range e.cfg.Brokers {
		if len(b.Capped) > 0 {
			st.cappedSeen = true
		}
	}

	// ---- FindCoordinator answers the pool received
	var fcs []c12FC
	for _, ev := range journal {
		if ev.API != fakecluster.KFindCoordinator || ev.Conn == nil || ev.Body == nil || ev.Resp == nil {
			continue
		}
		d, _, ok := m.deliveredAt(ev)
		if !ok {
			continue
		}
		f := c12FC{Key: refcodec.Str(ev.Body["Key"]), Typ: -1, Node: int32(refcodec.Int(ev.Resp["NodeId"])), Err: int(refcodec.Int(ev.Resp["ErrorCode"])), Deliv: d}
		if ev.Version >= 1 {
			f.Typ = int(refcodec.Int(ev.Body["KeyType"]))
		}
		fcs = append(fcs, f)
	}

	// ---- calls by api
	callsByAPI := map[int][]*c12Call{}
	for _, cl := range e.calls {
		for _, a := range cl.APIs {
			callsByAPI[a] = append(callsByAPI[a], cl)
		}
	}
	overlap := func(a, b []string) bool {
		if len(a) == 0 || len(b) == 0 {
			return true
		}
		for _, x := range a {
			for _, y := range b {
				if x == y {
					return true
				}
			}
		}
		return false
	}
	// start of the earliest call that can have issued the request written at w
	callStart := func(api int, keys []string, w int64) (int64, bool) {
		best := int64(math.MaxInt64)
		for pass := 0; pass < 2 && best == math.MaxInt64; pass++ {
			for _, cl := range callsByAPI[api] {
				if cl.T0 >= w || !overlap(cl.Keys, keys) {
					continue
				}
				if pass == 0 && cl.T1 < w && !strings.Contains(cl.Err, "context deadline exceeded") && !strings.Contains(cl.Err, "context canceled") {
					continue // had returned before the request was written, and not by giving up on a request still queued
				}
				if cl.T0 < best {
					best = cl.T0
				}
			}
		}
		return best, best != math.MaxInt64
	}

	type evInfo struct {
		ev    *fakecluster.Event
		addr  string
		w     int64
		t0    int64
		tps   []c12TP
		keys  []string
		lo    int
		hi    int
		class string
	}
	var routed, listGroupsAt []evInfo
	firstOnConn := map[int64]bool{}
	splitCount := map[int]int{}
	for _, ev := range journal {
		if ev.Conn == nil {
			continue
		}
		name := c12APIName(ev.API)
		addr := ev.Conn.LocalAddr().String()
		if !firstOnConn[ev.ConnID] {
			firstOnConn[ev.ConnID] = true
			if ev.API == fakecluster.KApiVersions {
				c.Count("connections_negotiated", 1)
				continue // the negotiation itself
			}
		}
		// ---- version
		table := e.tables[addr]
		vr, adv := table[ev.API]
		vclass := c12VersionClass(ev.API, vr, adv)
		_, cmax := c12ClientRange(ev.API)
		c.Count(fmt.Sprintf("requests:%s:v%d", name, ev.Version), 1)
		c.Count("version_class:"+vclass, 1)
		if c12Overlap(vclass) {
			want := cmax
			if vr.Max < want {
				want = vr.Max
			}
			if ev.Version != want {
				what := "not-highest-common"
				if ev.Version > vr.Max {
					what = "above-broker-max"
				} else if ev.Version < vr.Min {
					what = "below-broker-min"
				}
				k.Viol(fmt.Sprintf("c12:version:%s:%s", name, what),
					fmt.Sprintf("%s was sent at v%d to broker %d (%s), which advertises v%d..v%d; the client supports up to v%d, so v%d is the highest common version", name, ev.Version, ev.Broker, addr, vr.Min, vr.Max, cmax, want),
					map[string]any{"api": name, "version": ev.Version, "broker": ev.Broker, "address": addr, "advertised": fmt.Sprintf("%d..%d", vr.Min, vr.Max), "client_max": cmax, "conn": ev.ConnID})
			}
		} else {
			c.Count("requests_no_common_version", 1)
		}
		class := c12RouteClass(ev.API)
		st.sigs[fmt.Sprintf("%s|%s|%s|%s", name, class, vclass, m.hist)] = true
		if ev.API == fakecluster.KMetadata {
			continue
		}
		if ev.Body == nil || ev.Problem != "" {
			c.Count("requests_not_decoded_by_broker", 1)
			continue
		}
		w, _ := m.writeAt(ev)
		if w == 0 {
			c.Count("requests_without_write_time", 1)
			continue
		}
		tps, keys := c12EvKeys(ev)
		splitCount[ev.API]++
		c.Count("routed:"+class, 1)
		if class == "any" && ev.API != fakecluster.KListGroups {
			continue
		}
		if ev.API == fakecluster.KListGroups {
			listGroupsAt = append(listGroupsAt, evInfo{ev: ev, addr: addr, w: w})
			continue
		}
		t0, ok := callStart(ev.API, keys, w)
		if !ok {
			c.Count("requests_not_matched_to_a_call", 1)
			continue
		}
		hi := m.served(w)
		lo, sure := m.lower(t0)
		if hi < 1 || !sure {
			c.Count("requests_while_pool_state_uncertain", 1)
			continue
		}
		if lo > hi {
			lo = hi
		}
		routed = append(routed, evInfo{ev, addr, w, t0, tps, keys, lo, hi, class})
	}
	c.Count("split_subrequests:ListOffsets", int64(splitCount[fakecluster.KListOffsets]))
	c.Count("split_subrequests:ListGroups", int64(splitCount[fakecluster.KListGroups]))
	c.Count("split_subrequests:DescribeGroups", int64(splitCount[fakecluster.KDescribeGroups]))

	// ---- routing
	for _, x := range routed {
		ev := x.ev
		name := c12APIName(ev.API)
		wit := func(extra map[string]any) map[string]any {
			w := map[string]any{"api": name, "version": ev.Version, "received_by_broker": ev.Broker, "received_at_address": x.addr, "conn": ev.ConnID, "keys": x.keys,
				"request_written_at": x.w, "call_started_at": x.t0, "admissible_metadata_serials": fmt.Sprintf("%d..%d", x.lo, x.hi),
				"admissible_views": m.viewsBrief(x.lo, x.hi, x.tps)}
			for k2, v := range extra {
				w[k2] = v
			}
			return w
		}
		switch x.class {
		case "leader":
			st.checked++
			if !m.explainLeader(x.tps, x.addr, 1, x.hi) {
				k.Viol(fmt.Sprintf("c12:routing:%s:not-to-leader", name),
					fmt.Sprintf("%s for %v reached broker %d (%s), which no metadata response served to the pool so far designates as the leader of all its partitions", name, x.keys, ev.Broker, x.addr),
					wit(map[string]any{"all_views": m.viewsBrief(1, x.hi, x.tps)}))
			} else if !m.explainLeader(x.tps, x.addr, x.lo, x.hi) {
				m.windowViol(fmt.Sprintf("c12:routing:%s:not-to-leader", name),
					fmt.Sprintf("%s for %v reached broker %d (%s); the metadata responses the pool can have been using (serials %d..%d) designate another broker", name, x.keys, ev.Broker, x.addr, x.lo, x.hi), wit(nil))
			}
		case "controller":
			st.checked++
			if !m.explainController(x.addr, 1, x.hi) {
				k.Viol(fmt.Sprintf("c12:routing:%s:not-to-controller", name),
					fmt.Sprintf("%s reached broker %d (%s), which no metadata response served so far names as the controller", name, ev.Broker, x.addr), wit(map[string]any{"all_views": m.viewsBrief(1, x.hi, nil)}))
			} else if !m.explainController(x.addr, x.lo, x.hi) {
				m.windowViol(fmt.Sprintf("c12:routing:%s:not-to-controller", name),
					fmt.Sprintf("%s reached broker %d (%s); the admissible metadata responses (serials %d..%d) name another controller", name, ev.Broker, x.addr, x.lo, x.hi), wit(nil))
			}
		case "group", "txn":
			st.checked++
			typ := 0
			if x.class == "txn" {
				typ = 1
			}
			var fresh, ids []int32
			anyGoes := false
			var freshDesc []string
			for _, f := range fcs {
				if f.Deliv <= x.t0 || f.Deliv >= x.w || (f.Typ != -1 && f.Typ != typ) {
					continue
				}
				match := false
				for _, key := range x.keys {
					if key[2:] == f.Key {
						match = true
					}
				}
				if !match {
					continue
				}
				if f.Err != 0 || f.Node < 0 {
					anyGoes = true
				}
				fresh = append(fresh, f.Node)
				freshDesc = append(freshDesc, fmt.Sprintf("key=%s type=%d -> node %d (delivered at %d)", f.Key, f.Typ, f.Node, f.Deliv))
			}
			if anyGoes {
				c.Count("routing_coordinator_lookup_failed", 1)
				continue
			}
			lookup := "during the call the pool received these FindCoordinator answers for the key: " + strings.Join(freshDesc, "; ")
			ids = fresh
			if len(fresh) == 0 {
				// no lookup of the right key and key type during the call: only right if the receiver happens to be the coordinator
				lookup = "the pool received no FindCoordinator answer for that key and key type during the call"
				e.cmu.Lock()
				for _, key := range x.keys {
					log := e.coordLog[fmt.Sprintf("%d:%s", typ, key[2:])]
					for i, ch := range log {
						end := int64(math.MaxInt64)
						if i+1 < len(log) {
							end = log[i+1].Tick
						}
						if ch.Tick < x.w && end > x.t0 {
							ids = append(ids, ch.ID)
						}
					}
				}
				e.cmu.Unlock()
				c.Count("coordinator_requests_without_lookup", 1)
			}
			role := "group coordinator"
			if typ == 1 {
				role = "transaction coordinator"
			}
			if !m.explainNodes(ids, x.addr, 1, x.hi) {
				k.Viol(fmt.Sprintf("c12:routing:%s:not-to-coordinator", name),
					fmt.Sprintf("%s for %v reached broker %d (%s), not the %s (node(s) %v); %s", name, x.keys, ev.Broker, x.addr, role, ids, lookup),
					wit(map[string]any{"coordinator_nodes": ids, "lookups": freshDesc}))
			} else if len(fresh) == 0 && !m.explainNodes(ids, x.addr, x.lo, x.hi) {
				// (no lookup at all: the verdict does not hinge on which response the pool was using)
				k.Viol(fmt.Sprintf("c12:routing:%s:not-to-coordinator", name),
					fmt.Sprintf("%s for %v reached %s, which the admissible metadata responses (serials %d..%d) do not give as the address of the %s (node(s) %v); %s", name, x.keys, x.addr, x.lo, x.hi, role, ids, lookup),
					wit(map[string]any{"coordinator_nodes": ids}))
			} else if !m.explainNodes(ids, x.addr, x.lo, x.hi) {
				m.windowViol(fmt.Sprintf("c12:routing:%s:not-to-coordinator", name),
					fmt.Sprintf("%s for %v reached %s, an address that the admissible metadata responses (serials %d..%d) do not give for the %s node(s) %v; %s", name, x.keys, x.addr, x.lo, x.hi, role, ids, lookup),
					wit(map[string]any{"coordinator_nodes": ids, "lookups": freshDesc}))
			} else if len(fresh) == 0 {
				c.Count("coordinator_requests_without_lookup_lucky", 1)
			}
		}
	}

	// ---- leader moves: two served responses reflecting the move, then nothing for the partition reaches the old leader
	for i, mv := range e.moves {
		if mv.OldAddr == "" {
			continue
		}
		next := int64(math.MaxInt64)
		for _, o := range e.moves[i+1:] {
			if o.Topic == mv.Topic && o.Part == mv.Part {
				next = o.Tick
				break
			}
		}
		var d2 int64
		n := 0
		for _, v := range m.views {
			if v.ReqSeq <= mv.Tick {
				continue
			}
			if l, ok := v.leader(mv.Topic, mv.Part); !ok || l != mv.NewID {
				n = 0 // (moved again, or the new leader is not listed)
				continue
			}
			if v.Suspect {
				continue
			}
			if n++; n == 2 {
				d2 = v.Deliv
				break
			}
		}
		if d2 == 0 || d2 >= next {
			continue
		}
		c.Count("leader_moves_followed_by_two_refreshes", 1)
		for _, x := range routed {
			if x.class != "leader" || x.addr != mv.OldAddr || x.t0 <= d2 || x.w >= next {
				continue
			}
			hit := false
			for _, tp := range x.tps {
				if tp.Topic == mv.Topic && tp.Part == mv.Part {
					hit = true
				}
			}
			for s := x.lo; s <= x.hi; s++ {
				// (only while every admissible response still names the new leader: the partition may have lost it since)
				if l, ok := m.view(s).leader(mv.Topic, mv.Part); !ok || l != mv.NewID {
					hit = false
				}
			}
			if !hit {
				continue
			}
			name := c12APIName(x.ev.API)
			m.windowViol("c12:stale-leader:"+name,
				fmt.Sprintf("%s/%d moved from broker %d (%s) to broker %d at logical time %d; the pool was served two metadata responses showing the new leader (the second at %d), yet a %s call started at %d still reached the old leader", mv.Topic, mv.Part, mv.OldID, mv.OldAddr, mv.NewID, mv.Tick, d2, name, x.t0),
				map[string]any{"move": mv, "second_reflecting_response_delivered_at": d2, "call_started_at": x.t0, "request_written_at": x.w, "received_at": x.addr, "views": m.viewsBrief(x.lo, x.hi, x.tps)})
		}
	}

	// ---- ListGroups goes to every broker
	for _, cl := range e.calls {
		if cl.Name != "ListGroups" || cl.Err != "" {
			continue
		}
		alone := true
		for _, o := range e.calls {
			if o != cl && o.Name == "ListGroups" && o.T0 < cl.T1 && cl.T0 < o.T1 {
				alone = false
			}
		}
		if !alone {
			continue
		}
		got := map[string]bool{}
		for _, x := range listGroupsAt {
			if x.w > cl.T0 && x.w < cl.T1 {
				got[x.addr] = true
			}
		}
		hi := m.served(cl.T1)
		lo, sure := m.lower(cl.T0)
		if !sure || hi < lo {
			continue
		}
		// every broker of one admissible response was reached, each at an address an admissible response gives for it
		// (the sub-requests look their connections up one after the other)
		match := func(lo, hi int) bool {
			for s1 := lo; s1 <= hi; s1++ {
				v1 := m.view(s1)
				used := map[string]bool{}
				ok := true
				for _, id := range v1.BrokerIDs {
					found := false
					for s2 := lo; s2 <= hi; s2++ {
						if a, has := m.view(s2).addr(id); has && got[a] {
							used[a] = true
							found = true
						}
					}
					if !found {
						ok = false
					}
				}
				if ok && len(used) == len(got) {
					return true
				}
			}
			return false
		}
		var addrs []string
		for a := range got {
			addrs = append(addrs, a)
		}
		sort.Strings(addrs)
		wit := map[string]any{"received_at": addrs, "views": m.viewsBrief(lo, hi, nil), "call": cl}
		if !match(1, hi) {
			k.Viol("c12:routing:ListGroups:not-every-broker", fmt.Sprintf("a successful ListGroups call reached %v, which is the broker set of no metadata response served so far", addrs), wit)
		} else if !match(lo, hi) {
			m.windowViol("c12:routing:ListGroups:not-every-broker", fmt.Sprintf("a successful ListGroups call reached %v, not the broker set of an admissible metadata response (serials %d..%d)", addrs, lo, hi), wit)
		}
		c.Count("listgroups_fanouts_checked", 1)
	}

	// ---- Client.Metadata(filter) served from the cache
	for _, cl := range e.calls {
		if !cl.IsMeta || cl.Err != "" || cl.MetaRes == nil {
			continue
		}
		hi := m.served(cl.T1)
		lo, sure := m.lower(cl.T0)
		if !sure || hi < lo {
			continue
		}
		c.Count("metadata_cache_probes", 1)
		gotB, gotC, gotT := c12RenderResult(cl.MetaRes)
		best, bestWhat, bestWant := -1, "", ""
		try := func(lo, hi int) bool {
			for s := hi; s >= lo; s-- {
				wb, wc, wt := c12RenderView(m.view(s), cl.Filter)
				score, what, want := 0, "", ""
				if wt == gotT {
					score++
				} else {
					what, want = "topics", wt
				}
				if wc == "" || wc == gotC {
					score++
				} else {
					what, want = "controller", wc
				}
				if wb == gotB {
					score++
				} else {
					what, want = "brokers", wb
				}
				if score == 3 {
					return true
				}
				if score > best {
					best, bestWhat, bestWant = score, what, want
				}
			}
			return false
		}
		got := map[string]string{"brokers": gotB, "controller": gotC, "topics": gotT}
		if !try(1, hi) {
			k.Viol("c12:metadata-cache:"+bestWhat, fmt.Sprintf("Client.Metadata(%q) returned %s = %s; no metadata response served so far, restricted to the filter, gives that (closest: %s)", cl.Filter, bestWhat, got[bestWhat], bestWant),
				map[string]any{"filter": cl.Filter, "returned": got, "closest_expected_" + bestWhat: bestWant, "served_so_far": hi})
		} else if best = -1; !try(lo, hi) {
			m.windowViol("c12:metadata-cache:"+bestWhat, fmt.Sprintf("Client.Metadata(%q) returned %s = %s; the admissible served responses (serials %d..%d) give %s", cl.Filter, bestWhat, got[bestWhat], lo, hi, bestWant),
				map[string]any{"filter": cl.Filter, "returned": got, "expected_" + bestWhat: bestWant})
		}
	}
	c.Count("requests_routing_checked", int64(st.checked))
	return st
}

func c12RenderBroker(id int, host string, port int, rack string) string {
	return fmt.Sprintf("%d@%s:%d/%s", id, host, port, rack)
}

func c12ErrCode(err error) int {
	if err == nil {
		return 0
	}
	var ke kafka.Error
	if errors.As(err, &ke) {
		return int(ke)
	}
	return -999
}

func c12RenderResult(r *kafka.MetadataResponse) (brokers, controller, topics string) {
	rb := func(b kafka.Broker) string { return c12RenderBroker(b.ID, b.Host, b.Port, b.Rack) }
	var bs []string
	for _, b := range r.Brokers {
		bs = append(bs, rb(b))
	}
	brokers = strings.Join(bs, " ")
	controller = rb(r.Controller)
	var ts []string
	for _, t := range r.Topics {
		var sb strings.Builder
		fmt.Fprintf(&sb, "%s(int=%v err=%d)[", t.Name, t.Internal, c12ErrCode(t.Error))
		for _, p := range t.Partitions {
			fmt.Fprintf(&sb, "%d:L=%s R=", p.ID, rb(p.Leader))
			for _, b := range p.Replicas {
				sb.WriteString(rb(b) + ",")
			}
			sb.WriteString(" I=")
			for _, b := range p.Isr {
				sb.WriteString(rb(b) + ",")
			}
			fmt.Fprintf(&sb, " e=%d t=%s; ", c12ErrCode(p.Error), p.Topic)
		}
		sb.WriteString("]")
		ts = append(ts, sb.String())
	}
	topics = strings.Join(ts, " ")
	return
}

// c12RenderView renders what Client.Metadata(filter) must return when the cache holds v
// (controller "" = not comparable: metadata v0 carries no controller).
func c12RenderView(v *c12View, filter []string) (brokers, controller, topics string) {
	rb := func(id int32) string {
		b, ok := v.Brokers[id]
		if !ok {
			return c12RenderBroker(0, "", 0, "")
		}
		return c12RenderBroker(int(id), b.Host, b.Port, b.Rack)
	}
	var bs []string
	for _, id := range v.BrokerIDs {
		bs = append(bs, rb(id))
	}
	brokers = strings.Join(bs, " ")
	if v.Ver >= 1 {
		controller = rb(v.Controller)
	}
	// leaders, replicas and in-sync replicas that are not in the broker list keep their id
	// (Partition doc: "The logical broker ID is always set to the value known to the kafka cluster")
	rbc := rb
	rb = func(id int32) string {
		if _, ok := v.Brokers[id]; !ok {
			return c12RenderBroker(int(id), "", 0, "")
		}
		return rbc(id)
	}
	names := filter
	if filter == nil {
		for n := range v.Topics {
			names = append(names, n)
		}
		sort.Strings(names)
	}
	var ts []string
	for _, n := range names {
		t := v.Topics[n]
		if t == nil {
			ts = append(ts, fmt.Sprintf("%s(int=false err=3)[]", n))
			continue
		}
		var sb strings.Builder
		fmt.Fprintf(&sb, "%s(int=%v err=%d)[", n, t.Internal, t.Err)
		for _, id := range t.PartIDs {
			p := t.Parts[id]
			fmt.Fprintf(&sb, "%d:L=%s R=", id, rb(p.Leader))
			for _, b := range p.Replicas {
				sb.WriteString(rb(b) + ",")
			}
			sb.WriteString(" I=")
			for _, b := range p.Isr {
				sb.WriteString(rb(b) + ",")
			}
			fmt.Fprintf(&sb, " e=%d t=%s; ", p.Err, n)
		}
		sb.WriteString("]")
		ts = append(ts, sb.String())
	}
	topics = strings.Join(ts, " ")
	return
}
