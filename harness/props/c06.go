package props

import (
	"context"
	"errors"
	"fmt"
	"io"
	"runtime"
	"strings"
	"sync"
	"sync/atomic"
	"time"

	kafka "github.com/segmentio/kafka-go"
	"github.com/segmentio/kafka-go/protocol"
	"github.com/segmentio/kafka-go/protocol/fetch"
	"github.com/segmentio/kafka-go/protocol/findcoordinator"
	"github.com/segmentio/kafka-go/protocol/listoffsets"
	"github.com/segmentio/kafka-go/protocol/produce"

	"verifharness/core"
	"verifharness/fakecluster"
	"verifharness/fakenet"
	"verifharness/refcodec"
)

// C06 — A response is only ever delivered to the call that sent the request.

func init() {
	core.Register(&core.Prop{
		ID:    "C06",
		Level: "exploration",
		Rule: "every call asks for something only it asks for and the broker's answer is a function h of the request: ListOffsets(timestamp T) -> h(T), ReadPartitions(topic q_i) -> i+1 partitions named q_i, FindCoordinator(key) -> host h(key), Produce(unique values) -> the log holds them at the returned offset, Fetch/ReadBatch -> every record's value spells its offset. conn list: 2-16 goroutines share one kafka.Conn mixing those calls with deadline changes and expiry; the broker answers promptly, late, and (hostile sub-list, counted separately) out of request order. transport list: 2-64 goroutines call Transport.RoundTrip with random context cancellation, deadlines, cuts mid-response, responses arriving after the caller gave up, idle timeout 5 ms. Oracle: every returned call has an error or the answer to its own request. " +
			"signature = (path, goroutines bucket, call kinds, broker mode, cancellations/cuts seen); non-trivial = at least two calls overlapped in time",
		Assumptions: []string{
			"the fake broker's answer is made a function of the request by rewriting the response in the scenario script; the function is injective over the tags used in one scenario",
			"hooks conn.waitResponse.foreign and transport.conn.afterRoundTrip only add delays and count how often the window was reached",
		},
		Shards:          16,
		CaseTimeout:     60 * time.Second,
		HangIsViolation: true,
		Run:             runC06,
	})
}

func c06h(t int64) int64 { return (t*2654435761 + 12345) % 1000000007 }

var c06Foreign, c06AfterRT int64

func c06Script(cl *fakecluster.Cluster, r *core.Rand, mode string, cutPct int) func(rc *fakecluster.ReqCtx) *fakecluster.Action {
	var mu sync.Mutex
	rr := r.Fork()
	return func(rc *fakecluster.ReqCtx) *fakecluster.Action {
		mu.Lock()
		delay := time.Duration(0)
		async := false
		cut := -1
		switch mode {
		case "delays":
			if rr.Chance(1, 3) {
				delay = time.Duration(rr.Intn(3000)) * time.Microsecond
			}
		case "reorder":
			if rr.Chance(1, 2) {
				delay = time.Duration(rr.Intn(2000)) * time.Microsecond
				async = true
			}
		}
		if cutPct > 0 && rr.Intn(100) < cutPct {
			cut = rr.Intn(40)
		}
		mu.Unlock()
		a := &fakecluster.Action{Delay: delay, Async: async}
		if cut >= 0 {
			a.Kind, a.CutAt, a.CutMode = fakecluster.ActCut, cut, fakenet.CutEOF
		}
		switch rc.Ev.API {
		case fakecluster.KListOffsets:
			// answer h(T) for every requested timestamp T >= 0
			ts := map[string]int64{}
			for _, t := range refcodec.Arr(rc.Body["Topics"]) {
				tm := refcodec.Map(t)
				for _, p := range refcodec.Arr(tm["Partitions"]) {
					pm := refcodec.Map(p)
					ts[fmt.Sprintf("%s/%d", refcodec.Str(tm["Name"]), refcodec.Int(pm["PartitionIndex"]))] = refcodec.Int(pm["Timestamp"])
				}
			}
			a.Mutate = func(resp map[string]any) {
				for _, t := range refcodec.Arr(resp["Topics"]) {
					tm := refcodec.Map(t)
					for _, p := range refcodec.Arr(tm["Partitions"]) {
						pm := refcodec.Map(p)
						if T := ts[fmt.Sprintf("%s/%d", refcodec.Str(tm["Name"]), refcodec.Int(pm["PartitionIndex"]))]; T >= 0 && refcodec.Int(pm["ErrorCode"]) == 0 {
							pm["Offset"] = c06h(T)
							pm["Timestamp"] = T
						}
					}
				}
			}
		case fakecluster.KFindCoordinator:
			key := refcodec.Str(rc.Body["Key"])
			if strings.HasPrefix(key, "tag-") {
				a.Mutate = func(resp map[string]any) { resp["Host"] = "h-" + key }
			}
		}
		return a
	}
}

func runC06(c *core.Ctx) {
	var tick uint64
	kafka.VerifSetPoints(map[string]func(){
		"conn.waitResponse.foreign": func() {
			atomic.AddInt64(&c06Foreign, 1)
			if n := atomic.AddUint64(&tick, 1); n%3 == 0 {
				time.Sleep(time.Duration(20+(n%5)*30) * time.Microsecond)
			}
		},
		"transport.conn.afterRoundTrip": func() {
			atomic.AddInt64(&c06AfterRT, 1)
			if n := atomic.AddUint64(&tick, 1); n%4 == 0 {
				time.Sleep(time.Duration(20+(n%7)*40) * time.Microsecond)
			}
		},
	})
	c.CasesPar("conn", c.N(3000, 200000), 4, func(k *core.Case) { c06Conn(k) })
	c.CasesPar("transport", c.N(2400, 150000), 4, func(k *core.Case) { c06Transport(k) })
	// one at a time: the bursts need the processors of the shard
	c.Cases("burst", c.N(64, 800), func(k *core.Case) { c06Burst(k) })
}

type c06Call struct {
	G        int
	Kind     string
	Tag      string
	T0, T1   int64
	Err      error
	Mismatch string
}

func c06Overlaps(calls []*c06Call) int {
	n := 0
	for i, a := range calls {
		for _, b := range calls[i+1:] {
			if a.G != b.G && a.T0 < b.T1 && b.T0 < a.T1 {
				n++
			}
		}
	}
	return n
}

func c06Conn(k *core.Case) {
	c := k.Ctx
	r := k.R
	mode := core.Pick(r, "prompt", "delays", "delays", "reorder")
	env := newConnEnv(map[int]int{fakecluster.KFetch: core.Pick(r, 2, 5, 10), fakecluster.KProduce: core.Pick(r, 2, 3, 7), fakecluster.KMetadata: core.Pick(r, 1, 6)})
	defer env.Cluster.Close()
	for i := 0; i < 16; i++ {
		env.Cluster.AddTopic(fmt.Sprintf("q%d", i), i+1, nil)
	}
	env.Cluster.Script = c06Script(env.Cluster, r, mode, 0)
	cn, err := env.dial()
	if err != nil {
		c.Inconclusive("dial: " + err.Error())
		return
	}
	defer cn.Close()
	cn.SetDeadline(time.Now().Add(5 * time.Second))
	g := r.Range(2, 16)
	per := r.Range(2, 12)
	shortDeadlines := r.Chance(1, 4)
	// a send buffer that drains slowly: while one caller is inside its write the others queue on the
	// connection's write lock (whatever they did before taking it is then exposed for a long time)
	slowWrites := time.Duration(core.Pick(r, 0, 0, 50, 200, 600)) * time.Microsecond
	env.Net.WriteDelay = slowWrites
	k.Describe(map[string]any{"path": "conn", "mode": mode, "goroutines": g, "calls_each": per, "short_deadlines": shortDeadlines, "write_delay": slowWrites.String()})
	var mu sync.Mutex
	var calls []*c06Call
	var wg sync.WaitGroup
	kinds := []string{"ReadOffset", "ReadOffset", "ReadPartitions", "ReadPartitions", "ReadFirstLast", "Brokers", "ReadBatch", "Write", "ApiVersions", "SetDeadline"}
	f0 := atomic.LoadInt64(&c06Foreign)
	for gi := 0; gi < g; gi++ {
		wg.Add(1)
		gr := r.Fork()
		go func(gi int) {
			defer wg.Done()
			for j := 0; j < per; j++ {
				kind := core.Pick(gr, kinds...)
				call := &c06Call{G: gi, Kind: kind}
				call.T0 = core.Tick()
				switch kind {
				case "ReadOffset":
					T := tsBase + int64(gi)*100000 + int64(j)*97 + 1
					call.Tag = fmt.Sprint(T)
					off, err := cn.ReadOffset(time.UnixMilli(T))
					call.Err = err
					if err == nil && off != c06h(T) {
						call.Mismatch = fmt.Sprintf("ReadOffset(%d) returned %d, the answer to this request is %d", T, off, c06h(T))
					}
				case "ReadPartitions":
					i := gr.Intn(16)
					topic := fmt.Sprintf("q%d", i)
					call.Tag = topic
					ps, err := cn.ReadPartitions(topic)
					call.Err = err
					if err == nil {
						if len(ps) != i+1 {
							call.Mismatch = fmt.Sprintf("ReadPartitions(%s) returned %d partitions, this topic has %d", topic, len(ps), i+1)
						}
						for _, p := range ps {
							if p.Topic != topic {
								call.Mismatch = fmt.Sprintf("ReadPartitions(%s) returned a partition of %s", topic, p.Topic)
							}
						}
					}
				case "ReadFirstLast":
					f, l, err := cn.ReadOffsets()
					call.Err = err
					if err == nil && (f != 0 || l < 12) {
						call.Mismatch = fmt.Sprintf("ReadOffsets returned first=%d last=%d, the log spans 0..>=12", f, l)
					}
				case "Brokers":
					bs, err := cn.Brokers()
					call.Err = err
					if err == nil && (len(bs) != 1 || bs[0].ID != 1) {
						call.Mismatch = fmt.Sprintf("Brokers returned %v", bs)
					}
				case "ApiVersions":
					vs, err := cn.ApiVersions()
					call.Err = err
					if err == nil && len(vs) < 10 {
						call.Mismatch = fmt.Sprintf("ApiVersions returned %d entries", len(vs))
					}
				case "ReadBatch":
					b := cn.ReadBatch(1, 1<<20)
					n := gr.Range(1, 6)
					for x := 0; x < n; x++ {
						m, err := b.ReadMessage()
						if err != nil {
							if !errors.Is(err, io.EOF) {
								call.Err = err
							}
							break
						}
						// every record of the partition spells its own offset
						want := fmt.Sprintf("value-%d", m.Offset)
						if m.Offset >= 12 {
							want = ""
						}
						if want != "" && string(m.Value) != want {
							call.Mismatch = fmt.Sprintf("ReadBatch delivered offset %d with value %q", m.Offset, m.Value)
						}
						if m.Offset >= 12 && !strings.HasPrefix(string(m.Value), "w") {
							call.Mismatch = fmt.Sprintf("ReadBatch delivered offset %d with value %q", m.Offset, m.Value)
						}
					}
					if err := b.Close(); err != nil && call.Err == nil {
						call.Err = err
					}
				case "Write":
					tag := fmt.Sprintf("w%d.%d", gi, j)
					call.Tag = tag
					_, _, off, _, err := cn.WriteCompressedMessagesAt(nil, kafka.Message{Value: []byte(tag + "a")}, kafka.Message{Value: []byte(tag + "b")})
					call.Err = err
					if err == nil {
						env.Cluster.Lock()
						recs := env.Cluster.Topics[connTopic].Partitions[0].Records
						ok := false
						for i, rec := range recs {
							if rec.Offset == off && string(rec.Value) == tag+"a" && i+1 < len(recs) && string(recs[i+1].Value) == tag+"b" {
								ok = true
							}
						}
						env.Cluster.Unlock()
						if !ok {
							call.Mismatch = fmt.Sprintf("WriteMessages(%s) was told base offset %d, the log holds other records there", tag, off)
						}
					}
				case "SetDeadline":
					if shortDeadlines && gr.Chance(1, 3) {
						cn.SetReadDeadline(time.Now().Add(time.Duration(gr.Intn(1500)) * time.Microsecond))
					} else {
						cn.SetDeadline(time.Now().Add(5 * time.Second))
					}
				}
				call.T1 = core.Tick()
				mu.Lock()
				calls = append(calls, call)
				mu.Unlock()
			}
		}(gi)
	}
	wg.Wait()
	c.Eval(1)
	nerr := 0
	kindsSeen := map[string]bool{}
	for _, cl := range calls {
		c.Count("conn_calls:"+cl.Kind, 1)
		kindsSeen[cl.Kind] = true
		if cl.Err != nil {
			nerr++
		}
		if cl.Mismatch != "" {
			key := "c06:conn:" + cl.Kind
			if mode == "reorder" {
				key += ":reordered-answers"
			}
			k.Viol(key, cl.Mismatch, map[string]any{"mode": mode, "goroutine": cl.G, "call": fmt.Sprintf("[%d,%d]", cl.T0, cl.T1)})
		}
	}
	ov := c06Overlaps(calls)
	c.Count("conn_calls_failed", int64(nerr))
	c.Count("conn_overlapping_call_pairs", int64(ov))
	c.Count("conn_foreign_response_at_head", atomic.LoadInt64(&c06Foreign)-f0)
	if ov > 0 {
		var ks []string
		for kd := range kindsSeen {
			ks = append(ks, kd)
		}
		sortStrings(ks)
		gb := g / 4
		c.Distinct(fmt.Sprintf("conn %s g%d %s short%v err%v", mode, gb, strings.Join(ks, ","), shortDeadlines, nerr > 0))
	}
	if k.Idx < 4 {
		c.Sample(map[string]any{"path": "conn", "mode": mode, "goroutines": g, "calls": len(calls), "failed": nerr, "overlapping_pairs": ov})
	}
}

func c06Transport(k *core.Case) {
	c := k.Ctx
	r := k.R
	mode := core.Pick(r, "prompt", "delays", "delays")
	cutPct := core.Pick(r, 0, 0, 5, 15)
	env := newConnEnv(map[int]int{fakecluster.KFetch: core.Pick(r, 4, 7, 11), fakecluster.KProduce: core.Pick(r, 3, 7, 8), fakecluster.KListOffsets: core.Pick(r, 1, 3, 5)})
	defer env.Cluster.Close()
	env.Cluster.Script = c06Script(env.Cluster, r, mode, cutPct)
	tr := &kafka.Transport{Dial: env.Net.Dialer("tr"), ClientID: "verif-c06", MetadataTTL: 50 * time.Millisecond, IdleTimeout: 5 * time.Millisecond, DialTimeout: 2 * time.Second}
	defer tr.CloseIdleConnections()
	g := core.Pick(r, 2, 4, 8, 16, 32, 64)
	per := r.Range(2, 8)
	cancels := r.Chance(1, 2)
	k.Describe(map[string]any{"path": "transport", "mode": mode, "cut_percent": cutPct, "goroutines": g, "calls_each": per, "cancellations": cancels})
	var mu sync.Mutex
	var calls []*c06Call
	var wg sync.WaitGroup
	a0 := atomic.LoadInt64(&c06AfterRT)
	kinds := []string{"ListOffsets", "ListOffsets", "FindCoordinator", "Produce", "Fetch"}
	for gi := 0; gi < g; gi++ {
		wg.Add(1)
		gr := r.Fork()
		go func(gi int) {
			defer wg.Done()
			for j := 0; j < per; j++ {
				kind := core.Pick(gr, kinds...)
				call := &c06Call{G: gi, Kind: kind}
				ctx, cancel := context.WithTimeout(context.Background(), 3*time.Second)
				if cancels {
					switch gr.Intn(4) {
					case 0:
						cancel()
						ctx, cancel = context.WithTimeout(context.Background(), time.Duration(gr.Intn(2000))*time.Microsecond)
					case 1:
						d := time.Duration(gr.Intn(1500)) * time.Microsecond
						go func(cf context.CancelFunc) { time.Sleep(d); cf() }(cancel)
					}
				}
				call.T0 = core.Tick()
				var req protocol.Message
				switch kind {
				case "ListOffsets":
					T := tsBase + int64(gi)*100000 + int64(j)*89 + 1
					call.Tag = fmt.Sprint(T)
					req = &listoffsets.Request{ReplicaID: -1, Topics: []listoffsets.RequestTopic{{Topic: connTopic, Partitions: []listoffsets.RequestPartition{{Partition: int32(gr.Intn(2)), Timestamp: T}}}}}
				case "FindCoordinator":
					call.Tag = fmt.Sprintf("tag-%d-%d", gi, j)
					req = &findcoordinator.Request{Key: call.Tag}
				case "Produce":
					call.Tag = fmt.Sprintf("w%d.%d", gi, j)
					req = &produce.Request{Acks: -1, Timeout: 1000, Topics: []produce.RequestTopic{{Topic: connTopic, Partitions: []produce.RequestPartition{{Partition: 1, RecordSet: protocol.RecordSet{
						Records: protocol.NewRecordReader(protocol.Record{Time: time.UnixMilli(tsBase), Value: protocol.NewBytes([]byte(call.Tag + "a"))}, protocol.Record{Time: time.UnixMilli(tsBase), Value: protocol.NewBytes([]byte(call.Tag + "b"))})}}}}}}
				case "Fetch":
					off := int64(gr.Intn(12))
					call.Tag = fmt.Sprint(off)
					req = &fetch.Request{ReplicaID: -1, MaxWaitTime: 5, MinBytes: 1, MaxBytes: 1 << 20, Topics: []fetch.RequestTopic{{Topic: connTopic, Partitions: []fetch.RequestPartition{{Partition: 0, FetchOffset: off, PartitionMaxBytes: 1 << 20}}}}}
				}
				res, err := tr.RoundTrip(ctx, kafka.TCP("b1:9092"), req)
				cancel()
				call.Err = err
				if err == nil {
					switch kind {
					case "ListOffsets":
						var T int64
						fmt.Sscan(call.Tag, &T)
						lr := res.(*listoffsets.Response)
						if len(lr.Topics) != 1 || len(lr.Topics[0].Partitions) != 1 {
							call.Mismatch = fmt.Sprintf("ListOffsets(%d): %d topics in the answer", T, len(lr.Topics))
						} else if p := lr.Topics[0].Partitions[0]; p.ErrorCode == 0 && p.Offset != c06h(T) {
							call.Mismatch = fmt.Sprintf("ListOffsets(timestamp %d) returned offset %d, the answer to this request is %d", T, p.Offset, c06h(T))
						}
					case "FindCoordinator":
						if fr := res.(*findcoordinator.Response); fr.ErrorCode == 0 && fr.Host != "h-"+call.Tag {
							call.Mismatch = fmt.Sprintf("FindCoordinator(%s) returned host %q", call.Tag, fr.Host)
						}
					case "Produce":
						pr := res.(*produce.Response)
						if len(pr.Topics) == 1 && len(pr.Topics[0].Partitions) == 1 && pr.Topics[0].Partitions[0].ErrorCode == 0 {
							off := pr.Topics[0].Partitions[0].BaseOffset
							env.Cluster.Lock()
							recs := env.Cluster.Topics[connTopic].Partitions[1].Records
							ok := false
							for i, rec := range recs {
								if rec.Offset == off && string(rec.Value) == call.Tag+"a" && i+1 < len(recs) && string(recs[i+1].Value) == call.Tag+"b" {
									ok = true
								}
							}
							env.Cluster.Unlock()
							if !ok {
								call.Mismatch = fmt.Sprintf("Produce(%s) was told base offset %d, the log holds other records there", call.Tag, off)
							}
						}
					case "Fetch":
						var off int64
						fmt.Sscan(call.Tag, &off)
						fr := res.(*fetch.Response)
						for _, t := range fr.Topics {
							for _, p := range t.Partitions {
								if p.RecordSet.Records == nil {
									continue
								}
								first := true
								for {
									rec, err := p.RecordSet.Records.ReadRecord()
									if err != nil {
										break
									}
									v, _ := protocol.ReadAll(rec.Value)
									if rec.Key != nil {
										rec.Key.Close()
									}
									if rec.Value != nil {
										rec.Value.Close()
									}
									if string(v) != fmt.Sprintf("value-%d", rec.Offset) {
										call.Mismatch = fmt.Sprintf("Fetch(offset %d) returned offset %d with value %q", off, rec.Offset, v)
									}
									// the first batch returned is the one containing the requested offset
									if first && (rec.Offset > off || rec.Offset < off-3) {
										call.Mismatch = fmt.Sprintf("Fetch(offset %d) returned records starting at offset %d", off, rec.Offset)
									}
									first = false
								}
							}
						}
					}
				}
				call.T1 = core.Tick()
				mu.Lock()
				calls = append(calls, call)
				mu.Unlock()
			}
		}(gi)
	}
	wg.Wait()
	c.Eval(1)
	nerr, ncancel := 0, 0
	for _, cl := range calls {
		c.Count("transport_calls:"+cl.Kind, 1)
		if cl.Err != nil {
			nerr++
			if errors.Is(cl.Err, context.Canceled) || errors.Is(cl.Err, context.DeadlineExceeded) {
				ncancel++
			}
		}
		if cl.Mismatch != "" {
			k.Viol("c06:transport:"+cl.Kind, cl.Mismatch, map[string]any{"mode": mode, "cut_percent": cutPct, "goroutine": cl.G, "call": fmt.Sprintf("[%d,%d]", cl.T0, cl.T1)})
		}
	}
	ov := c06Overlaps(calls)
	c.Count("transport_calls_failed", int64(nerr))
	c.Count("transport_calls_abandoned_by_context", int64(ncancel))
	c.Count("transport_overlapping_call_pairs", int64(ov))
	c.Count("transport_after_roundtrip_hook_hits", atomic.LoadInt64(&c06AfterRT)-a0)
	c.Count("transport_connections_opened", int64(len(env.Net.Conns())))
	if ov > 0 {
		c.Distinct(fmt.Sprintf("transport %s cut%d g%d cancel%v abandoned%v", mode, cutPct, g, cancels, ncancel > 0))
	}
	if k.Idx < 4 {
		c.Sample(map[string]any{"path": "transport", "mode": mode, "goroutines": g, "calls": len(calls), "failed": nerr, "abandoned": ncancel, "connections": len(env.Net.Conns()), "overlapping_pairs": ov})
	}
}

// c06Burst: rounds of 4 calls released on one Conn at the same instant by a spin barrier (windows of a
// few nanoseconds around the choice of the correlation id need truly simultaneous arrivals), answered in
// shuffled order. Every call asks for the offset of a timestamp only it uses.
func c06Burst(k *core.Case) {
	c := k.Ctx
	r := k.R
	env := newConnEnv(map[int]int{})
	defer env.Cluster.Close()
	env.Cluster.Script = c06Script(env.Cluster, r, "reorder", 0)
	cn, err := env.dial()
	if err != nil {
		c.Inconclusive("dial: " + err.Error())
		return
	}
	defer cn.Close()
	// the spinning callers need a processor each (shards normally run with two)
	defer runtime.GOMAXPROCS(runtime.GOMAXPROCS(8))
	rounds, g := 300, 4
	k.Describe(map[string]any{"path": "conn-burst", "rounds": rounds, "goroutines": g})
	mismatches, failures := 0, 0
	var first string
	for round := 0; round < rounds; round++ {
		cn.SetDeadline(time.Now().Add(5 * time.Second))
		var ready, fire int32
		var wg sync.WaitGroup
		var mu sync.Mutex
		for gi := 0; gi < g; gi++ {
			wg.Add(1)
			go func(gi int) {
				defer wg.Done()
				T := tsBase + int64(round)*1000 + int64(gi)*7 + 1
				atomic.AddInt32(&ready, 1)
				for atomic.LoadInt32(&fire) == 0 {
				}
				off, err := cn.ReadOffset(time.UnixMilli(T))
				mu.Lock()
				defer mu.Unlock()
				if err != nil {
					failures++
				} else if off != c06h(T) {
					mismatches++
					if first == "" {
						first = fmt.Sprintf("round %d: ReadOffset(%d) returned %d, the answer to this request is %d", round, T, off, c06h(T))
					}
				}
			}(gi)
		}
		for atomic.LoadInt32(&ready) < int32(g) {
			runtime.Gosched()
		}
		atomic.StoreInt32(&fire, 1)
		wg.Wait()
		if failures > 0 {
			break // the connection is gone (a misdelivery can also surface as a decode error)
		}
	}
	c.Eval(rounds * g)
	c.Count("burst_calls", int64(rounds*g))
	c.Count("burst_calls_failed", int64(failures))
	if mismatches > 0 {
		k.Viol("c06:conn:ReadOffset:burst", fmt.Sprintf("%d calls of simultaneous bursts on one Conn returned the answer to another call; %s", mismatches, first), nil)
	}
	c.Distinct("conn-burst")
}
