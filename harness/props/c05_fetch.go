package props

import (
	"bytes"
	"context"
	"errors"
	"fmt"
	"io"
	"runtime/debug"
	"strings"
	"sync"
	"sync/atomic"
	"time"

	kafka "github.com/segmentio/kafka-go"
	"github.com/segmentio/kafka-go/protocol"

	"verifharness/core"
	"verifharness/fakecluster"
	"verifharness/fakenet"
	"verifharness/refcodec"
)

// ---------------------------------------------------------------- layouts

type c05Unit struct {
	Magic, Codec int
	Base, Last   int64
	Recs         []refcodec.Rec // stored data records (none for a control batch)
	Control      bool
	Txn          bool
	Gaps         bool
	// Corrupt: "" | "inside" (one bit flipped inside the checksummed range) | "crc-field" (one bit of the
	// stored checksum flipped: outside the checksummed range, the batch is invalid) | "epoch" (one bit of the
	// partition leader epoch flipped: outside the checksummed range, the batch stays valid)
	Corrupt      string
	BadLo, BadHi int64 // offsets whose records must not be surfaced (Corrupt inside / crc-field)
	FlipBit      int
	Bytes        []byte
	msgPos       []int // legacy uncompressed: start of every message
}

func (u *c05Unit) bad() bool { return u.Corrupt == "inside" || u.Corrupt == "crc-field" }

func (u *c05Unit) class() string {
	s := fmt.Sprintf("m%d/%s", u.Magic, refcodec.CodecNames[u.Codec])
	if u.Control {
		s += "/control"
	}
	if u.Txn {
		s += "/txn"
	}
	if u.Gaps {
		s += "/gaps"
	}
	if u.Corrupt != "" {
		s += "/flip-" + u.Corrupt
	}
	return s
}

type c05LayoutCfg struct {
	N        int
	Mode     string // m0 | m1 | m2 | mixed
	MaxMagic int
	Split    string // one | each | random
	Controls bool
	Gaps     bool
	Txn      bool
	Corrupt  string
	Base     int64
	Big      int // how many page-sized values are allowed
	Headers  bool
}

type c05Layout struct {
	Cfg     c05LayoutCfg
	Units   []*c05Unit
	Truth   []refcodec.Rec
	Base    int64
	End     int64
	MaxUnit int
	unitOf  map[int64]int // offset of a stored data record -> unit index
	ctrl    map[int64]bool
}

func c05GenLayout(r *core.Rand, cfg c05LayoutCfg) *c05Layout {
	l := &c05Layout{Cfg: cfg, Base: cfg.Base, unitOf: map[int64]int{}, ctrl: map[int64]bool{}}
	off := cfg.Base
	remaining := cfg.N
	big := cfg.Big
	tsBase := int64(1500000000000) + r.Int63()%int64(1e11)
	for remaining > 0 {
		n := remaining
		switch cfg.Split {
		case "each":
			n = 1
		case "random":
			n = r.Range(1, remaining)
			if n > 12 && r.Bool() {
				n = r.Range(1, 12)
			}
		}
		remaining -= n
		magic := 2
		switch cfg.Mode {
		case "m0":
			magic = 0
		case "m1":
			magic = 1
		case "mixed":
			magic = r.Intn(cfg.MaxMagic + 1)
		}
		if magic > cfg.MaxMagic {
			magic = cfg.MaxMagic
		}
		codec := r.Intn(5)
		if magic == 0 {
			codec = refcodec.CodecNone // the property only claims uncompressed format 0
		}
		if magic == 1 && codec == refcodec.CodecZstd {
			codec = core.Pick(r, refcodec.CodecGzip, refcodec.CodecSnappy, refcodec.CodecLz4)
		}
		u := &c05Unit{Magic: magic, Codec: codec, Base: off, Last: off + int64(n) - 1}
		var recs []refcodec.Rec
		for i := 0; i < n; i++ {
			rec := refcodec.Rec{Offset: off + int64(i)}
			kc := c05PickClass(r, big > 0)
			if strings.Contains(kc, "page") {
				big--
			}
			vc := c05PickClass(r, big > 0)
			if strings.Contains(vc, "page") {
				big--
			}
			rec.Key, rec.Value = c05Bytes(r, kc), c05Bytes(r, vc)
			switch magic {
			case 0:
				rec.TimestampMs = 0
			default:
				rec.TimestampMs = tsBase + int64(r.Intn(100000)) - 50000
			}
			if magic == 2 && cfg.Headers && r.Chance(1, 3) {
				for h := r.Range(1, 5); h > 0; h-- {
					hd := refcodec.Hdr{Key: core.Pick(r, "", "h", "trace-id", "k"+fmt.Sprint(h))}
					switch r.Intn(4) {
					case 0:
						hd.Value = nil
					case 1:
						hd.Value = []byte{}
					default:
						hd.Value = r.Bytes(r.Range(1, 30))
					}
					rec.Headers = append(rec.Headers, hd)
				}
			}
			recs = append(recs, rec)
		}
		// compaction gaps: only where the format records offsets per record relative to a batch/wrapper
		// (the last batch of a log keeps its records: the active segment is never compacted)
		if cfg.Gaps && remaining > 0 && n >= 3 && (magic == 2 || (magic == 1 && codec != 0)) && r.Chance(2, 3) {
			var kept []refcodec.Rec
			for _, rec := range recs {
				if r.Chance(2, 3) {
					kept = append(kept, rec)
				}
			}
			if len(kept) == 0 {
				kept = recs[n-1:]
			}
			if len(kept) < len(recs) {
				u.Gaps = true
				recs = kept
			}
		}
		u.Recs = recs
		opts := refcodec.CompressOpts{SnappyRaw: r.Chance(1, 5)}
		var err error
		switch {
		case magic == 2:
			b := refcodec.NewBatchV2(recs, u.Base, u.Last, codec)
			if cfg.Txn && r.Chance(1, 3) {
				u.Txn = true
				b.Attributes |= 0x10
				b.ProducerID, b.ProducerEpoch, b.BaseSequence = int64(r.Range(1, 5000)), int16(r.Intn(10)), int32(r.Intn(1000))
			}
			b.PartitionLeaderEpoch = int32(r.Intn(4))
			u.Bytes, err = b.Encode(opts)
		case codec == refcodec.CodecNone:
			for _, rec := range recs {
				var mb []byte
				mb, err = refcodec.EncodeLegacy(magic, 0, []refcodec.Rec{rec}, opts)
				u.msgPos = append(u.msgPos, len(u.Bytes))
				u.Bytes = append(u.Bytes, mb...)
			}
		default:
			u.Base, u.Last = recs[0].Offset, recs[len(recs)-1].Offset
			u.Bytes, err = refcodec.EncodeLegacy(magic, codec, recs, opts)
		}
		if err != nil {
			panic(err)
		}
		l.Units = append(l.Units, u)
		off += int64(n)
		// a control batch (transaction marker) takes one offset
		if cfg.Controls && cfg.MaxMagic >= 2 && r.Chance(1, 4) {
			cu := &c05Unit{Magic: 2, Control: true, Txn: true, Base: off, Last: off}
			ckey := []byte{0, 0, 0, byte(r.Intn(2))} // version 0, type 0 = abort / 1 = commit
			cval := []byte{0, 0, 0, 0, 0, byte(r.Intn(5))}
			b := refcodec.NewBatchV2([]refcodec.Rec{{Offset: off, TimestampMs: tsBase, Key: ckey, Value: cval}}, off, off, 0)
			b.Attributes = 0x20 | 0x10
			b.ProducerID, b.ProducerEpoch = int64(r.Range(1, 5000)), int16(r.Intn(10))
			cu.Bytes, err = b.Encode(refcodec.CompressOpts{})
			if err != nil {
				panic(err)
			}
			l.Units = append(l.Units, cu)
			l.ctrl[off] = true
			off++
		}
	}
	l.End = off
	// one flipped bit
	if cfg.Corrupt != "" {
		var cands []int
		for i, u := range l.Units {
			if !u.Control && len(u.Recs) > 0 {
				cands = append(cands, i)
			}
		}
		if len(cands) > 0 {
			u := l.Units[cands[r.Intn(len(cands))]]
			kind := cfg.Corrupt
			if kind == "epoch" && u.Magic != 2 {
				kind = "crc-field"
			}
			u.Corrupt = kind
			u.Bytes = append([]byte(nil), u.Bytes...)
			var lo, hi int // byte range to pick the bit from
			u.BadLo, u.BadHi = u.Base, u.Last
			switch {
			case u.Magic == 2:
				switch kind {
				case "inside":
					lo, hi = 21, len(u.Bytes)
				case "crc-field":
					lo, hi = 17, 21
				case "epoch":
					lo, hi = 12, 16
				}
			case u.Codec == refcodec.CodecNone:
				// every legacy message is a batch of its own: only that message becomes invalid
				mi := r.Intn(len(u.msgPos))
				p := u.msgPos[mi]
				q := len(u.Bytes)
				if mi+1 < len(u.msgPos) {
					q = u.msgPos[mi+1]
				}
				u.BadLo, u.BadHi = u.Recs[mi].Offset, u.Recs[mi].Offset
				if kind == "inside" {
					lo, hi = p+16, q
				} else {
					lo, hi = p+12, p+16
				}
			default:
				if kind == "inside" {
					lo, hi = 16, len(u.Bytes)
				} else {
					lo, hi = 12, 16
				}
			}
			bit := lo*8 + r.Intn((hi-lo)*8)
			u.FlipBit = bit
			u.Bytes[bit/8] ^= 1 << uint(bit%8)
		}
	}
	for i, u := range l.Units {
		if len(u.Bytes) > l.MaxUnit {
			l.MaxUnit = len(u.Bytes)
		}
		for _, rec := range u.Recs {
			l.unitOf[rec.Offset] = i
		}
		l.Truth = append(l.Truth, u.Recs...)
	}
	return l
}

func (l *c05Layout) install(cl *fakecluster.Cluster, topic string, part int32) {
	cl.Lock()
	defer cl.Unlock()
	p := cl.Topics[topic].Partitions[part]
	p.Start = l.Base
	p.End = l.End
	p.Records = append([]refcodec.Rec(nil), l.Truth...)
	p.Layout = nil
	for _, u := range l.Units {
		p.Layout = append(p.Layout, &fakecluster.Stored{Bytes: u.Bytes, BaseOffset: u.Base, LastOffset: u.Last})
	}
}

// served mirrors the fake broker's rule: whole units starting with the one
// that contains off, the first always whole, while they fit into max.
func (l *c05Layout) served(off int64, max int) (first, n int) {
	first = len(l.Units)
	for i, u := range l.Units {
		if u.Last >= off {
			first = i
			break
		}
	}
	size := 0
	for i := first; i < len(l.Units); i++ {
		if size > 0 && size+len(l.Units[i].Bytes) > max {
			break
		}
		size += len(l.Units[i].Bytes)
		n++
	}
	return
}

func (l *c05Layout) classes() []string {
	seen := map[string]bool{}
	var out []string
	for _, u := range l.Units {
		if c := u.class(); !seen[c] {
			seen[c] = true
			out = append(out, c)
		}
	}
	sortStrings(out)
	return out
}

func (l *c05Layout) describe() []string {
	var out []string
	for i, u := range l.Units {
		if i >= 40 {
			out = append(out, "...")
			break
		}
		s := fmt.Sprintf("%s[%d..%d]n%d/%dB", u.class(), u.Base, u.Last, len(u.Recs), len(u.Bytes))
		if u.Corrupt != "" {
			s += fmt.Sprintf("(bit %d of byte %d flipped)", u.FlipBit%8, u.FlipBit/8)
		}
		out = append(out, s)
	}
	return out
}

func (l *c05Layout) shape() string {
	cl := map[string]bool{}
	for _, rec := range l.Truth {
		for _, kv := range [][2]any{{"k", rec.Key}, {"v", rec.Value}} {
			b := kv[1].([]byte)
			switch {
			case b == nil:
				cl[kv[0].(string)+":nil"] = true
			case len(b) == 0:
				cl[kv[0].(string)+":empty"] = true
			case len(b) >= 65535:
				cl[kv[0].(string)+":page+"] = true
			}
		}
		if len(rec.Headers) > 0 {
			cl["h"] = true
		}
	}
	var cs []string
	for c := range cl {
		cs = append(cs, c)
	}
	sortStrings(cs)
	n := len(l.Truth)
	nc := "0"
	switch {
	case n == 1:
		nc = "1"
	case n >= 2 && n <= 3:
		nc = "2-3"
	case n > 3:
		nc = "4+"
	}
	return "n" + nc + " " + strings.Join(cs, ",")
}

// ---------------------------------------------------------------- reading through Client.Fetch

type c05Got struct {
	Off  int64
	Key  []byte
	Val  []byte
	Hdrs []kafka.Header
	T    time.Time
}

func c05ReadBytes(b kafka.Bytes, std bool) ([]byte, error) {
	if b == nil {
		return nil, nil
	}
	defer b.Close()
	if std {
		out, err := io.ReadAll(b)
		if out == nil {
			out = []byte{}
		}
		return out, err
	}
	return protocol.ReadAll(b)
}

// c05Pending is a record whose key and value have been handed out but not read yet.
type c05Pending struct {
	got      c05Got
	key, val kafka.Bytes
}

// c05Collect takes every record of a response without touching the key/value bytes.
func c05Collect(rr kafka.RecordReader) ([]c05Pending, error) {
	var out []c05Pending
	for {
		rec, err := rr.ReadRecord()
		if err != nil {
			if errors.Is(err, io.EOF) {
				return out, nil
			}
			return out, err
		}
		out = append(out, c05Pending{got: c05Got{Off: rec.Offset, T: rec.Time, Hdrs: append([]kafka.Header(nil), rec.Headers...)}, key: rec.Key, val: rec.Value})
	}
}

// c05Materialize reads and closes the keys and values.
func c05Materialize(ps []c05Pending, std bool) ([]c05Got, error) {
	var out []c05Got
	var first error
	for _, p := range ps {
		g := p.got
		var err error
		if g.Key, err = c05ReadBytes(p.key, std); err != nil && first == nil {
			first = fmt.Errorf("reading the key of the record at offset %d: %w", g.Off, err)
		}
		if g.Val, err = c05ReadBytes(p.val, std); err != nil && first == nil {
			first = fmt.Errorf("reading the value of the record at offset %d: %w", g.Off, err)
		}
		out = append(out, g)
	}
	return out, first
}

func c05ReadRecords(rr kafka.RecordReader, std bool) ([]c05Got, error) {
	ps, err := c05Collect(rr)
	got, merr := c05Materialize(ps, std)
	if err == nil {
		err = merr
	}
	return got, err
}

// c05CmpClient compares a record surfaced by Client.Fetch with the stored one (null and empty distinct).
func c05CmpClient(g c05Got, e refcodec.Rec, magic int) (field, detail string) {
	if (g.Key == nil) != (e.Key == nil) || !bytes.Equal(g.Key, e.Key) {
		return "key", fmt.Sprintf("key %s, stored %s (first difference at byte %d)", c05ShortBytes(g.Key), c05ShortBytes(e.Key), c05FirstDiff(g.Key, e.Key))
	}
	if (g.Val == nil) != (e.Value == nil) || !bytes.Equal(g.Val, e.Value) {
		return "value", fmt.Sprintf("value %s, stored %s (first difference at byte %d)", c05ShortBytes(g.Val), c05ShortBytes(e.Value), c05FirstDiff(g.Val, e.Value))
	}
	if len(g.Hdrs) != len(e.Headers) {
		return "headers", fmt.Sprintf("%d headers, stored %d", len(g.Hdrs), len(e.Headers))
	}
	for i, h := range g.Hdrs {
		eh := e.Headers[i]
		if h.Key != eh.Key || (h.Value == nil) != (eh.Value == nil) || !bytes.Equal(h.Value, eh.Value) {
			return "headers", fmt.Sprintf("header %d is %q=%s, stored %q=%s", i, h.Key, c05ShortBytes(h.Value), eh.Key, c05ShortBytes(eh.Value))
		}
	}
	return c05CmpTime(g.T, e.TimestampMs)
}

func c05CmpTime(t time.Time, ms int64) (string, string) {
	if ms == 0 {
		if !t.IsZero() && t.UnixNano() != 0 {
			return "timestamp", fmt.Sprintf("time %v for a record stored without a timestamp", t)
		}
		return "", ""
	}
	if t.UnixNano() != ms*int64(time.Millisecond) {
		return "timestamp", fmt.Sprintf("time %d ns, stored timestamp %d ms", t.UnixNano(), ms)
	}
	return "", ""
}

// c05Exp is one stored record a response may / has to surface.
type c05Exp struct {
	Rec       refcodec.Rec
	Unit      *c05Unit
	Mandatory bool
}

// expected lists what a response holding units [first, first+n) has to surface for a fetch at off.
func (l *c05Layout) expected(off int64, first, n int) (exp []c05Exp, hasBad bool) {
	mandatory := true
	for i := first; i < first+n; i++ {
		u := l.Units[i]
		if u.Control {
			continue
		}
		for _, rec := range u.Recs {
			if u.bad() && rec.Offset >= u.BadLo && rec.Offset <= u.BadHi {
				// nothing after an invalid batch is owed to the application any more
				mandatory = false
				hasBad = true
				continue
			}
			exp = append(exp, c05Exp{Rec: rec, Unit: u, Mandatory: mandatory && rec.Offset >= off})
		}
	}
	return
}

type c05FetchRun struct {
	k   *core.Case
	lay *c05Layout
}

func c05UnitTag(u *c05Unit) string {
	f := fmt.Sprintf("m%d", u.Magic)
	if u.Gaps {
		f += "-gaps"
	}
	return f + ":" + refcodec.CodecNames[u.Codec]
}

// judge compares what one Client.Fetch response surfaced with what it had to; it reports at most one violation.
func (fr *c05FetchRun) judge(got []c05Got, off int64, first, n int, wit func() map[string]any) bool {
	k := fr.k
	l := fr.lay
	exp, _ := l.expected(off, first, n)
	ptr := 0
	for gi, g := range got {
		if l.ctrl[g.Off] {
			k.Viol("c05:control-surfaced", fmt.Sprintf("Client.Fetch surfaced the control record at offset %d (record #%d of the response)", g.Off, gi), wit())
			return false
		}
		for _, u := range l.Units[first : first+n] {
			if u.bad() && g.Off >= u.BadLo && g.Off <= u.BadHi {
				k.Viol("c05:corrupt-surfaced", fmt.Sprintf("Client.Fetch surfaced the record at offset %d of a %s batch (offsets %d..%d) whose checksum does not match (one bit flipped: %s)", g.Off, c05UnitTag(u), u.Base, u.Last, u.Corrupt), wit())
				return false
			}
		}
		j := ptr
		for j < len(exp) && exp[j].Rec.Offset != g.Off {
			j++
		}
		if j == len(exp) {
			tag := "m?:?"
			if ptr < len(exp) {
				tag = c05UnitTag(exp[ptr].Unit)
			} else if len(exp) > 0 {
				tag = c05UnitTag(exp[len(exp)-1].Unit)
			}
			next := "none"
			if ptr < len(exp) {
				next = fmt.Sprint(exp[ptr].Rec.Offset)
			}
			k.Viol("c05:fetch-mismatch:client:"+tag+":offset", fmt.Sprintf("Client.Fetch at offset %d: record #%d of the response has offset %d; the next stored record of the served batches is %s", off, gi, g.Off, next), wit())
			return false
		}
		for q := ptr; q < j; q++ {
			if exp[q].Mandatory {
				k.Viol("c05:fetch-mismatch:client:"+c05UnitTag(exp[q].Unit)+":missing", fmt.Sprintf("Client.Fetch at offset %d: the stored record at offset %d was not surfaced (record #%d of the response is at offset %d)", off, exp[q].Rec.Offset, gi, g.Off), wit())
				return false
			}
		}
		if field, detail := c05CmpClient(g, exp[j].Rec, exp[j].Unit.Magic); field != "" {
			k.Viol("c05:fetch-mismatch:client:"+c05UnitTag(exp[j].Unit)+":"+field, fmt.Sprintf("Client.Fetch at offset %d: record at offset %d: %s", off, g.Off, detail), wit())
			return false
		}
		ptr = j + 1
	}
	for q := ptr; q < len(exp); q++ {
		if exp[q].Mandatory {
			k.Viol("c05:fetch-mismatch:client:"+c05UnitTag(exp[q].Unit)+":missing", fmt.Sprintf("Client.Fetch at offset %d: the response ended after %d records without the stored record at offset %d", off, len(got), exp[q].Rec.Offset), wit())
			return false
		}
	}
	return true
}

// c05HandLayout completes a hand-written list of units (records given, bytes encoded here).
func c05HandLayout(base int64, units []*c05Unit, end int64) *c05Layout {
	l := &c05Layout{Base: base, End: end, unitOf: map[int64]int{}, ctrl: map[int64]bool{}, Cfg: c05LayoutCfg{Split: "pinned"}}
	for i, u := range units {
		u.Base, u.Last = u.Recs[0].Offset, u.Recs[len(u.Recs)-1].Offset
		var err error
		if u.Magic == 2 {
			u.Bytes, err = refcodec.NewBatchV2(u.Recs, u.Base, u.Last, u.Codec).Encode(refcodec.CompressOpts{})
		} else {
			u.Bytes, err = refcodec.EncodeLegacy(u.Magic, u.Codec, u.Recs, refcodec.CompressOpts{})
		}
		if err != nil {
			panic(err)
		}
		if len(u.Bytes) > l.MaxUnit {
			l.MaxUnit = len(u.Bytes)
		}
		for _, rec := range u.Recs {
			l.unitOf[rec.Offset] = i
		}
		l.Truth = append(l.Truth, u.Recs...)
		l.Units = append(l.Units, u)
	}
	return l
}

func c05FetchCase(k *core.Case, pin *c05FetchPin) {
	c := k.Ctx
	r := k.R
	cap := core.Pick(r, 2, 3, 4, 5, 7, 10, 11)
	maxMagic := 2
	if cap < 4 {
		maxMagic = 1
	}
	cfg := c05LayoutCfg{MaxMagic: maxMagic, Headers: true}
	cfg.N = core.Pick(r, 0, 1, 2, 3, 5, 9, 9, 20, 20, 60)
	if cfg.N >= 9 {
		cfg.N = r.Range(cfg.N/2, cfg.N)
	}
	switch maxMagic {
	case 2:
		cfg.Mode = core.Pick(r, "m0", "m1", "m1", "m2", "m2", "m2", "mixed", "mixed")
	default:
		cfg.Mode = core.Pick(r, "m0", "m1", "m1", "mixed")
	}
	cfg.Split = core.Pick(r, "one", "each", "random", "random")
	cfg.Controls = maxMagic == 2 && (cfg.Mode == "m2" || cfg.Mode == "mixed") && r.Chance(1, 3)
	cfg.Txn = r.Chance(1, 4)
	cfg.Gaps = r.Chance(1, 6)
	if r.Chance(1, 4) {
		cfg.Corrupt = core.Pick(r, "inside", "inside", "crc-field", "epoch")
	}
	switch r.Intn(4) {
	case 0:
		cfg.Base = int64(r.Range(1, 100000))
	case 1:
		cfg.Base = int64(1)<<uint(r.Range(31, 45)) + int64(r.Intn(1000))
	}
	if r.Chance(1, 5) {
		cfg.Big = r.Range(1, 3)
	}
	lay := c05GenLayout(r, cfg)
	if pin != nil {
		cap = pin.Cap
		lay = pin.Build()
		cfg = lay.Cfg
	}
	maxClass := core.Pick(r, "all", "one", "few")
	maxBytes := 64 << 20
	switch maxClass {
	case "one":
		maxBytes = lay.MaxUnit
	case "few":
		maxBytes = lay.MaxUnit*3 + r.Intn(200)
	}
	if maxBytes < 1 {
		maxBytes = 1
	}
	startKind := core.Pick(r, "begin", "begin", "boundary", "inside")
	start := lay.Base
	if len(lay.Units) > 0 {
		switch startKind {
		case "boundary":
			start = lay.Units[r.Intn(len(lay.Units))].Base
		case "inside":
			start = lay.Base + int64(r.Intn(int(lay.End-lay.Base)))
		}
	}
	std := r.Bool()
	chunkMax := 0
	if r.Chance(1, 5) {
		chunkMax = core.Pick(r, 1, 7, 64, 4096)
	}
	// hold: the keys and values of a response are only read (and closed) after the next response has been decoded
	hold := r.Chance(1, 3)
	if pin != nil {
		start, startKind, chunkMax = lay.Base, "begin", 0
	}
	hasM2, hasInside := false, false
	for _, u := range lay.Units {
		if u.Magic == 2 {
			hasM2 = true
		}
		if u.Corrupt == "inside" {
			hasInside = true
		}
	}
	k.Describe(map[string]any{"list": "fetch", "fetch_max": cap, "mode": cfg.Mode, "split": cfg.Split, "records": len(lay.Truth), "base": lay.Base, "end": lay.End, "layout": lay.describe(),
		"max_bytes": maxBytes, "max_class": maxClass, "start": start, "start_kind": startKind, "chunk_max": chunkMax, "hold_until_next_decode": hold, "readall": map[bool]string{true: "io.ReadAll", false: "protocol.ReadAll"}[std]})

	net := fakenet.New()
	net.ChunkMax = chunkMax
	cl := fakecluster.New(net)
	cl.MaxWaitCap = 20 * time.Millisecond
	b := cl.AddBroker(1, "")
	v := b.Versions[fakecluster.KFetch]
	v.Max = cap
	b.Versions[fakecluster.KFetch] = v
	cl.AddTopic("tf", 1, func(int) int32 { return 1 })
	lay.install(cl, "tf", 0)
	defer func() {
		cl.Close()
		cl.Quiesce(5 * time.Second)
	}()
	fr := &c05FetchRun{k: k, lay: lay}
	nontrivial := len(lay.Truth) >= 2
	for _, u := range lay.Units {
		if u.Codec != 0 {
			nontrivial = true
		}
	}
	sig := func(path string) {
		c.Eval(1)
		if nontrivial {
			c.Distinct(fmt.Sprintf("fetch|%s|v%d|%s|%s/%s/%s|%s", path, cap, strings.Join(lay.classes(), ","), cfg.Split, maxClass, startKind, lay.shape()))
		}
	}

	clientOK, connVerdict := false, "not offered (bit flipped inside a batch body, or format 2 with a fetch version below 5)"
	// ---- Client.Fetch
	{
		dl := c05NewDial(net, "c05-fetch")
		defer dl.release()
		tr := &kafka.Transport{Dial: dl.Dial, ClientID: "c05-fetch", DialTimeout: 5 * time.Second, IdleTimeout: c05IdleTimeout}
		cli := &kafka.Client{Addr: kafka.TCP("b1:9092"), Transport: tr, Timeout: 10 * time.Second}
		off := start
		var trace []string
		ok := true
		if len(lay.Units) == 0 {
			// empty log: nothing to surface
			res, err := cli.Fetch(context.Background(), &kafka.FetchRequest{Topic: "tf", Partition: 0, Offset: off, MinBytes: 1, MaxBytes: int64(maxBytes), MaxWait: 5 * time.Millisecond})
			if err == nil && res.Error == nil {
				got, rerr := c05ReadRecords(res.Records, std)
				if rerr != nil || len(got) != 0 {
					k.Viol("c05:fetch-mismatch:client:none:none:offset", fmt.Sprintf("Client.Fetch on an empty log surfaced %d records (error %v)", len(got), rerr), nil)
				}
			} else {
				k.Viol("c05:fetch-mismatch:client:none:none:error", fmt.Sprintf("Client.Fetch on an empty log failed: %v / %v", err, res), nil)
			}
		}
		// finish judges one response once its keys and values have been read
		type pendingResp struct {
			ps         []c05Pending
			off        int64
			first, n   int
			hasBad     bool
			err        error
			heldAcross int
		}
		finish := func(p *pendingResp) bool {
			off, first, n := p.off, p.first, p.n
			wit := func() map[string]any {
				return map[string]any{"fetch_offset": off, "served_units": fmt.Sprintf("%d..%d", first, first+n-1), "layout": lay.describe(), "trace": trace,
					"keys_values_read_after_n_more_decodes": p.heldAcross}
			}
			got, merr := c05Materialize(p.ps, std)
			err := p.err
			if err == nil {
				err = merr
			}
			if err != nil {
				if !p.hasBad {
					tag := c05UnitTag(lay.Units[first])
					if isDeadlineErr(err) {
						k.TimeViol("c05:fetch-mismatch:client:"+tag+":error", fmt.Sprintf("Client.Fetch at offset %d ran into its deadline on a valid layout: %v", off, err), wit())
					} else {
						k.Viol("c05:fetch-mismatch:client:"+tag+":error", fmt.Sprintf("Client.Fetch at offset %d failed on a valid layout: %v", off, err), wit())
					}
					return false
				}
				c.Count("fetch_errors_on_corrupt_batch:client", 1)
			}
			if !fr.judge(got, off, first, n, wit) {
				return false
			}
			c.Count("fetch_records_compared:client", int64(len(got)))
			if p.heldAcross > 0 {
				c.Count("fetch_records_read_after_a_later_decode:client", int64(len(got)))
			}
			if p.hasBad {
				c.Count("corrupt_batches_suppressed:client", 1)
			}
			return true
		}
		var prev *pendingResp
		for rounds := 0; ok && off < lay.End && rounds < len(lay.Units)+2; rounds++ {
			first, n := lay.served(off, maxBytes)
			if n == 0 {
				break
			}
			_, hasBad := lay.expected(off, first, n)
			ctx, cancel := context.WithTimeout(context.Background(), 20*time.Second)
			res, err := cli.Fetch(ctx, &kafka.FetchRequest{Topic: "tf", Partition: 0, Offset: off, MinBytes: 1, MaxBytes: int64(maxBytes), MaxWait: 50 * time.Millisecond})
			cancel()
			if err == nil && res.Error != nil {
				err = res.Error
			}
			cur := &pendingResp{off: off, first: first, n: n, hasBad: hasBad}
			if err == nil {
				cur.ps, err = c05Collect(res.Records)
			}
			cur.err = err
			// harness sanity: the broker served what the mirror rule says
			if js := cl.Journal(); len(js) > 0 {
				for i := len(js) - 1; i >= 0; i-- {
					if js[i].API == fakecluster.KFetch {
						if nb, _ := js[i].Extra["batches"].(int); nb != n && js[i].Extra != nil {
							panic(fmt.Sprintf("c05: broker served %v batches, mirror rule says %d (offset %d)", js[i].Extra["batches"], n, off))
						}
						c.Count(fmt.Sprintf("fetch_version:client:v%d", js[i].Version), 1)
						break
					}
				}
			}
			trace = append(trace, fmt.Sprintf("fetch@%d -> units %d..%d, %d records, err=%v", off, first, first+n-1, len(cur.ps), err))
			if len(trace) > 30 {
				trace = trace[1:]
			}
			for _, u := range lay.Units[first : first+n] {
				c.Count("fetch_batches:client:"+c05UnitTag(u), 1)
				if u.bad() {
					c.Count("corrupt_batches_offered:client", 1)
				}
				if u.Control {
					c.Count("control_batches_offered:client", 1)
				}
			}
			// the previous response's keys and values were held across this decode
			if prev != nil {
				prev.heldAcross = 1
				if !finish(prev) {
					ok = false
				}
				prev = nil
			}
			if !ok {
				for _, p := range cur.ps {
					closeBytes(p.key)
					closeBytes(p.val)
				}
				break
			}
			if hold {
				prev = cur
			} else if !finish(cur) {
				ok = false
				break
			}
			off = lay.Units[first+n-1].Last + 1
		}
		if prev != nil && ok {
			finish(prev)
		}
		tr.CloseIdleConnections()
		sig("client")
		clientOK = ok
	}

	// ---- Conn.ReadBatch + Batch.ReadMessage
	// The Conn path verifies no checksums (the property only claims that for Client.Fetch), so a layout with
	// a bit flipped inside a batch body is not offered to it; it negotiates fetch v2/v5/v10, and a v2 fetch
	// is never answered with format 2 by a real broker.
	if !hasInside && !(hasM2 && cap < 5) && len(lay.Units) > 0 {
		d := &kafka.Dialer{DialFunc: net.Dialer("c05-conn"), ClientID: "c05-conn", Timeout: 5 * time.Second}
		ctx, cancel := context.WithTimeout(context.Background(), 10*time.Second)
		conn, err := d.DialLeader(ctx, "tcp", "b1:9092", "tf", 0)
		cancel()
		var exp []refcodec.Rec
		for _, rec := range lay.Truth {
			if rec.Offset >= start {
				exp = append(exp, rec)
			}
		}
		var delivered []kafka.Message
		var trace []string
		var rerr error
		ctrlSeen := 0
		if err != nil {
			rerr = fmt.Errorf("DialLeader: %w", err)
		} else {
			conn.SetDeadline(time.Now().Add(20 * time.Second))
			if _, err := conn.Seek(start, kafka.SeekAbsolute); err != nil {
				rerr = fmt.Errorf("Seek(%d): %w", start, err)
			}
			connMax := maxBytes
			if connMax > 1<<30 {
				connMax = 1 << 30
			}
			for rounds := 0; rerr == nil && rounds < 3*len(lay.Units)+10; rounds++ {
				pos, _ := conn.Offset()
				if pos >= lay.End {
					break
				}
				bt := conn.ReadBatchWith(kafka.ReadBatchConfig{MinBytes: 1, MaxBytes: connMax, MaxWait: 50 * time.Millisecond})
				nmsg := 0
				for {
					m, err := bt.ReadMessage()
					if err != nil {
						if !errors.Is(err, io.EOF) {
							rerr = fmt.Errorf("Batch.ReadMessage after %d messages of the batch read at offset %d: %w", nmsg, pos, err)
						}
						break
					}
					nmsg++
					if lay.ctrl[m.Offset] {
						ctrlSeen++
						continue
					}
					delivered = append(delivered, m)
				}
				if cerr := bt.Close(); cerr != nil && rerr == nil {
					rerr = fmt.Errorf("Batch.Close of the batch read at offset %d: %w", pos, cerr)
				}
				trace = append(trace, fmt.Sprintf("ReadBatch@%d -> %d messages", pos, nmsg))
				if len(trace) > 30 {
					trace = trace[1:]
				}
			}
			if js := cl.Journal(); len(js) > 0 {
				for i := len(js) - 1; i >= 0; i-- {
					if js[i].API == fakecluster.KFetch {
						c.Count(fmt.Sprintf("fetch_version:conn:v%d", js[i].Version), 1)
						break
					}
				}
			}
			conn.Close()
		}
		wit := func() map[string]any {
			var offs []string
			for i, m := range delivered {
				if i >= 60 {
					offs = append(offs, "...")
					break
				}
				offs = append(offs, fmt.Sprint(m.Offset))
			}
			return map[string]any{"start": start, "layout": lay.describe(), "delivered_offsets": strings.Join(offs, " "), "trace": trace, "control_records_surfaced": ctrlSeen}
		}
		tagAt := func(off int64) string {
			if ui, ok := lay.unitOf[off]; ok {
				return c05UnitTag(lay.Units[ui])
			}
			return "m?:?"
		}
		c.Count("conn_control_records_surfaced", int64(ctrlSeen))
		for _, u := range lay.Units {
			if u.Last >= start {
				c.Count("fetch_batches:conn:"+c05UnitTag(u), 1)
			}
		}
		done := false
		for i, m := range delivered {
			if i >= len(exp) {
				k.Viol("c05:fetch-mismatch:conn:"+c05UnitTag(lay.Units[len(lay.Units)-1])+":offset", fmt.Sprintf("Conn.ReadBatch from offset %d: message #%d at offset %d delivered after all %d stored records", start, i, m.Offset, len(exp)), wit())
				done = true
				break
			}
			e := exp[i]
			tag := tagAt(e.Offset)
			if m.Offset != e.Offset {
				k.Viol("c05:fetch-mismatch:conn:"+tag+":offset", fmt.Sprintf("Conn.ReadBatch from offset %d: message #%d has offset %d, the next stored record is at %d", start, i, m.Offset, e.Offset), wit())
				done = true
				break
			}
			field, detail := "", ""
			switch {
			case !bytes.Equal(m.Key, e.Key):
				field, detail = "key", fmt.Sprintf("key %s, stored %s", c05ShortBytes(m.Key), c05ShortBytes(e.Key))
			case !bytes.Equal(m.Value, e.Value):
				field, detail = "value", fmt.Sprintf("value %s, stored %s (first difference at byte %d)", c05ShortBytes(m.Value), c05ShortBytes(e.Value), c05FirstDiff(m.Value, e.Value))
			case len(m.Headers) != len(e.Headers):
				field, detail = "headers", fmt.Sprintf("%d headers, stored %d", len(m.Headers), len(e.Headers))
			default:
				for hi, h := range m.Headers {
					if h.Key != e.Headers[hi].Key || !bytes.Equal(h.Value, e.Headers[hi].Value) {
						field, detail = "headers", fmt.Sprintf("header %d is %q=%s, stored %q=%s", hi, h.Key, c05ShortBytes(h.Value), e.Headers[hi].Key, c05ShortBytes(e.Headers[hi].Value))
					}
				}
				if field == "" {
					field, detail = c05CmpTime(m.Time, e.TimestampMs)
				}
			}
			if field != "" {
				k.Viol("c05:fetch-mismatch:conn:"+tag+":"+field, fmt.Sprintf("Conn.ReadBatch from offset %d: message at offset %d: %s", start, m.Offset, detail), wit())
				done = true
				break
			}
		}
		c.Count("fetch_records_compared:conn", int64(len(delivered)))
		connVerdict = fmt.Sprintf("%d records delivered, mismatch=%v, error=%v", len(delivered), done, rerr)
		if !done {
			switch {
			case rerr != nil:
				tag := c05UnitTag(lay.Units[len(lay.Units)-1])
				if len(delivered) < len(exp) {
					tag = tagAt(exp[len(delivered)].Offset)
				}
				if isDeadlineErr(rerr) {
					k.TimeViol("c05:fetch-mismatch:conn:"+tag+":error", fmt.Sprintf("Conn path from offset %d ran into its deadline on a valid layout: %v", start, rerr), wit())
				} else {
					k.Viol("c05:fetch-mismatch:conn:"+tag+":error", fmt.Sprintf("Conn path from offset %d failed on a valid layout: %v", start, rerr), wit())
				}
			case len(delivered) < len(exp):
				k.Viol("c05:fetch-mismatch:conn:"+tagAt(exp[len(delivered)].Offset)+":missing", fmt.Sprintf("Conn.ReadBatch from offset %d: only %d of %d stored records delivered within %d batches; next missing offset %d", start, len(delivered), len(exp), 3*len(lay.Units)+10, exp[len(delivered)].Offset), wit())
			}
		}
		sig("conn")
	}
	if pin == nil && nontrivial && len(lay.Units) >= 2 && c05SampleOnce("fetch", 2) {
		c.Sample(map[string]any{"case": k.ID, "config": k.Desc(), "observed": map[string]any{"stored_records": len(lay.Truth), "client_fetch_ok": clientOK, "conn_path": connVerdict}})
	}
}

// ---------------------------------------------------------------- pages

// c05Snapshot reads the whole content of b without consuming it (both *pageRef
// and the bytes.Reader based implementations are io.ReaderAt).
func c05Snapshot(b kafka.Bytes) ([]byte, bool) {
	ra, ok := b.(io.ReaderAt)
	if !ok {
		return nil, false
	}
	n := b.Len()
	buf := make([]byte, n)
	got := 0
	for got < n {
		m, err := ra.ReadAt(buf[got:], int64(got))
		got += m
		if err != nil || m == 0 {
			break
		}
	}
	return buf[:got], true
}

type c05Held struct {
	part    int
	off     int64
	what    string
	b       kafka.Bytes
	truth   []byte
	first   []byte
	hasSnap bool
	release int64 // worker step at which it is released
	decodes int64 // global decode counter at hand-out
}

func c05PagesCase(k *core.Case) {
	c := k.Ctx
	r := k.R
	nparts := r.Range(2, 4)
	workers := r.Range(3, 6)
	fetches := r.Range(6, 14)
	net := fakenet.New()
	cl := fakecluster.New(net)
	cl.MaxWaitCap = 20 * time.Millisecond
	cl.AddBroker(1, "")
	cl.AddTopic("tp", nparts, func(int) int32 { return 1 })
	var lays []*c05Layout
	var descr []any
	for p := 0; p < nparts; p++ {
		cfg := c05LayoutCfg{MaxMagic: 2, Headers: true, N: r.Range(4, 24), Mode: core.Pick(r, "m2", "m2", "m1", "mixed"), Split: core.Pick(r, "random", "random", "each", "one"),
			Controls: r.Chance(1, 4), Big: r.Range(2, 8), Base: int64(r.Intn(1000))}
		l := c05GenLayout(r, cfg)
		l.install(cl, "tp", int32(p))
		lays = append(lays, l)
		descr = append(descr, l.describe())
	}
	k.Describe(map[string]any{"list": "pages", "partitions": nparts, "workers": workers, "fetches_per_worker": fetches, "layouts": descr})
	defer func() {
		cl.Close()
		cl.Quiesce(5 * time.Second)
	}()
	dl := c05NewDial(net, "c05-pages")
	defer dl.release()
	tr := &kafka.Transport{Dial: dl.Dial, ClientID: "c05-pages", DialTimeout: 5 * time.Second, IdleTimeout: c05IdleTimeout}
	var decodes int64
	var violated int32
	var heldTotal, heldSpan, maxSpan int64
	var wg sync.WaitGroup
	rs := make([]*core.Rand, workers)
	for w := range rs {
		rs[w] = r.Fork()
	}
	report := func(what string, wit map[string]any) {
		if atomic.AddInt32(&violated, 1) == 1 {
			k.Viol("c05:page-aliasing", what, wit)
		}
	}
	for w := 0; w < workers; w++ {
		wg.Add(1)
		go func(w int) {
			defer wg.Done()
			// reading bytes whose pages were recycled can panic inside the library ("offset out of range"):
			// that is the use-after-release this list looks for, not a reason to lose the shard
			defer func() {
				if rec := recover(); rec != nil {
					st := string(debug.Stack())
					// judge the frames below the panic call, not this deferred function
					if i := strings.Index(st, "\npanic("); i >= 0 {
						st = st[i+1:]
					}
					if !core.StackInLibrary(st) {
						panic(rec)
					}
					if len(st) > 3000 {
						st = st[:3000]
					}
					report(fmt.Sprintf("panic in library code while reading key/value bytes that were handed out and not yet closed, during concurrent decodes: %v", rec), map[string]any{"stack": st})
				}
			}()
			rr := rs[w]
			cli := &kafka.Client{Addr: kafka.TCP("b1:9092"), Transport: tr, Timeout: 10 * time.Second}
			var held []*c05Held
			step := int64(0)
			releaseDue := func(all bool) {
				keep := held[:0]
				for _, h := range held {
					if !all && h.release > step {
						keep = append(keep, h)
						continue
					}
					span := atomic.LoadInt64(&decodes) - h.decodes
					atomic.AddInt64(&heldSpan, span)
					for {
						m := atomic.LoadInt64(&maxSpan)
						if span <= m || atomic.CompareAndSwapInt64(&maxSpan, m, span) {
							break
						}
					}
					wit := map[string]any{"partition": h.part, "offset": h.off, "field": h.what, "decodes_while_held": span, "layout": lays[h.part].describe()}
					if h.hasSnap {
						again, _ := c05Snapshot(h.b)
						if !bytes.Equal(again, h.first) {
							report(fmt.Sprintf("the %s of the record at offset %d (partition %d) changed while it was held open: %d concurrent/later decodes went by, first difference at byte %d of %d", h.what, h.off, h.part, span, c05FirstDiff(again, h.first), len(h.first)), wit)
						}
					}
					// read it the ordinary way right before Close
					final, err := protocol.ReadAll(h.b)
					if err != nil || !bytes.Equal(final, h.truth) {
						report(fmt.Sprintf("the %s of the record at offset %d (partition %d), read right before Close after being held across %d decodes, differs from the stored bytes (error %v, first difference at byte %d of %d)", h.what, h.off, h.part, span, err, c05FirstDiff(final, h.truth), len(h.truth)), wit)
					}
					h.b.Close()
				}
				held = keep
			}
			for f := 0; f < fetches && atomic.LoadInt32(&violated) == 0; f++ {
				select {
				case <-k.Cancelled:
					return
				default:
				}
				p := rr.Intn(nparts)
				l := lays[p]
				if len(l.Units) == 0 {
					continue
				}
				off := l.Units[rr.Intn(len(l.Units))].Base
				maxBytes := core.Pick(rr, 64<<20, l.MaxUnit, l.MaxUnit*2)
				first, n := l.served(off, maxBytes)
				ctx, cancel := context.WithTimeout(context.Background(), 20*time.Second)
				res, err := cli.Fetch(ctx, &kafka.FetchRequest{Topic: "tp", Partition: p, Offset: off, MinBytes: 1, MaxBytes: int64(maxBytes), MaxWait: 50 * time.Millisecond})
				cancel()
				if err == nil && res.Error != nil {
					err = res.Error
				}
				atomic.AddInt64(&decodes, 1)
				step++
				if err != nil {
					if isDeadlineErr(err) {
						// a generous wall-clock bound: only counts when it repeats on an idle process
						if atomic.AddInt32(&violated, 1) == 1 {
							k.TimeViol("c05:page-aliasing", fmt.Sprintf("concurrent Client.Fetch of partition %d at offset %d ran into its deadline on a valid layout: %v", p, off, err), map[string]any{"layout": l.describe()})
						}
					} else {
						report(fmt.Sprintf("concurrent Client.Fetch of partition %d at offset %d failed on a valid layout: %v", p, off, err), map[string]any{"layout": l.describe()})
					}
					break
				}
				exp, _ := l.expected(off, first, n)
				idx := 0
				for {
					rec, err := res.Records.ReadRecord()
					if err != nil {
						if !errors.Is(err, io.EOF) {
							report(fmt.Sprintf("ReadRecord (partition %d, fetch at %d): %v", p, off, err), map[string]any{"layout": l.describe()})
						} else if idx != len(exp) {
							report(fmt.Sprintf("concurrent Client.Fetch of partition %d at offset %d surfaced %d records, the served batches hold %d", p, off, idx, len(exp)), map[string]any{"layout": l.describe()})
						}
						break
					}
					if idx >= len(exp) || exp[idx].Rec.Offset != rec.Offset {
						report(fmt.Sprintf("concurrent Client.Fetch of partition %d at offset %d: record #%d has offset %d, which is not the next stored record", p, off, idx, rec.Offset), map[string]any{"layout": l.describe()})
						closeBytes(rec.Key)
						closeBytes(rec.Value)
						break
					}
					e := exp[idx].Rec
					idx++
					for _, kv := range []struct {
						what  string
						b     kafka.Bytes
						truth []byte
					}{{"key", rec.Key, e.Key}, {"value", rec.Value, e.Value}} {
						if kv.b == nil {
							if kv.truth != nil {
								report(fmt.Sprintf("the %s of the record at offset %d (partition %d) was handed out as null, stored: %s", kv.what, e.Offset, p, c05ShortBytes(kv.truth)), nil)
							}
							continue
						}
						h := &c05Held{part: p, off: e.Offset, what: kv.what, b: kv.b, truth: kv.truth, decodes: atomic.LoadInt64(&decodes)}
						h.first, h.hasSnap = c05Snapshot(kv.b)
						if h.hasSnap && (kv.truth == nil || !bytes.Equal(h.first, kv.truth)) {
							report(fmt.Sprintf("the %s of the record at offset %d (partition %d) differs from the stored bytes when handed out during concurrent decodes (first difference at byte %d of %d)", kv.what, e.Offset, p, c05FirstDiff(h.first, kv.truth), len(kv.truth)),
								map[string]any{"partition": p, "offset": e.Offset, "layout": l.describe()})
						}
						if rr.Chance(2, 3) {
							h.release = step + int64(rr.Range(1, 6))
							atomic.AddInt64(&heldTotal, 1)
						} else {
							h.release = step // released before this worker's next decode
						}
						held = append(held, h)
					}
				}
				releaseDue(false)
			}
			releaseDue(true)
		}(w)
	}
	wg.Wait()
	tr.CloseIdleConnections()
	c.Eval(1)
	c.Count("pages_decodes", atomic.LoadInt64(&decodes))
	c.Count("pages_keys_values_held_across_decodes", atomic.LoadInt64(&heldTotal))
	c.Count("pages_decodes_while_held_sum", atomic.LoadInt64(&heldSpan))
	c.Max("max:pages_decodes_while_held", atomic.LoadInt64(&maxSpan))
	var cls []string
	for _, l := range lays {
		cls = append(cls, strings.Join(l.classes(), ","))
	}
	sortStrings(cls)
	c.Distinct(fmt.Sprintf("pages|client|%s|w%d", strings.Join(cls, ";"), workers))
	if c05SampleOnce("pages", 1) {
		c.Sample(map[string]any{"case": k.ID, "config": k.Desc(), "observed": map[string]any{"violated": atomic.LoadInt32(&violated) > 0, "decodes": atomic.LoadInt64(&decodes), "held": atomic.LoadInt64(&heldTotal), "max_decodes_while_held": atomic.LoadInt64(&maxSpan)}})
	}
}

func closeBytes(b kafka.Bytes) {
	if b != nil {
		b.Close()
	}
}
