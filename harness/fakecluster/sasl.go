package fakecluster

import (
	"verifharness/fakenet"
)

// SASLConfig enables the SASL gate on every broker connection.
type SASLConfig struct {
	Mechanisms []string
	// Users maps user name to password.
	Users map[string]string
	// ScramIterations for SCRAM credentials derived from Users.
	ScramIterations int
}

type scramServer struct {
	conv any
}

func (c *Cluster) saslRaw(b *Broker, s *fakenet.Conn, st *connState, payload []byte) bool {
	return false
}

func (c *Cluster) saslAPI(rc *ReqCtx, st *connState) map[string]any {
	return map[string]any{"ErrorCode": int64(33), "Mechanisms": []any{}}
}
