package refcodec

// schemaText2 continues schemaText: the admin APIs kafka-go registers
// (ACLs, configs, client quotas, partition reassignments, leader election,
// SCRAM credentials). Transcribed from the Kafka message definitions
// (DescribeAclsRequest.json ... AlterUserScramCredentialsResponse.json), NOT
// from kafka-go's struct tags. Version ranges are cut at what kafka-go
// registers; flex= is the definition's first flexible version.
const schemaText2 = `
api 29 DescribeAcls 0-3 flex=2
req
  ResourceTypeFilter int8 0+
  ResourceNameFilter string 0+ null=0+
  PatternTypeFilter int8 1+
  PrincipalFilter string 0+ null=0+
  HostFilter string 0+ null=0+
  Operation int8 0+
  PermissionType int8 0+
resp
  ThrottleTimeMs int32 0+
  ErrorCode int16 0+
  ErrorMessage string 0+ null=0+
  Resources []struct 0+ {
    ResourceType int8 0+
    ResourceName string 0+
    PatternType int8 1+
    Acls []struct 0+ {
      Principal string 0+
      Host string 0+
      Operation int8 0+
      PermissionType int8 0+
    }
  }

api 30 CreateAcls 0-3 flex=2
req
  Creations []struct 0+ {
    ResourceType int8 0+
    ResourceName string 0+
    ResourcePatternType int8 1+
    Principal string 0+
    Host string 0+
    Operation int8 0+
    PermissionType int8 0+
  }
resp
  ThrottleTimeMs int32 0+
  Results []struct 0+ {
    ErrorCode int16 0+
    ErrorMessage string 0+ null=0+
  }

api 31 DeleteAcls 0-3 flex=2
req
  Filters []struct 0+ {
    ResourceTypeFilter int8 0+
    ResourceNameFilter string 0+ null=0+
    PatternTypeFilter int8 1+
    PrincipalFilter string 0+ null=0+
    HostFilter string 0+ null=0+
    Operation int8 0+
    PermissionType int8 0+
  }
resp
  ThrottleTimeMs int32 0+
  FilterResults []struct 0+ {
    ErrorCode int16 0+
    ErrorMessage string 0+ null=0+
    MatchingAcls []struct 0+ {
      ErrorCode int16 0+
      ErrorMessage string 0+ null=0+
      ResourceType int8 0+
      ResourceName string 0+
      PatternType int8 1+
      Principal string 0+
      Host string 0+
      Operation int8 0+
      PermissionType int8 0+
    }
  }

api 32 DescribeConfigs 0-3 flex=4
req
  Resources []struct 0+ {
    ResourceType int8 0+
    ResourceName string 0+
    ConfigurationKeys []string 0+ null=0+
  }
  IncludeSynonyms bool 1+
  IncludeDocumentation bool 3+
resp
  ThrottleTimeMs int32 0+
  Results []struct 0+ {
    ErrorCode int16 0+
    ErrorMessage string 0+ null=0+
    ResourceType int8 0+
    ResourceName string 0+
    Configs []struct 0+ {
      Name string 0+
      Value string 0+ null=0+
      ReadOnly bool 0+
      IsDefault bool 0
      ConfigSource int8 1+
      IsSensitive bool 0+
      Synonyms []struct 1+ {
        Name string 1+
        Value string 1+ null=1+
        Source int8 1+
      }
      ConfigType int8 3+
      Documentation string 3+ null=3+
    }
  }

api 33 AlterConfigs 0-1 flex=2
req
  Resources []struct 0+ {
    ResourceType int8 0+
    ResourceName string 0+
    Configs []struct 0+ {
      Name string 0+
      Value string 0+ null=0+
    }
  }
  ValidateOnly bool 0+
resp
  ThrottleTimeMs int32 0+
  Responses []struct 0+ {
    ErrorCode int16 0+
    ErrorMessage string 0+ null=0+
    ResourceType int8 0+
    ResourceName string 0+
  }

api 43 ElectLeaders 0-1 flex=2
req
  ElectionType int8 1+
  TopicPartitions []struct 0+ null=0+ {
    Topic string 0+
    Partitions []int32 0+
  }
  TimeoutMs int32 0+
resp
  ThrottleTimeMs int32 0+
  ErrorCode int16 1+
  ReplicaElectionResults []struct 0+ {
    Topic string 0+
    PartitionResult []struct 0+ {
      PartitionId int32 0+
      ErrorCode int16 0+
      ErrorMessage string 0+ null=0+
    }
  }

api 44 IncrementalAlterConfigs 0-0 flex=1
req
  Resources []struct 0+ {
    ResourceType int8 0+
    ResourceName string 0+
    Configs []struct 0+ {
      Name string 0+
      ConfigOperation int8 0+
      Value string 0+ null=0+
    }
  }
  ValidateOnly bool 0+
resp
  ThrottleTimeMs int32 0+
  Responses []struct 0+ {
    ErrorCode int16 0+
    ErrorMessage string 0+ null=0+
    ResourceType int8 0+
    ResourceName string 0+
  }

api 45 AlterPartitionReassignments 0-0 flex=0
req
  TimeoutMs int32 0+
  Topics []struct 0+ {
    Name string 0+
    Partitions []struct 0+ {
      PartitionIndex int32 0+
      Replicas []int32 0+ null=0+
    }
  }
resp
  ThrottleTimeMs int32 0+
  ErrorCode int16 0+
  ErrorMessage string 0+ null=0+
  Responses []struct 0+ {
    Name string 0+
    Partitions []struct 0+ {
      PartitionIndex int32 0+
      ErrorCode int16 0+
      ErrorMessage string 0+ null=0+
    }
  }

api 46 ListPartitionReassignments 0-0 flex=0
req
  TimeoutMs int32 0+
  Topics []struct 0+ null=0+ {
    Name string 0+
    PartitionIndexes []int32 0+
  }
resp
  ThrottleTimeMs int32 0+
  ErrorCode int16 0+
  ErrorMessage string 0+ null=0+
  Topics []struct 0+ {
    Name string 0+
    Partitions []struct 0+ {
      PartitionIndex int32 0+
      Replicas []int32 0+
      AddingReplicas []int32 0+
      RemovingReplicas []int32 0+
    }
  }

api 48 DescribeClientQuotas 0-1 flex=1
req
  Components []struct 0+ {
    EntityType string 0+
    MatchType int8 0+
    Match string 0+ null=0+
  }
  Strict bool 0+
resp
  ThrottleTimeMs int32 0+
  ErrorCode int16 0+
  ErrorMessage string 0+ null=0+
  Entries []struct 0+ null=0+ {
    Entity []struct 0+ {
      EntityType string 0+
      EntityName string 0+ null=0+
    }
    Values []struct 0+ {
      Key string 0+
      Value float64 0+
    }
  }

api 49 AlterClientQuotas 0-1 flex=1
req
  Entries []struct 0+ {
    Entity []struct 0+ {
      EntityType string 0+
      EntityName string 0+ null=0+
    }
    Ops []struct 0+ {
      Key string 0+
      Value float64 0+
      Remove bool 0+
    }
  }
  ValidateOnly bool 0+
resp
  ThrottleTimeMs int32 0+
  Entries []struct 0+ {
    ErrorCode int16 0+
    ErrorMessage string 0+ null=0+
    Entity []struct 0+ {
      EntityType string 0+
      EntityName string 0+ null=0+
    }
  }

api 50 DescribeUserScramCredentials 0-0 flex=0
req
  Users []struct 0+ null=0+ {
    Name string 0+
  }
resp
  ThrottleTimeMs int32 0+
  ErrorCode int16 0+
  ErrorMessage string 0+ null=0+
  Results []struct 0+ {
    User string 0+
    ErrorCode int16 0+
    ErrorMessage string 0+ null=0+
    CredentialInfos []struct 0+ {
      Mechanism int8 0+
      Iterations int32 0+
    }
  }

api 51 AlterUserScramCredentials 0-0 flex=0
req
  Deletions []struct 0+ {
    Name string 0+
    Mechanism int8 0+
  }
  Upsertions []struct 0+ {
    Name string 0+
    Mechanism int8 0+
    Iterations int32 0+
    Salt bytes 0+
    SaltedPassword bytes 0+
  }
resp
  ThrottleTimeMs int32 0+
  Results []struct 0+ {
    User string 0+
    ErrorCode int16 0+
    ErrorMessage string 0+ null=0+
  }
`
