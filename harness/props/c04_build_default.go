//go:build !unsafe

package props

const c04BuildKind = "default"
