package props

import (
	"github.com/segmentio/kafka-go/protocol"
	"github.com/segmentio/kafka-go/protocol/addoffsetstotxn"
	"github.com/segmentio/kafka-go/protocol/addpartitionstotxn"
	"github.com/segmentio/kafka-go/protocol/alterclientquotas"
	"github.com/segmentio/kafka-go/protocol/alterconfigs"
	"github.com/segmentio/kafka-go/protocol/alterpartitionreassignments"
	"github.com/segmentio/kafka-go/protocol/alteruserscramcredentials"
	"github.com/segmentio/kafka-go/protocol/apiversions"
	"github.com/segmentio/kafka-go/protocol/createacls"
	"github.com/segmentio/kafka-go/protocol/createpartitions"
	"github.com/segmentio/kafka-go/protocol/createtopics"
	"github.com/segmentio/kafka-go/protocol/deleteacls"
	"github.com/segmentio/kafka-go/protocol/deletegroups"
	"github.com/segmentio/kafka-go/protocol/deletetopics"
	"github.com/segmentio/kafka-go/protocol/describeacls"
	"github.com/segmentio/kafka-go/protocol/describeclientquotas"
	"github.com/segmentio/kafka-go/protocol/describeconfigs"
	"github.com/segmentio/kafka-go/protocol/describegroups"
	"github.com/segmentio/kafka-go/protocol/describeuserscramcredentials"
	"github.com/segmentio/kafka-go/protocol/electleaders"
	"github.com/segmentio/kafka-go/protocol/endtxn"
	"github.com/segmentio/kafka-go/protocol/fetch"
	"github.com/segmentio/kafka-go/protocol/findcoordinator"
	"github.com/segmentio/kafka-go/protocol/heartbeat"
	"github.com/segmentio/kafka-go/protocol/incrementalalterconfigs"
	"github.com/segmentio/kafka-go/protocol/initproducerid"
	"github.com/segmentio/kafka-go/protocol/joingroup"
	"github.com/segmentio/kafka-go/protocol/leavegroup"
	"github.com/segmentio/kafka-go/protocol/listgroups"
	"github.com/segmentio/kafka-go/protocol/listoffsets"
	"github.com/segmentio/kafka-go/protocol/listpartitionreassignments"
	"github.com/segmentio/kafka-go/protocol/metadata"
	"github.com/segmentio/kafka-go/protocol/offsetcommit"
	"github.com/segmentio/kafka-go/protocol/offsetdelete"
	"github.com/segmentio/kafka-go/protocol/offsetfetch"
	"github.com/segmentio/kafka-go/protocol/produce"
	"github.com/segmentio/kafka-go/protocol/rawproduce"
	"github.com/segmentio/kafka-go/protocol/saslauthenticate"
	"github.com/segmentio/kafka-go/protocol/saslhandshake"
	"github.com/segmentio/kafka-go/protocol/syncgroup"
	"github.com/segmentio/kafka-go/protocol/txnoffsetcommit"
)

// c04Msg is one registered (request, response) pair of the protocol package.
// The table lists every sub-package of /repo/protocol that calls
// protocol.Register / RegisterOverride (40 APIs + the RawProduce override).
type c04Msg struct {
	Name string
	Req  func() protocol.Message
	Resp func() protocol.Message
	// Override: the request is encoded through RegisterOverride (RawProduce);
	// it has no response type of its own and ReadRequest yields the plain
	// type of the same API key.
	Override bool
}

var c04Msgs = []c04Msg{
	{Name: "Produce", Req: func() protocol.Message { return &produce.Request{} }, Resp: func() protocol.Message { return &produce.Response{} }},
	{Name: "Fetch", Req: func() protocol.Message { return &fetch.Request{} }, Resp: func() protocol.Message { return &fetch.Response{} }},
	{Name: "ListOffsets", Req: func() protocol.Message { return &listoffsets.Request{} }, Resp: func() protocol.Message { return &listoffsets.Response{} }},
	{Name: "Metadata", Req: func() protocol.Message { return &metadata.Request{} }, Resp: func() protocol.Message { return &metadata.Response{} }},
	{Name: "OffsetCommit", Req: func() protocol.Message { return &offsetcommit.Request{} }, Resp: func() protocol.Message { return &offsetcommit.Response{} }},
	{Name: "OffsetFetch", Req: func() protocol.Message { return &offsetfetch.Request{} }, Resp: func() protocol.Message { return &offsetfetch.Response{} }},
	{Name: "FindCoordinator", Req: func() protocol.Message { return &findcoordinator.Request{} }, Resp: func() protocol.Message { return &findcoordinator.Response{} }},
	{Name: "JoinGroup", Req: func() protocol.Message { return &joingroup.Request{} }, Resp: func() protocol.Message { return &joingroup.Response{} }},
	{Name: "Heartbeat", Req: func() protocol.Message { return &heartbeat.Request{} }, Resp: func() protocol.Message { return &heartbeat.Response{} }},
	{Name: "LeaveGroup", Req: func() protocol.Message { return &leavegroup.Request{} }, Resp: func() protocol.Message { return &leavegroup.Response{} }},
	{Name: "SyncGroup", Req: func() protocol.Message { return &syncgroup.Request{} }, Resp: func() protocol.Message { return &syncgroup.Response{} }},
	{Name: "DescribeGroups", Req: func() protocol.Message { return &describegroups.Request{} }, Resp: func() protocol.Message { return &describegroups.Response{} }},
	{Name: "ListGroups", Req: func() protocol.Message { return &listgroups.Request{} }, Resp: func() protocol.Message { return &listgroups.Response{} }},
	{Name: "SaslHandshake", Req: func() protocol.Message { return &saslhandshake.Request{} }, Resp: func() protocol.Message { return &saslhandshake.Response{} }},
	{Name: "ApiVersions", Req: func() protocol.Message { return &apiversions.Request{} }, Resp: func() protocol.Message { return &apiversions.Response{} }},
	{Name: "CreateTopics", Req: func() protocol.Message { return &createtopics.Request{} }, Resp: func() protocol.Message { return &createtopics.Response{} }},
	{Name: "DeleteTopics", Req: func() protocol.Message { return &deletetopics.Request{} }, Resp: func() protocol.Message { return &deletetopics.Response{} }},
	{Name: "InitProducerId", Req: func() protocol.Message { return &initproducerid.Request{} }, Resp: func() protocol.Message { return &initproducerid.Response{} }},
	{Name: "AddPartitionsToTxn", Req: func() protocol.Message { return &addpartitionstotxn.Request{} }, Resp: func() protocol.Message { return &addpartitionstotxn.Response{} }},
	{Name: "AddOffsetsToTxn", Req: func() protocol.Message { return &addoffsetstotxn.Request{} }, Resp: func() protocol.Message { return &addoffsetstotxn.Response{} }},
	{Name: "EndTxn", Req: func() protocol.Message { return &endtxn.Request{} }, Resp: func() protocol.Message { return &endtxn.Response{} }},
	{Name: "TxnOffsetCommit", Req: func() protocol.Message { return &txnoffsetcommit.Request{} }, Resp: func() protocol.Message { return &txnoffsetcommit.Response{} }},
	{Name: "DescribeAcls", Req: func() protocol.Message { return &describeacls.Request{} }, Resp: func() protocol.Message { return &describeacls.Response{} }},
	{Name: "CreateAcls", Req: func() protocol.Message { return &createacls.Request{} }, Resp: func() protocol.Message { return &createacls.Response{} }},
	{Name: "DeleteAcls", Req: func() protocol.Message { return &deleteacls.Request{} }, Resp: func() protocol.Message { return &deleteacls.Response{} }},
	{Name: "DescribeConfigs", Req: func() protocol.Message { return &describeconfigs.Request{} }, Resp: func() protocol.Message { return &describeconfigs.Response{} }},
	{Name: "AlterConfigs", Req: func() protocol.Message { return &alterconfigs.Request{} }, Resp: func() protocol.Message { return &alterconfigs.Response{} }},
	{Name: "SaslAuthenticate", Req: func() protocol.Message { return &saslauthenticate.Request{} }, Resp: func() protocol.Message { return &saslauthenticate.Response{} }},
	{Name: "CreatePartitions", Req: func() protocol.Message { return &createpartitions.Request{} }, Resp: func() protocol.Message { return &createpartitions.Response{} }},
	{Name: "DeleteGroups", Req: func() protocol.Message { return &deletegroups.Request{} }, Resp: func() protocol.Message { return &deletegroups.Response{} }},
	{Name: "ElectLeaders", Req: func() protocol.Message { return &electleaders.Request{} }, Resp: func() protocol.Message { return &electleaders.Response{} }},
	{Name: "IncrementalAlterConfigs", Req: func() protocol.Message { return &incrementalalterconfigs.Request{} }, Resp: func() protocol.Message { return &incrementalalterconfigs.Response{} }},
	{Name: "AlterPartitionReassignments", Req: func() protocol.Message { return &alterpartitionreassignments.Request{} }, Resp: func() protocol.Message { return &alterpartitionreassignments.Response{} }},
	{Name: "ListPartitionReassignments", Req: func() protocol.Message { return &listpartitionreassignments.Request{} }, Resp: func() protocol.Message { return &listpartitionreassignments.Response{} }},
	{Name: "OffsetDelete", Req: func() protocol.Message { return &offsetdelete.Request{} }, Resp: func() protocol.Message { return &offsetdelete.Response{} }},
	{Name: "DescribeClientQuotas", Req: func() protocol.Message { return &describeclientquotas.Request{} }, Resp: func() protocol.Message { return &describeclientquotas.Response{} }},
	{Name: "AlterClientQuotas", Req: func() protocol.Message { return &alterclientquotas.Request{} }, Resp: func() protocol.Message { return &alterclientquotas.Response{} }},
	{Name: "DescribeUserScramCredentials", Req: func() protocol.Message { return &describeuserscramcredentials.Request{} }, Resp: func() protocol.Message { return &describeuserscramcredentials.Response{} }},
	{Name: "AlterUserScramCredentials", Req: func() protocol.Message { return &alteruserscramcredentials.Request{} }, Resp: func() protocol.Message { return &alteruserscramcredentials.Response{} }},
	{Name: "RawProduce", Req: func() protocol.Message { return &rawproduce.Request{} }, Override: true},
}
