package props

import (
	"context"
	"errors"
	"fmt"
	"strings"
	"sync"
	"time"

	kafka "github.com/segmentio/kafka-go"

	"verifharness/core"
	"verifharness/fakecluster"
	"verifharness/refcodec"
)

// C08 — Writer batches respect size limits and are flushed without further input.

func init() {
	core.Register(&core.Prop{
		ID:    "C08",
		Level: "exploration",
		Rule: "limits list: Writer scenarios with message sizes placed around BatchBytes (-1, =, +1 in the library's own measure, headers included), calls that must be rejected up front (oversized message, writer-level and message-level topic mixed) and concurrent callers racing the batch timer; every produce request the broker sees is measured. " +
			"flush list: (a) BatchTimeout=10min + a call that fills a batch exactly, (b) huge BatchSize + BatchTimeout 20ms + one message then silence, (c) healthy broker, writer left open: every accepted message must reach the broker without any further write or Close. " +
			"signature = (config class, boundary placement, kinds of rejects, flush variant, request fill pattern); non-trivial = a request filled a limit exactly, a reject was exercised, or a flush variant ran",
		Assumptions: []string{
			"sizes are measured with the library's own Message.totalSize (exported under the verif tag) and, independently, as key+value+header bytes (a lower bound that must also respect BatchBytes)",
			"flush bounds are wall-clock (10 s against configured timeouts of at most 50 ms) and a miss is only reported after a confirmation run on an idle process",
		},
		Shards:          16,
		CaseTimeout:     40 * time.Second,
		HangIsViolation: true,
		Run:             runC08,
	})
}

func runC08(c *core.Ctx) {
	kafka.VerifSetPoints(wHookPoints())
	c.CasesPar("limits", c.N(1000, 80000), 4, func(k *core.Case) {
		r := k.R
		cfg := genWriterCfg(r, "")
		cfg.BatchSize = core.Pick(r, 1, 2, 3, 7, 100, 0)
		cfg.BatchBytes = core.Pick(r, int64(300), int64(600), int64(1000), int64(4096), int64(0))
		cfg.SizeMode = "boundary"
		cfg.Rejects = r.Chance(1, 2)
		cfg.Headers = true
		if cfg.ProduceMax < 3 {
			cfg.Headers = false
		}
		cfg.MsgsMax = core.Pick(r, 1, 3, 8, 20)
		cfg.BatchTimeout = time.Duration(core.Pick(r, 1, 2, 5, 10)) * time.Millisecond
		cfg.Faults = nil
		if r.Chance(1, 3) {
			genWriterFaults(r, &cfg, false)
		}
		k.Describe(cfg.desc())
		run := wSetup(k, cfg)
		bb := cfg.BatchBytes
		if bb == 0 {
			bb = 1048576
		}
		boundaryHit := map[string]bool{}
		var bmu sync.Mutex
		opts := wWorkloadOpts{shape: func(r *core.Rand, call *wCall, msgs []kafka.Message) {
			for i := range msgs {
				if bb > 100000 {
					continue
				}
				// place sizes: fractions of BatchBytes so that sums hit the limit exactly, and the limit itself +-1
				var target int32
				switch r.Intn(8) {
				case 0:
					target = int32(bb)
				case 1:
					target = int32(bb) - 1
				case 2:
					target = int32(bb / 2)
				case 3:
					target = int32(bb / 3)
				case 4:
					target = int32(bb/2) + 1
				default:
					continue
				}
				got := wSizeTo(&msgs[i], call.Msgs[i].ID, target)
				if got == target {
					bmu.Lock()
					boundaryHit[fmt.Sprint(int64(target)-bb)] = true
					bmu.Unlock()
				}
			}
			if cfg.Rejects && r.Chance(1, 4) && bb < 100000 {
				// oversize one message: must reject the whole call up front
				i := r.Intn(len(msgs))
				wSizeTo(&msgs[i], call.Msgs[i].ID, int32(bb)+int32(core.Pick(r, 1, 2, 100)))
				if int64(kafka.VerifMessageTotalSize(msgs[i])) > bb {
					call.Rejected = true
					call.Msgs[i].Reject = "too-large"
				}
			} else if cfg.Rejects && r.Chance(1, 5) {
				// topic mix: writer-level and message-level topic, or none at all
				i := r.Intn(len(msgs))
				if cfg.WriterTopic {
					msgs[i].Topic = wTopicName(0)
				} else {
					msgs[i].Topic = ""
				}
				call.Rejected = true
				call.Msgs[i].Reject = "topic-mix"
			}
		}}
		wRunWorkload(k, run, opts)
		checkC08Limits(k, run, boundaryHit)
	})

	c.CasesPar("flush", c.N(200, 12000), 4, func(k *core.Case) {
		r := k.R
		variant := core.Pick(r, "a-size-trigger", "b-timer-trigger", "c-quiescence", "c-quiescence", "d-close-at-timer")
		cfg := genWriterCfg(r, "")
		cfg.Faults = nil
		cfg.NoClose = true
		cfg.Async = true
		cfg.BatchBytes = 0
		cfg.SizeMode = variant
		switch variant {
		case "a-size-trigger":
			cfg.Topics = []int{1}
			cfg.WriterTopic = true
			cfg.BatchTimeout = 10 * time.Minute
			cfg.BatchSize = core.Pick(r, 1, 2, 5, 16)
			cfg.Goroutines, cfg.Calls, cfg.MsgsMax = 1, 1, cfg.BatchSize
		case "b-timer-trigger":
			cfg.Topics = []int{r.Range(1, 3)}
			cfg.WriterTopic = true
			cfg.BatchTimeout = 20 * time.Millisecond
			cfg.BatchSize = 100000
			cfg.Goroutines, cfg.Calls, cfg.MsgsMax = 1, 1, 1
		case "d-close-at-timer":
			// the writer is closed at about the moment the batch timer closes the open batch: whichever of
			// the two gets there first, the accepted messages have been scheduled and must be sent
			cfg.Topics = []int{1}
			cfg.WriterTopic = true
			cfg.BatchTimeout = time.Duration(core.Pick(r, 1, 2, 5)) * time.Millisecond
			cfg.BatchSize = 100000
			cfg.Goroutines, cfg.Calls, cfg.MsgsMax = 1, 1, 3
		default:
			cfg.Async = r.Bool()
			cfg.BatchTimeout = time.Duration(core.Pick(r, 1, 5, 20, 50)) * time.Millisecond
			if r.Chance(1, 3) {
				// retried batches with queued successors
				cfg.MaxAttempts = 3
				cfg.Faults = append(cfg.Faults, wFault{Broker: int32(r.Range(1, cfg.Brokers)), N: r.Range(1, 3), Act: core.Pick(r, "apply-drop", "error", "drop-before"), Code: 7})
			}
		}
		k.Describe(cfg.desc())
		run := wSetup(k, cfg)
		opts := wWorkloadOpts{}
		if variant == "a-size-trigger" {
			// exactly BatchSize messages in the single call
			opts.shape = nil
		}
		if variant == "a-size-trigger" {
			// force exactly MsgsMax messages: the engine draws 1..MsgsMax, so submit directly
			msgs := make([]kafka.Message, 0, cfg.BatchSize)
			call := &wCall{}
			for i := 0; i < cfg.BatchSize; i++ {
				m, wm := wMakeMessage(r, cfg, 0, 0, i, i, wTopicName(0))
				msgs = append(msgs, m)
				call.Msgs = append(call.Msgs, wm)
				run.Msgs[wm.ID] = wm
			}
			run.Calls = append(run.Calls, call)
			call.Err = run.Writer.WriteMessages(context.Background(), msgs...)
		} else {
			wRunWorkload(k, run, opts)
		}
		if variant == "d-close-at-timer" {
			time.Sleep(cfg.BatchTimeout + time.Duration(r.Range(-400, 600))*time.Microsecond)
			wClose(run)
		}
		// without any further write and without Close (variant d: once Close has returned), every accepted
		// message must reach the broker
		want := map[string]bool{}
		for _, call := range run.Calls {
			if call.Err != nil && call.PerMsg == nil {
				continue
			}
			for _, m := range call.Msgs {
				want[m.ID] = true
			}
		}
		deadline := time.Now().Add(10 * time.Second)
		if variant == "d-close-at-timer" {
			deadline = time.Now().Add(200 * time.Millisecond) // the writer is closed: nothing more can be sent
		}
		missing := 0
		for {
			seen := map[string]bool{}
			for _, a := range wAttempts(run) {
				for _, id := range a.IDs {
					seen[id] = true
				}
			}
			missing = 0
			for id := range want {
				if !seen[id] {
					missing++
				}
			}
			if missing == 0 || time.Now().After(deadline) {
				break
			}
			time.Sleep(200 * time.Microsecond)
		}
		c.Eval(1)
		c.Count("flush_variant:"+variant, 1)
		if missing > 0 && variant == "d-close-at-timer" {
			k.Viol("c08:accepted-not-sent-at-close", fmt.Sprintf("%d of %d messages accepted by an asynchronous writer were never sent: the writer was closed %s after the write, about when the batch timer (%s) fired", missing, len(want), cfg.BatchTimeout, cfg.BatchTimeout), map[string]any{"attempts": describeAttempts(wAttempts(run))})
		} else if missing > 0 {
			k.TimeViol("c08:not-flushed:"+variant, fmt.Sprintf("%d of %d accepted messages were not sent within 10 s although no further write was needed (variant %s)", missing, len(want), variant), map[string]any{"attempts": describeAttempts(wAttempts(run))})
		}
		if variant != "d-close-at-timer" {
			wClose(run)
		}
		c.Distinct(fmt.Sprintf("flush %s bs%d bt%s async%v faults%d", variant, cfg.BatchSize, cfg.BatchTimeout, cfg.Async, len(cfg.Faults)))
		if k.Idx < 6 {
			c.Sample(map[string]any{"case": k.ID, "variant": variant, "config": cfg.desc(), "accepted": len(want), "missing_after_wait": missing})
		}
	})
}

func checkC08Limits(k *core.Case, run *wRun, boundaryHit map[string]bool) {
	c := k.Ctx
	cfg := run.Cfg
	if !run.Quiesced {
		c.Inconclusive("broker handlers still running after Close: " + k.ID)
		return
	}
	c.Eval(1)
	bs := cfg.BatchSize
	if bs <= 0 {
		bs = 100
	}
	bb := cfg.BatchBytes
	if bb <= 0 {
		bb = 1048576
	}
	fills := map[string]bool{}
	sent := map[string]bool{}
	for _, ev := range run.Cluster.Journal() {
		if ev.API != fakecluster.KProduce || ev.Body == nil {
			continue
		}
		topics := refcodec.Arr(ev.Body["Topics"])
		nparts := 0
		for _, t := range topics {
			nparts += len(refcodec.Arr(refcodec.Map(t)["Partitions"]))
		}
		if len(topics) != 1 || nparts != 1 {
			k.Viol("c08:multi-partition-request", fmt.Sprintf("a produce request carries %d topics / %d partitions", len(topics), nparts), nil)
		}
	}
	for _, a := range wAttempts(run) {
		c.Count("requests_measured", 1)
		var sum int64
		var raw int64
		for _, id := range a.IDs {
			sent[id] = true
			m := run.Msgs[id]
			if m == nil {
				continue
			}
			sum += int64(m.Size)
			raw += int64(m.Raw)
			if m.Topic != a.Topic {
				k.Viol("c08:mixed-topic-request", fmt.Sprintf("record %s of topic %s travelled in a request for %s", id, m.Topic, a.Topic), nil)
			}
		}
		if len(a.IDs) > bs {
			k.Viol("c08:batch-size-exceeded", fmt.Sprintf("produce request with %d messages, BatchSize=%d", len(a.IDs), bs), map[string]any{"ids": a.IDs})
		}
		if sum > bb {
			k.Viol("c08:batch-bytes-exceeded", fmt.Sprintf("produce request with %d message bytes (library measure), BatchBytes=%d", sum, bb), map[string]any{"ids": a.IDs})
		}
		if raw > bb {
			k.Viol("c08:batch-bytes-exceeded-raw", fmt.Sprintf("produce request with %d key+value+header bytes, BatchBytes=%d", raw, bb), map[string]any{"ids": a.IDs})
		}
		if len(a.IDs) == bs {
			fills["size="] = true
		}
		if sum == bb {
			fills["bytes="] = true
			c.Count("requests_exactly_at_batchbytes", 1)
		} else if sum == bb-1 {
			fills["bytes-1"] = true
		}
	}
	rejKinds := map[string]bool{}
	for _, call := range run.Calls {
		if !call.Rejected {
			continue
		}
		kind := ""
		for _, m := range call.Msgs {
			if m.Reject != "" {
				kind = m.Reject
			}
		}
		rejKinds[kind] = true
		c.Count("rejected_calls:"+kind, 1)
		if call.Err == nil || call.PerMsg != nil {
			k.Viol("c08:not-rejected:"+kind, fmt.Sprintf("a call that must be rejected up front (%s) returned %v", kind, call.Err), nil)
		} else if kind == "too-large" {
			var tl kafka.MessageTooLargeError
			if !errors.As(call.Err, &tl) && !errors.Is(call.Err, kafka.MessageSizeTooLarge) {
				k.Viol("c08:wrong-reject-error", fmt.Sprintf("oversized message rejected with %v", call.Err), nil)
			}
		}
		for _, m := range call.Msgs {
			if sent[m.ID] {
				k.Viol("c08:rejected-call-sent:"+kind, fmt.Sprintf("message %s of a rejected call (%s) was sent to a broker", m.ID, kind), nil)
				break
			}
		}
	}
	var parts []string
	for f := range fills {
		parts = append(parts, f)
	}
	for f := range boundaryHit {
		parts = append(parts, "d"+f)
	}
	for f := range rejKinds {
		parts = append(parts, "rej:"+f)
	}
	if len(parts) > 0 {
		sortStrings(parts)
		c.Distinct(fmt.Sprintf("limits bs%d bb%d async%v g%d | %s", cfg.BatchSize, cfg.BatchBytes, cfg.Async, cfg.Goroutines, strings.Join(parts, ",")))
	}
	if k.Idx < 16 && len(rejKinds) > 0 {
		c.Sample(map[string]any{"case": k.ID, "config": cfg.desc(), "fills": parts})
	}
}

func sortStrings(s []string) {
	for i := 1; i < len(s); i++ {
		for j := i; j > 0 && s[j] < s[j-1]; j-- {
			s[j], s[j-1] = s[j-1], s[j]
		}
	}
}
