package props

import (
	"context"
	"fmt"
	"strings"
	"sync"
	"sync/atomic"
	"time"

	kafka "github.com/segmentio/kafka-go"
	"github.com/segmentio/kafka-go/protocol"
	"github.com/segmentio/kafka-go/protocol/addoffsetstotxn"
	"github.com/segmentio/kafka-go/protocol/addpartitionstotxn"
	"github.com/segmentio/kafka-go/protocol/apiversions"
	"github.com/segmentio/kafka-go/protocol/createpartitions"
	"github.com/segmentio/kafka-go/protocol/createtopics"
	"github.com/segmentio/kafka-go/protocol/deletegroups"
	"github.com/segmentio/kafka-go/protocol/deletetopics"
	"github.com/segmentio/kafka-go/protocol/describegroups"
	"github.com/segmentio/kafka-go/protocol/endtxn"
	"github.com/segmentio/kafka-go/protocol/fetch"
	"github.com/segmentio/kafka-go/protocol/findcoordinator"
	"github.com/segmentio/kafka-go/protocol/heartbeat"
	"github.com/segmentio/kafka-go/protocol/initproducerid"
	"github.com/segmentio/kafka-go/protocol/joingroup"
	"github.com/segmentio/kafka-go/protocol/leavegroup"
	"github.com/segmentio/kafka-go/protocol/listgroups"
	"github.com/segmentio/kafka-go/protocol/listoffsets"
	"github.com/segmentio/kafka-go/protocol/offsetcommit"
	"github.com/segmentio/kafka-go/protocol/offsetdelete"
	"github.com/segmentio/kafka-go/protocol/offsetfetch"
	"github.com/segmentio/kafka-go/protocol/produce"
	"github.com/segmentio/kafka-go/protocol/syncgroup"
	"github.com/segmentio/kafka-go/protocol/txnoffsetcommit"

	"verifharness/core"
	"verifharness/fakecluster"
	"verifharness/fakenet"
	"verifharness/refcodec"
)

// C17 — A response cut off at any byte yields an error, never a panic, hang or fake data.

func init() {
	core.Register(&core.Prop{
		ID:    "C17",
		Level: "fault_enumeration",
		Rule: "conn list: for every kafka.Conn operation and negotiable version, the response of an undisturbed run is measured and then the run is repeated once per cut position k in 0..len-1 and per ending (EOF, ECONNRESET; thorough adds silence until the deadline): the operation must return an error (fetch: a prefix of the complete records, then an error), or exactly the undisturbed result, and the Conn must be dead afterwards. " +
			"transport list: the same through kafka.Transport.RoundTrip for every API with a reference schema and every version both sides support, with responses filled by a schema-driven generator; afterwards the same call must succeed on a new connection. reader/writer lists: a fixed Reader and Writer scenario re-run with the first fetch / produce response cut at every k (oracles of C02 / C01). " +
			"sasl list: a SCRAM-SHA-256 authentication (Transport and Dialer, raw tokens after a v0 handshake and framed SaslAuthenticate) with the server-first and the server-final token cut at every byte (every third at quick): the operation must fail and the sasl.StateMachine must never be handed a challenge that is not one of the server's complete tokens (the mechanism is wrapped in a recorder). " +
			"signature = (path, operation or api, version, ending, outcome class); every case injects a cut, so all are non-trivial",
		Assumptions: []string{
			"cut positions are enumerated completely for the sample response of each (path, api, version); other response contents are covered by sampling in C01/C02",
			"the silence ending relies on the client's own deadline (200-300 ms); the case watchdog turns a missing return into a violation",
		},
		Shards:          16,
		CaseTimeout:     45 * time.Second,
		HangIsViolation: true,
		Run:             runC17,
	})
}

// fillValue generates a response value for fields at version ver: arrays get two elements, strings are short,
// integers small positive, error codes zero.
func fillValue(fields []*refcodec.Field, ver int, depth int) map[string]any {
	out := map[string]any{}
	for _, f := range fields {
		if f.Tag >= 0 || !f.Versions.Has(ver) {
			continue
		}
		var one func() any
		switch f.Kind {
		case refcodec.KStruct:
			one = func() any { return fillValue(f.Fields, ver, depth+1) }
		case refcodec.KString:
			one = func() any { return "s" + f.Name[:1] }
		case refcodec.KBytes:
			one = func() any { return []byte{1, 2, 3} }
		case refcodec.KRecords:
			one = func() any { return []byte{} }
		case refcodec.KBool:
			one = func() any { return true }
		default:
			one = func() any {
				if strings.Contains(f.Name, "ErrorCode") {
					return int64(0)
				}
				return int64(depth + 1)
			}
		}
		if f.Array {
			out[f.Name] = []any{one(), one()}
		} else {
			out[f.Name] = one()
		}
	}
	return out
}

type trOp struct {
	API  int
	Name string
	Req  func() protocol.Message
}

func transportOps() []trOp {
	recs := func() protocol.RecordReader {
		return protocol.NewRecordReader(protocol.Record{Time: time.UnixMilli(tsBase), Value: protocol.NewBytes([]byte("v"))})
	}
	return []trOp{
		{fakecluster.KProduce, "Produce", func() protocol.Message {
			return &produce.Request{Acks: 1, Timeout: 100, Topics: []produce.RequestTopic{{Topic: connTopic, Partitions: []produce.RequestPartition{{Partition: 0, RecordSet: protocol.RecordSet{Records: recs()}}}}}}
		}},
		{fakecluster.KFetch, "Fetch", func() protocol.Message {
			return &fetch.Request{ReplicaID: -1, MaxWaitTime: 5, MinBytes: 1, MaxBytes: 1 << 20, Topics: []fetch.RequestTopic{{Topic: connTopic, Partitions: []fetch.RequestPartition{{Partition: 0, FetchOffset: 0, PartitionMaxBytes: 1 << 20}}}}}
		}},
		{fakecluster.KListOffsets, "ListOffsets", func() protocol.Message {
			return &listoffsets.Request{ReplicaID: -1, Topics: []listoffsets.RequestTopic{{Topic: connTopic, Partitions: []listoffsets.RequestPartition{{Partition: 0, Timestamp: -1}}}}}
		}},
		{fakecluster.KOffsetCommit, "OffsetCommit", func() protocol.Message {
			return &offsetcommit.Request{GroupID: "g", GenerationID: -1, Topics: []offsetcommit.RequestTopic{{Name: connTopic, Partitions: []offsetcommit.RequestPartition{{PartitionIndex: 0, CommittedOffset: 3}}}}}
		}},
		{fakecluster.KOffsetFetch, "OffsetFetch", func() protocol.Message {
			return &offsetfetch.Request{GroupID: "g", Topics: []offsetfetch.RequestTopic{{Name: connTopic, PartitionIndexes: []int32{0, 1}}}}
		}},
		{fakecluster.KFindCoordinator, "FindCoordinator", func() protocol.Message { return &findcoordinator.Request{Key: "g"} }},
		{fakecluster.KJoinGroup, "JoinGroup", func() protocol.Message {
			return &joingroup.Request{GroupID: "g", SessionTimeoutMS: 1000, RebalanceTimeoutMS: 1000, ProtocolType: "consumer", Protocols: []joingroup.RequestProtocol{{Name: "range", Metadata: []byte{0, 1, 0, 0, 0, 0, 0, 0, 0, 0}}}}
		}},
		{fakecluster.KHeartbeat, "Heartbeat", func() protocol.Message { return &heartbeat.Request{GroupID: "g", GenerationID: 1, MemberID: "m"} }},
		{fakecluster.KLeaveGroup, "LeaveGroup", func() protocol.Message {
			return &leavegroup.Request{GroupID: "g", MemberID: "m", Members: []leavegroup.RequestMember{{MemberID: "m"}}}
		}},
		{fakecluster.KSyncGroup, "SyncGroup", func() protocol.Message { return &syncgroup.Request{GroupID: "g", GenerationID: 1, MemberID: "m"} }},
		{fakecluster.KDescribeGroups, "DescribeGroups", func() protocol.Message { return &describegroups.Request{Groups: []string{"g"}} }},
		{fakecluster.KListGroups, "ListGroups", func() protocol.Message { return &listgroups.Request{} }},
		{fakecluster.KApiVersions, "ApiVersions", func() protocol.Message { return &apiversions.Request{} }},
		{fakecluster.KCreateTopics, "CreateTopics", func() protocol.Message {
			return &createtopics.Request{TimeoutMs: 100, Topics: []createtopics.RequestTopic{{Name: "nt", NumPartitions: 1, ReplicationFactor: 1}}, ValidateOnly: true}
		}},
		{fakecluster.KDeleteTopics, "DeleteTopics", func() protocol.Message { return &deletetopics.Request{TopicNames: []string{"absent"}, TimeoutMs: 100} }},
		{fakecluster.KInitProducerID, "InitProducerId", func() protocol.Message {
			return &initproducerid.Request{TransactionalID: "tx", TransactionTimeoutMs: 100}
		}},
		{24, "AddPartitionsToTxn", func() protocol.Message {
			return &addpartitionstotxn.Request{TransactionalID: "tx", ProducerID: 1, Topics: []addpartitionstotxn.RequestTopic{{Name: connTopic, Partitions: []int32{0}}}}
		}},
		{25, "AddOffsetsToTxn", func() protocol.Message {
			return &addoffsetstotxn.Request{TransactionalID: "tx", ProducerID: 1, GroupID: "g"}
		}},
		{26, "EndTxn", func() protocol.Message { return &endtxn.Request{TransactionalID: "tx", ProducerID: 1, Committed: true} }},
		{28, "TxnOffsetCommit", func() protocol.Message {
			return &txnoffsetcommit.Request{TransactionalID: "tx", GroupID: "g", ProducerID: 1, Topics: []txnoffsetcommit.RequestTopic{{Name: connTopic, Partitions: []txnoffsetcommit.RequestPartition{{Partition: 0, CommittedOffset: 1}}}}}
		}},
		{37, "CreatePartitions", func() protocol.Message {
			return &createpartitions.Request{TimeoutMs: 100, ValidateOnly: true, Topics: []createpartitions.RequestTopic{{Name: connTopic, Count: 3}}}
		}},
		{42, "DeleteGroups", func() protocol.Message { return &deletegroups.Request{GroupIDs: []string{"g"}} }},
		{47, "OffsetDelete", func() protocol.Message {
			return &offsetdelete.Request{GroupID: "g", Topics: []offsetdelete.RequestTopic{{Name: connTopic, Partitions: []offsetdelete.RequestPartition{{PartitionIndex: 0}}}}}
		}},
	}
}

func msgDigest(m protocol.Message) string {
	if m == nil {
		return "<nil>"
	}
	// record sets hold readers: describe fetch responses by their records
	if fr, ok := m.(*fetch.Response); ok {
		var sb strings.Builder
		for _, t := range fr.Topics {
			for _, p := range t.Partitions {
				fmt.Fprintf(&sb, "%s/%d e%d hw%d:", t.Topic, p.Partition, p.ErrorCode, p.HighWatermark)
				if p.RecordSet.Records != nil {
					for {
						r, err := p.RecordSet.Records.ReadRecord()
						if err != nil {
							fmt.Fprintf(&sb, "|%v", err)
							break
						}
						v, _ := protocol.ReadAll(r.Value)
						fmt.Fprintf(&sb, " %d=%s", r.Offset, v)
						if r.Key != nil {
							r.Key.Close()
						}
						if r.Value != nil {
							r.Value.Close()
						}
					}
				}
			}
		}
		return sb.String()
	}
	return digest(m)
}

type c17ConnCase struct {
	op, ver, k int
	mode       fakenet.CutMode
}

func runC17(c *core.Ctx) {
	ops := connOpsC17()
	modes := []fakenet.CutMode{fakenet.CutEOF, fakenet.CutReset}
	if !c.Quick() {
		modes = append(modes, fakenet.CutStall)
	}
	// ---- measure the undisturbed response of every (op, version)
	type ref struct {
		n      int
		digest string
	}
	refs := map[[2]int]ref{}
	for i, op := range ops {
		for _, v := range op.Versions {
			env := newConnEnvCodecs(map[int]int{op.API: v}, op.codecs())
			cn, err := env.dial()
			if err != nil {
				continue
			}
			if op.API != fakecluster.KApiVersions {
				cn.ApiVersions()
			}
			var n int32
			env.Cluster.Script = func(rc *fakecluster.ReqCtx) *fakecluster.Action {
				if rc.Ev.API == op.API {
					return &fakecluster.Action{MutateFrame: func(f []byte) []byte { atomic.StoreInt32(&n, int32(len(f))); return f }}
				}
				return nil
			}
			d, err := op.Run(cn)
			cn.Close()
			env.Cluster.Close()
			if err == nil && n > 0 {
				refs[[2]int{i, v}] = ref{int(n), d}
			}
		}
	}
	var cases []c17ConnCase
	for i, op := range ops {
		for _, v := range op.Versions {
			r, ok := refs[[2]int{i, v}]
			if !ok {
				continue
			}
			for k := 0; k < r.n; k++ {
				for _, m := range modes {
					cases = append(cases, c17ConnCase{i, v, k, m})
				}
			}
		}
	}
	c.SetExhaustive(true)
	c.Count("conn_op_versions_measured", int64(len(refs)))
	c.CasesPar("conn", len(cases), 4, func(k *core.Case) {
		cs := cases[k.Idx]
		op := ops[cs.op]
		rf := refs[[2]int{cs.op, cs.ver}]
		if cs.k%50 == 0 {
			k.Describe(map[string]any{"op": op.Name, "version": cs.ver, "cut_at": cs.k, "of": rf.n, "ending": cs.mode.String()})
		}
		env := newConnEnvCodecs(map[int]int{op.API: cs.ver}, op.codecs())
		defer env.Cluster.Close()
		cn, err := env.dial()
		if err != nil {
			c.Inconclusive("dial: " + err.Error())
			return
		}
		defer cn.Close()
		if op.API != fakecluster.KApiVersions {
			cn.ApiVersions()
		}
		var armed int32 = 1
		env.Cluster.Script = func(rc *fakecluster.ReqCtx) *fakecluster.Action {
			if rc.Ev.API == op.API && atomic.CompareAndSwapInt32(&armed, 1, 0) {
				return &fakecluster.Action{Kind: fakecluster.ActCut, CutAt: cs.k, CutMode: cs.mode}
			}
			return nil
		}
		cn.SetDeadline(time.Now().Add(200 * time.Millisecond))
		t0 := time.Now()
		d, err := op.Run(cn)
		el := time.Since(t0)
		c.Eval(1)
		key := fmt.Sprintf("%s.v%d", op.Name, cs.ver)
		outcome := "error"
		switch {
		case err == nil && d == rf.digest:
			outcome = "complete" // nothing of value was cut (cannot happen for k < len unless trailing bytes are discarded)
		case err == nil:
			k.Viol("c17:fabricated-result:conn:"+key, fmt.Sprintf("%s with its response cut at byte %d of %d (%s) returned %q without error; the undisturbed result is %q", op.Name, cs.k, rf.n, cs.mode, d, rf.digest), nil)
		case op.Fetch:
			// records returned before the error must be a prefix of the undisturbed ones
			if d != "" && !strings.HasPrefix(rf.digest, d) {
				k.Viol("c17:not-a-prefix:conn:"+key, fmt.Sprintf("%s cut at byte %d of %d (%s) returned records %q, not a prefix of %q", op.Name, cs.k, rf.n, cs.mode, d, rf.digest), nil)
			}
			if d != "" {
				outcome = "prefix+error"
			}
		}
		if el > 5*time.Second {
			k.TimeViol("c17:slow-return:conn:"+key, fmt.Sprintf("%s took %s to return after its response was cut (deadline 200 ms)", op.Name, el), nil)
		}
		// the connection must be dead now
		cn.SetDeadline(time.Now().Add(200 * time.Millisecond))
		if _, err2 := cn.ReadLastOffset(); err2 == nil && outcome != "complete" {
			k.Viol("c17:conn-alive-after-cut:"+key, fmt.Sprintf("after %s failed on a response cut at byte %d (%s), ReadLastOffset on the same Conn succeeded", op.Name, cs.k, cs.mode), nil)
		}
		c.Count("conn_outcome:"+outcome, 1)
		if outcome == "complete" {
			c.Count("conn_complete_despite_cut:"+key, 1)
		}
		c.Distinct(fmt.Sprintf("conn %s %s %s", key, cs.mode, outcome))
		if k.Idx%4001 == 0 {
			c.Sample(map[string]any{"path": "conn", "op": op.Name, "version": cs.ver, "cut_at": cs.k, "of": rf.n, "ending": cs.mode.String(), "result": fmt.Sprintf("%q / %v", d, err)})
		}
	})

	// ---- Reader and Writer continuation: a fixed scenario, first fetch / produce response cut at every byte
	c.CasesPar("reader", 2*420, 4, func(k *core.Case) {
		cut := k.Idx / 2
		mode := modes[k.Idx%2]
		k.R = core.NewRand(20260925) // the same log layout for every cut position
		cfg := rCfg{Brokers: 2, FetchMax: core.Pick(core.NewRand(uint64(cut)), 2, 5, 10), Start: "first", MinBytes: 1, MaxBytesPad: 1 << 20, MaxWait: 10 * time.Millisecond, Queue: 100,
			Layout: layoutCfg{N: 14, MaxMagic: 1, BatchMax: 5, Codecs: []int{0, 1, 2}, Compact: true}}
		if cfg.FetchMax >= 4 {
			cfg.Layout.MaxMagic = 2
			cfg.Layout.Empty = true
		}
		cfg.Faults = []rFault{{N: 1, Act: "cut", CutAt: cut, Mode: mode}, {N: 3, Act: "cut", CutAt: cut / 2, Mode: mode}}
		if cut%60 == 0 {
			k.Describe(map[string]any{"scenario": "reader", "cut_first_fetch_response_at": cut, "ending": mode.String(), "fetch_version": cfg.FetchMax})
		}
		c02Run(k, cfg)
	})
	c.CasesPar("writer", 2*90, 4, func(k *core.Case) {
		cut := k.Idx / 2
		mode := modes[k.Idx%2]
		k.R = core.NewRand(20260926)
		cfg := wCfg{Brokers: 1, Topics: []int{1}, ProduceMax: core.Pick(core.NewRand(uint64(cut)), 2, 3, 7, 8), WriterTopic: true, Balancer: "roundrobin", BatchSize: 3, BatchTimeout: 2 * time.Millisecond,
			MaxAttempts: 3, BackoffMin: time.Millisecond, BackoffMax: 2 * time.Millisecond, Acks: -1, WriteTimeout: 5 * time.Second, MetadataTTL: 50 * time.Millisecond, Goroutines: 1, Calls: 2, MsgsMax: 3,
			Faults: []wFault{{Broker: 1, N: 1, Act: "cut", CutAt: cut, Mode: mode}}}
		if cut%30 == 0 {
			k.Describe(map[string]any{"scenario": "writer", "cut_first_produce_response_at": cut, "ending": mode.String(), "produce_version": cfg.ProduceMax})
		}
		run := wSetup(k, cfg)
		wRunWorkload(k, run, wWorkloadOpts{})
		checkC01(k, run, false)
		checkC07(k, run, 0)
	})

	// ---- Transport
	tops := transportOps()
	type tref struct {
		n      int
		digest string
	}
	type tkey struct{ op, ver int }
	trefs := map[tkey]tref{}
	newTrEnv := func(api, ver int) (*connEnv, *kafka.Transport) {
		env := newConnEnv(map[int]int{api: ver})
		b := env.Cluster.Brokers[1]
		vr := b.Versions[api]
		vr.Max = ver
		if vr.Min > ver {
			vr.Min = ver
		}
		b.Versions[api] = vr
		tr := &kafka.Transport{Dial: env.Net.Dialer("tr"), ClientID: "verif-tr", MetadataTTL: 1500 * time.Millisecond, IdleTimeout: time.Second, DialTimeout: time.Second}
		return env, tr
	}
	roundTrip := func(tr *kafka.Transport, req protocol.Message, timeout time.Duration) (protocol.Message, error) {
		ctx, cancel := context.WithTimeout(context.Background(), timeout)
		defer cancel()
		return tr.RoundTrip(ctx, kafka.TCP("b1:9092"), req)
	}
	filler := func(api *refcodec.API, ver int) func(resp map[string]any) {
		return func(resp map[string]any) {
			switch api.Key {
			case fakecluster.KFetch, fakecluster.KProduce, fakecluster.KListOffsets, fakecluster.KFindCoordinator, fakecluster.KApiVersions, fakecluster.KOffsetCommit, fakecluster.KOffsetFetch:
				return // served with real content by the fake cluster
			}
			for k2 := range resp {
				delete(resp, k2)
			}
			for k2, v := range fillValue(api.Resp, ver, 0) {
				resp[k2] = v
			}
		}
	}
	for i, op := range tops {
		api := refcodec.APIs[op.API]
		if api == nil {
			continue
		}
		lo, hi := int(protocol.ApiKey(op.API).MinVersion()), int(protocol.ApiKey(op.API).MaxVersion())
		for v := lo; v <= hi; v++ {
			if !api.Versions.Has(v) {
				continue
			}
			env, tr := newTrEnv(op.API, v)
			var n int32
			fill := filler(api, v)
			env.Cluster.Script = func(rc *fakecluster.ReqCtx) *fakecluster.Action {
				if rc.Ev.API == op.API {
					return &fakecluster.Action{Mutate: fill, MutateFrame: func(f []byte) []byte { atomic.StoreInt32(&n, int32(len(f))); return f }}
				}
				return nil
			}
			m, err := roundTrip(tr, op.Req(), 2*time.Second)
			if err == nil && n > 0 {
				trefs[tkey{i, v}] = tref{int(n), msgDigest(m)}
			} else {
				c.Count("transport_reference_failed:"+op.Name, 1)
			}
			tr.CloseIdleConnections()
			env.Cluster.Close()
		}
	}
	type tcase struct {
		op, ver, k int
		mode       fakenet.CutMode
	}
	var tcases []tcase
	for i := range tops {
		for v := 0; v < 20; v++ {
			r, ok := trefs[tkey{i, v}]
			if !ok {
				continue
			}
			for k := 0; k < r.n; k++ {
				for _, m := range modes {
					tcases = append(tcases, tcase{i, v, k, m})
				}
			}
		}
	}
	c17Sasl(c)
	c.Count("transport_api_versions_measured", int64(len(trefs)))
	c.CasesPar("transport", len(tcases), 4, func(k *core.Case) {
		cs := tcases[k.Idx]
		op := tops[cs.op]
		rf := trefs[tkey{cs.op, cs.ver}]
		api := refcodec.APIs[op.API]
		if cs.k%50 == 0 {
			k.Describe(map[string]any{"api": op.Name, "version": cs.ver, "cut_at": cs.k, "of": rf.n, "ending": cs.mode.String()})
		}
		env, tr := newTrEnv(op.API, cs.ver)
		defer env.Cluster.Close()
		defer tr.CloseIdleConnections()
		fill := filler(api, cs.ver)
		var armed int32 = 1
		var cutConn int64
		var mu sync.Mutex
		env.Cluster.Script = func(rc *fakecluster.ReqCtx) *fakecluster.Action {
			if rc.Ev.API == op.API {
				if atomic.CompareAndSwapInt32(&armed, 1, 0) {
					mu.Lock()
					cutConn = rc.Ev.ConnID
					mu.Unlock()
					return &fakecluster.Action{Kind: fakecluster.ActCut, CutAt: cs.k, CutMode: cs.mode, Mutate: fill}
				}
				return &fakecluster.Action{Mutate: fill}
			}
			return nil
		}
		t0 := time.Now()
		m, err := roundTrip(tr, op.Req(), 300*time.Millisecond)
		el := time.Since(t0)
		c.Eval(1)
		key := fmt.Sprintf("%s.v%d", op.Name, cs.ver)
		outcome := "error"
		if err == nil {
			if d := msgDigest(m); d != rf.digest {
				k.Viol("c17:fabricated-result:transport:"+key, fmt.Sprintf("RoundTrip(%s v%d) with the response cut at byte %d of %d (%s) returned %s without error; undisturbed: %s", op.Name, cs.ver, cs.k, rf.n, cs.mode, d, rf.digest), nil)
			}
			outcome = "complete"
		}
		if el > 5*time.Second {
			k.TimeViol("c17:slow-return:transport:"+key, fmt.Sprintf("RoundTrip took %s after the response was cut (context deadline 300 ms)", el), nil)
		}
		if atomic.LoadInt32(&armed) == 1 {
			// the call gave up (deadline) before its request reached the broker: nothing was cut
			c.Count("transport_cut_not_reached", 1)
			return
		}
		// the same call again must succeed, on another connection
		// (a connection that went silent is only given up after the library's own deadlines: DialTimeout
		// for the ApiVersions exchange of a new connection, MetadataTTL for the pool's metadata request -
		// 1 s and 1.5 s here; the retry gets several times that)
		m2, err2 := roundTrip(tr, op.Req(), 8*time.Second)
		if err2 != nil {
			k.Viol("c17:no-recovery:transport:"+key, fmt.Sprintf("after a cut response (byte %d, %s) the next RoundTrip(%s) failed too: %v", cs.k, cs.mode, op.Name, err2), nil)
		} else if d := msgDigest(m2); d != rf.digest && op.API != fakecluster.KProduce {
			// (a produce request whose answer was cut has been applied: the retry gets a later base offset)
			k.Viol("c17:wrong-result-after-cut:transport:"+key, fmt.Sprintf("after a cut response the next RoundTrip(%s) returned %s, undisturbed: %s", op.Name, d, rf.digest), nil)
		}
		mu.Lock()
		cc := cutConn
		mu.Unlock()
		after := false
		for _, ev := range env.Cluster.Journal() {
			if ev.ConnID == cc && ev.API == op.API {
				if after && outcome != "complete" {
					k.Viol("c17:cut-connection-reused:transport:"+key, fmt.Sprintf("connection %d was used for another %s request after its response had been cut", cc, op.Name), nil)
				}
				after = true
			}
		}
		c.Count("transport_outcome:"+outcome, 1)
		c.Distinct(fmt.Sprintf("transport %s %s %s", key, cs.mode, outcome))
		if k.Idx%4001 == 0 {
			c.Sample(map[string]any{"path": "transport", "api": op.Name, "version": cs.ver, "cut_at": cs.k, "of": rf.n, "ending": cs.mode.String(), "result": fmt.Sprintf("%v", err)})
		}
	})
}
