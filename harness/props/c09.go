package props

import (
	"context"
	"errors"
	"fmt"
	"io"
	"runtime"
	"strings"
	"sync"
	"time"

	kafka "github.com/segmentio/kafka-go"
	"github.com/segmentio/kafka-go/protocol"
	"github.com/segmentio/kafka-go/protocol/createtopics"
	metadataapi "github.com/segmentio/kafka-go/protocol/metadata"

	"sync/atomic"

	"verifharness/core"
	"verifharness/fakecluster"
	"verifharness/fakenet"
	"verifharness/refcodec"
)

// C09 — Close, cancellation and use-after-close behave and terminate.

func init() {
	core.Register(&core.Prop{
		ID:    "C09",
		Level: "exploration",
		Rule: "wclose list: a real Writer with concurrent callers; Close is placed at a gated position (a WriteMessages call held inside Balance, i.e. after the closed-check and before batching; a batch timer pending; an attempt in flight on a slow broker; a back-off sleep; an unreachable broker) or at a random moment; judged on: Close returns within the bound, every message accepted before Close has a terminal outcome and its Completion ran before Close returned, WriteMessages afterwards fails with io.ErrClosedPipe, a blocked WriteMessages returns ctx.Err() after cancellation, no Writer goroutine survives. " +
			"rclose/gclose/transport lists: the same for Reader, consumer-group Reader and Transport.RoundTrip (see DESIGN); a quarter of the transport cases keep the broker silent not on the request but on the forced metadata refresh the Transport waits for after CreateTopics / an auto-creating Metadata request. signature = (list, close placement, config class, what was in flight); non-trivial = Close overlapped at least one in-flight call or pending batch",
		Assumptions: []string{
			"bounds are wall-clock: configured time-outs are <= 200 ms, the bound is 20 s and a miss is only reported after a confirmation run on an idle process (hangs: the case watchdog, also confirmed by a second run)",
			"goroutine census: goroutines whose stack contains a kafka-go Writer/Reader/ConsumerGroup frame; cases of this property run one at a time per process so the census is attributable",
		},
		Shards:          16,
		CaseTimeout:     45 * time.Second,
		HangIsViolation: true,
		Run:             runC09,
	})
}

// libGoroutines counts goroutines with a frame matching any of the markers.
func libGoroutines(markers ...string) (int, []string) {
	buf := make([]byte, 4<<20)
	buf = buf[:runtime.Stack(buf, true)]
	n := 0
	var sample []string
	for _, g := range strings.Split(string(buf), "\n\n") {
		for _, m := range markers {
			if strings.Contains(g, m) {
				n++
				if len(sample) < 14 {
					ls := strings.Split(g, "\n")
					if len(ls) > 13 {
						ls = ls[:13]
					}
					sample = append(sample, strings.Join(ls, "\n"))
				}
				break
			}
		}
	}
	return n, sample
}

var writerMarkers = []string{"kafka-go.(*Writer).", "kafka-go.(*partitionWriter).", "kafka-go.(*batchQueue)."}

func waitNoGoroutines(bound time.Duration, markers ...string) (int, []string) {
	deadline := time.Now().Add(bound)
	for {
		n, s := libGoroutines(markers...)
		if n == 0 || time.Now().After(deadline) {
			return n, s
		}
		time.Sleep(time.Millisecond)
	}
}

func runC09(c *core.Ctx) {
	kafka.VerifSetPoints(wHookPoints())
	c.Cases("wclose", c.N(260, 12000), func(k *core.Case) { c09Writer(k) })
	c.Cases("rclose", c.N(160, 7000), func(k *core.Case) { c09Reader(k) })
	c.Cases("transport", c.N(60, 3000), func(k *core.Case) { c09Transport(k) })
	c.Cases("startclose", c.N(160, 4000), func(k *core.Case) { c09StartClose(k) })
}

// c09StartClose: Close racing with the call that starts (first FetchMessage / ReadMessage) or restarts
// (SetOffset) the partition readers of a plain Reader. The windows are a few instructions wide, so one
// case makes 40 attempts with fresh readers, the two calls released together after a random spin.
func c09StartClose(k *core.Case) {
	c := k.Ctx
	r := k.R
	net := fakenet.New()
	cl := fakecluster.New(net)
	defer cl.Close()
	cl.MaxWaitCap = 5 * time.Millisecond
	cl.AddBroker(1, "")
	cl.AddTopic("t0", 1, nil)
	cl.Lock()
	pt := cl.Topics["t0"].Partitions[0]
	var recs []refcodec.Rec
	for i := 0; i < 5; i++ {
		recs = append(recs, refcodec.Rec{Offset: int64(i), TimestampMs: tsBase + int64(i), Value: []byte(fmt.Sprintf("v%d", i))})
	}
	enc, _ := refcodec.NewBatchV2(recs, 0, -1, 0).Encode(refcodec.CompressOpts{})
	pt.AppendStored(&fakecluster.Stored{Bytes: enc, BaseOffset: 0, LastOffset: 4}, recs)
	cl.Unlock()
	variant := core.Pick(r, "first-fetch", "first-fetch", "first-read", "setoffset")
	k.Describe(map[string]any{"list": "startclose", "variant": variant, "attempts": 40})
	base, _ := libGoroutines(readerMarkers...)
	for a := 0; a < 40; a++ {
		rd := kafka.NewReader(kafka.ReaderConfig{Brokers: []string{"b1:9092"}, Topic: "t0", Partition: 0, Dialer: &kafka.Dialer{DialFunc: net.Dialer("rd"), ClientID: "rd", Timeout: 300 * time.Millisecond},
			MaxWait: 5 * time.Millisecond, ReadBatchTimeout: 200 * time.Millisecond, ReadBackoffMin: time.Millisecond, ReadBackoffMax: 5 * time.Millisecond, MinBytes: 1, MaxBytes: 1 << 20, ReadLagInterval: -1, MaxAttempts: 2})
		ctx, cancel := context.WithCancel(context.Background())
		if variant == "setoffset" {
			rd.FetchMessage(ctx) // readers are running: SetOffset restarts them
		}
		gate := make(chan struct{})
		spinA, spinB := r.Intn(3000), r.Intn(3000)
		starterDone := make(chan struct{})
		go func() {
			defer close(starterDone)
			<-gate
			for i := 0; i < spinA; i++ {
				_ = i
			}
			switch variant {
			case "first-fetch":
				rd.FetchMessage(ctx)
			case "first-read":
				rd.ReadMessage(ctx)
			case "setoffset":
				rd.SetOffset(2)
			}
		}()
		closeDone := make(chan struct{})
		go func() {
			defer close(closeDone)
			<-gate
			for i := 0; i < spinB; i++ {
				_ = i
			}
			rd.Close()
		}()
		close(gate)
		c.Eval(1)
		select {
		case <-closeDone:
		case <-time.After(15 * time.Second):
			_, stacks := libGoroutines(readerMarkers...)
			cancel()
			k.TimeViol("c09:reader-close-hangs:start-race:"+variant, fmt.Sprintf("Reader.Close did not return within 15 s when it raced with %s on a plain Reader (attempt %d)", variant, a), map[string]any{"goroutines": stacks})
			return
		}
		select {
		case <-starterDone:
		case <-time.After(15 * time.Second):
			cancel()
			k.TimeViol("c09:call-blocked-after-close:start-race:"+variant, fmt.Sprintf("the %s call that raced with Close had not returned 15 s after Close returned", variant), nil)
			return
		}
		cancel()
	}
	if n, stacks := waitNoGoroutines(5*time.Second, readerMarkers...); n > base {
		k.TimeViol("c09:reader-goroutine-leak:start-race", fmt.Sprintf("%d goroutines of closed Readers are still alive 5 s after the last Close returned", n-base), map[string]any{"goroutines": stacks, "variant": variant})
	}
	c.Distinct("startclose " + variant)
}

var readerMarkers = []string{"kafka-go.(*Reader).", "kafka-go.(*reader).", "kafka-go.(*ConsumerGroup).", "kafka-go.(*Generation).", "kafka-go.NewConsumerGroup"}

// c09Reader: Close of a (group) Reader placed while calls are blocked, fetching, committing, during a
// rebalance or with an unreachable / silent broker.
func c09Reader(k *core.Case) {
	c := k.Ctx
	r := k.R
	group := r.Bool()
	placement := core.Pick(r, "idle-at-log-end", "mid-stream", "paused-app", "blocked-fetch", "cancel-blocked-fetch", "silent-broker", "unreachable-leader")
	if group {
		placement = core.Pick(r, "idle-at-log-end", "mid-stream", "paused-app", "during-rebalance", "rebalance-slow-commit", "cancel-blocked-commit", "blocked-fetch", "silent-coordinator")
	}
	net := fakenet.New()
	cl := fakecluster.New(net)
	cl.MaxWaitCap = 10 * time.Millisecond
	nb := r.Range(1, 3)
	for i := 1; i <= nb; i++ {
		cl.AddBroker(int32(i), "")
	}
	nparts := r.Range(1, 4)
	cl.AddTopic("t0", nparts, nil)
	per := r.Range(0, 30)
	for p := 0; p < nparts; p++ {
		cl.Lock()
		pt := cl.Topics["t0"].Partitions[p]
		var recs []refcodec.Rec
		for i := 0; i < per; i++ {
			recs = append(recs, refcodec.Rec{Offset: int64(i), TimestampMs: tsBase + int64(i), Value: []byte(fmt.Sprintf("v%d", i))})
		}
		if per > 0 {
			enc, _ := refcodec.NewBatchV2(recs, 0, -1, 0).Encode(refcodec.CompressOpts{})
			pt.AppendStored(&fakecluster.Stored{Bytes: enc, BaseOffset: 0, LastOffset: int64(per - 1)}, recs)
		}
		cl.Unlock()
	}
	k.Describe(map[string]any{"list": "rclose", "group": group, "placement": placement, "brokers": nb, "partitions": nparts, "records_per_partition": per})
	var silent int32
	slowCommit := time.Duration(r.Range(40, 160)) * time.Millisecond
	cl.Script = func(rc *fakecluster.ReqCtx) *fakecluster.Action {
		if atomic.LoadInt32(&silent) == 0 {
			return nil
		}
		switch placement {
		case "silent-broker":
			if rc.Ev.API == fakecluster.KFetch {
				return &fakecluster.Action{Kind: fakecluster.ActIgnore}
			}
		case "silent-coordinator":
			if rc.Ev.API == fakecluster.KHeartbeat || rc.Ev.API == fakecluster.KOffsetCommit || rc.Ev.API == fakecluster.KJoinGroup {
				return &fakecluster.Action{Kind: fakecluster.ActIgnore}
			}
		case "rebalance-slow-commit":
			// the final commit of the generation that a rebalance ends is answered late: the generation's
			// commit loop is still busy when the member has re-joined (and when Close is called)
			if rc.Ev.API == fakecluster.KOffsetCommit {
				return &fakecluster.Action{Delay: slowCommit}
			}
		}
		return nil
	}
	base, _ := libGoroutines(readerMarkers...)
	cfg := kafka.ReaderConfig{Brokers: []string{"b1:9092"}, Topic: "t0", Dialer: &kafka.Dialer{DialFunc: net.Dialer("rd"), ClientID: "rd", Timeout: 300 * time.Millisecond},
		MaxWait: 10 * time.Millisecond, ReadBatchTimeout: 200 * time.Millisecond, ReadBackoffMin: time.Millisecond, ReadBackoffMax: 5 * time.Millisecond, MinBytes: 1, MaxBytes: 1 << 20,
		QueueCapacity: core.Pick(r, 1, 10, 100), ReadLagInterval: -1, MaxAttempts: 2}
	if group {
		cfg.GroupID = "g"
		cfg.HeartbeatInterval = time.Duration(r.Range(3, 15)) * time.Millisecond
		cfg.SessionTimeout = 400 * time.Millisecond
		cfg.RebalanceTimeout = 300 * time.Millisecond
		cfg.JoinGroupBackoff = 5 * time.Millisecond
		cfg.CommitInterval = time.Duration(core.Pick(r, 0, 0, 10)) * time.Millisecond
		if placement == "rebalance-slow-commit" {
			cfg.CommitInterval = time.Duration(core.Pick(r, 5, 20, 1000)) * time.Millisecond
		}
	} else {
		cfg.Partition = r.Intn(nparts)
		if r.Chance(1, 3) {
			cfg.ReadLagInterval = 50 * time.Millisecond
		}
	}
	rd := kafka.NewReader(cfg)
	total := per
	if group {
		total = per * nparts
	}
	ctx, cancel := context.WithCancel(context.Background())
	defer cancel()
	type res struct {
		err     error
		t0, t1  int64
		started time.Time
	}
	var mu sync.Mutex
	var results []res
	var delivered int32
	var closing int32 // set before Close is called: the application stops committing (a commit on a closed reader only ends with its context)
	var lastMsg kafka.Message
	appDone := make(chan struct{})
	resume := make(chan struct{})
	resumeApp := sync.OnceFunc(func() { close(resume) })
	defer resumeApp()
	pauseAfter := int32(1)
	if total > 4 {
		pauseAfter = int32(r.Range(1, total/2))
	}
	go func() {
		defer close(appDone)
		for {
			t0 := core.Tick()
			m, err := rd.FetchMessage(ctx)
			mu.Lock()
			results = append(results, res{err: err, t0: t0, t1: core.Tick()})
			if err == nil {
				lastMsg = m
			}
			mu.Unlock()
			if err != nil {
				if errors.Is(err, io.EOF) || ctx.Err() != nil {
					return
				}
				time.Sleep(200 * time.Microsecond)
				continue
			}
			n := atomic.AddInt32(&delivered, 1)
			if placement == "paused-app" && n == pauseAfter {
				// the application stops reading for a while: fetched messages pile up in the reader's queue
				// and are still there when Close runs; the loop resumes once Close has returned
				<-resume
			}
			if group && (n%3 == 0 || placement == "cancel-blocked-commit") && atomic.LoadInt32(&closing) == 0 {
				cerr := rd.CommitMessages(ctx, m)
				if placement == "cancel-blocked-commit" && cerr != nil && ctx.Err() != nil {
					mu.Lock()
					results = append(results, res{err: fmt.Errorf("commit: %w", cerr), t0: t0, t1: core.Tick()})
					mu.Unlock()
					return
				}
			}
		}
	}()
	waitDelivered := func(n int) {
		deadline := time.Now().Add(5 * time.Second)
		for int(atomic.LoadInt32(&delivered)) < n && time.Now().Before(deadline) {
			time.Sleep(200 * time.Microsecond)
		}
	}
	cancelled := false
	switch placement {
	case "idle-at-log-end", "blocked-fetch":
		waitDelivered(total)
		time.Sleep(time.Duration(r.Intn(3000)) * time.Microsecond)
	case "paused-app":
		if total > 0 {
			waitDelivered(int(pauseAfter))
		}
		time.Sleep(time.Duration(r.Range(2, 15)) * time.Millisecond) // the partition readers fill the queue
	case "mid-stream":
		waitDelivered(r.Intn(total + 1))
	case "during-rebalance":
		waitDelivered(r.Intn(total + 1))
		cl.GroupRebalance("g")
		time.Sleep(time.Duration(r.Intn(4000)) * time.Microsecond)
	case "rebalance-slow-commit":
		if total > 0 {
			waitDelivered(r.Range(1, total/2+1))
		}
		atomic.StoreInt32(&silent, 1)
		cl.GroupRebalance("g")
		time.Sleep(time.Duration(r.Range(5, 200)) * time.Millisecond)
	case "silent-broker", "silent-coordinator":
		waitDelivered(r.Intn(total/2 + 1))
		atomic.StoreInt32(&silent, 1)
		time.Sleep(time.Duration(r.Range(5, 30)) * time.Millisecond)
	case "unreachable-leader":
		waitDelivered(r.Intn(total/2 + 1))
		net.Kill("rd")
		time.Sleep(time.Duration(r.Range(5, 30)) * time.Millisecond)
	case "cancel-blocked-fetch", "cancel-blocked-commit":
		waitDelivered(total)
		if placement == "cancel-blocked-commit" {
			atomic.StoreInt32(&silent, 1)
		}
		time.Sleep(time.Duration(r.Range(2, 10)) * time.Millisecond)
		tc := time.Now()
		cancel()
		cancelled = true
		select {
		case <-appDone:
		case <-time.After(3 * time.Second):
			k.TimeViol("c09:reader-cancel-not-honoured:"+placement, "a blocked FetchMessage/CommitMessages did not return within 3 s after its context was cancelled", nil)
			<-appDone
		}
		c.Max("max:reader_cancel_to_return_ms", time.Since(tc).Milliseconds())
		mu.Lock()
		last := results[len(results)-1]
		mu.Unlock()
		if last.err == nil || !errors.Is(last.err, context.Canceled) {
			k.Viol("c09:reader-cancel-wrong-error:"+placement, fmt.Sprintf("after cancellation the blocked call returned %v, want an error wrapping context.Canceled", last.err), nil)
		}
	}
	// Close under a watchdog
	closeDone := make(chan struct{})
	var closeStart, closeEnd int64
	tClose := time.Now()
	atomic.StoreInt32(&closing, 1)
	go func() {
		defer close(closeDone)
		closeStart = core.Tick()
		rd.Close()
		closeEnd = core.Tick()
	}()
	c.Eval(1)
	c.Count("rclose_placement:"+placement, 1)
	select {
	case <-closeDone:
	case <-time.After(20 * time.Second):
		_, stacks := libGoroutines(readerMarkers...)
		k.TimeViol("c09:reader-close-hangs:"+placement, fmt.Sprintf("Reader.Close did not return within 20 s (group=%v, placement %s)", group, placement), map[string]any{"goroutines": stacks})
		cancel()
		cl.Close()
		return
	}
	c.Max("max:reader_close_ms", time.Since(tClose).Milliseconds())
	resumeApp()
	if !cancelled {
		select {
		case <-appDone:
		case <-time.After(10 * time.Second):
			k.TimeViol("c09:fetchmessage-blocked-after-close:"+placement, "a FetchMessage call blocked when Close was called did not return within 10 s after Close returned", nil)
			cancel()
			<-appDone
		}
		mu.Lock()
		last := results[len(results)-1]
		mu.Unlock()
		if !errors.Is(last.err, io.EOF) {
			k.Viol("c09:blocked-fetch-after-close-wrong-error:"+placement, fmt.Sprintf("the FetchMessage call that was blocked when Close ran returned %v, want io.EOF", last.err), nil)
		}
	}
	// use after close: a call that started after Close had returned must fail with io.EOF, also when
	// messages were still queued (the application loop above keeps calling FetchMessage until it fails)
	mu.Lock()
	for _, res := range results {
		if closeEnd > 0 && res.t0 > closeEnd && res.err == nil {
			k.Viol("c09:fetch-after-close", fmt.Sprintf("a FetchMessage call started at %d, after Reader.Close had returned at %d, delivered a message instead of failing with io.EOF", res.t0, closeEnd), map[string]any{"placement": placement, "group": group})
			break
		}
	}
	mu.Unlock()
	if _, err := rd.FetchMessage(context.Background()); !errors.Is(err, io.EOF) {
		k.Viol("c09:fetch-after-close", fmt.Sprintf("FetchMessage after Close returned %v, want io.EOF", err), nil)
	}
	if _, err := rd.ReadMessage(context.Background()); !errors.Is(err, io.EOF) {
		k.Viol("c09:read-after-close", fmt.Sprintf("ReadMessage after Close returned %v, want (an error wrapping) io.EOF", err), nil)
	}
	_ = lastMsg
	cl.Close()
	cl.Quiesce(5 * time.Second)
	// nothing but lag/metadata requests after Close returned; LeaveGroup before
	left := false
	member := ""
	for _, ev := range cl.Journal() {
		if ev.Body == nil {
			continue
		}
		cw := ev.ClientWriteSeq()
		if ev.API == fakecluster.KJoinGroup && ev.Code == 0 && ev.Resp != nil {
			member = refcodec.Str(ev.Resp["MemberId"])
			left = false
		}
		if ev.API == fakecluster.KLeaveGroup && cw != 0 && cw <= closeEnd {
			left = true
		}
		if cw > closeEnd && closeEnd > 0 {
			switch ev.API {
			case fakecluster.KFetch, fakecluster.KHeartbeat, fakecluster.KOffsetCommit:
				k.Viol("c09:request-after-reader-close:"+refcodec.APIs[ev.API].Name, fmt.Sprintf("a %s request was written at %d, after Reader.Close had returned at %d", refcodec.APIs[ev.API].Name, cw, closeEnd), map[string]any{"placement": placement, "group": group})
			}
		}
	}
	if group && member != "" && placement != "unreachable-leader" && placement != "silent-coordinator" {
		_, _, members := cl.GroupSnapshot("g")
		still := false
		for _, m := range members {
			if m == member {
				still = true
			}
		}
		if !left && still {
			k.Viol("c09:reader-close-no-leavegroup", fmt.Sprintf("Reader.Close returned but no LeaveGroup was sent for member %s, which the coordinator still lists", member), map[string]any{"placement": placement})
		}
		if left {
			c.Count("group_reader_closes_with_leavegroup", 1)
		}
	}
	// leaks
	if n, stacks := waitNoGoroutines(5*time.Second, readerMarkers...); n > base {
		k.TimeViol("c09:reader-goroutine-leak", fmt.Sprintf("%d goroutines started by the Reader/ConsumerGroup are still alive 5 s after Close returned", n-base), map[string]any{"goroutines": stacks, "placement": placement, "group": group})
	}
	deadline := time.Now().Add(5 * time.Second)
	for len(net.OpenConns("rd")) > 0 && time.Now().Before(deadline) {
		time.Sleep(time.Millisecond)
	}
	if open := net.OpenConns("rd"); len(open) > 0 && placement != "unreachable-leader" {
		k.TimeViol("c09:reader-connection-leak", fmt.Sprintf("%d connections opened by the Reader are still open 5 s after Close returned", len(open)), map[string]any{"placement": placement, "group": group})
	}
	c.Distinct(fmt.Sprintf("rclose group%v %s q%d", group, placement, cfg.QueueCapacity))
	if k.Idx < 6 {
		c.Sample(map[string]any{"case": k.ID, "group": group, "placement": placement, "delivered_before_close": atomic.LoadInt32(&delivered), "close_ms": time.Since(tClose).Milliseconds(), "close": fmt.Sprintf("[%d,%d]", closeStart, closeEnd)})
	}
}

// c09Transport: RoundTrip returns the context's error although the broker never answers.
func c09Transport(k *core.Case) {
	c := k.Ctx
	r := k.R
	env := newConnEnv(nil)
	defer env.Cluster.Close()
	ops := transportOps()
	op := ops[r.Intn(len(ops))]
	silentAPI := op.API
	if r.Chance(1, 3) {
		silentAPI = fakecluster.KApiVersions // the connection setup itself never completes
	}
	// refresh-silent: the broker answers the request itself and then stays silent on the forced
	// metadata refresh that the Transport waits for after creating topics (CreateTopics, Metadata
	// with AllowAutoTopicCreation): the caller is blocked inside RoundTrip on the Transport's own
	// follow-up exchange
	refreshSilent := r.Chance(1, 4)
	var answered int32
	if refreshSilent {
		if r.Bool() {
			op = trOp{fakecluster.KCreateTopics, "CreateTopics+refresh", func() protocol.Message {
				return &createtopics.Request{TimeoutMs: 100, Topics: []createtopics.RequestTopic{{Name: "nt", NumPartitions: 1, ReplicationFactor: 1}}}
			}}
		} else {
			op = trOp{fakecluster.KMetadata, "Metadata(auto-create)+refresh", func() protocol.Message {
				return &metadataapi.Request{TopicNames: []string{core.Pick(r, "absent", connTopic)}, AllowAutoTopicCreation: true}
			}}
		}
		silentAPI = fakecluster.KMetadata
	}
	env.Cluster.Script = func(rc *fakecluster.ReqCtx) *fakecluster.Action {
		if refreshSilent {
			if rc.Ev.ClientID != "verif-c09" {
				return nil
			}
			if rc.Ev.API == fakecluster.KMetadata && atomic.LoadInt32(&answered) == 1 {
				return &fakecluster.Action{Kind: fakecluster.ActIgnore}
			}
			if rc.Ev.API == op.API && (op.API != fakecluster.KMetadata || rc.Body["AllowAutoTopicCreation"] == true) {
				atomic.StoreInt32(&answered, 1)
			}
			return nil
		}
		if rc.Ev.API == silentAPI && rc.Ev.ClientID == "verif-c09" {
			return &fakecluster.Action{Kind: fakecluster.ActIgnore}
		}
		return nil
	}
	tr := &kafka.Transport{Dial: env.Net.Dialer("tr"), ClientID: "verif-c09", MetadataTTL: time.Hour, IdleTimeout: 50 * time.Millisecond, DialTimeout: 10 * time.Second}
	defer tr.CloseIdleConnections()
	mode := core.Pick(r, "cancel", "deadline")
	k.Describe(map[string]any{"list": "transport", "api": op.Name, "silent_api": silentAPI, "mode": mode})
	ctx, cancel := context.WithCancel(context.Background())
	if mode == "deadline" {
		cancel()
		ctx, cancel = context.WithTimeout(context.Background(), time.Duration(r.Range(5, 30))*time.Millisecond)
	}
	defer cancel()
	done := make(chan error, 1)
	go func() {
		_, err := tr.RoundTrip(ctx, kafka.TCP("b1:9092"), op.Req())
		done <- err
	}()
	if refreshSilent {
		// let the request be answered first, so that the call is blocked in the refresh
		for i := 0; i < 4000 && atomic.LoadInt32(&answered) == 0; i++ {
			time.Sleep(50 * time.Microsecond)
		}
	}
	if mode == "cancel" {
		time.Sleep(time.Duration(r.Range(2, 20)) * time.Millisecond)
		cancel()
	}
	c.Eval(1)
	select {
	case err := <-done:
		want := context.Canceled
		if mode == "deadline" {
			want = context.DeadlineExceeded
		}
		if silentAPI == fakecluster.KApiVersions && op.API == fakecluster.KApiVersions {
			// nothing
		}
		if err == nil {
			// the request may have been answered from the metadata cache or need no response
			c.Count("transport_roundtrip_completed_anyway", 1)
		} else if !errors.Is(err, want) && !errors.Is(err, context.Canceled) && !errors.Is(err, context.DeadlineExceeded) {
			k.Viol("c09:transport-wrong-error:"+mode, fmt.Sprintf("RoundTrip(%s) on a silent broker returned %v after its context ended (%s)", op.Name, err, mode), nil)
		} else {
			c.Count("transport_roundtrip_unblocked:"+mode, 1)
		}
	case <-time.After(3 * time.Second):
		k.TimeViol("c09:transport-cancel-not-honoured:"+mode, fmt.Sprintf("RoundTrip(%s) did not return within 3 s after its context ended (%s) while the broker stayed silent", op.Name, mode), nil)
	}
	c.Distinct(fmt.Sprintf("transport %s %s silent%d", op.Name, mode, silentAPI))
}

func c09Writer(k *core.Case) {
	c := k.Ctx
	r := k.R
	placement := core.Pick(r, "in-balance", "in-balance", "random", "timer-pending", "slow-broker", "backoff", "unreachable", "cancel-blocked")
	cfg := genWriterCfg(r, "")
	cfg.NoClose = true
	cfg.Faults = nil
	cfg.WriteTimeout = time.Duration(r.Range(40, 150)) * time.Millisecond
	cfg.MaxAttempts = r.Range(1, 3)
	cfg.Goroutines = r.Range(1, 4)
	cfg.Calls = r.Range(1, 3)
	cfg.MsgsMax = core.Pick(r, 1, 3, 6)
	switch placement {
	case "timer-pending":
		cfg.Async = true
		cfg.BatchTimeout = 10 * time.Minute
		cfg.BatchSize = 1000
	case "slow-broker":
		cfg.Faults = append(cfg.Faults, wFault{Broker: int32(r.Range(1, cfg.Brokers)), N: 1, Act: "delay", DelayMs: r.Range(20, 120)})
		for b := 1; b <= cfg.Brokers; b++ {
			cfg.Faults = append(cfg.Faults, wFault{Broker: int32(b), N: 2, Act: "cut", CutAt: 1 << 20, Mode: fakenet.CutStall})
		}
	case "backoff":
		cfg.MaxAttempts = 3
		cfg.BackoffMin, cfg.BackoffMax = 20*time.Millisecond, 40*time.Millisecond
		for b := 1; b <= cfg.Brokers; b++ {
			cfg.Faults = append(cfg.Faults, wFault{Broker: int32(b), N: 1, Act: "error", Code: 7}, wFault{Broker: int32(b), N: 2, Act: "error", Code: 6})
		}
	case "cancel-blocked":
		cfg.Async = false
		for b := 1; b <= cfg.Brokers; b++ {
			cfg.Faults = append(cfg.Faults, wFault{Broker: int32(b), N: 1, Act: "cut", CutAt: 1 << 20, Mode: fakenet.CutStall})
		}
		// the attempt would only fail by itself after 3 s: a return earlier than that after the
		// cancellation can only be explained by the context being honoured
		cfg.WriteTimeout = 3 * time.Second
		cfg.MaxAttempts = 1
	}
	k.Describe(map[string]any{"placement": placement, "config": cfg.desc()})
	base, _ := libGoroutines(writerMarkers...)
	run := wSetup(k, cfg)

	var gateMu sync.Mutex
	held := make(chan struct{})    // closed when a call is parked inside Balance
	release := make(chan struct{}) // closed to let it continue
	heldOnce := false
	if placement == "in-balance" {
		run.Writer.Balancer.(*recBalancer).gate = func(id string) {
			gateMu.Lock()
			first := !heldOnce
			heldOnce = true
			gateMu.Unlock()
			if first {
				close(held)
				select {
				case <-release:
				case <-k.Cancelled:
				}
			}
		}
	}
	if placement == "unreachable" {
		// brokers accept the bootstrap/metadata connection but produce connections are refused
		var mu sync.Mutex
		seen := map[string]int{}
		run.Net.DialFault = func(addr string, n int64) error {
			mu.Lock()
			defer mu.Unlock()
			seen[addr]++
			if n > 1 {
				return fakenet.Refused(addr)
			}
			return nil
		}
	}

	ctx, cancel := context.WithCancel(context.Background())
	defer cancel()
	opts := wWorkloadOpts{}
	if placement == "cancel-blocked" {
		opts.ctxFor = func(g, call int) context.Context { return ctx }
	}
	opts.rands = wForkRands(k, run.Cfg)
	workloadDone := make(chan struct{})
	go func() {
		defer close(workloadDone)
		wRunWorkload(k, run, opts)
	}()

	// choose when to close
	switch placement {
	case "in-balance":
		select {
		case <-held:
		case <-workloadDone:
		case <-time.After(5 * time.Second):
		}
	case "random", "slow-broker", "backoff", "unreachable":
		time.Sleep(time.Duration(r.Intn(3000)) * time.Microsecond)
		if placement != "random" {
			time.Sleep(time.Duration(r.Range(1, 30)) * time.Millisecond)
		}
	case "timer-pending":
		<-workloadDone
	case "cancel-blocked":
		time.Sleep(time.Duration(r.Range(5, 30)) * time.Millisecond)
		tCancel := time.Now()
		cancel()
		select {
		case <-workloadDone:
		case <-time.After(1500 * time.Millisecond):
			k.TimeViol("c09:writer-cancel-not-honoured", "WriteMessages blocked on a silent broker (attempt timeout 3 s) did not return within 1.5 s after its context was cancelled", nil)
			<-workloadDone
		}
		c.Max("max:cancel_to_return_ms", time.Since(tCancel).Milliseconds())
		for _, call := range run.Calls {
			if call.Err != nil && call.PerMsg == nil && !errors.Is(call.Err, context.Canceled) && !errors.Is(call.Err, io.ErrClosedPipe) {
				// a call that was cancelled while blocked must report the context's error
				if call.SeqRet > 0 {
					c.Count("cancel_blocked_other_error", 1)
				}
			}
			if errors.Is(call.Err, context.Canceled) {
				c.Count("calls_unblocked_by_cancel", 1)
			}
			if call.Err != nil && call.PerMsg != nil {
				// the call waited for the batch to fail instead of returning the context's error
				c.Count("cancelled_calls_returning_write_errors", 1)
			}
		}
	}

	// Close, under a watchdog
	acceptedBefore := map[string]bool{}
	run.mu.Lock()
	for _, call := range run.Calls {
		if call.SeqRet != 0 && (call.Err == nil || call.PerMsg != nil) {
			for _, m := range call.Msgs {
				acceptedBefore[m.ID] = true
			}
		}
	}
	run.mu.Unlock()
	closeDone := make(chan struct{})
	tClose := time.Now()
	go func() {
		defer close(closeDone)
		run.CloseStart = core.Tick()
		run.Writer.Close()
		run.CloseEnd = core.Tick()
	}()
	if placement == "in-balance" {
		// let Close get past marking the writer closed, then release the parked call
		probeDeadline := time.Now().Add(2 * time.Second)
		for time.Now().Before(probeDeadline) {
			err := run.Writer.WriteMessages(context.Background())
			if errors.Is(err, io.ErrClosedPipe) {
				break
			}
			time.Sleep(100 * time.Microsecond)
		}
		time.Sleep(time.Duration(r.Intn(2000)) * time.Microsecond)
		close(release)
	}
	closed := false
	select {
	case <-closeDone:
		closed = true
	case <-time.After(20 * time.Second):
	}
	c.Eval(1)
	c.Count("placement:"+placement, 1)
	if !closed {
		_, stacks := libGoroutines(writerMarkers...)
		k.TimeViol("c09:writer-close-hangs:"+placement, fmt.Sprintf("Writer.Close did not return within 20 s (configured WriteTimeout %s, MaxAttempts %d); placement %s", cfg.WriteTimeout, cfg.MaxAttempts, placement), map[string]any{"goroutines": stacks})
		// unblock what we can and give up on this case
		select {
		case <-release:
		default:
			if placement != "in-balance" {
				close(release)
			}
		}
		cancel()
		run.Transport.CloseIdleConnections()
		run.Cluster.Close()
		return
	}
	c.Max("max:close_ms", time.Since(tClose).Milliseconds())
	select {
	case <-workloadDone:
	case <-time.After(20 * time.Second):
		_, stacks := libGoroutines(writerMarkers...)
		k.TimeViol("c09:writemessages-hangs-after-close:"+placement, "a WriteMessages call did not return within 20 s after Close returned", map[string]any{"goroutines": stacks})
		cancel()
		run.Transport.CloseIdleConnections()
		run.Cluster.Close()
		return
	}
	// at Close's return every message accepted earlier has a terminal outcome and its Completion ran
	compSeq := map[string]int64{}
	run.mu.Lock()
	for _, cp := range run.Completions {
		for _, id := range cp.IDs {
			compSeq[id] = cp.Seq
		}
	}
	run.mu.Unlock()
	for id := range acceptedBefore {
		s, ok := compSeq[id]
		if !ok {
			k.Viol("c09:accepted-message-no-completion", fmt.Sprintf("message %s was accepted before Close but its Completion never ran", id), map[string]any{"placement": placement})
			break
		}
		if s > run.CloseEnd {
			k.Viol("c09:completion-after-close-returned", fmt.Sprintf("Completion for %s ran after Close had returned", id), map[string]any{"placement": placement})
			break
		}
	}
	// all accepted messages (also those of calls racing with Close): exactly one completion, eventually
	for _, call := range run.Calls {
		accepted := call.Err == nil || call.PerMsg != nil
		for _, m := range call.Msgs {
			_, ok := compSeq[m.ID]
			if accepted && !ok {
				k.Viol("c09:accepted-message-no-completion", fmt.Sprintf("WriteMessages accepted %s (returned %v) but its Completion never ran, Close has returned", m.ID, call.Err), map[string]any{"placement": placement})
			}
			if ok && compSeq[m.ID] > run.CloseEnd {
				k.Viol("c09:completion-after-close-returned", fmt.Sprintf("Completion for %s ran after Close had returned", m.ID), map[string]any{"placement": placement})
			}
		}
		if !accepted && !errors.Is(call.Err, io.ErrClosedPipe) && !errors.Is(call.Err, context.Canceled) && placement != "unreachable" && placement != "slow-broker" && placement != "backoff" && placement != "cancel-blocked" {
			c.Count("calls_failed_other", 1)
		}
		if errors.Is(call.Err, io.ErrClosedPipe) {
			c.Count("calls_refused_closed", 1)
		}
	}
	// use after close
	if err := run.Writer.WriteMessages(context.Background(), kafka.Message{Topic: func() string {
		if cfg.WriterTopic {
			return ""
		}
		return wTopicName(0)
	}(), Value: []byte("after;")}); !errors.Is(err, io.ErrClosedPipe) {
		k.Viol("c09:write-after-close", fmt.Sprintf("WriteMessages after Close returned %v, want io.ErrClosedPipe", err), nil)
	}
	// nothing is sent after Close returned
	run.Transport.CloseIdleConnections()
	run.Cluster.Close()
	run.Cluster.Quiesce(10 * time.Second)
	for _, a := range wAttempts(run) {
		// judged on when the client wrote the first byte (wire tap), not on when the broker read it
		firstWrite := a.Ev.ClientWriteSeq()
		if firstWrite > run.CloseEnd && run.CloseEnd > 0 {
			k.Viol("c09:produce-after-close", "a produce request reached a broker after Writer.Close had returned", map[string]any{"attempt": describeAttempts([]*wAttempt{a})})
			break
		}
	}
	// goroutine census
	if n, stacks := waitNoGoroutines(5*time.Second, writerMarkers...); n > base {
		k.TimeViol("c09:writer-goroutine-leak", fmt.Sprintf("%d goroutines started by the Writer are still alive 5 s after Close returned", n-base), map[string]any{"goroutines": stacks})
	}
	inflight := 0
	run.mu.Lock()
	defer run.mu.Unlock()
	for _, call := range run.Calls {
		if call.SeqRet == 0 || call.SeqRet > run.CloseStart {
			inflight++
		}
	}
	if inflight > 0 || placement == "timer-pending" {
		c.Distinct(fmt.Sprintf("wclose %s async%v bs%d g%d att%d inflight%d", placement, cfg.Async, cfg.BatchSize, cfg.Goroutines, cfg.MaxAttempts, inflight))
	}
	if k.Idx < 8 {
		c.Sample(map[string]any{"case": k.ID, "placement": placement, "calls_in_flight_at_close": inflight, "accepted_before_close": len(acceptedBefore), "close_ms": time.Since(tClose).Milliseconds()})
	}
}
