#!/usr/bin/env python3
"""Refreshes the quick-tier column of the table in design_asbuilt.md section 10.2 from the SUMMARY
lines of quick sweep logs. usage: fill_quick.py <label> <log>..."""
import re, sys
label, logs = sys.argv[1], sys.argv[2:]
rows = {}
for f in logs:
    for m in re.finditer(r'SUMMARY property=(C\d+) tier=quick seed=(\d+) evaluations=(\d+) distinct=(\d+) violations=(\d+) known=(\d+) inconclusive=(\d+) wall=([\d.]+)s', open(f).read()):
        pid, seed, ev, di, vi, kn, inc, wall = m.groups()
        rows.setdefault(pid, []).append((int(ev), int(di), float(wall), int(vi), int(inc)))
p = '/verif/design_asbuilt.md'
s = open(p).read()
def rng(vals, fmt):
    a, b = min(vals), max(vals)
    return fmt(a) if a == b else f"{fmt(a)}-{fmt(b)}"
out = []
for line in s.split('\n'):
    m = re.match(r'\| (C\d\d) \| (.*?) \| (.*?) \| (.*?)\|$', line)
    if m and m.group(1) in rows and 'evaluations' in m.group(3):
        r = rows[m.group(1)]
        assert all(x[3] == 0 and x[4] == 0 for x in r), (m.group(1), r)
        col = f"{rng([x[0] for x in r], lambda v: f'{v:,}')} evaluations, {rng([x[1] for x in r], lambda v: f'{v:,}')} distinct signatures, {rng([round(x[2]) for x in r], str)} s"
        line = f"| {m.group(1)} | {m.group(2)} | {col} | {m.group(4)}|"
    if line.startswith('| id | as built | quick tier'):
        line = f"| id | as built | quick tier, {label} | remarks |"
    out.append(line)
open(p, 'w').write('\n'.join(out))
print({k: len(v) for k, v in sorted(rows.items())})
