package props

import (
	"context"
	"errors"
	"fmt"
	"sort"
	"strings"
	"sync"
	"sync/atomic"
	"time"

	kafka "github.com/segmentio/kafka-go"

	"verifharness/core"
	"verifharness/fakecluster"
	"verifharness/fakenet"
	"verifharness/refcodec"
)

// C15 — A consumer group has one live generation at a time and ends it promptly.

func init() {
	core.Register(&core.Prop{
		ID:    "C15",
		Level: "exploration",
		Rule: "one case = one kafka.ConsumerGroup used directly: an application loop calling Next and starting 1-4 functions per generation (returning at once / on cancellation / late after cancellation / after k ms), against the fake coordinator with a seeded script (error codes and dropped connections on find-coordinator/join/sync/offset-fetch/heartbeat/leave, forced rebalances, topic growth under a partition watcher, Close at a random point); " +
			"oracle: (a) when Next returns, every function started in the previous generation by a Start call that had returned before that Next call has ended, (b) after the first end cause every function's context is done before this member's next JoinGroup/LeaveGroup, (c) heartbeat rate bounds while a generation lives and none for a generation after the member re-joined, (d) Close => LeaveGroup(current member) before Close returns and Next => ErrGroupClosed, (e) after a failed join the next JoinGroup comes no earlier than JoinGroupBackoff; " +
			"watch list: WatchPartitionChanges with polls of the watcher answered with error codes or dropped, then the topic grows while a generation's function waits for cancellation: (A) at most two metadata answers carrying the new count may be delivered before the function sees its cancellation, (B) the cancellation must come within 2 s (several hundred poll intervals; confirmed on an idle re-run). " +
			"signature = (function kinds, end causes seen, fault kinds, generations bucket); non-trivial = at least two generations or a fault fired",
		Assumptions: []string{
			"heartbeat timing is judged by rate bounds (count vs lifetime/interval with factors 3 and 50) and the back-off by a lower bound measured at the broker, which load can only lengthen",
			"functions whose Start is issued after the following Next call are outside the claim",
		},
		Shards:          16,
		CaseTimeout:     60 * time.Second,
		HangIsViolation: true,
		Run:             runC15,
	})
}

type c15Fn struct {
	Gen       int32
	Kind      string
	StartCall int64
	StartRet  int64
	Begin     int64
	DoneSeen  int64
	End       int64
}

func runC15(c *core.Ctx) {
	c.CasesPar("group", c.N(600, 18000), 4, func(k *core.Case) { c15Run(k) })
	// one at a time: the goroutine census must be attributable
	c.Cases("closecensus", c.N(64, 2000), func(k *core.Case) { c15CloseCensus(k) })
	c.CasesPar("watch", c.N(120, 4000), 4, func(k *core.Case) { c15Watch(k) })
}

func c15Run(k *core.Case) {
	c := k.Ctx
	r := k.R
	net := fakenet.New()
	cl := fakecluster.New(net)
	nb := r.Range(1, 2)
	for i := 1; i <= nb; i++ {
		cl.AddBroker(int32(i), "")
	}
	cl.AddTopic("t0", r.Range(1, 3), nil)
	hb := time.Duration(core.Pick(r, 1, 2, 5, 10)) * time.Millisecond
	backoff := time.Duration(core.Pick(r, 5, 10, 20)) * time.Millisecond
	watch := r.Chance(1, 3)
	type fault struct {
		api, n int
		act    string
		code   int16
	}
	var faults []fault
	for i := core.Pick(r, 0, 1, 2, 4); i > 0; i-- {
		f := fault{api: core.Pick(r, fakecluster.KFindCoordinator, fakecluster.KJoinGroup, fakecluster.KSyncGroup, fakecluster.KOffsetFetch, fakecluster.KHeartbeat, fakecluster.KHeartbeat, fakecluster.KLeaveGroup), n: r.Range(1, 6)}
		if r.Chance(2, 3) {
			f.act, f.code = "error", core.Pick(r, int16(14), int16(15), int16(16), int16(22), int16(25), int16(27), int16(3))
		} else {
			f.act = "drop"
		}
		faults = append(faults, f)
	}
	if r.Chance(1, 5) {
		// an error that makes the group back off, a later answer that must not (RebalanceInProgress keeps
		// the member id and re-joins at once): whatever the first left behind must not affect the second
		api1 := core.Pick(r, fakecluster.KJoinGroup, fakecluster.KSyncGroup, fakecluster.KOffsetFetch)
		api2 := core.Pick(r, fakecluster.KJoinGroup, fakecluster.KSyncGroup, fakecluster.KOffsetFetch)
		n1 := r.Range(1, 2)
		faults = append(faults, fault{api: api1, n: n1, act: "error", code: core.Pick(r, int16(15), int16(16), int16(22), int16(3))},
			fault{api: api2, n: n1 + r.Range(1, 3), act: "error", code: 27})
	}
	fnKinds := []string{}
	for i := r.Range(1, 4); i > 0; i-- {
		fnKinds = append(fnKinds, core.Pick(r, "on-cancel", "on-cancel", "at-once", "late", "after-ms"))
	}
	events := []string{}
	for i := core.Pick(r, 0, 1, 2); i > 0; i-- {
		events = append(events, core.Pick(r, "rebalance", "rebalance", "grow-topic", "evict"))
	}
	slowApp := r.Chance(1, 3)
	lateStart := r.Chance(1, 4) // issue one Start late (after a delay), possibly after the generation ended
	maxGens := r.Range(2, 6)
	k.Describe(map[string]any{"brokers": nb, "heartbeat": hb.String(), "join_backoff": backoff.String(), "watch_partitions": watch, "fn_kinds": fnKinds, "events": events,
		"faults": fmt.Sprint(faults), "late_start": lateStart, "slow_app": slowApp, "max_generations": maxGens})

	var apiN sync.Map
	var fired int32
	faultKinds := map[string]bool{}
	var fkMu sync.Mutex
	type failedJoin struct {
		respWall time.Time
		seq      int64
	}
	cl.Script = func(rc *fakecluster.ReqCtx) *fakecluster.Action {
		v, _ := apiN.LoadOrStore(rc.Ev.API, new(int32))
		n := int(atomic.AddInt32(v.(*int32), 1))
		for _, f := range faults {
			if f.api == rc.Ev.API && f.n == n {
				atomic.AddInt32(&fired, 1)
				fkMu.Lock()
				faultKinds[fmt.Sprintf("%s:%s%d", rc.API.Name, f.act, f.code)] = true
				fkMu.Unlock()
				if f.act == "drop" {
					return &fakecluster.Action{Kind: fakecluster.ActDropBefore}
				}
				return &fakecluster.Action{Kind: fakecluster.ActError, Code: f.code}
			}
		}
		return nil
	}

	cg, err := kafka.NewConsumerGroup(kafka.ConsumerGroupConfig{
		ID: "g", Brokers: []string{"b1:9092"}, Topics: []string{"t0"},
		Dialer:            &kafka.Dialer{DialFunc: net.Dialer("cg"), ClientID: "cg", Timeout: 2 * time.Second},
		HeartbeatInterval: hb, SessionTimeout: 400 * time.Millisecond, RebalanceTimeout: 300 * time.Millisecond, JoinGroupBackoff: backoff,
		WatchPartitionChanges: watch, PartitionWatchInterval: 3 * time.Millisecond, Timeout: 2 * time.Second,
	})
	if err != nil {
		panic(err)
	}
	var mu sync.Mutex
	var fns []*c15Fn
	type nextRec struct {
		Call, Ret int64
		Gen       int32
		Member    string
		Err       error
	}
	var nexts []nextRec
	var running sync.WaitGroup
	ctx, cancel := context.WithCancel(context.Background())
	defer cancel()
	closeAfterGens := r.Range(1, maxGens)
	appDone := make(chan struct{})
	var closeCall, closeRet int64
	var nextAfterClose error
	startFn := func(gen *kafka.Generation, kind string, fr *core.Rand) {
		f := &c15Fn{Gen: gen.ID, Kind: kind}
		ms := fr.Range(1, 15)
		running.Add(1)
		mu.Lock()
		fns = append(fns, f)
		f.StartCall = core.Tick()
		mu.Unlock()
		gen.Start(func(gctx context.Context) {
			defer running.Done()
			mu.Lock()
			f.Begin = core.Tick()
			mu.Unlock()
			switch kind {
			case "at-once":
			case "after-ms":
				select {
				case <-gctx.Done():
				case <-time.After(time.Duration(ms) * time.Millisecond):
				}
			case "late":
				<-gctx.Done()
				mu.Lock()
				f.DoneSeen = core.Tick()
				mu.Unlock()
				time.Sleep(time.Duration(ms) * 200 * time.Microsecond)
			default:
				<-gctx.Done()
			}
			mu.Lock()
			if gctx.Err() != nil && f.DoneSeen == 0 {
				f.DoneSeen = core.Tick()
			}
			f.End = core.Tick()
			mu.Unlock()
		})
		mu.Lock()
		f.StartRet = core.Tick()
		mu.Unlock()
	}
	fr := r.Fork()
	go func() {
		defer close(appDone)
		gens := 0
		for gens < maxGens {
			nr := nextRec{Call: core.Tick()}
			nctx, ncancel := context.WithTimeout(ctx, 10*time.Second)
			gen, err := cg.Next(nctx)
			ncancel()
			nr.Ret, nr.Err = core.Tick(), err
			if gen != nil {
				nr.Gen, nr.Member = gen.ID, gen.MemberID
			}
			mu.Lock()
			nexts = append(nexts, nr)
			mu.Unlock()
			if err != nil {
				if errors.Is(err, kafka.ErrGroupClosed) || ctx.Err() != nil {
					return
				}
				if errors.Is(err, context.DeadlineExceeded) {
					return
				}
				continue
			}
			gens++
			if slowApp {
				// a slow application: the generation may already have ended when Start is called
				time.Sleep(time.Duration(fr.Intn(3000)) * time.Microsecond)
			}
			for i, kind := range fnKinds {
				if lateStart && i == len(fnKinds)-1 {
					kind := kind
					g := gen
					delay := time.Duration(fr.Intn(4000)) * time.Microsecond
					lr := fr.Fork()
					running.Add(1)
					go func() {
						defer running.Done()
						time.Sleep(delay)
						startFn(g, kind, lr)
					}()
					continue
				}
				startFn(gen, kind, fr)
			}
			if gens == closeAfterGens {
				time.Sleep(time.Duration(fr.Intn(3000)) * time.Microsecond)
				mu.Lock()
				closeCall = core.Tick()
				mu.Unlock()
				cg.Close()
				mu.Lock()
				closeRet = core.Tick()
				mu.Unlock()
				_, nextAfterClose = cg.Next(context.Background())
				return
			}
		}
	}()
	// scenario events
	er := r.Fork()
	go func() {
		for _, e := range events {
			time.Sleep(time.Duration(er.Range(1, 12)) * time.Millisecond)
			switch e {
			case "rebalance":
				cl.GroupRebalance("g")
			case "grow-topic":
				cl.Lock()
				t := cl.Topics["t0"]
				cl.Unlock()
				_ = t
				cl.GrowTopic("t0", 1)
			case "evict":
				cl.GroupEvictClient("g", "cg")
			}
		}
	}()
	stalled := false
	var closeWall time.Time
	select {
	case <-appDone:
	case <-k.Cancelled:
	case <-time.After(20 * time.Second):
		// the application loop is still waiting in Next: the scenarios last a second or two, so the group
		// has stopped making progress (judged below from the coordinator's journal)
		stalled = true
	}
	closeWall = time.Now()
	mu.Lock()
	didClose := closeRet != 0
	mu.Unlock()
	if !didClose {
		mu.Lock()
		closeCall = core.Tick()
		mu.Unlock()
		cg.Close()
		mu.Lock()
		closeRet = core.Tick()
		mu.Unlock()
		_, nextAfterClose = cg.Next(context.Background())
	}
	cancel()
	fnWait := make(chan struct{})
	go func() { running.Wait(); close(fnWait) }()
	select {
	case <-fnWait:
	case <-time.After(10 * time.Second):
		k.TimeViol("c15:function-never-cancelled", "a function started in a generation was still running 10 s after the group was closed (its context was never cancelled)", nil)
	}
	cl.Close()
	cl.Quiesce(5 * time.Second)
	c.Eval(1)

	// ---- oracle
	mu.Lock()
	defer mu.Unlock()
	journal := cl.Journal()
	sort.Slice(nexts, func(i, j int) bool { return nexts[i].Call < nexts[j].Call })
	wit := func() map[string]any {
		var ns, fs, js []string
		for _, n := range nexts {
			ns = append(ns, fmt.Sprintf("Next[%d,%d] gen=%d err=%v", n.Call, n.Ret, n.Gen, n.Err))
		}
		for _, f := range fns {
			fs = append(fs, fmt.Sprintf("g%d %s Start[%d,%d] begin=%d doneSeen=%d end=%d", f.Gen, f.Kind, f.StartCall, f.StartRet, f.Begin, f.DoneSeen, f.End))
		}
		for _, ev := range journal {
			if ev.API >= fakecluster.KFindCoordinator && ev.API <= fakecluster.KSyncGroup && len(js) < 60 {
				js = append(js, fmt.Sprintf("%d:%s code=%d gen=%v member=%v", ev.Seq, refcodec.APIs[ev.API].Name, ev.Code, ev.Body["GenerationId"], ev.Body["MemberId"]))
			}
		}
		return map[string]any{"nexts": ns, "functions": fs, "group_requests": js, "close": fmt.Sprintf("[%d,%d]", closeCall, closeRet)}
	}
	// earliest observable end cause per generation (a function's return, a failed heartbeat): a Start issued
	// after it finds the generation already closed
	endCause := map[int32]int64{}
	noteEnd := func(g int32, s int64) {
		if s == 0 {
			return
		}
		if cur, ok := endCause[g]; !ok || s < cur {
			endCause[g] = s
		}
	}
	for _, f := range fns {
		noteEnd(f.Gen, f.End)
	}
	for _, ev := range journal {
		if ev.API == fakecluster.KHeartbeat && ev.Body != nil && (ev.Code != 0 || ev.Fate == fakecluster.FateDroppedBefore) {
			noteEnd(int32(refcodec.Int(ev.Body["GenerationId"])), ev.Seq)
		}
	}
	// (a)
	var prev *nextRec
	for i := range nexts {
		n := &nexts[i]
		if n.Err != nil {
			continue
		}
		if prev != nil {
			for _, f := range fns {
				if f.Gen == prev.Gen && f.StartRet != 0 && f.StartRet < n.Call && f.StartCall > prev.Ret {
					if f.End == 0 || f.End > n.Ret {
						key := "c15:next-returned-while-function-running:" + f.Kind
						if ec, ok := endCause[f.Gen]; ok && f.StartCall >= ec {
							// the function was started on a generation that had already ended
							key = "c15:next-returned-while-function-started-after-generation-end-running"
						}
						k.Viol(key, fmt.Sprintf("Next returned generation %d at %d while a %q function started in generation %d (Start returned at %d, before that Next call at %d) was still running (ended at %d)", n.Gen, n.Ret, f.Kind, f.Gen, f.StartRet, n.Call, f.End), wit())
						break
					}
				}
			}
		}
		prev = n
	}
	// joins / leaves / heartbeats from the journal
	type greq struct {
		seq  int64
		api  int
		gen  int32
		mem  string
		code int16
		wall time.Time
		ev   *fakecluster.Event
	}
	var greqs []greq
	for _, ev := range journal {
		if ev.Body == nil {
			continue
		}
		switch ev.API {
		case fakecluster.KJoinGroup, fakecluster.KLeaveGroup, fakecluster.KHeartbeat, fakecluster.KSyncGroup:
			greqs = append(greqs, greq{ev.Seq, ev.API, int32(refcodec.Int(ev.Body["GenerationId"])), refcodec.Str(ev.Body["MemberId"]), ev.Code, ev.Wall, ev})
		}
	}
	// (b) every function's context is done before the member's next JoinGroup/LeaveGroup after its generation
	// earliest observable end cause per generation: a function's return, a failed heartbeat, Close
	firstEnd := map[int32]int64{}
	setEnd := func(g int32, s int64) {
		if s == 0 {
			return
		}
		if cur, ok := firstEnd[g]; !ok || s < cur {
			firstEnd[g] = s
		}
	}
	for _, f := range fns {
		setEnd(f.Gen, f.End)
	}
	for _, g := range greqs {
		if g.api == fakecluster.KHeartbeat && (g.code != 0 || g.ev.Fate == fakecluster.FateDroppedBefore) {
			setEnd(g.gen, g.seq)
		}
	}
	for _, f := range fns {
		if f.Begin == 0 {
			continue
		}
		if fe, ok := firstEnd[f.Gen]; ok && f.StartCall >= fe {
			// started after the generation had ended: its context is already cancelled and it is not
			// awaited; only oracle (a) applies to it
			c.Count("functions_started_after_generation_end", 1)
			continue
		}
		if closeCall != 0 && f.StartCall >= closeCall {
			continue
		}
		// first join/leave after the function began, for a later round
		for _, g := range greqs {
			if (g.api == fakecluster.KJoinGroup || g.api == fakecluster.KLeaveGroup) && g.seq > f.Begin && g.seq > f.StartRet {
				cw := g.ev.ClientWriteSeq()
				if cw == 0 {
					cw = g.seq
				}
				// the function must have seen cancellation (or ended) before the client wrote that request,
				// provided it was started before the generation ended (Start after the end is outside the claim)
				if f.End == 0 || (f.End > cw && (f.DoneSeen == 0 || f.DoneSeen > cw)) {
					started := false
					for _, n := range nexts {
						if n.Err == nil && n.Gen == f.Gen && f.StartRet < cw {
							started = true
						}
					}
					if started && f.Kind != "late" || started && f.DoneSeen == 0 {
						k.Viol("c15:rejoin-before-functions-ended:"+f.Kind, fmt.Sprintf("the member sent %s at %d while a %q function of generation %d had not observed cancellation/ended (doneSeen=%d end=%d)", refcodec.APIs[g.api].Name, cw, f.Kind, f.Gen, f.DoneSeen, f.End), wit())
					}
				}
				break
			}
		}
	}
	// (c) heartbeats: none for (member, gen) after that member's next JoinGroup; rate bounds
	type mg struct {
		m string
		g int32
	}
	hbBy := map[mg][]greq{}
	for _, g := range greqs {
		if g.api == fakecluster.KHeartbeat {
			hbBy[mg{g.mem, g.gen}] = append(hbBy[mg{g.mem, g.gen}], g)
		}
	}
	totalHB := 0
	for key, hs := range hbBy {
		totalHB += len(hs)
		// next join by this member after the generation formed
		var rejoin int64
		for _, g := range greqs {
			if g.api == fakecluster.KJoinGroup && g.mem == key.m && g.seq > hs[0].seq {
				rejoin = g.ev.ClientWriteSeq()
				break
			}
		}
		for _, h := range hs {
			if rejoin != 0 && h.ev.ClientWriteSeq() > rejoin {
				k.Viol("c15:heartbeat-after-rejoin", fmt.Sprintf("heartbeat for generation %d was sent at %d, after the member had already re-joined at %d", key.g, h.ev.ClientWriteSeq(), rejoin), wit())
				break
			}
		}
		if len(hs) >= 2 {
			life := hs[len(hs)-1].wall.Sub(hs[0].wall)
			if max := 3*int(life/hb) + 5; len(hs)-1 > max {
				k.Viol("c15:heartbeat-too-frequent", fmt.Sprintf("%d heartbeats in %s with HeartbeatInterval %s", len(hs), life, hb), nil)
			}
		}
	}
	// generations that lived long without any heartbeat: from sync-complete to the next join of the member
	_, _, gevents, _ := cl.GroupHistory("g")
	for i, e := range gevents {
		if e.Kind != "sync-complete" {
			continue
		}
		var endSeq int64
		for _, e2 := range gevents[i+1:] {
			endSeq = e2.Seq
			break
		}
		var startWall, endWall time.Time
		for _, ev := range journal {
			if startWall.IsZero() && ev.Seq >= e.Seq {
				startWall = ev.Wall
			}
			if endSeq != 0 && ev.Seq <= endSeq {
				endWall = ev.Wall
			}
		}
		if endSeq == 0 || startWall.IsZero() || endWall.IsZero() {
			continue
		}
		life := endWall.Sub(startWall)
		n := 0
		for key, hs := range hbBy {
			if key.g == e.Generation {
				n += len(hs)
			}
		}
		if life > 100*hb && n < int(life/(50*hb)) {
			k.TimeViol("c15:heartbeat-missing", fmt.Sprintf("generation %d lived %s with HeartbeatInterval %s but only %d heartbeats arrived", e.Generation, life, hb, n), wit())
		}
	}
	// (d) Close => LeaveGroup for the current member before Close returns; Next => ErrGroupClosed.
	// The current member id is the one the coordinator handed out in the last successful JoinGroup answer
	// delivered to the client; a later group request that failed with anything but RebalanceInProgress
	// (or lost its connection) makes the client drop it (it leaves and starts over), so nothing is owed then.
	if !errors.Is(nextAfterClose, kafka.ErrGroupClosed) {
		k.Viol("c15:next-after-close", fmt.Sprintf("Next after Close returned %v, want ErrGroupClosed", nextAfterClose), nil)
	}
	cur := ""
	for _, ev := range journal {
		if ev.Body == nil || ev.Seq > closeRet {
			continue
		}
		switch ev.API {
		case fakecluster.KJoinGroup, fakecluster.KSyncGroup, fakecluster.KHeartbeat, fakecluster.KOffsetFetch, fakecluster.KFindCoordinator:
			ok := ev.Code == 0 && ev.Delivered()
			if ev.API == fakecluster.KJoinGroup && ok {
				cur = refcodec.Str(ev.Resp["MemberId"])
			} else if !ok && (ev.Code != 27 || ev.API == fakecluster.KJoinGroup) {
				// (a failed JoinGroup leaves the client without the id whatever the code: the answer carries none)
				cur = ""
			}
		}
	}
	if cur != "" {
		left := false
		leaveFaulted := false
		for _, g := range greqs {
			if g.api == fakecluster.KLeaveGroup && g.mem == cur {
				cw := g.ev.ClientWriteSeq()
				if cw == 0 {
					cw = g.seq
				}
				if cw <= closeRet {
					left = true
				}
			}
		}
		for _, f := range faults {
			if f.api == fakecluster.KLeaveGroup || f.api == fakecluster.KFindCoordinator {
				leaveFaulted = true
			}
		}
		stillMember := false
		_, _, members := cl.GroupSnapshot("g")
		for _, m := range members {
			if m == cur {
				stillMember = true
			}
		}
		if !left && stillMember && !leaveFaulted {
			k.Viol("c15:no-leavegroup-on-close", fmt.Sprintf("Close returned at %d but no LeaveGroup for the current member %s was sent before and the coordinator still lists it", closeRet, cur), wit())
		}
		if left {
			c.Count("closes_with_leavegroup", 1)
		}
	}
	// (f) a failed join or sync is retried: when the application was still waiting in Next 20 s into the
	// scenario, the last error answer to a JoinGroup/SyncGroup must have been followed by another JoinGroup
	if stalled {
		lastErr := -1
		for i, g := range greqs {
			if (g.api == fakecluster.KJoinGroup || g.api == fakecluster.KSyncGroup) && g.code != 0 {
				lastErr = i
			}
		}
		retried := false
		if lastErr >= 0 {
			for _, g2 := range greqs[lastErr+1:] {
				if g2.api == fakecluster.KJoinGroup {
					retried = true
				}
			}
		}
		if lastErr >= 0 && !retried && closeWall.Sub(greqs[lastErr].wall) > 10*time.Second {
			g := greqs[lastErr]
			k.TimeViol("c15:no-rejoin-after-error", fmt.Sprintf("%s was answered with error code %d and no JoinGroup followed for %s (JoinGroupBackoff is %s): Next was still blocked when the scenario was closed", refcodec.APIs[g.api].Name, g.code, closeWall.Sub(g.wall).Round(time.Second), backoff), wit())
		} else {
			c.Count("stalled_scenarios_without_verdict", 1)
		}
	}
	// (e) back-off after a failed join
	for i, g := range greqs {
		if g.api != fakecluster.KJoinGroup {
			continue
		}
		failed := g.code != 0 && g.code != 27 || g.ev.Fate == fakecluster.FateDroppedBefore
		if !failed {
			continue
		}
		for _, g2 := range greqs[i+1:] {
			if g2.api == fakecluster.KJoinGroup {
				if gap := g2.wall.Sub(g.wall); gap < backoff {
					k.Viol("c15:join-backoff-not-honoured", fmt.Sprintf("JoinGroup failed (code %d, fate %s) and the next JoinGroup arrived %s later, JoinGroupBackoff is %s", g.code, g.ev.Fate, gap, backoff), wit())
				}
				c.Count("failed_joins_followed_by_backoff", 1)
				break
			}
		}
	}
	gens := 0
	for _, n := range nexts {
		if n.Err == nil {
			gens++
		}
	}
	c.Count("generations", int64(gens))
	c.Count("functions_started", int64(len(fns)))
	c.Count("heartbeats", int64(totalHB))
	c.Count("faults_fired", int64(atomic.LoadInt32(&fired)))
	if gens >= 2 || atomic.LoadInt32(&fired) > 0 {
		var fk []string
		fkMu.Lock()
		for f := range faultKinds {
			fk = append(fk, f)
		}
		fkMu.Unlock()
		sortStrings(fk)
		ks := append([]string(nil), fnKinds...)
		sortStrings(ks)
		gb := gens
		if gb > 4 {
			gb = 4
		}
		c.Distinct(fmt.Sprintf("%s | %s | %s | g%d late%v watch%v", strings.Join(ks, ","), strings.Join(events, ","), strings.Join(fk, ","), gb, lateStart, watch))
	}
	if k.Idx < 6 && gens >= 2 {
		c.Sample(map[string]any{"case": k.ID, "observed": wit()})
	}
}

// c15CloseCensus: closing the group ends the live generation, whether or not the application has
// fetched it with Next. The heartbeat loop and the partition watcher are generation functions: they
// are given long intervals here, so that they can only be gone when Close returns because the
// generation was ended (context cancelled) and waited for, not because a tick found the connection
// closed.
func c15CloseCensus(k *core.Case) {
	c := k.Ctx
	r := k.R
	net := fakenet.New()
	cl := fakecluster.New(net)
	defer cl.Close()
	cl.AddBroker(1, "")
	cl.AddTopic("t0", r.Range(1, 3), nil)
	placement := core.Pick(r, "never-fetched", "never-fetched", "fetched", "second-not-fetched", "next-pending")
	watch := r.Bool()
	k.Describe(map[string]any{"list": "closecensus", "placement": placement, "watch_partitions": watch})
	markers := []string{"kafka-go.(*Generation).heartbeatLoop", "kafka-go.(*Generation).partitionWatcher", "kafka-go.(*Generation).Start"}
	base, _ := libGoroutines(markers...)
	cg, err := kafka.NewConsumerGroup(kafka.ConsumerGroupConfig{
		ID: "g", Brokers: []string{"b1:9092"}, Topics: []string{"t0"},
		Dialer:            &kafka.Dialer{DialFunc: net.Dialer("cg"), ClientID: "cg", Timeout: 2 * time.Second},
		HeartbeatInterval: 3 * time.Second, SessionTimeout: 30 * time.Second, RebalanceTimeout: 300 * time.Millisecond, JoinGroupBackoff: 5 * time.Millisecond,
		WatchPartitionChanges: watch, PartitionWatchInterval: 4 * time.Second, Timeout: 2 * time.Second,
	})
	if err != nil {
		panic(err)
	}
	// a generation is formed once the member's offset fetch was answered
	formed := func(n int) bool {
		cnt := 0
		for _, ev := range cl.Journal() {
			if ev.API == fakecluster.KOffsetFetch && ev.Body != nil && ev.Delivered() {
				cnt++
			}
		}
		return cnt >= n
	}
	waitFormed := func(n int) bool {
		deadline := time.Now().Add(5 * time.Second)
		for !formed(n) {
			if time.Now().After(deadline) {
				return false
			}
			time.Sleep(500 * time.Microsecond)
		}
		time.Sleep(2 * time.Millisecond) // let nextGeneration start the heartbeat loop and reach the hand-over
		return true
	}
	ctx, cancel := context.WithCancel(context.Background())
	defer cancel()
	ok := true
	switch placement {
	case "never-fetched":
		ok = waitFormed(1)
	case "fetched":
		if ok = waitFormed(1); ok {
			gen, err := cg.Next(ctx)
			if err == nil {
				gen.Start(func(ctx context.Context) { <-ctx.Done() })
			}
		}
	case "second-not-fetched":
		if ok = waitFormed(1); ok {
			gen, err := cg.Next(ctx)
			if err == nil {
				gen.Start(func(ctx context.Context) {}) // returns at once: ends generation 1, the group re-joins
				ok = waitFormed(2)
			}
		}
	case "next-pending":
		go func() {
			if gen, err := cg.Next(ctx); err == nil {
				gen.Start(func(ctx context.Context) { <-ctx.Done() })
			}
		}()
		ok = waitFormed(1)
	}
	if !ok {
		c.Inconclusive(k.ID + ": no generation was formed within 5 s")
		cg.Close()
		return
	}
	during, _ := libGoroutines(markers...)
	c.Eval(1)
	done := make(chan struct{})
	go func() { defer close(done); cg.Close() }()
	select {
	case <-done:
	case <-time.After(20 * time.Second):
		k.TimeViol("c15:close-hangs:"+placement, "ConsumerGroup.Close did not return within 20 s", nil)
		return
	}
	// functions the application started on a handed-over generation return on cancellation; give the
	// scheduler a moment, far below the 3 s / 4 s intervals of the generation's own functions
	n, stacks := waitNoGoroutines(500*time.Millisecond, markers...)
	if n > base {
		k.Viol("c15:generation-functions-alive-after-close:"+placement, fmt.Sprintf("%d goroutine(s) of a generation (heartbeat loop / partition watcher / started function) are still running 500 ms after ConsumerGroup.Close returned (heartbeat interval 3 s, watch interval 4 s): the generation was not ended by Close", n-base), map[string]any{"goroutines": stacks, "placement": placement})
	}
	if during > base {
		c.Count("closecensus_generation_goroutines_seen_before_close", 1)
	}
	c.Distinct(fmt.Sprintf("closecensus %s watch=%v", placement, watch))
}

// c15Watch - the clause "the generation ends when a watched topic's partition count changes", also
// after polls of the watcher that were answered with an error code: a group with
// WatchPartitionChanges forms a generation whose only application function waits for its
// cancellation; the watcher's polls (Metadata requests on the coordinator connection) are
// answered with error codes or dropped according to a seeded script; once the watcher of the live
// generation has read the old partition count the topic grows. Judged on (A, logical) how many
// metadata answers carrying the new count were delivered before the function observed its
// cancellation and (B, bounded progress) whether the function was cancelled at all.
func c15Watch(k *core.Case) {
	c := k.Ctx
	r := k.R
	net := fakenet.New()
	cl := fakecluster.New(net)
	defer cl.Close()
	cl.AddBroker(1, "")
	oldCount := r.Range(1, 3)
	cl.AddTopic("t0", oldCount, nil)
	interval := time.Duration(core.Pick(r, 2, 3, 5)) * time.Millisecond
	type mfault struct {
		n    int
		act  string
		code int16
	}
	var faults []mfault
	// request 1 is the leader's read at join time, 2 the watcher's start-up read, 3.. its polls
	for i := core.Pick(r, 0, 1, 1, 2, 3); i > 0; i-- {
		f := mfault{n: r.Range(3, 9), act: "error", code: core.Pick(r, int16(5), int16(5), int16(6), int16(7), int16(9), int16(72))}
		if r.Chance(1, 6) {
			f.act = "drop"
		}
		faults = append(faults, f)
	}
	postFaults := core.Pick(r, 0, 0, 1, 2) // polls answered with an error code right after the growth
	k.Describe(map[string]any{"list": "watch", "partitions": oldCount, "interval": interval.String(), "faults": fmt.Sprint(faults), "post_growth_errors": postFaults})
	var metaN int32
	var grown int32
	var postLeft = int32(postFaults)
	var firedKinds sync.Map
	cl.Script = func(rc *fakecluster.ReqCtx) *fakecluster.Action {
		if rc.Ev.API != fakecluster.KMetadata {
			return nil
		}
		n := int(atomic.AddInt32(&metaN, 1))
		if atomic.LoadInt32(&grown) == 1 {
			if atomic.AddInt32(&postLeft, -1) >= 0 {
				firedKinds.Store("post-growth-error", true)
				return &fakecluster.Action{Kind: fakecluster.ActError, Code: 5}
			}
			return nil
		}
		for _, f := range faults {
			if f.n == n {
				firedKinds.Store(fmt.Sprintf("%s%d", f.act, f.code), true)
				if f.act == "drop" {
					return &fakecluster.Action{Kind: fakecluster.ActDropBefore}
				}
				return &fakecluster.Action{Kind: fakecluster.ActError, Code: f.code}
			}
		}
		return nil
	}
	cg, err := kafka.NewConsumerGroup(kafka.ConsumerGroupConfig{
		ID: "g", Brokers: []string{"b1:9092"}, Topics: []string{"t0"},
		Dialer:            &kafka.Dialer{DialFunc: net.Dialer("cg"), ClientID: "cg", Timeout: 2 * time.Second},
		HeartbeatInterval: 20 * time.Millisecond, SessionTimeout: 30 * time.Second, RebalanceTimeout: 300 * time.Millisecond, JoinGroupBackoff: 5 * time.Millisecond,
		WatchPartitionChanges: true, PartitionWatchInterval: interval, Timeout: 2 * time.Second,
	})
	if err != nil {
		panic(err)
	}
	var mu sync.Mutex
	var fns []*c15Fn
	ctx, cancel := context.WithCancel(context.Background())
	appDone := make(chan struct{})
	go func() {
		defer close(appDone)
		for {
			gen, err := cg.Next(ctx)
			if err != nil {
				// failed joins are reported through Next and retried by the group
				if ctx.Err() != nil || errors.Is(err, kafka.ErrGroupClosed) {
					return
				}
				continue
			}
			f := &c15Fn{Gen: gen.ID, Kind: "on-cancel"}
			mu.Lock()
			fns = append(fns, f)
			f.StartCall = core.Tick()
			mu.Unlock()
			gen.Start(func(ctx context.Context) {
				mu.Lock()
				f.Begin = core.Tick()
				mu.Unlock()
				<-ctx.Done()
				mu.Lock()
				f.DoneSeen = core.Tick()
				f.End = f.DoneSeen
				mu.Unlock()
			})
		}
	}()
	finish := func() {
		cancel()
		cg.Close()
		select {
		case <-appDone:
		case <-time.After(10 * time.Second):
		}
	}
	// wait until the watcher of a live generation has read the old count (its start-up read and one
	// poll were answered after the function began), then let the topic grow
	var target *c15Fn
	deadline := time.Now().Add(6 * time.Second)
	for target == nil && time.Now().Before(deadline) {
		time.Sleep(500 * time.Microsecond)
		mu.Lock()
		var live *c15Fn
		if len(fns) > 0 && fns[len(fns)-1].Begin != 0 && fns[len(fns)-1].DoneSeen == 0 {
			live = fns[len(fns)-1]
		}
		var begin int64
		if live != nil {
			begin = live.Begin
		}
		mu.Unlock()
		if live == nil {
			continue
		}
		answered := 0
		for _, ev := range cl.Journal() {
			if ev.API == fakecluster.KMetadata && ev.Seq > begin && ev.Fate == fakecluster.FateServed && ev.Delivered() {
				answered++
			}
		}
		if answered >= 2 {
			target = live
		}
	}
	if target == nil {
		finish()
		tail := []string{}
		j := cl.Journal()
		for i := len(j) - 1; i >= 0 && len(tail) < 40; i-- {
			tail = append(tail, fmt.Sprintf("%s:%s:%d", refcodec.APIs[j[i].API].Name, j[i].Fate, j[i].Code))
		}
		mu.Lock()
		nf := len(fns)
		mu.Unlock()
		c.Inconclusive(fmt.Sprintf("%s: no generation with a running watcher within 6 s (%d functions started; last requests, newest first: %v)", k.ID, nf, tail))
		return
	}
	newCount := oldCount + r.Range(1, 2)
	cl.GrowTopic("t0", newCount-oldCount)
	atomic.StoreInt32(&grown, 1)
	growTick := core.Tick()
	growWall := time.Now()
	c.Eval(1)
	// bounded progress: polls go out every few milliseconds; two seconds are several hundred of them
	ended := false
	for time.Since(growWall) < 2*time.Second {
		mu.Lock()
		ended = target.DoneSeen != 0
		mu.Unlock()
		if ended {
			break
		}
		time.Sleep(time.Millisecond)
	}
	polls, seenNew := 0, 0
	mu.Lock()
	doneSeen := target.DoneSeen
	mu.Unlock()
	for _, ev := range cl.Journal() {
		if ev.API != fakecluster.KMetadata || ev.Seq < growTick {
			continue
		}
		if doneSeen != 0 && ev.Seq > doneSeen {
			continue
		}
		polls++
		if ev.Fate != fakecluster.FateServed || !ev.Delivered() || (doneSeen != 0 && ev.RespSeq > doneSeen) {
			continue
		}
		for _, t := range refcodec.Arr(ev.Resp["Topics"]) {
			tm := refcodec.Map(t)
			if refcodec.Str(tm["Name"]) == "t0" && len(refcodec.Arr(tm["Partitions"])) == newCount {
				seenNew++
			}
		}
	}
	kinds := []string{}
	firedKinds.Range(func(key, _ any) bool { kinds = append(kinds, key.(string)); return true })
	sort.Strings(kinds)
	wit := map[string]any{"old_count": oldCount, "new_count": newCount, "faults_fired": kinds, "metadata_requests_after_growth": polls, "answers_with_new_count_delivered": seenNew, "generation": target.Gen}
	if !ended {
		k.TimeViol("c15:generation-alive-after-partition-change", fmt.Sprintf("the topic grew from %d to %d partitions while generation %d (WatchPartitionChanges, interval %s) was running; 2 s later its function's context was still not cancelled; %d metadata requests arrived after the growth, %d answers carrying the new count were delivered (faults answered before: %v)", oldCount, newCount, target.Gen, interval, polls, seenNew, kinds), wit)
	} else if seenNew > 2 {
		k.Viol("c15:partition-change-seen-generation-not-ended", fmt.Sprintf("%d metadata answers carrying the new partition count %d (was %d) were delivered to the watcher of generation %d before its function's context was cancelled", seenNew, newCount, oldCount, target.Gen), wit)
	}
	finish()
	c.Distinct(fmt.Sprintf("watch faults=%s post=%d", strings.Join(kinds, ","), postFaults))
}
