// Package fakenet is the in-memory network the harness hands to kafka-go
// through Dialer.DialFunc and Transport.Dial. It is the observation point
// (every client write and every byte run delivered to a client read is
// stamped with the global logical clock) and the fault-injection point
// (byte-exact cuts, resets, stalls, refused dials, chunked delivery).
package fakenet

import (
	"context"
	"errors"
	"fmt"
	"io"
	"net"
	"os"
	"sync"
	"sync/atomic"
	"syscall"
	"time"

	"verifharness/core"
)

type Addr struct{ Net, Str string }

func (a Addr) Network() string { return a.Net }
func (a Addr) String() string  { return a.Str }

// Handler serves the broker side of one connection.
type Handler func(s *Conn)

type Net struct {
	mu       sync.Mutex
	handlers map[string]Handler
	conns    []*Conn // client ends, in dial order
	nextID   int64
	// DialFault, when set, is consulted for every dial; a non-nil error is
	// returned to the dialer.
	DialFault func(addr string, n int64) error
	// ChunkMax, when > 0, caps how many bytes a single client Read returns.
	ChunkMax int
	dials    map[string]int64
	// DialDelay is slept before a dial completes.
	DialDelay time.Duration
	// WriteDelay, when > 0, is slept by every client-side Write before the bytes are handed over (a
	// send buffer that is slow to drain): callers of a shared connection then queue behind the writer.
	WriteDelay time.Duration
	// down lists owners whose network is gone (crash emulation): existing
	// connections go silent, new dials are refused.
	down map[string]bool
}

// Kill emulates the death of the network of one owner: every open connection
// of that owner goes silent in both directions (nothing more is delivered to
// either side) and new dials by that owner are refused.
func (n *Net) Kill(owner string) {
	n.mu.Lock()
	if n.down == nil {
		n.down = map[string]bool{}
	}
	n.down[owner] = true
	conns := append([]*Conn(nil), n.conns...)
	n.mu.Unlock()
	for _, c := range conns {
		if c.Owner == owner {
			c.peer.Abort(CutStall) // server -> client: silence
			c.out.mu.Lock()        // client -> server: the server sees the connection end
			c.out.wclosed = true
			c.out.cond.Broadcast()
			c.out.mu.Unlock()
		}
	}
}

func New() *Net {
	return &Net{handlers: map[string]Handler{}, dials: map[string]int64{}}
}

func (n *Net) Listen(addr string, h Handler) {
	n.mu.Lock()
	n.handlers[addr] = h
	n.mu.Unlock()
}

func (n *Net) Unlisten(addr string) {
	n.mu.Lock()
	delete(n.handlers, addr)
	n.mu.Unlock()
}

func Refused(addr string) error {
	return &net.OpError{Op: "dial", Net: "tcp", Addr: Addr{"tcp", addr}, Err: os.NewSyscallError("connect", syscall.ECONNREFUSED)}
}

// Dial has the signature of Transport.Dial and Dialer.DialFunc.
func (n *Net) Dial(ctx context.Context, network, addr string) (net.Conn, error) {
	return n.DialOwner(ctx, network, addr, "")
}

// Dialer returns a dial function whose connections are tagged with owner
// (for the connection census).
func (n *Net) Dialer(owner string) func(context.Context, string, string) (net.Conn, error) {
	return func(ctx context.Context, network, addr string) (net.Conn, error) {
		return n.DialOwner(ctx, network, addr, owner)
	}
}

func (n *Net) DialOwner(ctx context.Context, network, addr, owner string) (net.Conn, error) {
	if err := ctx.Err(); err != nil {
		return nil, err
	}
	n.mu.Lock()
	if n.down[owner] {
		n.mu.Unlock()
		return nil, Refused(addr)
	}
	h := n.handlers[addr]
	n.dials[addr]++
	cnt := n.dials[addr]
	fault := n.DialFault
	delay := n.DialDelay
	n.mu.Unlock()
	if delay > 0 {
		select {
		case <-time.After(delay):
		case <-ctx.Done():
			return nil, ctx.Err()
		}
	}
	if fault != nil {
		if err := fault(addr, cnt); err != nil {
			return nil, err
		}
	}
	if h == nil {
		return nil, Refused(addr)
	}
	id := atomic.AddInt64(&n.nextID, 1)
	c2s, s2c := newHalf(), newHalf()
	cl := &Conn{net: n, ID: id, Owner: owner, Client: true, in: s2c, out: c2s,
		local: Addr{"tcp", fmt.Sprintf("client:%d", id)}, remote: Addr{"tcp", addr}, OpenedAt: core.Tick()}
	sv := &Conn{net: n, ID: id, Owner: owner, in: c2s, out: s2c,
		local: Addr{"tcp", addr}, remote: Addr{"tcp", fmt.Sprintf("client:%d", id)}, OpenedAt: cl.OpenedAt}
	cl.peer, sv.peer = sv, cl
	n.mu.Lock()
	n.conns = append(n.conns, cl)
	n.mu.Unlock()
	go h(sv)
	return cl, nil
}

// Conns returns the client ends opened so far.
func (n *Net) Conns() []*Conn {
	n.mu.Lock()
	defer n.mu.Unlock()
	return append([]*Conn(nil), n.conns...)
}

// OpenConns lists client ends that the client has not closed, optionally
// restricted to an owner.
func (n *Net) OpenConns(owner string) []*Conn {
	var out []*Conn
	for _, c := range n.Conns() {
		if (owner == "" || c.Owner == owner) && !c.ClosedByClient() {
			out = append(out, c)
		}
	}
	return out
}

func (n *Net) DialCount(addr string) int64 {
	n.mu.Lock()
	defer n.mu.Unlock()
	return n.dials[addr]
}

// half is one direction of a connection: an unbounded byte queue.
type half struct {
	mu       sync.Mutex
	cond     *sync.Cond
	buf      []byte
	wclosed  bool  // writer closed: EOF after drain
	rerr     error // terminal error for the reader after drain
	stalled  bool  // after drain: block (until deadline / close)
	rclosed  bool  // reader closed its end
	deadline time.Time
	timer    *time.Timer
	written  int64
	read     int64
}

func newHalf() *half {
	h := &half{}
	h.cond = sync.NewCond(&h.mu)
	return h
}

type timeoutError struct{}

func (timeoutError) Error() string   { return "i/o timeout" }
func (timeoutError) Timeout() bool   { return true }
func (timeoutError) Temporary() bool { return true }
func (timeoutError) Is(err error) bool {
	return err == os.ErrDeadlineExceeded || err == context.DeadlineExceeded
}

var errTimeout error = timeoutError{}

// TapEvent is one observation on the client end.
type TapEvent struct {
	Seq   int64
	Wall  time.Time
	Write bool // client wrote (request bytes) / client read (response bytes)
	N     int
	// Off is the stream offset (in that direction) of the first byte.
	Off int64
}

type Conn struct {
	net    *Net
	ID     int64
	Owner  string
	Client bool
	in     *half
	out    *half
	peer   *Conn
	local  Addr
	remote Addr

	OpenedAt int64
	closeMu  sync.Mutex
	closed   bool
	ClosedAt int64

	tapMu sync.Mutex
	tap   []TapEvent
	// OnClientWrite is invoked (client end only) with every chunk the client
	// writes, before it becomes visible to the server.
	FirstWriteAt int64
	LastWriteAt  int64
}

func (c *Conn) LocalAddr() net.Addr  { return c.local }
func (c *Conn) RemoteAddr() net.Addr { return c.remote }
func (c *Conn) Peer() *Conn          { return c.peer }

func (c *Conn) ClosedByClient() bool {
	cl := c
	if !c.Client {
		cl = c.peer
	}
	cl.closeMu.Lock()
	defer cl.closeMu.Unlock()
	return cl.closed
}

// ClientClosedAt returns the logical time the client closed (0 if open).
func (c *Conn) ClientClosedAt() int64 {
	cl := c
	if !c.Client {
		cl = c.peer
	}
	cl.closeMu.Lock()
	defer cl.closeMu.Unlock()
	if !cl.closed {
		return 0
	}
	return cl.ClosedAt
}

func (c *Conn) Tap() []TapEvent {
	c.tapMu.Lock()
	defer c.tapMu.Unlock()
	return append([]TapEvent(nil), c.tap...)
}

// Delivered returns how many response bytes have been handed to client reads.
func (c *Conn) Delivered() int64 {
	h := c.in
	if !c.Client {
		h = c.out
	}
	h.mu.Lock()
	defer h.mu.Unlock()
	return h.read
}

// Sent returns how many bytes the server side has queued towards the client.
func (c *Conn) Sent() int64 {
	h := c.in
	if !c.Client {
		h = c.out
	}
	h.mu.Lock()
	defer h.mu.Unlock()
	return h.written
}

func (c *Conn) Read(b []byte) (int, error) {
	h := c.in
	h.mu.Lock()
	defer h.mu.Unlock()
	for {
		if h.rclosed {
			return 0, &net.OpError{Op: "read", Net: "tcp", Err: net.ErrClosed}
		}
		if len(h.buf) > 0 {
			n := len(b)
			if n > len(h.buf) {
				n = len(h.buf)
			}
			if c.Client && c.net.ChunkMax > 0 && n > c.net.ChunkMax {
				n = c.net.ChunkMax
			}
			copy(b, h.buf[:n])
			h.buf = h.buf[n:]
			off := h.read
			h.read += int64(n)
			if c.Client {
				seq := core.Tick()
				c.tapMu.Lock()
				c.tap = append(c.tap, TapEvent{Seq: seq, N: n, Off: off, Wall: time.Now()})
				c.tapMu.Unlock()
			}
			return n, nil
		}
		if len(b) == 0 {
			return 0, nil
		}
		if h.rerr != nil {
			return 0, h.rerr
		}
		if h.wclosed && !h.stalled {
			return 0, io.EOF
		}
		if !h.deadline.IsZero() && !time.Now().Before(h.deadline) {
			return 0, &net.OpError{Op: "read", Net: "tcp", Err: errTimeout}
		}
		h.cond.Wait()
	}
}

func (c *Conn) Write(b []byte) (int, error) {
	c.closeMu.Lock()
	closed := c.closed
	c.closeMu.Unlock()
	if closed {
		return 0, &net.OpError{Op: "write", Net: "tcp", Err: net.ErrClosed}
	}
	if c.Client {
		if d := c.net.WriteDelay; d > 0 {
			time.Sleep(d)
		}
	}
	h := c.out
	h.mu.Lock()
	defer h.mu.Unlock()
	if h.wclosed {
		return 0, &net.OpError{Op: "write", Net: "tcp", Err: net.ErrClosed}
	}
	if h.rclosed || h.rerr != nil && c.Client {
		return 0, &net.OpError{Op: "write", Net: "tcp", Err: os.NewSyscallError("write", syscall.EPIPE)}
	}
	if c.Client {
		seq := core.Tick()
		c.tapMu.Lock()
		c.tap = append(c.tap, TapEvent{Seq: seq, Write: true, N: len(b), Off: h.written, Wall: time.Now()})
		if c.FirstWriteAt == 0 {
			c.FirstWriteAt = seq
		}
		c.LastWriteAt = seq
		c.tapMu.Unlock()
	}
	h.buf = append(h.buf, b...)
	h.written += int64(len(b))
	h.cond.Broadcast()
	return len(b), nil
}

func (c *Conn) Close() error {
	c.closeMu.Lock()
	if c.closed {
		c.closeMu.Unlock()
		return &net.OpError{Op: "close", Net: "tcp", Err: net.ErrClosed}
	}
	c.closed = true
	c.ClosedAt = core.Tick()
	c.closeMu.Unlock()
	// our reads fail, peer's reads see EOF after drain, peer's writes fail
	c.in.mu.Lock()
	c.in.rclosed = true
	if c.in.timer != nil {
		c.in.timer.Stop()
	}
	c.in.cond.Broadcast()
	c.in.mu.Unlock()
	c.out.mu.Lock()
	c.out.wclosed = true
	c.out.cond.Broadcast()
	c.out.mu.Unlock()
	return nil
}

func (c *Conn) SetDeadline(t time.Time) error {
	c.SetReadDeadline(t)
	return nil
}

func (c *Conn) SetReadDeadline(t time.Time) error {
	h := c.in
	h.mu.Lock()
	defer h.mu.Unlock()
	h.deadline = t
	if h.timer != nil {
		h.timer.Stop()
		h.timer = nil
	}
	if !t.IsZero() {
		d := time.Until(t)
		if d < 0 {
			d = 0
		}
		h.timer = time.AfterFunc(d, func() {
			h.mu.Lock()
			h.cond.Broadcast()
			h.mu.Unlock()
		})
	}
	h.cond.Broadcast()
	return nil
}

// SetWriteDeadline is a no-op: writes never block in this network.
func (c *Conn) SetWriteDeadline(t time.Time) error { return nil }

// ---- server-side fault controls (called on the server end) ----

type CutMode int

const (
	CutEOF   CutMode = iota // orderly close after the prefix
	CutReset                // ECONNRESET after the prefix
	CutStall                // silence after the prefix (client runs into its deadline)
)

func (m CutMode) String() string { return [...]string{"eof", "reset", "stall"}[m] }

var ErrReset error = &net.OpError{Op: "read", Net: "tcp", Err: os.NewSyscallError("read", syscall.ECONNRESET)}

// WriteCut queues exactly b[:k] towards the client and then ends the stream
// in the given mode. Further server writes are discarded.
func (c *Conn) WriteCut(b []byte, k int, mode CutMode) {
	if k > len(b) {
		k = len(b)
	}
	h := c.out
	h.mu.Lock()
	if !h.wclosed && !h.stalled && h.rerr == nil {
		h.buf = append(h.buf, b[:k]...)
		h.written += int64(k)
		switch mode {
		case CutEOF:
			h.wclosed = true
		case CutReset:
			h.rerr = ErrReset
		case CutStall:
			h.stalled = true
		}
	}
	h.cond.Broadcast()
	h.mu.Unlock()
}

// Abort ends the server->client stream now (no more bytes) in the given mode.
func (c *Conn) Abort(mode CutMode) { c.WriteCut(nil, 0, mode) }

// Dead reports whether the server->client direction was cut by a fault.
func (c *Conn) Dead() bool {
	h := c.out
	h.mu.Lock()
	defer h.mu.Unlock()
	return h.wclosed || h.stalled || h.rerr != nil
}

// WaitDrained blocks until the client has read everything queued towards it,
// or closed, or the timeout elapsed; reports whether it drained.
func (c *Conn) WaitDrained(timeout time.Duration) bool {
	h := c.out
	deadline := time.Now().Add(timeout)
	for {
		h.mu.Lock()
		empty := len(h.buf) == 0
		rc := h.rclosed
		h.mu.Unlock()
		if empty || rc {
			return empty
		}
		if time.Now().After(deadline) {
			return false
		}
		time.Sleep(50 * time.Microsecond)
	}
}

var _ net.Conn = (*Conn)(nil)

func IsTimeout(err error) bool {
	var ne net.Error
	return errors.As(err, &ne) && ne.Timeout()
}
