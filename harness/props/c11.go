package props

import (
	"encoding/binary"
	"errors"
	"fmt"
	"sync/atomic"
	"time"

	kafka "github.com/segmentio/kafka-go"

	"verifharness/core"
	"verifharness/fakecluster"
	"verifharness/refcodec"
)

// C11 — A Conn stays usable after broker-reported errors and is never reused misaligned.

func init() {
	core.Register(&core.Prop{
		ID:    "C11",
		Level: "fault_enumeration",
		Rule: "enumerated completely: (operation O1 of kafka.Conn) x (negotiated version of its API) x (error field of its response) x (error code: 12 codes in the quick tier, every code -1, 1..97 in the thorough tier) x (following operation O2). O1 runs on connection A whose broker answers with the code in that field; then O2 runs on A and on a fresh connection B against an identical broker; outcome (value digest, error class) must agree. " +
			"errsplit list: the error-coded response of every (O1, version, field) delivered in two pieces split at every byte position with a pause longer than O1's deadline in between (the connection stays healthy): if O1 reports the broker's code O2 must behave as on a fresh Conn, if it reports a transport error O2 must fail, a value O2 returns must be the fresh one. " +
			"framing list: wrong correlation id, oversized / undersized frame length, trailing garbage after O1's response: every later operation on A must fail and none may return a value that differs from B's. signature = (O1, version, field, code class, O2); every case is non-trivial (a fault is always injected)",
		Assumptions: []string{
			"broker state is identical for A and B: the injected error response replaces the broker's action (nothing is applied)",
			"an error code in a field the operation does not surface (e.g. a partition-level metadata error) may legitimately leave O1 successful; the claim checked is about the connection afterwards",
		},
		Shards:          16,
		CaseTimeout:     60 * time.Second,
		HangIsViolation: true,
		Run:             runC11,
	})
}

type c11Placement struct {
	Name string
	// Inject returns the broker action placing code in the field.
	Inject func(code int16) *fakecluster.Action
	MinVer int
}

func c11Placements(api int) []c11Placement {
	natural := c11Placement{Name: "natural", Inject: func(code int16) *fakecluster.Action {
		return &fakecluster.Action{Kind: fakecluster.ActError, Code: code}
	}}
	setAll := func(path []string, field string) func(code int16) *fakecluster.Action {
		return func(code int16) *fakecluster.Action {
			return &fakecluster.Action{Mutate: func(resp map[string]any) {
				var walk func(v any, depth int)
				walk = func(v any, depth int) {
					if depth == len(path) {
						refcodec.Map(v)[field] = int64(code)
						return
					}
					for _, e := range refcodec.Arr(refcodec.Map(v)[path[depth]]) {
						walk(e, depth+1)
					}
				}
				walk(resp, 0)
			}}
		}
	}
	switch api {
	case fakecluster.KFetch:
		return []c11Placement{natural,
			{Name: "partition.error_code+records", Inject: setAll([]string{"Responses", "Partitions"}, "ErrorCode")},
			{Name: "top.error_code", MinVer: 7, Inject: setAll(nil, "ErrorCode")}}
	case fakecluster.KMetadata:
		return []c11Placement{natural, {Name: "partition.error_code", Inject: setAll([]string{"Topics", "Partitions"}, "ErrorCode")}}
	case fakecluster.KListOffsets, fakecluster.KProduce, fakecluster.KCreateTopics, fakecluster.KDeleteTopics, fakecluster.KApiVersions:
		return []c11Placement{natural}
	}
	return []c11Placement{natural}
}

var c11Codes = []int16{1, 3, 5, 6, 7, 9, 19, 20, 29, 35, 41, 72}

type c11Case struct {
	o1, o2 int
	ver    int
	pl     int
	code   int16
}

func c11Enumerate(codes []int16) []c11Case {
	ops := connOps()
	var out []c11Case
	for i, o1 := range ops {
		for _, v := range o1.Versions {
			for pi, pl := range c11Placements(o1.API) {
				if v < pl.MinVer {
					continue
				}
				for _, code := range codes {
					for j := range ops {
						out = append(out, c11Case{i, j, v, pi, code})
					}
				}
				if pi == 0 {
					// no fault at all: O1 succeeds (or fails by itself, e.g. short buffer) and O2 must still
					// behave as on a fresh connection
					for j := range ops {
						out = append(out, c11Case{i, j, v, -1, 0})
					}
				}
			}
		}
	}
	return out
}

func runC11(c *core.Ctx) {
	ops := connOps()
	codes := c11Codes
	if !c.Quick() {
		// every error code the protocol defines (-1 and 1..97), not only the twelve that the library
		// treats specially somewhere
		codes = []int16{-1}
		for code := int16(1); code <= 97; code++ {
			codes = append(codes, code)
		}
	}
	cases := c11Enumerate(codes)
	c.SetExhaustive(true)
	c.CasesPar("errors", len(cases), 4, func(k *core.Case) {
		cs := cases[k.Idx]
		o1, o2 := ops[cs.o1], ops[cs.o2]
		pl := c11Placement{Name: "no-fault", Inject: func(int16) *fakecluster.Action { return nil }}
		if cs.pl >= 0 {
			pl = c11Placements(o1.API)[cs.pl]
		}
		k.Describe(map[string]any{"o1": o1.Name, "version": cs.ver, "field": pl.Name, "code": cs.code, "o2": o2.Name})
		caps := map[int]int{o1.API: cs.ver}
		// connection A: fault armed for the next response of o1's API
		envA := newConnEnv(caps)
		defer envA.Cluster.Close()
		a, err := envA.dial()
		if err != nil {
			c.Inconclusive("dial A failed: " + err.Error())
			return
		}
		defer a.Close()
		// negotiate versions before arming, so that an ApiVersions exchange is not what gets hit (unless it is O1)
		if o1.API != fakecluster.KApiVersions {
			a.ApiVersions()
		}
		var armed int32 = 1
		var hit int32
		envA.Cluster.Script = func(rc *fakecluster.ReqCtx) *fakecluster.Action {
			if rc.Ev.API == o1.API && atomic.CompareAndSwapInt32(&armed, 1, 0) {
				atomic.StoreInt32(&hit, 1)
				return pl.Inject(cs.code)
			}
			return nil
		}
		_, e1 := o1.Run(a)
		c.Eval(1)
		if atomic.LoadInt32(&hit) == 0 {
			c.Count("fault_not_reached", 1)
			return
		}
		var ke kafka.Error
		switch {
		case e1 == nil:
			c.Count("o1_error_not_surfaced:"+o1.Name+":"+pl.Name, 1)
		case errors.As(e1, &ke):
			if int16(ke) != cs.code {
				k.Viol(fmt.Sprintf("c11:wrong-code:%s.v%d:%s", o1.Name, cs.ver, pl.Name), fmt.Sprintf("%s answered with code %d in %s returned error code %d", o1.Name, cs.code, pl.Name, int(ke)), nil)
			}
		default:
			// a non-Kafka error for a well-formed error response: the connection will be judged below
			c.Count("o1_nonkafka_error:"+o1.Name, 1)
		}
		a.SetDeadline(time.Now().Add(3 * time.Second))
		d2a, e2a := o2.Run(a)
		// fresh connection against an identical broker
		envB := newConnEnv(caps)
		defer envB.Cluster.Close()
		b, err := envB.dial()
		if err != nil {
			c.Inconclusive("dial B failed: " + err.Error())
			return
		}
		defer b.Close()
		if cs.pl < 0 && o1.Mutating {
			// without a fault O1 was applied on A's broker: bring B's broker to the same state
			if b0, err := envB.dial(); err == nil {
				o1.Run(b0)
				b0.Close()
			}
		}
		d2b, e2b := o2.Run(b)
		if errClass(e2a) != errClass(e2b) || (e2a == nil && d2a != d2b) {
			kind := "unusable-after-error"
			if e2a == nil {
				kind = "different-value-after-error"
			}
			k.Viol(fmt.Sprintf("c11:%s:%s.v%d:%s", kind, o1.Name, cs.ver, pl.Name),
				fmt.Sprintf("after %s (v%d) was answered with error code %d in %s (it returned %v), %s on the same Conn returned (%s, %v) but on a fresh Conn (%s, %v)", o1.Name, cs.ver, cs.code, pl.Name, e1, o2.Name, d2a, e2a, d2b, e2b), nil)
		}
		c.Distinct(fmt.Sprintf("%s v%d %s c%d %s", o1.Name, cs.ver, pl.Name, cs.code, o2.Name))
		if k.Idx%997 == 0 {
			c.Sample(map[string]any{"o1": o1.Name, "version": cs.ver, "field": pl.Name, "code": cs.code, "o1_result": fmt.Sprint(e1), "o2": o2.Name, "o2_on_same_conn": fmt.Sprintf("%s / %v", d2a, e2a), "o2_on_fresh_conn": fmt.Sprintf("%s / %v", d2b, e2b)})
		}
	})

	// error-coded responses delivered in two pieces with a pause longer than the operation's
	// deadline between them, at every byte position: the connection itself stays healthy (the
	// rest does arrive). Whichever way O1 ends, the two clauses must agree with it: a broker
	// error code reported by O1 means the Conn is still usable (O2 as on a fresh Conn); a
	// transport error (the deadline) means every later operation fails; and a value returned by
	// O2 is never built from the late bytes of O1's response.
	type spCase struct{ o1, ver, pl, k, o2 int }
	var spCases []spCase
	spLen := map[[3]int]int{}
	const spCode = int16(6)
	o2pick := []int{}
	for j, o := range ops {
		if o.Name == "ReadLastOffset" || o.Name == "ReadPartitions" || o.Name == "ReadBatch" || o.Name == "WriteMessages" {
			o2pick = append(o2pick, j)
		}
	}
	for i, o1 := range ops {
		for _, v := range o1.Versions {
			for pi, pl := range c11Placements(o1.API) {
				if v < pl.MinVer {
					continue
				}
				env := newConnEnv(map[int]int{o1.API: v})
				cn, err := env.dial()
				if err != nil {
					env.Cluster.Close()
					continue
				}
				if o1.API != fakecluster.KApiVersions {
					cn.ApiVersions()
				}
				var n int32
				var armed int32 = 1
				inject := pl.Inject
				env.Cluster.Script = func(rc *fakecluster.ReqCtx) *fakecluster.Action {
					if rc.Ev.API == o1.API && atomic.CompareAndSwapInt32(&armed, 1, 0) {
						a := inject(spCode)
						a.MutateFrame = func(f []byte) []byte { atomic.StoreInt32(&n, int32(len(f))); return f }
						return a
					}
					return nil
				}
				o1.Run(cn)
				cn.Close()
				env.Cluster.Close()
				if n == 0 {
					continue
				}
				spLen[[3]int{i, v, pi}] = int(n)
				step := 1
				if c.Quick() && n > 120 {
					step = int(n) / 120
				}
				for k := 1; k < int(n); k += step {
					spCases = append(spCases, spCase{i, v, pi, k, o2pick[(k+i)%len(o2pick)]})
				}
			}
		}
	}
	c.Count("split_error_frames_measured", int64(len(spLen)))
	c.CasesPar("errsplit", len(spCases), 8, func(k *core.Case) {
		cs := spCases[k.Idx]
		o1, o2 := ops[cs.o1], ops[cs.o2]
		pl := c11Placements(o1.API)[cs.pl]
		n := spLen[[3]int{cs.o1, cs.ver, cs.pl}]
		if cs.k%16 == 1 {
			k.Describe(map[string]any{"o1": o1.Name, "version": cs.ver, "field": pl.Name, "code": spCode, "split_at": cs.k, "of": n, "o2": o2.Name})
		}
		caps := map[int]int{o1.API: cs.ver}
		envA := newConnEnv(caps)
		defer envA.Cluster.Close()
		a, err := envA.dial()
		if err != nil {
			c.Inconclusive("dial A failed: " + err.Error())
			return
		}
		defer a.Close()
		if o1.API != fakecluster.KApiVersions {
			a.ApiVersions()
		}
		var armed int32 = 1
		envA.Cluster.Script = func(rc *fakecluster.ReqCtx) *fakecluster.Action {
			if rc.Ev.API == o1.API && atomic.CompareAndSwapInt32(&armed, 1, 0) {
				act := pl.Inject(spCode)
				if act.Kind == fakecluster.ActError {
					act.ErrorBody = true
				}
				act.Kind, act.CutAt, act.SplitPause = fakecluster.ActSplit, cs.k, 70*time.Millisecond
				return act
			}
			return nil
		}
		a.SetDeadline(time.Now().Add(25 * time.Millisecond))
		d1, e1 := o1.Run(a)
		c.Eval(1)
		a.SetDeadline(time.Now().Add(3 * time.Second))
		d2a, e2a := o2.Run(a)
		envB := newConnEnv(caps)
		defer envB.Cluster.Close()
		b, err := envB.dial()
		if err != nil {
			c.Inconclusive("dial B failed: " + err.Error())
			return
		}
		defer b.Close()
		d2b, e2b := o2.Run(b)
		var ke kafka.Error
		where := fmt.Sprintf("%s.v%d:%s", o1.Name, cs.ver, pl.Name)
		what := fmt.Sprintf("%s (v%d) was answered with error code %d in %s, the response arriving in two pieces (%d of %d bytes, the rest 70 ms later, after the operation's 25 ms deadline); it returned (%q, %v); then %s on the same Conn returned (%q, %v), on a fresh Conn (%q, %v)", o1.Name, cs.ver, spCode, pl.Name, cs.k, n, d1, e1, o2.Name, d2a, e2a, d2b, e2b)
		outcome := "o1-ok"
		switch {
		case e1 != nil && errors.As(e1, &ke):
			outcome = "o1-broker-code"
			if errClass(e2a) != errClass(e2b) || (e2a == nil && d2a != d2b && !o2.Mutating) {
				k.Viol("c11:unusable-after-error:"+where+":late-tail", "the Conn reported the broker's error code, so it must remain usable: "+what, nil)
			}
		case e1 != nil:
			outcome = "o1-transport-error"
			if e2a == nil {
				k.Viol("c11:alive-after-transport-error:"+where+":late-tail", "the operation failed with a transport-level error, every later operation must fail: "+what, nil)
			}
		default:
			if e2a == nil && e2b == nil && d2a != d2b && !o2.Mutating {
				k.Viol("c11:misaligned-value:"+where+":late-tail", what, nil)
			}
		}
		c.Count("errsplit:"+outcome, 1)
		c.Distinct(fmt.Sprintf("errsplit %s v%d %s %s k%d/8", o1.Name, cs.ver, pl.Name, outcome, cs.k*8/n))
	})

	// framing faults: afterwards the connection must be dead, never misread
	type framing struct {
		name string
		mut  func(frame []byte) []byte
	}
	framings := []framing{
		{"wrong-correlation-id", func(f []byte) []byte { f[7] ^= 0x55; return f }},
		{"length+7", func(f []byte) []byte { binary.BigEndian.PutUint32(f, binary.BigEndian.Uint32(f)+7); return f }},
		{"length-3", func(f []byte) []byte {
			if n := binary.BigEndian.Uint32(f); n > 3 {
				binary.BigEndian.PutUint32(f, n-3)
			}
			return f
		}},
		{"trailing-garbage", func(f []byte) []byte { return append(f, 0xde, 0xad, 0xbe, 0xef, 0, 0, 0, 1) }},
	}
	type fcase struct{ o1, o2, ver, fr int }
	var fcases []fcase
	for i, o1 := range ops {
		for _, v := range o1.Versions {
			for fi := range framings {
				for j := range ops {
					fcases = append(fcases, fcase{i, j, v, fi})
				}
			}
		}
	}
	c.CasesPar("framing", len(fcases), 4, func(k *core.Case) {
		cs := fcases[k.Idx]
		o1, o2, fr := ops[cs.o1], ops[cs.o2], framings[cs.fr]
		k.Describe(map[string]any{"o1": o1.Name, "version": cs.ver, "framing": fr.name, "o2": o2.Name})
		caps := map[int]int{o1.API: cs.ver}
		envA := newConnEnv(caps)
		defer envA.Cluster.Close()
		a, err := envA.dial()
		if err != nil {
			c.Inconclusive("dial A failed: " + err.Error())
			return
		}
		defer a.Close()
		if o1.API != fakecluster.KApiVersions {
			a.ApiVersions()
		}
		var armed int32 = 1
		envA.Cluster.Script = func(rc *fakecluster.ReqCtx) *fakecluster.Action {
			if rc.Ev.API == o1.API && atomic.CompareAndSwapInt32(&armed, 1, 0) {
				return &fakecluster.Action{MutateFrame: fr.mut}
			}
			return nil
		}
		a.SetDeadline(time.Now().Add(150 * time.Millisecond))
		d1, e1 := o1.Run(a)
		c.Eval(1)
		a.SetDeadline(time.Now().Add(150 * time.Millisecond))
		d2a, e2a := o2.Run(a)
		envB := newConnEnv(caps)
		defer envB.Cluster.Close()
		b, err := envB.dial()
		if err != nil {
			return
		}
		defer b.Close()
		// B's broker is in the state A's broker is in: O1 was applied there (the framing fault only damages the answer)
		if o1.Mutating {
			o1.Run(b)
		}
		d2b, e2b := o2.Run(b)
		// a value may only be returned if it is the right one
		if e2a == nil && (e2b != nil || d2a != d2b) && !(o2.Mutating) {
			k.Viol(fmt.Sprintf("c11:misaligned-value:%s.v%d:%s", o1.Name, cs.ver, fr.name), fmt.Sprintf("after %s's response was damaged (%s; it returned (%s,%v)), %s on the same Conn returned the value %s without error, a fresh Conn returns (%s, %v)", o1.Name, fr.name, d1, e1, o2.Name, d2a, d2b, e2b), nil)
		}
		if fr.name != "trailing-garbage" && e1 != nil && e2a == nil && cs.fr != 3 {
			// after a framing error every later operation must fail (trailing garbage is only detected by the next read)
			var ke kafka.Error
			if !errors.As(e1, &ke) {
				k.Viol(fmt.Sprintf("c11:alive-after-framing-error:%s.v%d:%s", o1.Name, cs.ver, fr.name), fmt.Sprintf("%s failed with %v on a damaged frame (%s) but %s then succeeded on the same Conn", o1.Name, e1, fr.name, o2.Name), nil)
			}
		}
		c.Distinct(fmt.Sprintf("framing %s v%d %s %s", o1.Name, cs.ver, fr.name, o2.Name))
	})
}
