package props

import (
	"fmt"
	"hash/fnv"
	"runtime"
	"sort"
	"strings"
	"sync"
	"sync/atomic"
	"time"

	"github.com/anishathalye/porcupine"
	kafka "github.com/segmentio/kafka-go"

	"verifharness/core"
)

// C13 — partition balancers: offered partitions, reference hashes,
// RoundRobin/LeastBytes sequential laws and linearizability under concurrency.

func init() {
	core.Register(&core.Prop{
		ID:    "C13",
		Level: "exploration",
		Rule: "hash list: one case = one generated key (length 0..67 incl. nil/empty, high-bit bytes, long keys) evaluated for every hashing balancer over a set of partition counts; " +
			"signature = (balancer, key length mod 4, key class, partition-count class), non-trivial = hashed (non-random) path taken. " +
			"seq list: RoundRobin/LeastBytes call sequences vs the sequential law; varylist list: one value of every balancer offered lists whose length changes between calls (several topics sharing the Writer's balancer, partition counts growing), result must be in the list offered now; conc list: concurrent histories checked with porcupine; signature = (kind, goroutines, calls, n, chunk, overlap observed)",
		Assumptions: []string{
			"reference FNV-1a/CRC-32/murmur2 and the Sarama/librdkafka/Java partitioner formulas are transcribed in the harness from the reference clients' published source",
			"partition lists are the contiguous 0..n-1 lists a Writer supplies",
			"porcupine v1.3.0 decides linearizability of the recorded histories; a checker timeout is inconclusive",
		},
		Shards: 2,
		Run:    runC13,
	})
}

func refFNV1a(b []byte) uint32 {
	h := uint32(2166136261)
	for _, c := range b {
		h ^= uint32(c)
		h *= 16777619
	}
	return h
}

func refCRC32(b []byte) uint32 {
	crc := uint32(0xFFFFFFFF)
	for _, c := range b {
		crc ^= uint32(c)
		for i := 0; i < 8; i++ {
			if crc&1 != 0 {
				crc = (crc >> 1) ^ 0xEDB88320
			} else {
				crc >>= 1
			}
		}
	}
	return ^crc
}

// refMurmur2 transcribes org.apache.kafka.common.utils.Utils.murmur2 with
// Java int semantics (int32 wrap-around, >>> as unsigned shift).
func refMurmur2(data []byte) int32 {
	length := int32(len(data))
	seed := int32(-1756908916) // 0x9747b28c
	const m = int32(0x5bd1e995)
	const r = 24
	h := seed ^ length
	length4 := int(length / 4)
	for i := 0; i < length4; i++ {
		i4 := i * 4
		k := int32(data[i4+0]&0xff) + (int32(data[i4+1]&0xff) << 8) + (int32(data[i4+2]&0xff) << 16) + (int32(data[i4+3]&0xff) << 24)
		k *= m
		k ^= int32(uint32(k) >> r)
		k *= m
		h *= m
		h ^= k
	}
	base := int(length) &^ 3
	switch length % 4 {
	case 3:
		h ^= int32(data[base+2]&0xff) << 16
		fallthrough
	case 2:
		h ^= int32(data[base+1]&0xff) << 8
		fallthrough
	case 1:
		h ^= int32(data[base] & 0xff)
		h *= m
	}
	h ^= int32(uint32(h) >> 13)
	h *= m
	h ^= int32(uint32(h) >> 15)
	return h
}

func contiguous(n int) []int {
	p := make([]int, n)
	for i := range p {
		p[i] = i
	}
	return p
}

var c13Counts = []int{1, 2, 3, 4, 5, 7, 8, 9, 11, 12, 13, 15, 16, 17, 31, 32, 33, 63, 64, 100, 127, 128, 129, 255, 256, 257, 1000, 1021, 4096, 65535, 65536, 65537, 100000}

func nClass(n int) string {
	switch {
	case n == 1:
		return "1"
	case n&(n-1) == 0:
		return "pow2"
	case n < 64:
		return "small"
	case n < 5000:
		return "mid"
	default:
		return "big"
	}
}

func inOffered(p, n int) bool { return p >= 0 && p < n }

func runC13(c *core.Ctx) {
	lists := map[int][]int{}
	for _, n := range c13Counts {
		lists[n] = contiguous(n)
	}
	c.Cases("hash", c.N(16000, 2000000), func(k *core.Case) {
		r := k.R
		var key []byte
		class := ""
		switch r.Intn(12) {
		case 0:
			key, class = nil, "nil"
		case 1:
			key, class = []byte{}, "empty"
		case 2:
			key, class = r.Bytes(r.Range(68, 4096)), "long"
		case 3:
			n := r.Range(1, 67)
			key = make([]byte, n)
			for i := range key {
				key[i] = byte(0x80 + r.Intn(0x80))
			}
			class = "highbit"
		case 4:
			n := r.Range(1, 67)
			key = make([]byte, n)
			for i := range key {
				key[i] = byte(r.Intn(0x80))
			}
			class = "ascii"
		default:
			key, class = r.Bytes(r.Range(1, 67)), "random"
		}
		if k.Idx < 68*2 { // make sure every length 0..67 is seen at least twice whatever the seed
			key, class = r.Bytes(k.Idx%68), "len-sweep"
			if k.Idx%68 == 0 && k.Idx >= 68 {
				key = nil
				class = "nil"
			}
		}
		msg := kafka.Message{Key: key, Value: r.Bytes(r.Intn(8))}
		k.Describe(map[string]any{"key_len": len(key), "key_nil": key == nil, "class": class})
		hashKey := key
		fnvh := refFNV1a(hashKey)
		crch := refCRC32(hashKey)
		mmh := refMurmur2(hashKey)
		if k.Idx < 3 {
			c.Sample(map[string]any{"key": fmt.Sprintf("%x", key), "key_nil": key == nil, "fnv1a": fnvh, "crc32": crch, "murmur2": mmh})
		}
		// fresh balancer values per case (Hash holds a RoundRobin for nil keys)
		hashDef := &kafka.Hash{}
		hashExp := &kafka.Hash{Hasher: fnv.New32a()}
		refDef := &kafka.ReferenceHash{}
		refExp := &kafka.ReferenceHash{Hasher: fnv.New32a()}
		for _, n := range c13Counts {
			parts := lists[n]
			sigs := fmt.Sprintf("len%%4=%d %s n=%s", len(key)%4, class, nClass(n))
			check := func(name string, got int, hashed bool, want int) {
				c.Eval(1)
				if !inOffered(got, n) {
					k.Viol("c13:not-offered:"+name, fmt.Sprintf("%s returned %d, not among the %d offered partitions", name, got, n), map[string]any{"key": fmt.Sprintf("%x", key), "nil": key == nil, "n": n})
					return
				}
				if hashed {
					c.Distinct(name + " " + sigs)
					if got != want {
						k.Viol("c13:hash-mismatch:"+name, fmt.Sprintf("%s(key,%d)=%d, reference partitioner gives %d", name, n, got, want), map[string]any{"key": fmt.Sprintf("%x", key), "nil": key == nil, "n": n})
					}
				}
			}
			// Sarama hashPartitioner: int32(h) % n, negated if negative; nil key -> not hashed
			sar := int32(fnvh) % int32(n)
			if sar < 0 {
				sar = -sar
			}
			check("Hash", hashDef.Balance(msg, parts...), key != nil, int(sar))
			check("Hash{fnv}", hashExp.Balance(msg, parts...), key != nil, int(sar))
			// Sarama referenceHashPartitioner: (int32(h) & 0x7fffffff) % n
			rh := (int32(fnvh) & 0x7fffffff) % int32(n)
			check("ReferenceHash", refDef.Balance(msg, parts...), key != nil, int(rh))
			check("ReferenceHash{fnv}", refExp.Balance(msg, parts...), key != nil, int(rh))
			// librdkafka consistent_random / consistent: crc32(key) % n; empty or nil key random unless Consistent
			cw := int(crch % uint32(n))
			check("CRC32", kafka.CRC32Balancer{}.Balance(msg, parts...), len(key) != 0, cw)
			check("CRC32{Consistent}", kafka.CRC32Balancer{Consistent: true}.Balance(msg, parts...), true, cw)
			// Java default partitioner: toPositive(murmur2(key)) % n; nil key not hashed unless Consistent
			mw := int((mmh & 0x7fffffff) % int32(n))
			check("Murmur2", kafka.Murmur2Balancer{}.Balance(msg, parts...), key != nil, mw)
			check("Murmur2{Consistent}", kafka.Murmur2Balancer{Consistent: true}.Balance(msg, parts...), true, mw)
		}
	})

	// arbitrary hash codes through a custom Hasher: the partitioner arithmetic must agree with the reference
	// formulas for every 32-bit hash value, in particular around the sign boundary
	c.Cases("hashcode", c.N(4000, 800000), func(k *core.Case) {
		r := k.R
		boundary := []uint32{0, 1, 2, 0x7ffffffe, 0x7fffffff, 0x80000000, 0x80000001, 0x80000002, 0xfffffffe, 0xffffffff, 0x55555555, 0xaaaaaaaa}
		var h uint32
		if k.Idx < 4*len(boundary) {
			h = boundary[k.Idx%len(boundary)]
		} else if r.Chance(1, 3) {
			h = boundary[r.Intn(len(boundary))] + uint32(r.Intn(5)) - 2
		} else {
			h = uint32(r.Uint64())
		}
		k.Describe(map[string]any{"hash_code": fmt.Sprintf("%#x", h)})
		msg := kafka.Message{Key: []byte("k")}
		for _, n := range c13Counts {
			parts := lists[n]
			sar := int32(h) % int32(n)
			if sar < 0 {
				sar = -sar
			}
			ref := (int32(h) & 0x7fffffff) % int32(n)
			for _, t := range []struct {
				name string
				got  int
				want int
			}{
				{"Hash{custom}", (&kafka.Hash{Hasher: stubHash32(h)}).Balance(msg, parts...), int(sar)},
				{"ReferenceHash{custom}", (&kafka.ReferenceHash{Hasher: stubHash32(h)}).Balance(msg, parts...), int(ref)},
			} {
				c.Eval(1)
				if !inOffered(t.got, n) {
					k.Viol("c13:not-offered:"+t.name, fmt.Sprintf("%s returned %d for hash code %#x, not among the %d offered partitions", t.name, t.got, h, n), nil)
				} else if t.got != t.want {
					k.Viol("c13:hash-mismatch:"+t.name, fmt.Sprintf("%s with hash code %#x over %d partitions returned %d, reference partitioner gives %d", t.name, h, n, t.got, t.want), nil)
				}
			}
			cls := "mid"
			switch {
			case h == 0x80000000:
				cls = "minint32"
			case h >= 0x80000000:
				cls = "negative"
			case h == 0:
				cls = "zero"
			}
			c.Distinct(fmt.Sprintf("hashcode %s n=%s", cls, nClass(n)))
		}
	})

	// sequential laws
	c.Cases("seq", c.N(2000, 200000), func(k *core.Case) {
		r := k.R
		n := core.Pick(r, 1, 2, 3, 5, 8, 13, 64, 1000)
		if r.Chance(1, 3) {
			n = r.Range(1, 40)
		}
		parts := contiguous(n)
		chunk := core.Pick(r, 0, 1, 1, 2, 3, 5, 16, -1)
		calls := r.Range(1, 6*n+20)
		if calls > 600 {
			calls = 600
		}
		k.Describe(map[string]any{"n": n, "chunk": chunk, "calls": calls})
		eff := chunk
		if eff < 1 {
			eff = 1
		}
		rr := &kafka.RoundRobin{ChunkSize: chunk}
		for i := 0; i < calls; i++ {
			got := rr.Balance(kafka.Message{Value: []byte("x")}, parts...)
			want := parts[(i/eff)%n]
			c.Eval(1)
			if got != want {
				k.Viol("c13:roundrobin-seq", fmt.Sprintf("RoundRobin{ChunkSize:%d} call #%d over %d partitions returned %d, law gives %d", chunk, i, n, got, want), nil)
				break
			}
		}
		c.Distinct(fmt.Sprintf("rr n=%s chunk=%d wrap=%v", nClass(n), chunk, calls > n*eff))
		// LeastBytes sequential: the returned partition must hold the minimum before the add
		lb := &kafka.LeastBytes{}
		bytes := make([]uint64, n)
		ties := false
		for i := 0; i < calls; i++ {
			sz := core.Pick(r, 0, 1, 1, 2, 10, 100, 1000)
			ksz := r.Intn(sz + 1)
			m := kafka.Message{Key: make([]byte, ksz), Value: make([]byte, sz-ksz)}
			if r.Chance(1, 10) {
				m.Key = nil
			}
			got := lb.Balance(m, parts...)
			c.Eval(1)
			if !inOffered(got, n) {
				k.Viol("c13:not-offered:LeastBytes", fmt.Sprintf("LeastBytes returned %d of %d", got, n), nil)
				break
			}
			min := bytes[0]
			cnt := 0
			for _, b := range bytes {
				if b < min {
					min = b
				}
			}
			for _, b := range bytes {
				if b == min {
					cnt++
				}
			}
			if cnt > 1 {
				ties = true
			}
			if bytes[got] != min {
				k.Viol("c13:leastbytes-seq", fmt.Sprintf("LeastBytes call #%d picked partition %d holding %d bytes while the minimum is %d", i, got, bytes[got], min), map[string]any{"bytes": bytes})
				break
			}
			bytes[got] += uint64(len(m.Key) + len(m.Value))
		}
		c.Distinct(fmt.Sprintf("lb n=%s ties=%v", nClass(n), ties))
	})

	// one balancer value offered lists of changing length (a Writer without a fixed
	// Topic shares its balancer between topics with different partition counts, and a
	// topic's partition count can grow): whatever was offered before, the answer must be
	// one of the partitions offered now
	c.Cases("varylist", c.N(1500, 150000), func(k *core.Case) {
		r := k.R
		chunk := core.Pick(r, 0, 1, 1, 2, 3, 5, 16)
		type nb struct {
			name string
			b    kafka.Balancer
		}
		bals := []nb{
			{"RoundRobin", &kafka.RoundRobin{ChunkSize: chunk}},
			{"LeastBytes", &kafka.LeastBytes{}},
			{"Hash", &kafka.Hash{}},
			{"ReferenceHash", &kafka.ReferenceHash{}},
			{"CRC32", kafka.CRC32Balancer{}},
			{"Murmur2", kafka.Murmur2Balancer{}},
		}
		nTopics := r.Range(2, 5)
		counts := make([]int, nTopics)
		for i := range counts {
			counts[i] = core.Pick(r, 1, 2, 3, 3, 5, 8, 8, 13, 40)
		}
		calls := r.Range(8, 160)
		k.Describe(map[string]any{"chunk": chunk, "counts": counts, "calls": calls})
		shrinks, grows := 0, 0
		last := -1
		cur := r.Intn(nTopics)
		dead := map[string]bool{}
		for i := 0; i < calls; i++ {
			switch r.Intn(4) {
			case 0:
				cur = r.Intn(nTopics)
			case 1:
				if r.Chance(1, 4) && counts[cur] < 2000 { // the topic got more partitions
					counts[cur] += r.Range(1, 4)
				}
			}
			n := counts[cur]
			if last >= 0 && n < last {
				shrinks++
			} else if n > last && last >= 0 {
				grows++
			}
			last = n
			parts := contiguous(n)
			m := kafka.Message{Value: []byte("x")}
			if r.Chance(1, 3) {
				m.Key = r.Bytes(r.Range(1, 9))
			}
			for _, b := range bals {
				if dead[b.name] {
					continue
				}
				got := b.b.Balance(m, parts...)
				c.Eval(1)
				if !inOffered(got, n) {
					dead[b.name] = true
					k.Viol("c13:not-offered:"+b.name+":list-changed", fmt.Sprintf("%s (call #%d on this value, earlier lists of other lengths: partition counts %v) returned %d for the list 0..%d", b.name, i, counts, got, n-1), nil)
				}
			}
		}
		c.Distinct(fmt.Sprintf("varylist chunk=%d shrinks=%v grows=%v", chunk, shrinks > 0, grows > 0))
	})

	// concurrent histories -> porcupine
	c.Cases("conc", c.N(2400, 160000), func(k *core.Case) {
		r := k.R
		g := r.Range(2, 8)
		per := r.Range(2, 8)
		n := core.Pick(r, 1, 2, 3, 4, 7)
		chunk := core.Pick(r, 1, 1, 2, 3)
		kind := core.Pick(r, "RoundRobin", "LeastBytes")
		k.Describe(map[string]any{"kind": kind, "goroutines": g, "calls_each": per, "n": n, "chunk": chunk})
		parts := contiguous(n)
		type in struct {
			Size int
		}
		var mu sync.Mutex
		var ops []porcupine.Operation
		var bal kafka.Balancer
		if kind == "RoundRobin" {
			bal = &kafka.RoundRobin{ChunkSize: chunk}
		} else {
			bal = &kafka.LeastBytes{}
		}
		sizes := make([][]int, g)
		for i := range sizes {
			sizes[i] = make([]int, per)
			for j := range sizes[i] {
				sizes[i][j] = core.Pick(r, 0, 1, 1, 2, 3, 50)
			}
		}
		start := make(chan struct{})
		var arrived int64
		var wg sync.WaitGroup
		for gi := 0; gi < g; gi++ {
			wg.Add(1)
			go func(gi int) {
				defer wg.Done()
				<-start
				for j := 0; j < per; j++ {
					// spin barrier: all goroutines enter round j together so that calls overlap
					atomic.AddInt64(&arrived, 1)
					for spins := 0; atomic.LoadInt64(&arrived) < int64(g*(j+1)) && spins < 200000; spins++ {
						if spins%64 == 63 {
							runtime.Gosched()
						}
					}
					m := kafka.Message{Value: make([]byte, sizes[gi][j])}
					t0 := core.Tick()
					got := bal.Balance(m, parts...)
					t1 := core.Tick()
					mu.Lock()
					ops = append(ops, porcupine.Operation{ClientId: gi, Input: in{sizes[gi][j]}, Call: t0, Output: got, Return: t1})
					mu.Unlock()
				}
			}(gi)
		}
		close(start)
		wg.Wait()
		c.Eval(len(ops))
		// did any two operations of different goroutines overlap?
		overlap := false
		sorted := append([]porcupine.Operation(nil), ops...)
		sort.Slice(sorted, func(i, j int) bool { return sorted[i].Call < sorted[j].Call })
		for i := 1; i < len(sorted) && !overlap; i++ {
			for j := 0; j < i; j++ {
				if sorted[j].Return > sorted[i].Call && sorted[j].ClientId != sorted[i].ClientId {
					overlap = true
					break
				}
			}
		}
		var model porcupine.Model
		if kind == "RoundRobin" {
			model = porcupine.Model{
				Init: func() any { return 0 },
				Step: func(st, input, output any) (bool, any) {
					cnt := st.(int)
					return output.(int) == parts[(cnt/chunk)%n], cnt + 1
				},
			}
		} else {
			model = porcupine.Model{
				Init: func() any { return strings.Repeat("0,", n) },
				Step: func(st, input, output any) (bool, any) {
					v := decodeVec(st.(string))
					got := output.(int)
					if got < 0 || got >= len(v) {
						return false, st
					}
					min := v[0]
					for _, b := range v {
						if b < min {
							min = b
						}
					}
					if v[got] != min {
						return false, st
					}
					v[got] += input.(in).Size
					return true, encodeVec(v)
				},
			}
		}
		res := porcupine.CheckOperationsTimeout(model, ops, 10*time.Second)
		switch res {
		case porcupine.Illegal:
			k.Viol("c13:not-linearizable:"+kind, fmt.Sprintf("concurrent %s history of %d calls is not linearizable against the sequential law", kind, len(ops)), map[string]any{"ops": fmtOps(ops)})
		case porcupine.Unknown:
			c.Inconclusive("porcupine timeout " + k.ID)
		}
		if overlap {
			c.Count("conc_histories_with_overlap", 1)
		}
		c.Distinct(fmt.Sprintf("%s g=%d per=%d n=%d chunk=%d overlap=%v", kind, g, per, n, chunk, overlap))
		if k.Idx < 2 {
			h := fmtOps(ops)
			if len(h) > 12 {
				h = h[:12]
			}
			c.Sample(map[string]any{"kind": kind, "history_first_12_ops": h})
		}
	})
}

func encodeVec(v []int) string {
	var sb strings.Builder
	for _, x := range v {
		fmt.Fprintf(&sb, "%d,", x)
	}
	return sb.String()
}

func decodeVec(s string) []int {
	var v []int
	for _, p := range strings.Split(s, ",") {
		if p == "" {
			continue
		}
		x := 0
		fmt.Sscanf(p, "%d", &x)
		v = append(v, x)
	}
	return v
}

func fmtOps(ops []porcupine.Operation) []string {
	out := make([]string, 0, len(ops))
	for _, o := range ops {
		out = append(out, fmt.Sprintf("g%d [%d,%d] in=%v out=%v", o.ClientId, o.Call, o.Return, o.Input, o.Output))
	}
	return out
}

// stubHash32 is a hash.Hash32 whose Sum32 is a constant.
type stubHash32 uint32

func (s stubHash32) Write(p []byte) (int, error) { return len(p), nil }
func (s stubHash32) Sum(b []byte) []byte         { return b }
func (s stubHash32) Reset()                      {}
func (s stubHash32) Size() int                   { return 4 }
func (s stubHash32) BlockSize() int              { return 1 }
func (s stubHash32) Sum32() uint32               { return uint32(s) }
