package props

import (
	"bytes"
	"context"
	"crypto/ecdsa"
	"crypto/elliptic"
	crand "crypto/rand"
	"crypto/tls"
	"crypto/x509"
	"crypto/x509/pkix"
	"errors"
	"fmt"
	"hash/fnv"
	"io"
	"math/big"
	"net"
	"sort"
	"strings"
	"sync"
	"sync/atomic"
	"time"

	kafka "github.com/segmentio/kafka-go"
	"github.com/segmentio/kafka-go/compress"

	"verifharness/core"
	"verifharness/fakecluster"
	"verifharness/fakenet"
	"verifharness/refcodec"
)

// C10 — Types documented as goroutine-safe are free of data races.
//
// The deciding oracle is the Go race detector: the driver builds this property's binary with -race,
// runs it with GORACE="halt_on_error=0 log_path=...", and turns every deduplicated report with a
// kafka-go frame into a violation. This file only generates the concurrent client programs and
// records which pairs of exported methods were actually in flight at the same time.

func init() {
	core.Register(&core.Prop{
		ID:    "C10",
		Level: "exploration",
		Race:  true,
		Rule: "oracle = the Go race detector (binary built with -race -tags verif; every deduplicated DATA RACE report in which kafka-go code takes part is a violation keyed by the innermost kafka-go functions of the two accesses). " +
			"workload = generated concurrent client programs, k goroutines each running a random sequence from the menu of exported methods the property names: " +
			"Conn (Read, ReadMessage, ReadBatch(+With), Write, WriteMessages, WriteCompressedMessages, Seek, Offset, ReadOffset/First/Last/Offsets, ReadPartitions, Brokers, Controller, ApiVersions, the three deadline setters, SetRequiredAcks, Close), " +
			"Batch shared by several goroutines (Read, ReadMessage, Offset, HighWaterMark, Partition, Throttle, Err, Close), Writer (WriteMessages, Stats, Close), Reader with and without group (FetchMessage, ReadMessage, CommitMessages, SetOffset, Offset, Lag, Stats, Close), " +
			"Client methods + Transport.CloseIdleConnections, every built-in Balancer and every compression codec from 32 goroutines (a quarter of the codec rounds first use a writer on a failing sink and a reader on a cut stream, each closed twice the way callers with a deferred Close do), and the scenario engines of C02/C03/C05/C06/C09/C15 (their own oracles are not judged here). " +
			"signature = (type, pair of methods observed in flight simultaneously); non-trivial = at least two calls of the program overlapped",
		Assumptions: []string{
			"the race detector only reports accesses that were executed without a happens-before edge in an observed execution; programs that did not overlap are counted but are not evidence",
			"races whose two accesses are both in harness code are harness defects: they are counted separately (harness_race_reports) and make the run fail as a harness error, never as a violation",
			"Reader.SetOffsetAt, ReadLag and Config are not in the menu: the statement does not claim them",
		},
		Shards:      16,
		CaseTimeout: 120 * time.Second,
		Run:         runC10,
	})
}

// overlap tracker: which pairs of methods were in flight together
type c10Tracker struct {
	mu       sync.Mutex
	inflight map[string]int
	pairs    map[string]struct{}
	calls    int
}

func newC10Tracker() *c10Tracker {
	return &c10Tracker{inflight: map[string]int{}, pairs: map[string]struct{}{}}
}

func (t *c10Tracker) do(name string, f func()) {
	t.mu.Lock()
	t.calls++
	for o, n := range t.inflight {
		if n > 0 {
			a, b := name, o
			if b < a {
				a, b = b, a
			}
			t.pairs[a+"|"+b] = struct{}{}
		}
	}
	t.inflight[name]++
	t.mu.Unlock()
	defer func() {
		t.mu.Lock()
		t.inflight[name]--
		t.mu.Unlock()
	}()
	f()
}

func (t *c10Tracker) report(c *core.Ctx, typ string) int {
	t.mu.Lock()
	defer t.mu.Unlock()
	for p := range t.pairs {
		c.Distinct(typ + " " + p)
	}
	c.Eval(t.calls)
	c.Count("calls:"+typ, int64(t.calls))
	if len(t.pairs) == 0 {
		c.Count("programs_without_overlap:"+typ, 1)
	}
	return len(t.pairs)
}

func runC10(c *core.Ctx) {
	c.KeyFilter = func(key string) bool {
		return strings.HasPrefix(key, "race:") || strings.HasPrefix(key, "panic:") || strings.HasPrefix(key, "crash:") || strings.HasPrefix(key, "c10:")
	}
	c.DistinctFilter = func(sig string) bool {
		for _, p := range []string{"Conn ", "Writer ", "Reader ", "GroupReader ", "Client ", "Balancer ", "Codec ", "engine "} {
			if strings.HasPrefix(sig, p) {
				return true
			}
		}
		return false
	}
	c.Cases("conn", c.N(160, 8000), c10Conn)
	c.Cases("writer", c.N(100, 5000), c10Writer)
	c.Cases("reader", c.N(120, 6000), c10Reader)
	c.Cases("client", c.N(80, 4000), c10Client)
	c.Cases("balancers", c.N(32, 320), c10Balancers)
	c.Cases("codecs", c.N(32, 320), c10Codecs)
	c.Cases("engines", c.N(96, 4000), c10Engines)
}

// ---- Conn and Batch ----

func c10Conn(k *core.Case) {
	c := k.Ctx
	r := k.R
	caps := map[int]int{}
	if r.Bool() {
		caps[fakecluster.KFetch] = core.Pick(r, 2, 5, 10)
	}
	if r.Bool() {
		caps[fakecluster.KProduce] = core.Pick(r, 2, 3, 7)
	}
	env := newConnEnv(caps)
	defer env.Cluster.Close()
	conn, err := env.dial()
	if err != nil {
		c.Inconclusive("dial failed: " + err.Error())
		return
	}
	ng := r.Range(2, 6)
	nops := r.Range(3, 10)
	closeRace := r.Chance(1, 4)
	shareBatch := r.Chance(1, 2)
	k.Describe(map[string]any{"list": "conn", "goroutines": ng, "ops_each": nops, "close_races": closeRace, "shared_batch": shareBatch, "caps": fmt.Sprint(caps)})
	tr := newC10Tracker()
	batches := make(chan *kafka.Batch, 16)
	msgs := func(g, i int) []kafka.Message {
		return []kafka.Message{{Key: []byte(fmt.Sprintf("g%d", g)), Value: []byte(fmt.Sprintf("v%d.%d", g, i)), Time: time.UnixMilli(tsBase + int64(i))}}
	}
	useBatch := func(b *kafka.Batch, rr *core.Rand, n int) {
		buf := make([]byte, 64)
		for i := 0; i < n; i++ {
			switch rr.Intn(8) {
			case 0:
				// a buffer shorter than the value takes the io.ErrShortBuffer path (offset rolled back, batch error set)
				rb := buf
				if rr.Chance(1, 3) {
					rb = make([]byte, 2) // the capacity counts, not the length
				}
				tr.do("Batch.Read", func() { b.Read(rb) })
			case 1, 2:
				tr.do("Batch.ReadMessage", func() { b.ReadMessage() })
			case 3:
				tr.do("Batch.Offset", func() { b.Offset() })
			case 4:
				tr.do("Batch.HighWaterMark", func() { b.HighWaterMark(); b.Partition(); b.Throttle() })
			case 5, 6:
				tr.do("Batch.Err", func() { _ = b.Err() })
			case 7:
				tr.do("Batch.Close", func() { b.Close() })
			}
			// now and then stay away from the batch for a moment: whatever the call left unsynchronised
			// behind its last unlock is only ordered with other goroutines by this goroutine's next
			// operation on the same mutex
			if rr.Chance(1, 3) {
				time.Sleep(time.Duration(rr.Range(50, 400)) * time.Microsecond)
			}
		}
	}
	rs := make([]*core.Rand, ng+3)
	for i := range rs {
		rs[i] = r.Fork()
	}
	var wg sync.WaitGroup
	for g := 0; g < ng; g++ {
		wg.Add(1)
		go func(g int) {
			defer wg.Done()
			rr := rs[g]
			buf := make([]byte, 256)
			for i := 0; i < nops; i++ {
				switch rr.Intn(26) {
				case 0:
					rb := buf
					if rr.Chance(1, 3) {
						rb = make([]byte, 2) // the capacity counts, not the length
					}
					tr.do("Conn.Read", func() { conn.Read(rb) })
				case 1:
					tr.do("Conn.ReadMessage", func() { conn.ReadMessage(1 << 20) })
				case 2, 3, 4:
					var b *kafka.Batch
					tr.do("Conn.ReadBatch", func() {
						if rr.Bool() {
							b = conn.ReadBatch(1, 1<<20)
						} else {
							b = conn.ReadBatchWith(kafka.ReadBatchConfig{MinBytes: 1, MaxBytes: 1 << 20, MaxWait: 5 * time.Millisecond})
						}
					})
					if shareBatch {
						select {
						case batches <- b:
						default:
						}
					}
					useBatch(b, rr, rr.Range(1, 6))
					tr.do("Batch.Close", func() { b.Close() })
				case 5:
					tr.do("Conn.Write", func() { conn.Write([]byte("w")) })
				case 6, 7:
					tr.do("Conn.WriteMessages", func() { conn.WriteMessages(msgs(g, i)...) })
				case 8:
					tr.do("Conn.WriteCompressedMessages", func() {
						conn.WriteCompressedMessages(kafka.Compression(rr.Range(1, 4)).Codec(), msgs(g, i)...)
					})
				case 9, 10:
					tr.do("Conn.Seek", func() {
						conn.Seek(int64(rr.Intn(12)), core.Pick(rr, kafka.SeekStart, kafka.SeekAbsolute, kafka.SeekEnd, kafka.SeekCurrent, kafka.SeekAbsolute|kafka.SeekDontCheck))
					})
				case 11, 12:
					tr.do("Conn.Offset", func() { conn.Offset() })
				case 13:
					tr.do("Conn.ReadOffset", func() { conn.ReadOffset(time.UnixMilli(tsBase + int64(rr.Intn(12)))) })
				case 14:
					tr.do("Conn.ReadFirstOffset", func() { conn.ReadFirstOffset() })
				case 15:
					tr.do("Conn.ReadLastOffset", func() { conn.ReadLastOffset() })
				case 16:
					tr.do("Conn.ReadOffsets", func() { conn.ReadOffsets() })
				case 17:
					tr.do("Conn.ReadPartitions", func() { conn.ReadPartitions() })
				case 18:
					tr.do("Conn.Brokers", func() { conn.Brokers(); conn.Broker() })
				case 19:
					tr.do("Conn.Controller", func() { conn.Controller() })
				case 20:
					tr.do("Conn.ApiVersions", func() { conn.ApiVersions() })
				case 21:
					tr.do("Conn.SetDeadline", func() { conn.SetDeadline(time.Now().Add(time.Duration(rr.Range(500, 3000)) * time.Millisecond)) })
				case 22:
					tr.do("Conn.SetReadDeadline", func() {
						conn.SetReadDeadline(time.Now().Add(time.Duration(rr.Range(500, 3000)) * time.Millisecond))
					})
				case 23:
					tr.do("Conn.SetWriteDeadline", func() {
						conn.SetWriteDeadline(time.Now().Add(time.Duration(rr.Range(500, 3000)) * time.Millisecond))
					})
				case 24:
					tr.do("Conn.SetRequiredAcks", func() { conn.SetRequiredAcks(core.Pick(rr, -1, 1)) })
				case 25:
					tr.do("Conn.Addr", func() { conn.LocalAddr(); conn.RemoteAddr() })
				}
			}
		}(g)
	}
	// goroutines that use the batches handed over by the readers
	stop := make(chan struct{})
	var wg2 sync.WaitGroup
	if shareBatch {
		for h := 0; h < 2; h++ {
			wg2.Add(1)
			go func(h int) {
				defer wg2.Done()
				rr := rs[ng+h]
				for {
					select {
					case b := <-batches:
						useBatch(b, rr, rr.Range(1, 5))
					case <-stop:
						return
					}
				}
			}(h)
		}
	}
	if closeRace {
		wg.Add(1)
		go func() {
			defer wg.Done()
			time.Sleep(time.Duration(rs[ng+2].Intn(3000)) * time.Microsecond)
			tr.do("Conn.Close", func() { conn.Close() })
		}()
	}
	wg.Wait()
	close(stop)
	wg2.Wait()
	conn.Close()
	tr.report(c, "Conn")
}

// ---- Writer ----

func c10Writer(k *core.Case) {
	c := k.Ctx
	r := k.R
	cfg := genWriterCfg(r, "")
	cfg.NoClose = true
	if cfg.Goroutines < 2 {
		cfg.Goroutines = 2
	}
	closeRace := r.Chance(1, 3)
	pollers := r.Range(1, 3)
	d := cfg.desc()
	d["list"], d["close_races"], d["stats_pollers"] = "writer", closeRace, pollers
	k.Describe(d)
	run := wSetup(k, cfg)
	tr := newC10Tracker()
	inner := run.Writer
	stop := make(chan struct{})
	var wg sync.WaitGroup
	for p := 0; p < pollers; p++ {
		wg.Add(1)
		go func() {
			defer wg.Done()
			for {
				select {
				case <-stop:
					return
				default:
				}
				tr.do("Writer.Stats", func() { inner.Stats() })
				time.Sleep(200 * time.Microsecond)
			}
		}()
	}
	closeDelay := time.Duration(r.Intn(20000)) * time.Microsecond
	if closeRace {
		wg.Add(1)
		go func() {
			defer wg.Done()
			time.Sleep(closeDelay)
			tr.do("Writer.Close", func() { inner.Close() })
		}()
	}
	tr.do("Writer.WriteMessages", func() { wRunWorkload(k, run, wWorkloadOpts{}) })
	tr.do("Writer.Close", func() { wClose(run) })
	close(stop)
	wg.Wait()
	// WriteMessages calls overlap each other whenever there are two callers
	tr.mu.Lock()
	if cfg.Goroutines >= 2 {
		tr.pairs["Writer.WriteMessages|Writer.WriteMessages"] = struct{}{}
	}
	tr.calls += len(run.Calls)
	tr.mu.Unlock()
	tr.report(c, "Writer")
}

// ---- Reader ----

func c10Reader(k *core.Case) {
	c := k.Ctx
	r := k.R
	group := r.Bool()
	net := fakenet.New()
	cl := fakecluster.New(net)
	cl.MaxWaitCap = 10 * time.Millisecond
	nb := r.Range(1, 3)
	for i := 1; i <= nb; i++ {
		cl.AddBroker(int32(i), "")
	}
	nparts := r.Range(1, 3)
	cl.AddTopic("t0", nparts, nil)
	per := r.Range(4, 60)
	for p := 0; p < nparts; p++ {
		cl.Lock()
		pt := cl.Topics["t0"].Partitions[p]
		for base := 0; base < per; base += 7 {
			var recs []refcodec.Rec
			for i := base; i < base+7 && i < per; i++ {
				recs = append(recs, refcodec.Rec{Offset: int64(i), TimestampMs: tsBase + int64(i), Value: []byte(fmt.Sprintf("v%d", i))})
			}
			enc, _ := refcodec.NewBatchV2(recs, int64(base), -1, 0).Encode(refcodec.CompressOpts{})
			pt.AppendStored(&fakecluster.Stored{Bytes: enc, BaseOffset: int64(base), LastOffset: recs[len(recs)-1].Offset}, recs)
		}
		cl.Unlock()
	}
	faults := r.Chance(1, 3)
	var nfetch int32
	cl.Script = func(rc *fakecluster.ReqCtx) *fakecluster.Action {
		if !faults || rc.Ev.API != fakecluster.KFetch {
			return nil
		}
		switch atomic.AddInt32(&nfetch, 1) % 7 {
		case 3:
			return &fakecluster.Action{Kind: fakecluster.ActCut, CutAt: 30, CutMode: fakenet.CutEOF}
		case 5:
			return &fakecluster.Action{Kind: fakecluster.ActError, Code: 6}
		}
		return nil
	}
	cfg := kafka.ReaderConfig{Brokers: []string{"b1:9092"}, Topic: "t0", Dialer: &kafka.Dialer{DialFunc: net.Dialer("rd"), ClientID: "rd", Timeout: 300 * time.Millisecond},
		MaxWait: 10 * time.Millisecond, ReadBatchTimeout: 200 * time.Millisecond, ReadBackoffMin: time.Millisecond, ReadBackoffMax: 5 * time.Millisecond, MinBytes: 1, MaxBytes: 1 << 20,
		QueueCapacity: core.Pick(r, 1, 10, 100), ReadLagInterval: time.Duration(core.Pick(r, -1, 5, 20)) * time.Millisecond, MaxAttempts: 2}
	if group {
		cfg.GroupID = "g"
		cfg.HeartbeatInterval = time.Duration(r.Range(3, 15)) * time.Millisecond
		cfg.SessionTimeout = 400 * time.Millisecond
		cfg.RebalanceTimeout = 300 * time.Millisecond
		cfg.JoinGroupBackoff = 5 * time.Millisecond
		cfg.CommitInterval = time.Duration(core.Pick(r, 0, 0, 10)) * time.Millisecond
		cfg.ReadLagInterval = -1
	} else {
		cfg.Partition = r.Intn(nparts)
	}
	nfetchers := r.Range(1, 3)
	closeRace := r.Chance(1, 2)
	k.Describe(map[string]any{"list": "reader", "group": group, "partitions": nparts, "records_per_partition": per, "fetchers": nfetchers, "close_races": closeRace, "faults": faults, "queue": cfg.QueueCapacity})
	rd := kafka.NewReader(cfg)
	tr := newC10Tracker()
	ctx, cancel := context.WithTimeout(context.Background(), time.Duration(r.Range(30, 150))*time.Millisecond)
	defer cancel()
	typ := "Reader"
	if group {
		typ = "GroupReader"
	}
	var wg sync.WaitGroup
	rs := make([]*core.Rand, 16)
	for i := range rs {
		rs[i] = r.Fork()
	}
	toCommit := make(chan kafka.Message, 1024)
	for f := 0; f < nfetchers; f++ {
		wg.Add(1)
		go func(f int) {
			defer wg.Done()
			rr := rs[f]
			for ctx.Err() == nil {
				var m kafka.Message
				var err error
				if rr.Chance(1, 3) {
					tr.do("ReadMessage", func() { m, err = rd.ReadMessage(ctx) })
				} else {
					tr.do("FetchMessage", func() { m, err = rd.FetchMessage(ctx) })
				}
				if err != nil {
					if errors.Is(err, io.EOF) {
						return
					}
					time.Sleep(100 * time.Microsecond)
					continue
				}
				if group {
					select {
					case toCommit <- m:
					default:
					}
				}
			}
		}(f)
	}
	if group {
		wg.Add(1)
		go func() {
			defer wg.Done()
			for {
				select {
				case m := <-toCommit:
					tr.do("CommitMessages", func() { rd.CommitMessages(ctx, m) })
				case <-ctx.Done():
					return
				}
			}
		}()
	} else {
		wg.Add(1)
		go func() {
			defer wg.Done()
			rr := rs[8]
			for ctx.Err() == nil {
				tr.do("SetOffset", func() { rd.SetOffset(int64(rr.Intn(per))) })
				time.Sleep(time.Duration(rr.Range(200, 3000)) * time.Microsecond)
			}
		}()
	}
	wg.Add(1)
	go func() {
		defer wg.Done()
		for ctx.Err() == nil {
			tr.do("Offset", func() { rd.Offset() })
			tr.do("Lag", func() { rd.Lag() })
			tr.do("Stats", func() { rd.Stats() })
			time.Sleep(150 * time.Microsecond)
		}
	}()
	if closeRace {
		wg.Add(1)
		go func() {
			defer wg.Done()
			time.Sleep(time.Duration(rs[9].Intn(30000)) * time.Microsecond)
			tr.do("Close", func() { rd.Close() })
		}()
	}
	wg.Wait()
	tr.do("Close", func() { rd.Close() })
	cl.Close()
	tr.report(c, typ)
}

// ---- Client / Transport ----

func c10Client(k *core.Case) {
	c := k.Ctx
	r := k.R
	env := newConnEnv(nil)
	defer env.Cluster.Close()
	dial := env.Net.Dialer("cl")
	useResolver := r.Bool()
	trp := &kafka.Transport{Dial: dial, ClientID: "verif-c10", MetadataTTL: time.Duration(core.Pick(r, 1, 5, 1000)) * time.Millisecond, IdleTimeout: time.Duration(core.Pick(r, 2, 20, 1000)) * time.Millisecond, DialTimeout: time.Second}
	useTLS := r.Chance(1, 3)
	if useTLS {
		// TLS without a ServerName: the transport derives it from the broker address for every connection
		trp.TLS = &tls.Config{RootCAs: c10TLS().pool}
		dial = c10TLSBridge(dial)
		trp.Dial = dial
	}
	if useResolver {
		// the Resolver path looks idle connections up by resolved address (connGroup.grabConnTo)
		trp.Resolver = c10Resolver{}
		trp.Dial = func(ctx context.Context, network, addr string) (net.Conn, error) {
			if strings.HasPrefix(addr, "10.0.0.") {
				host, port, _ := net.SplitHostPort(addr)
				addr = "b" + strings.TrimPrefix(host, "10.0.0.") + ":" + port
			}
			return dial(ctx, network, addr)
		}
	}
	defer trp.CloseIdleConnections()
	client := &kafka.Client{Addr: kafka.TCP("b1:9092"), Transport: trp, Timeout: 2 * time.Second}
	ng := r.Range(2, 8)
	nops := r.Range(3, 10)
	k.Describe(map[string]any{"list": "client", "goroutines": ng, "ops_each": nops, "metadata_ttl": trp.MetadataTTL.String(), "idle_timeout": trp.IdleTimeout.String(), "resolver": useResolver, "tls": useTLS})
	tr := newC10Tracker()
	ops := transportOps()
	rs := make([]*core.Rand, ng)
	for i := range rs {
		rs[i] = r.Fork()
	}
	var wg sync.WaitGroup
	for g := 0; g < ng; g++ {
		wg.Add(1)
		go func(g int) {
			defer wg.Done()
			rr := rs[g]
			for i := 0; i < nops; i++ {
				ctx, cancel := context.WithTimeout(context.Background(), time.Duration(core.Pick(rr, 2, 50, 2000))*time.Millisecond)
				switch rr.Intn(10) {
				case 0:
					tr.do("Client.Metadata", func() {
						if _, err := client.Metadata(ctx, &kafka.MetadataRequest{Topics: []string{connTopic}}); err == nil {
							c.Count(fmt.Sprintf("client_metadata_ok:tls=%v,resolver=%v", useTLS, useResolver), 1)
						} else {
							c.Count(fmt.Sprintf("client_metadata_failed:tls=%v,resolver=%v", useTLS, useResolver), 1)
						}
					})
				case 1:
					tr.do("Client.ListOffsets", func() {
						client.ListOffsets(ctx, &kafka.ListOffsetsRequest{Topics: map[string][]kafka.OffsetRequest{connTopic: {kafka.FirstOffsetOf(0), kafka.LastOffsetOf(1)}}})
					})
				case 2:
					tr.do("Client.Produce", func() {
						client.Produce(ctx, &kafka.ProduceRequest{Topic: connTopic, Partition: rr.Intn(2), RequiredAcks: kafka.RequireOne, Compression: kafka.Compression(rr.Intn(5)),
							Records: kafka.NewRecordReader(kafka.Record{Time: time.UnixMilli(tsBase), Value: kafka.NewBytes([]byte(fmt.Sprintf("c%d.%d", g, i)))})})
					})
				case 3, 4:
					tr.do("Client.Fetch", func() {
						res, err := client.Fetch(ctx, &kafka.FetchRequest{Topic: connTopic, Partition: 0, Offset: int64(rr.Intn(12)), MinBytes: 1, MaxBytes: 1 << 20, MaxWait: 5 * time.Millisecond})
						if err == nil && res.Records != nil {
							for n := 0; n < 20; n++ {
								rec, err := res.Records.ReadRecord()
								if err != nil {
									break
								}
								if rec.Value != nil {
									io.Copy(io.Discard, rec.Value)
									rec.Value.Close()
								}
								if rec.Key != nil {
									rec.Key.Close()
								}
							}
						}
					})
				case 5:
					tr.do("Client.ApiVersions", func() { client.ApiVersions(ctx, &kafka.ApiVersionsRequest{}) })
				case 6:
					tr.do("Client.FindCoordinator", func() {
						client.FindCoordinator(ctx, &kafka.FindCoordinatorRequest{Key: "g", KeyType: kafka.CoordinatorKeyTypeConsumer})
					})
				case 7:
					tr.do("Client.OffsetFetch", func() {
						client.OffsetFetch(ctx, &kafka.OffsetFetchRequest{GroupID: "g", Topics: map[string][]int{connTopic: {0, 1}}})
					})
				case 8:
					op := ops[rr.Intn(len(ops))]
					tr.do("Transport.RoundTrip", func() { trp.RoundTrip(ctx, kafka.TCP("b1:9092"), op.Req()) })
				case 9:
					tr.do("Transport.CloseIdleConnections", func() { trp.CloseIdleConnections() })
				}
				cancel()
			}
		}(g)
	}
	wg.Wait()
	tr.report(c, "Client")
}

// TLS for the fake cluster: the dial function hands the library one end of an in-memory pipe whose
// other end is a TLS server bridged to the plaintext fake broker.
type c10TLSMaterial struct {
	pool   *x509.CertPool
	server *tls.Config
}

var c10TLSOnce sync.Once
var c10TLSMat c10TLSMaterial

func c10TLS() c10TLSMaterial {
	c10TLSOnce.Do(func() {
		key, err := ecdsa.GenerateKey(elliptic.P256(), crand.Reader)
		if err != nil {
			panic(err)
		}
		tmpl := &x509.Certificate{SerialNumber: big.NewInt(1), Subject: pkix.Name{CommonName: "verif fake cluster"},
			NotBefore: time.Now().Add(-time.Hour), NotAfter: time.Now().Add(240 * time.Hour),
			KeyUsage: x509.KeyUsageDigitalSignature | x509.KeyUsageCertSign, ExtKeyUsage: []x509.ExtKeyUsage{x509.ExtKeyUsageServerAuth},
			BasicConstraintsValid: true, IsCA: true, DNSNames: []string{"b1", "b2", "b3", "b4", "b5"},
			IPAddresses: []net.IP{net.IPv4(10, 0, 0, 1), net.IPv4(10, 0, 0, 2), net.IPv4(10, 0, 0, 3)}}
		der, err := x509.CreateCertificate(crand.Reader, tmpl, tmpl, &key.PublicKey, key)
		if err != nil {
			panic(err)
		}
		cert, _ := x509.ParseCertificate(der)
		pool := x509.NewCertPool()
		pool.AddCert(cert)
		c10TLSMat = c10TLSMaterial{pool: pool, server: &tls.Config{Certificates: []tls.Certificate{{Certificate: [][]byte{der}, PrivateKey: key}}}}
	})
	return c10TLSMat
}

func c10TLSBridge(inner func(context.Context, string, string) (net.Conn, error)) func(context.Context, string, string) (net.Conn, error) {
	return func(ctx context.Context, network, addr string) (net.Conn, error) {
		back, err := inner(ctx, network, addr)
		if err != nil {
			return nil, err
		}
		front, far := net.Pipe()
		srv := tls.Server(far, c10TLS().server)
		go func() {
			defer back.Close()
			defer srv.Close()
			if err := srv.Handshake(); err != nil {
				return
			}
			go func() {
				io.Copy(back, srv)
				back.Close()
			}()
			io.Copy(srv, back)
		}()
		return front, nil
	}
}

// c10Resolver resolves broker bN to 10.0.0.N.
type c10Resolver struct{}

func (c10Resolver) LookupBrokerIPAddr(ctx context.Context, b kafka.Broker) ([]net.IPAddr, error) {
	n := 1
	fmt.Sscanf(b.Host, "b%d", &n)
	return []net.IPAddr{{IP: net.IPv4(10, 0, 0, byte(n))}}, nil
}

// ---- balancers ----

func c10Balancers(k *core.Case) {
	c := k.Ctx
	r := k.R
	bals := []struct {
		name string
		b    kafka.Balancer
	}{
		{"RoundRobin", &kafka.RoundRobin{}},
		{"RoundRobin.Chunk", &kafka.RoundRobin{ChunkSize: 3}},
		{"LeastBytes", &kafka.LeastBytes{}},
		{"Hash", &kafka.Hash{}},
		{"Hash.custom", &kafka.Hash{Hasher: fnv.New32()}},
		{"ReferenceHash", &kafka.ReferenceHash{}},
		{"ReferenceHash.custom", &kafka.ReferenceHash{Hasher: fnv.New32()}},
		{"CRC32Balancer", kafka.CRC32Balancer{}},
		{"CRC32Balancer.consistent", kafka.CRC32Balancer{Consistent: true}},
		{"Murmur2Balancer", kafka.Murmur2Balancer{}},
		{"Murmur2Balancer.consistent", kafka.Murmur2Balancer{Consistent: true}},
		{"BalancerFunc", kafka.BalancerFunc(func(m kafka.Message, p ...int) int { return p[len(m.Key)%len(p)] })},
	}
	bi := k.Idx % len(bals)
	b := bals[bi]
	ng := 32
	k.Describe(map[string]any{"list": "balancers", "balancer": b.name, "goroutines": ng})
	tr := newC10Tracker()
	var wg sync.WaitGroup
	rs := make([]*core.Rand, ng)
	for i := range rs {
		rs[i] = r.Fork()
	}
	var bad int32
	for g := 0; g < ng; g++ {
		wg.Add(1)
		go func(g int) {
			defer wg.Done()
			rr := rs[g]
			for i := 0; i < 200; i++ {
				n := rr.Range(1, 9)
				parts := make([]int, n)
				for j := range parts {
					parts[j] = j
				}
				var key []byte
				if rr.Chance(3, 4) {
					key = []byte(fmt.Sprintf("key-%d", rr.Intn(50)))
				}
				tr.do(b.name+".Balance", func() {
					p := b.b.Balance(kafka.Message{Key: key, Value: make([]byte, rr.Intn(100))}, parts...)
					if p < 0 || p >= n {
						atomic.AddInt32(&bad, 1)
					}
				})
			}
		}(g)
	}
	wg.Wait()
	if bad > 0 {
		k.Viol("c10:balancer-result-not-offered:"+b.name, fmt.Sprintf("%s returned %d results outside the offered partitions under 32 concurrent callers", b.name, bad), nil)
	}
	tr.report(c, "Balancer")
}

// ---- codecs ----

func c10Codecs(k *core.Case) {
	c := k.Ctx
	r := k.R
	ci := 1 + k.Idx%4
	codec := compress.Codecs[ci]
	ng := 32
	k.Describe(map[string]any{"list": "codecs", "codec": codec.Name(), "goroutines": ng})
	tr := newC10Tracker()
	var wg sync.WaitGroup
	rs := make([]*core.Rand, ng)
	for i := range rs {
		rs[i] = r.Fork()
	}
	var bad int32
	for g := 0; g < ng; g++ {
		wg.Add(1)
		go func(g int) {
			defer wg.Done()
			rr := rs[g]
			for i := 0; i < 12; i++ {
				payload := make([]byte, core.Pick(rr, 0, 1, 100, 5000, 70000))
				for j := range payload {
					payload[j] = byte(g*31 + j%(7+g))
				}
				var buf bytes.Buffer
				var out []byte
				var err error
				if rr.Chance(1, 4) {
					// uses that end in an error, closed the way callers do (deferred Close plus a
					// checked Close): a sink that fails, a stream that is cut short
					tr.do(codec.Name()+".NewWriter(failing sink)", func() {
						w := codec.NewWriter(&c16FailSink{left: rr.Intn(len(payload)/4 + 8)})
						w.Write(payload)
						w.Close()
						w.Close()
					})
					if prev := rr.Intn(3); prev > 0 {
						tr.do(codec.Name()+".NewReader(cut stream)", func() {
							var zb bytes.Buffer
							w := codec.NewWriter(&zb)
							w.Write(payload)
							w.Close()
							z := zb.Bytes()
							rd := codec.NewReader(bytes.NewReader(z[:len(z)*prev/3]))
							io.Copy(io.Discard, rd)
							rd.Close()
							rd.Close()
						})
					}
				}
				tr.do(codec.Name()+".NewWriter", func() {
					w := codec.NewWriter(&buf)
					w.Write(payload)
					w.Close()
				})
				tr.do(codec.Name()+".NewReader", func() {
					rd := codec.NewReader(bytes.NewReader(buf.Bytes()))
					out, err = io.ReadAll(rd)
					rd.Close()
				})
				if err != nil || !bytes.Equal(out, payload) {
					atomic.AddInt32(&bad, 1)
				}
			}
		}(g)
	}
	wg.Wait()
	if bad > 0 {
		k.Viol("c10:codec-roundtrip-under-concurrency:"+codec.Name(), fmt.Sprintf("%d of the round trips through %s run by 32 goroutines returned other bytes than were written", bad, codec.Name()), nil)
	}
	tr.report(c, "Codec")
}

// ---- the scenario engines of other properties, for the race detector only ----

func c10Engines(k *core.Case) {
	c := k.Ctx
	names := []string{"c02", "c03", "c06conn", "c06transport", "c09reader", "c09writer", "c15", "c05pages"}
	name := names[k.Idx%len(names)]
	c.Count("engine_runs:"+name, 1)
	switch name {
	case "c02":
		c02Run(k, genReaderCfg(k.R))
	case "c03":
		c03Run(k, genGroupCfg(k.R))
	case "c06conn":
		c06Conn(k)
	case "c06transport":
		c06Transport(k)
	case "c09reader":
		c09Reader(k)
	case "c09writer":
		c09Writer(k)
	case "c15":
		c15Run(k)
	case "c05pages":
		c05PagesCase(k)
	}
	c.Distinct("engine " + name)
}

var _ = sort.Strings
