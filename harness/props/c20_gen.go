package props

import (
	"encoding/binary"
	"fmt"
	"hash/crc32"
	"reflect"
	"strings"

	"github.com/segmentio/kafka-go/protocol"

	"verifharness/core"
	"verifharness/refcodec"
)

// ---------------------------------------------------------------- fields and mutation values

// c20Field is one length / count field of a well-formed frame.
type c20Field struct {
	Path  string
	Off   int
	Width int
	Role  string // framesize strlen cstrlen byteslen cbyteslen arraylen carraylen tagcount tagsize recordslen batchlen msgsize numrecords varint-* legacy-*
	Kind  string // header | body | record-batch
	Enc   byte   // 'f' fixed big-endian signed, 'u' unsigned varint, 'z' zig-zag varint
	Bias  uint64 // compact lengths are stored as n+1
	// Encl: offsets of the int32 length fields that enclose this field (frame
	// size, record set size, batch length, message size): they are adjusted
	// when the width of the field changes and the mutation is "consistent".
	Encl []int
	// record-set context
	UnitStart int // offset in the frame of the batch / legacy message holding the field (-1 outside record sets)
	Magic     int
	Covered   bool // covered by the batch / message checksum
	// Rem: bytes between the end of the field and the end of its container
	Rem int
}

type c20Mut struct {
	VClass string
	Bytes  []byte
}

func c20PutUvarint(v uint64) []byte {
	var b []byte
	for v >= 0x80 {
		b = append(b, byte(v)|0x80)
		v >>= 7
	}
	return append(b, byte(v))
}

func c20ReadUvarint(b []byte) (uint64, int) {
	var x uint64
	var s uint
	for i := 0; i < len(b) && i < 10; i++ {
		x |= uint64(b[i]&0x7f) << s
		if b[i]&0x80 == 0 {
			return x, i + 1
		}
		s += 7
	}
	return 0, 0
}

func c20Zig(v int64) uint64 { return uint64((v << 1) ^ (v >> 63)) }

var c20NonTerm = []byte{0xff, 0xff, 0xff, 0xff, 0xff, 0xff, 0xff, 0xff, 0xff, 0xff, 0xff}

// c20Cur reads the current value of the field (semantic length: bias removed).
func c20Cur(frame []byte, f *c20Field) int64 {
	b := frame[f.Off : f.Off+f.Width]
	switch f.Enc {
	case 'f':
		switch f.Width {
		case 2:
			return int64(int16(binary.BigEndian.Uint16(b)))
		case 4:
			return int64(int32(binary.BigEndian.Uint32(b)))
		}
	case 'u':
		u, _ := c20ReadUvarint(b)
		return int64(u - f.Bias)
	case 'z':
		u, _ := c20ReadUvarint(b)
		return int64(u>>1) ^ -int64(u&1)
	}
	return 0
}

// c20Values lists the mutation values of the property's quantifier for one
// field: -1, -2, 0, len-1, len+1, remaining+1, 2^15-1, 2^31-1, -2^31 and for
// varints 2^31, 2^32, 2^63 (and its neighbours), 2^64-1 and an 11-byte
// varint without terminator.
func c20Values(frame []byte, f *c20Field) []c20Mut {
	cur := c20Cur(frame, f)
	var out []c20Mut
	seen := map[string]bool{string(frame[f.Off : f.Off+f.Width]): true}
	add := func(class string, b []byte) {
		if seen[string(b)] {
			return
		}
		seen[string(b)] = true
		out = append(out, c20Mut{class, b})
	}
	switch f.Enc {
	case 'f':
		put := func(class string, v int64) {
			b := make([]byte, f.Width)
			if f.Width == 2 {
				if v > 32767 || v < -32768 {
					return
				}
				binary.BigEndian.PutUint16(b, uint16(v))
			} else {
				if v > 1<<31-1 || v < -1<<31 {
					return
				}
				binary.BigEndian.PutUint32(b, uint32(v))
			}
			add(class, b)
		}
		put("-1", -1)
		put("-2", -2)
		put("0", 0)
		put("len-1", cur-1)
		put("len+1", cur+1)
		put("remaining+1", int64(f.Rem)+1)
		put("2^15-1", 1<<15-1)
		if f.Width == 2 {
			put("-2^15", -1<<15)
		} else {
			put("2^24", 1<<24)
			put("2^31-1", 1<<31-1)
			put("-2^31", -1<<31)
		}
		if f.Role == "framesize" {
			put("3", 3)
			put("4", 4)
		}
	case 'u':
		put := func(class string, n uint64) { add(class, c20PutUvarint(n+f.Bias)) }
		if f.Bias > 0 {
			add("-1", c20PutUvarint(0)) // null
		}
		put("-2", ^uint64(0)-f.Bias) // raw 2^64-1: n = -2 for compact lengths
		put("0", 0)
		put("len-1", uint64(cur-1))
		put("len+1", uint64(cur+1))
		put("remaining+1", uint64(f.Rem)+1)
		put("2^15-1", 1<<15-1)
		put("2^24", 1<<24)
		put("2^31-1", 1<<31-1)
		put("2^31", 1<<31)
		put("2^32", 1<<32)
		put("2^63-1", 1<<63-1)
		put("2^63", 1<<63)
		add("2^64-1", c20PutUvarint(^uint64(0)))
		add("nonterm11", c20NonTerm)
	case 'z':
		put := func(class string, v int64) { add(class, c20PutUvarint(c20Zig(v))) }
		put("-1", -1)
		put("-2", -2)
		put("0", 0)
		put("len-1", cur-1)
		put("len+1", cur+1)
		put("remaining+1", int64(f.Rem)+1)
		put("2^15-1", 1<<15-1)
		put("2^24", 1<<24)
		put("2^31-1", 1<<31-1)
		put("-2^31", -1<<31)
		put("2^31", 1<<31)
		put("2^32", 1<<32)
		put("2^63-1", 1<<63-1)
		put("2^63", -1<<63) // zig-zag of the most negative value: raw 2^64-1
		add("nonterm11", c20NonTerm)
	}
	return out
}

// c20Splice replaces the field's bytes. With consistent set, the enclosing
// int32 length fields are adjusted by the width change.
func c20Splice(frame []byte, f *c20Field, nb []byte, consistent bool) []byte {
	out := make([]byte, 0, len(frame)+len(nb))
	out = append(out, frame[:f.Off]...)
	out = append(out, nb...)
	out = append(out, frame[f.Off+f.Width:]...)
	if d := len(nb) - f.Width; d != 0 && consistent {
		for _, e := range f.Encl {
			if e+4 <= len(out) && e < f.Off {
				v := int32(binary.BigEndian.Uint32(out[e:]))
				binary.BigEndian.PutUint32(out[e:], uint32(v+int32(d)))
			}
		}
	}
	return out
}

// c20FixCRC recomputes the checksum of the batch / legacy message that starts
// at unit, using the (possibly mutated) length found in its header. It
// returns false when the unit does not fit in the frame any more.
func c20FixCRC(frame []byte, unit, magic int) bool {
	if unit < 0 || unit+12 > len(frame) {
		return false
	}
	n := int(int32(binary.BigEndian.Uint32(frame[unit+8:])))
	if n < 0 || unit+12+n > len(frame) {
		return false
	}
	u := frame[unit : unit+12+n]
	if magic == 2 {
		if len(u) < 61 {
			return false
		}
		refcodec.FixCRCv2(u)
		return true
	}
	if len(u) < 18 {
		return false
	}
	binary.BigEndian.PutUint32(u[12:], crc32.ChecksumIEEE(u[16:]))
	return true
}

// ---------------------------------------------------------------- record sets with field positions

type c20Unit struct {
	Bytes  []byte
	Fields []c20Field // offsets relative to Bytes; UnitStart relative too (fixed up by the caller)
}

func c20RandBytes(r *core.Rand, lo, hi int, nullable bool) []byte {
	if nullable && r.Chance(1, 5) {
		return nil
	}
	n := r.Range(lo, hi)
	b := make([]byte, n)
	for i := range b {
		b[i] = byte('a' + r.Intn(26))
	}
	return b
}

func c20Recs(r *core.Rand, base int64, n int, headers bool) []refcodec.Rec {
	var recs []refcodec.Rec
	for i := 0; i < n; i++ {
		rec := refcodec.Rec{Offset: base + int64(i), TimestampMs: 1600000000000 + int64(r.Intn(1000)),
			Key: c20RandBytes(r, 0, 6, true), Value: c20RandBytes(r, 0, 24, true)}
		if headers {
			for h := r.Intn(3); h > 0; h-- {
				rec.Headers = append(rec.Headers, refcodec.Hdr{Key: string(c20RandBytes(r, 1, 5, false)), Value: c20RandBytes(r, 0, 6, true)})
			}
		}
		recs = append(recs, rec)
	}
	return recs
}

// c20WalkV2 lists the varint length fields of the records of an uncompressed
// v2 batch b (offsets relative to b).
func c20WalkV2(b []byte, n int) []c20Field {
	var out []c20Field
	p := 61
	vi := func(role string) int64 {
		u, w := c20ReadUvarint(b[p:])
		if w == 0 {
			panic("c20: cannot walk own batch")
		}
		out = append(out, c20Field{Off: p, Width: w, Role: role, Enc: 'z', Covered: true})
		p += w
		return int64(u>>1) ^ -int64(u&1)
	}
	skipvi := func() {
		_, w := c20ReadUvarint(b[p:])
		p += w
	}
	for i := 0; i < n; i++ {
		vi("varint-reclen")
		p++ // attributes
		skipvi()
		skipvi()
		if k := vi("varint-key"); k > 0 {
			p += int(k)
		}
		if v := vi("varint-value"); v > 0 {
			p += int(v)
		}
		nh := vi("varint-headers")
		for h := int64(0); h < nh; h++ {
			if k := vi("varint-hkey"); k > 0 {
				p += int(k)
			}
			if v := vi("varint-hvalue"); v > 0 {
				p += int(v)
			}
		}
	}
	if p != len(b) {
		panic(fmt.Sprintf("c20: batch walk ended at %d of %d", p, len(b)))
	}
	for i := range out {
		out[i].Rem = len(b) - out[i].Off - out[i].Width
	}
	return out
}

// c20LegacyFields lists the fields of the legacy message at the start of b.
func c20LegacyFields(b []byte, at int) []c20Field {
	magic := int(b[at+16])
	size := int(binary.BigEndian.Uint32(b[at+8:]))
	end := at + 12 + size
	out := []c20Field{{Off: at + 8, Width: 4, Role: "msgsize", Enc: 'f', Rem: len(b) - at - 12}}
	p := at + 18
	if magic == 1 {
		p += 8
	}
	out = append(out, c20Field{Off: p, Width: 4, Role: "legacy-keylen", Enc: 'f', Covered: true, Rem: end - p - 4})
	if kl := int(int32(binary.BigEndian.Uint32(b[p:]))); kl > 0 {
		p += kl
	}
	p += 4
	out = append(out, c20Field{Off: p, Width: 4, Role: "legacy-valuelen", Enc: 'f', Covered: true, Rem: end - p - 4})
	for i := range out {
		out[i].UnitStart = at
		out[i].Magic = magic
	}
	return out
}

func c20BuildUnit(r *core.Rand, base int64) (c20Unit, int64) {
	n := r.Range(1, 3)
	switch x := r.Intn(20); {
	case x < 10: // v2, uncompressed
		recs := c20Recs(r, base, n, true)
		b, err := refcodec.NewBatchV2(recs, base, -1, refcodec.CodecNone).Encode(refcodec.CompressOpts{})
		if err != nil {
			panic(err)
		}
		fs := []c20Field{{Off: 8, Width: 4, Role: "batchlen", Enc: 'f', Rem: len(b) - 12}, {Off: 57, Width: 4, Role: "numrecords", Enc: 'f', Covered: true, Rem: len(b) - 61}}
		fs = append(fs, c20WalkV2(b, n)...)
		for i := range fs {
			fs[i].Magic = 2
		}
		return c20Unit{b, fs}, base + int64(n)
	case x < 13: // v2, compressed
		recs := c20Recs(r, base, n, true)
		b, err := refcodec.NewBatchV2(recs, base, -1, r.Range(1, 4)).Encode(refcodec.CompressOpts{})
		if err != nil {
			panic(err)
		}
		fs := []c20Field{{Off: 8, Width: 4, Role: "batchlen", Enc: 'f', Rem: len(b) - 12, Magic: 2}, {Off: 57, Width: 4, Role: "numrecords", Enc: 'f', Covered: true, Rem: len(b) - 61, Magic: 2}}
		return c20Unit{b, fs}, base + int64(n)
	case x < 17: // legacy messages
		magic := r.Intn(2)
		recs := c20Recs(r, base, n, false)
		b, err := refcodec.EncodeLegacy(magic, refcodec.CodecNone, recs, refcodec.CompressOpts{})
		if err != nil {
			panic(err)
		}
		var fs []c20Field
		for at := 0; at < len(b); {
			fs = append(fs, c20LegacyFields(b, at)...)
			at += 12 + int(binary.BigEndian.Uint32(b[at+8:]))
		}
		return c20Unit{b, fs}, base + int64(n)
	default: // legacy compressed wrapper
		magic := r.Intn(2)
		recs := c20Recs(r, base, n, false)
		b, err := refcodec.EncodeLegacy(magic, r.Range(1, 2), recs, refcodec.CompressOpts{})
		if err != nil {
			panic(err)
		}
		fs := c20LegacyFields(b, 0)
		for i := range fs {
			if fs[i].Role == "legacy-valuelen" {
				fs[i].Role = "legacy-wrapperlen"
			}
		}
		return c20Unit{b, fs}, base + int64(n)
	}
}

// c20RecordSet builds a record set of 1..maxUnits units; field offsets are
// relative to the record set, UnitStart is set, Encl holds the batch length /
// message size field of the unit (relative).
func c20RecordSet(r *core.Rand, maxUnits int) ([]byte, []c20Field) {
	var out []byte
	var fields []c20Field
	base := int64(r.Intn(1000))
	for u := r.Range(1, maxUnits); u > 0; u-- {
		unit, next := c20BuildUnit(r, base)
		base = next
		at := len(out)
		for _, f := range unit.Fields {
			f.UnitStart += at
			f.Off += at
			f.Kind = "record-batch"
			if f.Enc == 'z' {
				f.Encl = []int{f.UnitStart + 8}
			}
			fields = append(fields, f)
		}
		out = append(out, unit.Bytes...)
	}
	return out, fields
}

// ---------------------------------------------------------------- schema-driven response values

type c20Gen struct {
	r *core.Rand
	// record sets generated so far, in encoding order
	sets   [][]byte
	setFld [][]c20Field
	units  int
	// long: give the first top-level array 257..400 elements (the decoder allocates arrays of more than
	// 256 elements as their content arrives; a hostile count is then only dangerous once real elements
	// carried the decoder past the pre-allocated part)
	long bool
}

func (g *c20Gen) str(lo, hi int) string { return string(c20RandBytes(g.r, lo, hi, false)) }

func (g *c20Gen) fields(fs []*refcodec.Field, ver int, flex bool, depth int) map[string]any {
	out := map[string]any{}
	for _, f := range fs {
		if f.Tag >= 0 && f.Tagged.Has(ver) {
			if g.r.Bool() {
				out[f.Name] = g.value(f, ver, flex, depth)
			}
			continue
		}
		if !f.Versions.Has(ver) {
			continue
		}
		out[f.Name] = g.value(f, ver, flex, depth)
	}
	if flex && g.r.Chance(1, 3) {
		out["_tags"] = map[int][]byte{100 + g.r.Intn(5): c20RandBytes(g.r, 0, 5, false)}
	}
	return out
}

func (g *c20Gen) value(f *refcodec.Field, ver int, flex bool, depth int) any {
	nullable := f.Nullable.Has(ver)
	if f.Array {
		if nullable && g.r.Chance(1, 8) {
			return nil
		}
		n := g.r.Range(1, 2)
		if depth >= 2 {
			n = 1
		}
		if g.long && depth == 0 {
			g.long = false
			n = g.r.Range(257, 400)
		}
		elem := *f
		elem.Array = false
		elem.Nullable = refcodec.VRange{Min: -1, Max: -1}
		arr := make([]any, 0, n)
		for i := 0; i < n; i++ {
			arr = append(arr, g.value(&elem, ver, flex, depth+1))
		}
		return arr
	}
	switch f.Kind {
	case refcodec.KInt8:
		return int64(g.r.Intn(4))
	case refcodec.KInt16:
		return int64(g.r.Intn(90))
	case refcodec.KInt32:
		return int64(g.r.Intn(100000))
	case refcodec.KInt64:
		return int64(g.r.Intn(1 << 30))
	case refcodec.KFloat64:
		return float64(g.r.Intn(100)) / 4
	case refcodec.KBool:
		return g.r.Bool()
	case refcodec.KString:
		if nullable && g.r.Chance(1, 6) {
			return nil
		}
		return g.str(1, 9)
	case refcodec.KBytes:
		if nullable && g.r.Chance(1, 6) {
			return nil
		}
		return c20RandBytes(g.r, 1, 12, false)
	case refcodec.KRecords:
		if g.units >= 6 || (nullable && g.r.Chance(1, 8)) {
			g.sets = append(g.sets, nil)
			g.setFld = append(g.setFld, nil)
			if nullable {
				return []byte(nil)
			}
			return []byte{}
		}
		b, fl := c20RecordSet(g.r, 2)
		g.units += 2
		g.sets = append(g.sets, b)
		g.setFld = append(g.setFld, fl)
		return b
	case refcodec.KStruct:
		return g.fields(f.Fields, ver, flex, depth)
	}
	return nil
}

var c20LenRoles = map[string]bool{"framesize": true, "strlen": true, "cstrlen": true, "byteslen": true, "cbyteslen": true,
	"arraylen": true, "carraylen": true, "tagcount": true, "tagsize": true, "recordslen": true, "crecordslen": true}

// c20SchemaFrame encodes a generated response of api at ver with refcodec and
// returns the frame with all its length / count fields.
func c20SchemaFrame(r *core.Rand, api *refcodec.API, ver int) ([]byte, []c20Field) {
	g := &c20Gen{r: r, long: r.Chance(1, 5)}
	long := g.long
	val := g.fields(api.Resp, ver, api.Flexible(ver), 0)
	frame, fmap, err := refcodec.EncodeResponseFrame(api, ver, int32(r.Intn(1<<30)), val)
	if err != nil {
		panic(fmt.Sprintf("c20: cannot encode %s v%d: %v", api.Name, ver, err))
	}
	var out []c20Field
	nset := 0
	for _, p := range fmap {
		if !c20LenRoles[p.Role] {
			continue
		}
		f := c20Field{Path: p.Path, Off: p.Off, Width: p.Width, Role: p.Role, Kind: "body", Enc: 'f', UnitStart: -1, Encl: []int{0}, Rem: len(frame) - p.Off - p.Width}
		switch p.Role {
		case "framesize":
			f.Kind = "header"
			f.Encl = nil
		case "cstrlen", "cbyteslen", "carraylen", "crecordslen":
			f.Enc, f.Bias = 'u', 1
		case "tagcount", "tagsize":
			f.Enc = 'u'
			if strings.HasPrefix(p.Path, "_hdr") {
				f.Kind = "header"
			}
		}
		if p.Role == "crecordslen" {
			f.Role = "recordslen"
		}
		out = append(out, f)
		if p.Role == "recordslen" || p.Role == "crecordslen" {
			if nset >= len(g.sets) {
				panic("c20: more record fields than generated record sets")
			}
			set, fl := g.sets[nset], g.setFld[nset]
			nset++
			at := p.Off + p.Width
			if len(set) > 0 {
				if at+len(set) > len(frame) || string(frame[at:at+len(set)]) != string(set) {
					panic("c20: record set not found where the field map says")
				}
				for _, rf := range fl {
					rf.Path = fmt.Sprintf("%s@%d", p.Path, rf.Off)
					rf.Off += at
					rf.UnitStart += at
					encl := []int{0}
					if p.Role == "recordslen" {
						encl = append(encl, p.Off)
					}
					for _, e := range rf.Encl {
						encl = append(encl, e+at)
					}
					rf.Encl = encl
					out = append(out, rf)
				}
			}
		}
	}
	if long && len(out) > 48 {
		// a frame with hundreds of elements has thousands of length fields: keep the leading ones (frame
		// size, tag sections, the long array's count, the first elements) and a sample of the rest
		keep := append([]c20Field(nil), out[:32]...)
		rest := out[32:]
		for i := 0; i < 16; i++ {
			keep = append(keep, rest[r.Intn(len(rest))])
		}
		out = keep
	}
	return frame, out
}

// ---------------------------------------------------------------- walker over the library's own response types

func c20FillValue(r *core.Rand, v reflect.Value, depth int) {
	t := v.Type()
	if t == reflect.TypeOf(protocol.RecordSet{}) {
		var recs []protocol.Record
		for i := r.Range(1, 2); i > 0; i-- {
			recs = append(recs, protocol.Record{Offset: int64(i), Key: protocol.NewBytes(c20RandBytes(r, 0, 4, true)), Value: protocol.NewBytes(c20RandBytes(r, 1, 9, false))})
		}
		v.Set(reflect.ValueOf(protocol.RecordSet{Version: int8(r.Range(1, 2)), Records: protocol.NewRecordReader(recs...)}))
		return
	}
	switch t.Kind() {
	case reflect.Bool:
		v.SetBool(r.Bool())
	case reflect.Int8, reflect.Int16:
		v.SetInt(int64(r.Intn(60)))
	case reflect.Int32, reflect.Int64:
		v.SetInt(int64(r.Intn(100000)))
	case reflect.Float64:
		v.SetFloat(float64(r.Intn(100)) / 4)
	case reflect.String:
		v.SetString(string(c20RandBytes(r, 1, 7, false)))
	case reflect.Slice:
		if t.Elem().Kind() == reflect.Uint8 {
			v.SetBytes(c20RandBytes(r, 1, 8, false))
			return
		}
		n := r.Range(1, 2)
		if depth >= 2 {
			n = 1
		}
		s := reflect.MakeSlice(t, n, n)
		for i := 0; i < n; i++ {
			c20FillValue(r, s.Index(i), depth+1)
		}
		v.Set(s)
	case reflect.Struct:
		for i := 0; i < t.NumField(); i++ {
			if t.Field(i).PkgPath != "" || !v.Field(i).CanSet() {
				continue
			}
			c20FillValue(r, v.Field(i), depth)
		}
	}
}

// c20LibFrame encodes a walker-generated response with the library's own
// encoder.
func c20LibFrame(r *core.Rand, mk func() protocol.Message, ver int16) ([]byte, error) {
	m := mk()
	c20FillValue(r, reflect.ValueOf(m).Elem(), 0)
	w := &c20Buf{}
	if err := protocol.WriteResponse(w, ver, int32(r.Intn(1<<30)), m); err != nil {
		return nil, err
	}
	return w.b, nil
}

type c20Buf struct{ b []byte }

func (w *c20Buf) Write(p []byte) (int, error) { w.b = append(w.b, p...); return len(p), nil }
