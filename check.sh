#!/bin/bash
# ./check.sh <property> [quick|thorough]   |   ./check.sh --replay <file>
# Rebuilds the driver and (inside it) verifrun from /repo's current working tree.
set -u
export GOFLAGS=-mod=mod GOPROXY=off GOSUMDB=off GOTOOLCHAIN=local
cd /verif/harness || exit 2
mkdir -p /verif/bin
go build -o /verif/bin/verif ./cmd/verif || { echo "verif: driver build failed"; exit 2; }
exec /verif/bin/verif "$@"
