package props

import (
	"fmt"
	"runtime"
	"runtime/debug"
	"sort"
	"strings"

	kafka "github.com/segmentio/kafka-go"

	"verifharness/core"
)

// C14 — group balancers (Range, RoundRobin, RackAffinity): every partition of
// every subscribed topic goes to exactly one subscriber, evenly; Range and
// RoundRobin follow their closed formulas whatever the listing order;
// RackAffinity keeps the stated minimum of partitions inside their leader's
// rack. All oracles are computed here from the property statement; nothing is
// taken from groupbalancer.go.

func init() {
	core.Register(&core.Prop{
		ID:    "C14",
		Level: "exploration",
		Rule: "one case = one input (member list with ids/subscriptions/racks + partition list with leader racks); every input is handed to AssignGroups of each balancer `reps` times " +
			"(8 quick, 32 thorough; Go map iteration order differs per call): the first half of the repetitions with the listing exactly as generated (map order only), the second half with the member list permuted, " +
			"every member's Topics permuted and the partition list re-interleaved across topics (per-topic relative order kept; for RackAffinity every other permuted repetition shuffles the partition list completely). " +
			"Every returned assignment is checked for coverage, balance, (Range/RoundRobin) equality with the closed formula and with the first repetition, (RackAffinity) the per-rack locality bound. " +
			"list x1 (enumerated completely, case index decodes to the input): one topic, members 1..4, partitions 0..7, every placement of 3 racks on members and on partition leaders (393 600 inputs; Range/RoundRobin get 2 repetitions there since racks are not their input); " +
			"list x2 (enumerated completely): two topics, members 1..3 (quick) / 1..4 (thorough), every subscription subset per member (none, t0, t1, both), every placement of 2 racks on members, 0..4 partitions per topic, leaders cycling over 3 racks; " +
			"list rand: 20 000 (quick) / 1 000 000 (thorough) generated inputs: 0..50 members, 1..20 topics, up to 500 partitions, 0..6 racks, members/leaders without rack, topics without partitions, subscriptions to topics absent from the partition list, " +
			"listed topics nobody subscribes to, members without topics, partition ids with gaps or listed out of numeric order, grouped or interleaved partition lists. " +
			"The evidence flag `exhaustive` refers to lists x1 and x2. " +
			"signature = (balancer, members (exact up to 6, then bucket), topics, partitions bucket, distinct non-empty racks, subscription class all/partial/none +ghost +idle +orphan); non-trivial = at least 2 members or at least 2 partitions",
		Assumptions: []string{
			"member ids are unique, a member lists a topic at most once, (topic, partition id) pairs are unique in the partition list — as JoinGroup responses and metadata responses deliver them",
			"a member's rack is what RackAffinityGroupBalancer.UserData() sends: the rack name as the member's UserData; a partition's rack is Partition.Leader.Rack; the locality bound is only demanded for non-empty rack names",
			"'sorted by ID' is Go's byte-wise string order on member ids",
			"partition ids are opaque: ids with gaps and lists out of numeric order are legitimate inputs, the Range/RoundRobin formulas index the partitions of a topic in the order they are listed",
			"assigned partition lists are compared as multisets (order inside one member's list is not part of the statement); an absent member, an absent topic and an empty list all mean 'nothing assigned'",
		},
		Shards: 16,
		Run:    runC14,
	})
}

type c14Member struct {
	ID     string   `json:"id"`
	Topics []string `json:"topics"`
	Rack   string   `json:"rack"`
}

type c14Part struct {
	Topic string
	ID    int
	Rack  string
}

type c14Input struct {
	Members []c14Member
	Parts   []c14Part
}

var c14Balancers = []struct {
	name string
	b    kafka.GroupBalancer
}{
	{"Range", kafka.RangeGroupBalancer{}},
	{"RoundRobin", kafka.RoundRobinGroupBalancer{}},
	{"RackAffinity", kafka.RackAffinityGroupBalancer{Rack: "a"}},
}

const (
	c14Range = iota
	c14RoundRobin
	c14RackAffinity
)

// c14Model is the input indexed for the oracles.
type c14Model struct {
	in      *c14Input
	topics  []string // every topic named by a subscription or a partition, sorted
	tIdx    map[string]int
	mIdx    map[string]int
	byID    []int            // member indexes sorted by member id
	subs    [][]int          // per topic: subscribing member indexes, sorted by member id
	isSub   [][]bool         // [member][topic]
	parts   [][]c14Part      // per topic: its partitions in listing order
	ids     [][]int          // per topic: its partition ids, sorted
	rackOf  []map[int]string // per topic: partition id -> leader rack
	pz, mz  []map[string]int // per topic: partitions led per rack, subscribers per rack
	nRacks  int
	sigBase string
	// scratch argument buffers, completely rewritten before every call
	mbuf []kafka.GroupMember
	pbuf []kafka.Partition
}

func c14Build(in *c14Input) *c14Model {
	m := &c14Model{in: in, tIdx: map[string]int{}, mIdx: map[string]int{}}
	seen := map[string]bool{}
	for _, mb := range in.Members {
		for _, t := range mb.Topics {
			if !seen[t] {
				seen[t] = true
				m.topics = append(m.topics, t)
			}
		}
	}
	for _, p := range in.Parts {
		if !seen[p.Topic] {
			seen[p.Topic] = true
			m.topics = append(m.topics, p.Topic)
		}
	}
	sort.Strings(m.topics)
	for i, t := range m.topics {
		m.tIdx[t] = i
	}
	nt, nm := len(m.topics), len(in.Members)
	m.byID = make([]int, nm)
	for i, mb := range in.Members {
		if _, dup := m.mIdx[mb.ID]; dup {
			panic("c14 generator produced a duplicate member id " + mb.ID)
		}
		m.mIdx[mb.ID] = i
		m.byID[i] = i
	}
	sort.Slice(m.byID, func(a, b int) bool { return in.Members[m.byID[a]].ID < in.Members[m.byID[b]].ID })
	m.subs = make([][]int, nt)
	m.isSub = make([][]bool, nm)
	for i := range m.isSub {
		m.isSub[i] = make([]bool, nt)
	}
	for _, mi := range m.byID {
		for _, t := range in.Members[mi].Topics {
			ti := m.tIdx[t]
			if m.isSub[mi][ti] {
				panic("c14 generator listed a topic twice for one member")
			}
			m.isSub[mi][ti] = true
			m.subs[ti] = append(m.subs[ti], mi)
		}
	}
	m.parts = make([][]c14Part, nt)
	m.ids = make([][]int, nt)
	m.rackOf = make([]map[int]string, nt)
	m.pz = make([]map[string]int, nt)
	m.mz = make([]map[string]int, nt)
	racks := map[string]bool{}
	for ti := range m.topics {
		m.rackOf[ti] = map[int]string{}
		m.pz[ti] = map[string]int{}
		m.mz[ti] = map[string]int{}
	}
	for _, p := range in.Parts {
		ti := m.tIdx[p.Topic]
		if _, dup := m.rackOf[ti][p.ID]; dup {
			panic("c14 generator produced a duplicate partition")
		}
		m.parts[ti] = append(m.parts[ti], p)
		m.ids[ti] = append(m.ids[ti], p.ID)
		m.rackOf[ti][p.ID] = p.Rack
		m.pz[ti][p.Rack]++
		if p.Rack != "" {
			racks[p.Rack] = true
		}
	}
	for ti := range m.topics {
		sort.Ints(m.ids[ti])
		for _, mi := range m.subs[ti] {
			m.mz[ti][in.Members[mi].Rack]++
		}
	}
	for _, mb := range in.Members {
		if mb.Rack != "" {
			racks[mb.Rack] = true
		}
	}
	m.nRacks = len(racks)

	// signature pieces
	listed, ghost, idle, orphan := 0, false, false, false
	full, any := true, false
	for ti := range m.topics {
		if len(m.parts[ti]) > 0 {
			listed++
			if len(m.subs[ti]) == 0 {
				orphan = true
			}
			if len(m.subs[ti]) != nm {
				full = false
			}
			if len(m.subs[ti]) > 0 {
				any = true
			}
		} else if len(m.subs[ti]) > 0 {
			ghost = true
		}
	}
	for _, mb := range in.Members {
		if len(mb.Topics) == 0 {
			idle = true
		}
	}
	class := "partial"
	switch {
	case !any:
		class = "none"
	case full:
		class = "all"
	}
	if ghost {
		class += "+ghost"
	}
	if idle {
		class += "+idle"
	}
	if orphan {
		class += "+orphan"
	}
	mb := fmt.Sprint(nm)
	switch {
	case nm > 25:
		mb = "26-50"
	case nm > 12:
		mb = "13-25"
	case nm > 6:
		mb = "7-12"
	}
	np := len(in.Parts)
	pb := fmt.Sprint(np)
	switch {
	case np > 128:
		pb = "129-500"
	case np > 32:
		pb = "33-128"
	case np > 8:
		pb = "9-32"
	case np > 4:
		pb = "5-8"
	case np > 1:
		pb = "2-4"
	}
	m.sigBase = fmt.Sprintf("m=%s t=%d p=%s r=%d %s", mb, listed, pb, m.nRacks, class)
	return m
}

func (m *c14Model) nontrivial() bool { return len(m.in.Members) >= 2 || len(m.in.Parts) >= 2 }

// c14Call is one concrete listing of the input handed to AssignGroups.
type c14Call struct {
	members []kafka.GroupMember
	parts   []kafka.Partition
}

func c14KPart(p c14Part) kafka.Partition {
	return kafka.Partition{Topic: p.Topic, ID: p.ID, Leader: kafka.Broker{Host: "broker", Port: 9092, ID: 1, Rack: p.Rack}}
}

// call rewrites the argument buffers completely (whatever a previous call may
// have done to them is gone; nothing of them is retained by the oracles).
// mode 0: listing as generated. mode 1: member list permuted, every member's
// Topics permuted, partition list re-interleaved across topics with every
// topic's own order kept. mode 2: as 1 but the partition list is shuffled
// completely (not for the formula balancers).
func (m *c14Model) call(r *core.Rand, mode int) c14Call {
	in := m.in
	var cl c14Call
	if m.mbuf == nil {
		m.mbuf = make([]kafka.GroupMember, len(in.Members))
		m.pbuf = make([]kafka.Partition, len(in.Parts))
	}
	cl.members = m.mbuf
	var order []int
	if mode != 0 {
		order = r.Perm(len(in.Members))
	}
	for i := range in.Members {
		mb := in.Members[i]
		if order != nil {
			mb = in.Members[order[i]]
		}
		ts := append([]string(nil), mb.Topics...)
		if mode != 0 && len(ts) > 1 {
			p := r.Perm(len(ts))
			for j := range ts {
				ts[j] = mb.Topics[p[j]]
			}
		}
		cl.members[i] = kafka.GroupMember{ID: mb.ID, Topics: ts, UserData: []byte(mb.Rack)}
	}
	cl.parts = m.pbuf
	switch mode {
	case 0:
		for i := range in.Parts {
			cl.parts[i] = c14KPart(in.Parts[i])
		}
	case 1:
		p := r.Perm(len(in.Parts))
		next := make([]int, len(m.topics))
		for i := range in.Parts {
			ti := m.tIdx[in.Parts[p[i]].Topic]
			cl.parts[i] = c14KPart(m.parts[ti][next[ti]])
			next[ti]++
		}
	default:
		p := r.Perm(len(in.Parts))
		for i := range in.Parts {
			cl.parts[i] = c14KPart(in.Parts[p[i]])
		}
	}
	return cl
}

// c14Dense is a returned assignment indexed [topic][member] with sorted
// partition ids; empty lists are dropped.
type c14Dense struct {
	asg   [][][]int
	stray []string // non-empty entries naming a member or a topic the input does not contain
}

func (m *c14Model) dense(out kafka.GroupMemberAssignments) *c14Dense {
	nt, nm := len(m.topics), len(m.in.Members)
	d := &c14Dense{asg: make([][][]int, nt)}
	flat := make([][]int, nt*nm)
	for t := range d.asg {
		d.asg[t] = flat[t*nm : (t+1)*nm : (t+1)*nm]
	}
	total := 0
	for _, byTopic := range out {
		for _, ps := range byTopic {
			total += len(ps)
		}
	}
	back := make([]int, 0, total)
	for id, byTopic := range out {
		mi, mok := m.mIdx[id]
		for topic, ps := range byTopic {
			if len(ps) == 0 {
				continue
			}
			ti, tok := m.tIdx[topic]
			if !mok || !tok {
				d.stray = append(d.stray, fmt.Sprintf("member %q topic %q partitions %v", id, topic, ps))
				continue
			}
			n := len(back)
			back = append(back, ps...)
			s := back[n:len(back):len(back)]
			sort.Ints(s)
			d.asg[ti][mi] = s
		}
	}
	sort.Strings(d.stray)
	return d
}

func (d *c14Dense) hash() uint64 {
	h := uint64(14)
	for t := range d.asg {
		for mi, ps := range d.asg[t] {
			if len(ps) == 0 {
				continue
			}
			h = core.Mix(h, uint64(t), uint64(mi), uint64(len(ps)))
			for _, p := range ps {
				h = core.Mix(h, uint64(p))
			}
		}
	}
	for _, s := range d.stray {
		h = core.Mix(h, core.HashString(s))
	}
	return h
}

func c14EqualInts(a, b []int) bool {
	if len(a) != len(b) {
		return false
	}
	for i := range a {
		if a[i] != b[i] {
			return false
		}
	}
	return true
}

// expected computes the Range / RoundRobin assignment from the statement.
func (m *c14Model) expected(bal int) *c14Dense {
	d := &c14Dense{asg: make([][][]int, len(m.topics))}
	for ti := range m.topics {
		d.asg[ti] = make([][]int, len(m.in.Members))
		M, P := len(m.subs[ti]), len(m.parts[ti])
		if M == 0 || P == 0 {
			continue
		}
		for j, mi := range m.subs[ti] {
			var got []int
			if bal == c14Range {
				for i := j * P / M; i < (j+1)*P/M; i++ {
					got = append(got, m.parts[ti][i].ID)
				}
			} else {
				for i := j; i < P; i += M {
					got = append(got, m.parts[ti][i].ID)
				}
			}
			sort.Ints(got)
			d.asg[ti][mi] = got
		}
	}
	return d
}

func c14RackStr(r string) string {
	if r == "" {
		return "-"
	}
	return r
}

// topicWitness renders what one topic's oracle looked at.
func (m *c14Model) topicWitness(ti int, d *c14Dense, cl *c14Call) map[string]any {
	w := map[string]any{"topic": m.topics[ti]}
	var subs []string
	for _, mi := range m.subs[ti] {
		subs = append(subs, m.in.Members[mi].ID+"@"+c14RackStr(m.in.Members[mi].Rack))
	}
	w["subscribers(id@rack, id order)"] = subs
	var ps []string
	for _, p := range m.parts[ti] {
		ps = append(ps, fmt.Sprintf("%d@%s", p.ID, c14RackStr(p.Rack)))
	}
	w["partitions(id@leader rack, listing order)"] = ps
	asg := map[string][]int{}
	for _, mi := range m.byID {
		if len(d.asg[ti][mi]) > 0 {
			asg[m.in.Members[mi].ID] = d.asg[ti][mi]
		}
	}
	w["assigned"] = asg
	if len(d.stray) > 0 {
		w["stray_entries"] = d.stray
	}
	w["input_size"] = fmt.Sprintf("%d members, %d topics, %d partitions", len(m.in.Members), len(m.topics), len(m.in.Parts))
	if cl != nil && len(cl.members) <= 8 && len(cl.parts) <= 24 {
		var ms, pl []string
		for _, mb := range cl.members {
			ms = append(ms, fmt.Sprintf("%s@%s%v", mb.ID, c14RackStr(string(mb.UserData)), mb.Topics))
		}
		for _, p := range cl.parts {
			pl = append(pl, fmt.Sprintf("%s/%d@%s", p.Topic, p.ID, c14RackStr(p.Leader.Rack)))
		}
		w["call_members(id@rack[topics], as passed)"] = ms
		w["call_partitions(topic/id@leader rack, as passed)"] = pl
	} else if cl != nil && len(cl.members) <= 60 {
		var ms []string
		for _, mb := range cl.members {
			ms = append(ms, mb.ID)
		}
		w["call_member_order"] = ms
	}
	return w
}

// c14Eval runs one input through the selected balancers and all oracles.
func c14Eval(k *core.Case, m *c14Model, reps [3]int) {
	c := k.Ctx
	for bi, bal := range c14Balancers {
		n := reps[bi]
		if n == 0 {
			continue
		}
		name := bal.name
		reported := map[string]bool{}
		viol := func(key, what string, w any) {
			if !reported[key] {
				reported[key] = true
				k.Viol(key, what, w)
			}
		}
		var exp, first *c14Dense
		var firstHash uint64
		if bi != c14RackAffinity {
			exp = m.expected(bi)
		}
		outs := map[uint64]struct{}{}
		plain := map[uint64]struct{}{}
		var got []int
		for rep := 0; rep < n; rep++ {
			mode := 0
			if rep >= (n+1)/2 {
				mode = 1
				if bi == c14RackAffinity && rep%2 == 1 {
					mode = 2
				}
			}
			cl := m.call(k.R, mode)
			out := bal.b.AssignGroups(cl.members, cl.parts)
			c.Eval(1)
			d := m.dense(out)
			h := d.hash()
			outs[h] = struct{}{}
			if mode == 0 {
				plain[h] = struct{}{}
			}

			// (a) coverage
			if len(d.stray) > 0 {
				viol("c14:coverage:"+name, fmt.Sprintf("%s assigned partitions to a member or under a topic that the input does not contain: %s", name, d.stray[0]),
					map[string]any{"stray_entries": d.stray, "input_size": fmt.Sprintf("%d members, %d partitions", len(m.in.Members), len(m.in.Parts))})
			}
			for ti := range m.topics {
				covered := true
				got = got[:0]
				for mi, ps := range d.asg[ti] {
					if len(ps) == 0 {
						continue
					}
					if !m.isSub[mi][ti] {
						covered = false
						viol("c14:coverage:"+name, fmt.Sprintf("%s gave partitions %v of topic %s to member %s, which does not subscribe to it", name, ps, m.topics[ti], m.in.Members[mi].ID),
							m.topicWitness(ti, d, &cl))
					}
					got = append(got, ps...)
				}
				M, P := len(m.subs[ti]), len(m.parts[ti])
				if M == 0 {
					continue // nobody subscribes: its partitions stay unassigned (anything assigned was flagged above)
				}
				sort.Ints(got)
				if !c14EqualInts(got, m.ids[ti]) {
					covered = false
					viol("c14:coverage:"+name, fmt.Sprintf("%s: topic %s has partitions %v but the assignment holds %v (every partition must appear exactly once)", name, m.topics[ti], c14Short(m.ids[ti]), c14Short(got)),
						m.topicWitness(ti, d, &cl))
				}
				// (b) balance
				lo, hi := -1, -1
				for _, mi := range m.subs[ti] {
					l := len(d.asg[ti][mi])
					if lo < 0 || l < lo {
						lo = l
					}
					if l > hi {
						hi = l
					}
				}
				if hi-lo > 1 {
					viol("c14:balance:"+name, fmt.Sprintf("%s: topic %s with %d partitions and %d subscribers: loads range from %d to %d", name, m.topics[ti], P, M, lo, hi),
						m.topicWitness(ti, d, &cl))
				}
				// (d) rack locality
				if bi == c14RackAffinity && covered {
					floor := P / M
					for z, pz := range m.pz[ti] {
						mz := m.mz[ti][z]
						if z == "" || mz == 0 {
							continue
						}
						need := mz * floor
						if pz < need {
							need = pz
						}
						local := 0
						for _, mi := range m.subs[ti] {
							if m.in.Members[mi].Rack != z {
								continue
							}
							for _, p := range d.asg[ti][mi] {
								if m.rackOf[ti][p] == z {
									local++
								}
							}
						}
						if local < need {
							viol("c14:rack-locality", fmt.Sprintf("RackAffinity: topic %s rack %s leads %d partitions and holds %d of the %d subscribers (floor %d per member): at least %d partitions must stay in the rack, %d did",
								m.topics[ti], z, pz, mz, M, floor, need, local), m.topicWitness(ti, d, &cl))
						}
					}
				}
			}

			// (c) formula and listing-order independence
			if exp != nil {
				if rep == 0 {
					first, firstHash = d, h
				} else if ti, mi := c14FirstDiff(d, first); h != firstHash && ti >= 0 {
					w := m.topicWitness(ti, d, &cl)
					w["first_repetition_assigned_to_"+m.in.Members[mi].ID] = first.asg[ti][mi]
					w["repetition"] = rep
					w["listing_permuted"] = mode != 0
					viol("c14:order-dependence:"+name, fmt.Sprintf("%s: same members and partitions, different result: topic %s member %s got %v in repetition %d (listing permuted: %v) but %v in repetition 0",
						name, m.topics[ti], m.in.Members[mi].ID, c14Short(d.asg[ti][mi]), rep, mode != 0, c14Short(first.asg[ti][mi])), w)
				}
				if ti, mi := c14FirstDiff(d, exp); ti >= 0 {
					w := m.topicWitness(ti, d, &cl)
					w["formula_gives_"+m.in.Members[mi].ID] = exp.asg[ti][mi]
					j := 0
					for jj, x := range m.subs[ti] {
						if x == mi {
							j = jj
						}
					}
					viol("c14:formula:"+name, fmt.Sprintf("%s: topic %s (%d partitions, %d subscribers): member %s (index %d in id order) got %v, the formula gives %v",
						name, m.topics[ti], len(m.parts[ti]), len(m.subs[ti]), m.in.Members[mi].ID, j, c14Short(d.asg[ti][mi]), c14Short(exp.asg[ti][mi])), w)
				}
			}
		}
		c.Count("inputs:"+name, 1)
		c.Count("outputs_distinct_summed:"+name, int64(len(outs)))
		if len(outs) > 1 {
			c.Count("inputs_with_several_outputs:"+name, 1)
		}
		if len(plain) > 1 {
			c.Count("inputs_with_several_outputs_same_listing(map order):"+name, 1)
		}
		c.Max("max:distinct_outputs_per_input:"+name, int64(len(outs)))
		if m.nontrivial() {
			c.Distinct(name + " " + m.sigBase)
		}
	}
}

// c14FirstDiff returns the first (topic, member) where two assignments
// differ, (-1,-1) if none.
func c14FirstDiff(a, b *c14Dense) (int, int) {
	for ti := range a.asg {
		for mi := range a.asg[ti] {
			if !c14EqualInts(a.asg[ti][mi], b.asg[ti][mi]) {
				return ti, mi
			}
		}
	}
	return -1, -1
}

func c14Short(v []int) string {
	if len(v) <= 24 {
		return fmt.Sprint(v)
	}
	return fmt.Sprintf("%v… (%d ids)", v[:24], len(v))
}

// ---- exhaustive small scope -------------------------------------------------

const (
	c14X1MaxMembers = 4
	c14X1MaxParts   = 7
)

func c14Pow(b, e int) int {
	r := 1
	for ; e > 0; e-- {
		r *= b
	}
	return r
}

func c14X1Size() int {
	n := 0
	for M := 1; M <= c14X1MaxMembers; M++ {
		for P := 0; P <= c14X1MaxParts; P++ {
			n += c14Pow(3, M+P)
		}
	}
	return n
}

var c14RackNames = []string{"a", "b", "c", "d", "e", "f"}

// c14DecodeX1: index -> (M, P, rack of every member, rack of every leader).
func c14DecodeX1(idx int) (*c14Input, string) {
	for M := 1; M <= c14X1MaxMembers; M++ {
		for P := 0; P <= c14X1MaxParts; P++ {
			sz := c14Pow(3, M+P)
			if idx >= sz {
				idx -= sz
				continue
			}
			in := &c14Input{}
			var mr, lr strings.Builder
			for i := 0; i < M; i++ {
				rk := c14RackNames[idx%3]
				idx /= 3
				mr.WriteString(rk)
				in.Members = append(in.Members, c14Member{ID: fmt.Sprintf("m%d", i), Topics: []string{"t0"}, Rack: rk})
			}
			for i := 0; i < P; i++ {
				rk := c14RackNames[idx%3]
				idx /= 3
				lr.WriteString(rk)
				in.Parts = append(in.Parts, c14Part{Topic: "t0", ID: i, Rack: rk})
			}
			return in, fmt.Sprintf("M=%d P=%d member_racks=%s leader_racks=%s", M, P, mr.String(), lr.String())
		}
	}
	panic("c14 x1 index out of range")
}

func c14X2Size(maxM int) int {
	n := 0
	for M := 1; M <= maxM; M++ {
		n += c14Pow(8, M) * 25
	}
	return n
}

// c14DecodeX2: index -> (M, partitions of t0 and t1, per member: subscription
// subset and rack).
func c14DecodeX2(idx, maxM int) (*c14Input, string) {
	for M := 1; M <= maxM; M++ {
		sz := c14Pow(8, M) * 25
		if idx >= sz {
			idx -= sz
			continue
		}
		p0 := idx % 5
		idx /= 5
		p1 := idx % 5
		idx /= 5
		in := &c14Input{}
		var sb strings.Builder
		for i := 0; i < M; i++ {
			sub := idx % 4
			idx /= 4
			rk := c14RackNames[idx%2]
			idx /= 2
			mb := c14Member{ID: fmt.Sprintf("m%d", i), Rack: rk, Topics: []string{}}
			if sub&1 != 0 {
				mb.Topics = append(mb.Topics, "t0")
			}
			if sub&2 != 0 {
				mb.Topics = append(mb.Topics, "t1")
			}
			in.Members = append(in.Members, mb)
			fmt.Fprintf(&sb, " m%d@%s:%s", i, rk, []string{"-", "t0", "t1", "t0+t1"}[sub])
		}
		for t, n := range []int{p0, p1} {
			for i := 0; i < n; i++ {
				in.Parts = append(in.Parts, c14Part{Topic: fmt.Sprintf("t%d", t), ID: i, Rack: c14RackNames[(i+t)%3]})
			}
		}
		return in, fmt.Sprintf("M=%d P0=%d P1=%d%s", M, p0, p1, sb.String())
	}
	panic("c14 x2 index out of range")
}

// ---- random large -----------------------------------------------------------

func c14Random(r *core.Rand) (*c14Input, map[string]any) {
	var nm, nt, maxTotal, perTopic int
	size := ""
	switch x := r.Intn(100); {
	case x < 55:
		size, nm, nt, perTopic, maxTotal = "small", r.Range(1, 6), r.Range(1, 3), 8, 24
		if r.Chance(1, 40) {
			nm = 0
		}
	case x < 90:
		size, nm, nt, perTopic, maxTotal = "medium", r.Range(2, 16), r.Range(1, 6), 40, 100
	default:
		size, nm, nt, perTopic, maxTotal = "large", r.Range(10, 50), r.Range(1, 20), 120, 500
	}
	nr := r.Range(0, 6)
	in := &c14Input{}

	// racks
	pick := func(pEmpty int, skew bool) string {
		if nr == 0 || r.Intn(8) < pEmpty {
			return ""
		}
		if skew && r.Chance(2, 3) {
			return c14RackNames[0]
		}
		return c14RackNames[r.Intn(nr)]
	}
	mEmpty := core.Pick(r, 0, 0, 0, 1, 4, 8)
	lEmpty := core.Pick(r, 0, 0, 0, 1, 4, 8)
	mSkew, lSkew := r.Chance(1, 4), r.Chance(1, 4)

	// topics and partitions
	type tp struct {
		name  string
		parts []c14Part
	}
	var topics []tp
	total := 0
	for t := 0; t < nt; t++ {
		n := r.Range(0, perTopic)
		if r.Chance(1, 8) {
			n = 0 // a topic without partitions
		}
		if r.Chance(1, 3) {
			n = r.Range(0, 5)
		}
		if total+n > maxTotal {
			n = maxTotal - total
		}
		total += n
		name := fmt.Sprintf("t%d", t)
		var ids []int
		switch r.Intn(10) {
		case 0: // ids with gaps
			id := r.Intn(3)
			for i := 0; i < n; i++ {
				ids = append(ids, id)
				id += 1 + r.Intn(3)
			}
		case 1: // contiguous ids listed out of numeric order
			ids = r.Perm(n)
		default:
			for i := 0; i < n; i++ {
				ids = append(ids, i)
			}
		}
		var ps []c14Part
		for _, id := range ids {
			ps = append(ps, c14Part{Topic: name, ID: id, Rack: pick(lEmpty, lSkew)})
		}
		topics = append(topics, tp{name, ps})
	}
	// partition list: grouped by topic or interleaved
	if r.Bool() {
		for _, t := range topics {
			in.Parts = append(in.Parts, t.parts...)
		}
	} else {
		var labels []int
		for ti, t := range topics {
			for range t.parts {
				labels = append(labels, ti)
			}
		}
		p := r.Perm(len(labels))
		next := make([]int, len(topics))
		for i := range labels {
			ti := labels[p[i]]
			in.Parts = append(in.Parts, topics[ti].parts[next[ti]])
			next[ti]++
		}
	}

	// members
	subMode := core.Pick(r, "all", "all", "random", "random", "single", "random+idle")
	prob := core.Pick(r, 1, 2, 3) // of 4
	ghost := r.Chance(1, 5)
	orphan := r.Chance(1, 6) // keep one listed topic out of every subscription
	orphanTopic := -1
	if orphan && nt > 1 {
		orphanTopic = r.Intn(nt)
	}
	nums := r.Perm(200)
	for i := 0; i < nm; i++ {
		mb := c14Member{ID: fmt.Sprintf("%s%d", core.Pick(r, "c", "c", "consumer-"), nums[i]), Rack: pick(mEmpty, mSkew), Topics: []string{}}
		switch subMode {
		case "all":
			for t := 0; t < nt; t++ {
				mb.Topics = append(mb.Topics, topics[t].name)
			}
		case "single":
			mb.Topics = append(mb.Topics, topics[r.Intn(nt)].name)
		default:
			for t := 0; t < nt; t++ {
				if r.Intn(4) < prob {
					mb.Topics = append(mb.Topics, topics[t].name)
				}
			}
			if subMode == "random+idle" && r.Chance(1, 4) {
				mb.Topics = []string{}
			}
		}
		if orphanTopic >= 0 {
			kept := mb.Topics[:0]
			for _, t := range mb.Topics {
				if t != topics[orphanTopic].name {
					kept = append(kept, t)
				}
			}
			mb.Topics = kept
		}
		if ghost && r.Chance(1, 2) {
			mb.Topics = append(mb.Topics, "ghost0")
			if r.Chance(1, 3) {
				mb.Topics = append(mb.Topics, "ghost1")
			}
		}
		// listing order of the subscriptions
		p := r.Perm(len(mb.Topics))
		ts := make([]string, len(mb.Topics))
		for j := range ts {
			ts[j] = mb.Topics[p[j]]
		}
		mb.Topics = ts
		in.Members = append(in.Members, mb)
	}
	desc := map[string]any{"size": size, "members": nm, "topics": nt, "partitions": len(in.Parts), "racks": nr,
		"subscriptions": subMode, "ghost_topics": ghost, "orphan_topic": orphanTopic >= 0,
		"members_without_rack_of_8": mEmpty, "leaders_without_rack_of_8": lEmpty}
	return in, desc
}

// c14Sample renders a small input with one RackAffinity and the formula results.
func c14Sample(m *c14Model, desc any) map[string]any {
	cl := m.call(core.NewRand(1), 0)
	s := map[string]any{"case": desc}
	var ms, pl []string
	for _, mb := range cl.members {
		ms = append(ms, fmt.Sprintf("%s@%s%v", mb.ID, c14RackStr(string(mb.UserData)), mb.Topics))
	}
	for _, p := range cl.parts {
		pl = append(pl, fmt.Sprintf("%s/%d@%s", p.Topic, p.ID, c14RackStr(p.Leader.Rack)))
	}
	s["members(id@rack[topics])"] = ms
	s["partitions(topic/id@leader rack)"] = pl
	for _, bal := range c14Balancers {
		cl := m.call(core.NewRand(1), 0)
		s[bal.name] = bal.b.AssignGroups(cl.members, cl.parts)
	}
	return s
}

func runC14(c *core.Ctx) {
	// A shard runs its cases one after the other and allocates small
	// short-lived objects only; 16 shard processes with 16 Ps each would spend
	// most of their time in idle-P garbage collection workers.
	// The live heap is a few hundred kB, so the default pacing collects every
	// 4 MB of garbage; collect every ~40 MB instead.
	defer runtime.GOMAXPROCS(runtime.GOMAXPROCS(2))
	defer debug.SetGCPercent(debug.SetGCPercent(1000))
	reps := c.N(8, 32)
	sampled := map[string]bool{}

	c.Cases("x1", c14X1Size(), func(k *core.Case) {
		in, desc := c14DecodeX1(k.Idx)
		k.Describe(desc)
		m := c14Build(in)
		c14Eval(k, m, [3]int{2, 2, reps})
		c.Count("inputs:list-x1", 1)
		if !sampled["x1"] && len(in.Members) == 3 && len(in.Parts) == 5 && m.nRacks == 3 {
			sampled["x1"] = true
			c.Sample(c14Sample(m, desc))
		}
	})

	maxM := c.N(3, 4)
	c.Cases("x2", c14X2Size(maxM), func(k *core.Case) {
		in, desc := c14DecodeX2(k.Idx, maxM)
		k.Describe(desc)
		m := c14Build(in)
		c14Eval(k, m, [3]int{reps, reps, reps})
		c.Count("inputs:list-x2", 1)
		if !sampled["x2"] && len(in.Members) == 3 && len(in.Parts) == 7 && strings.Contains(desc, ":t0+t1") && strings.Contains(desc, ":t1 ") {
			sampled["x2"] = true
			c.Sample(c14Sample(m, desc))
		}
	})
	if c.Only < 0 {
		c.SetExhaustive(true) // x1 and x2 are enumerated completely; the flag does not cover list rand
	}

	c.Cases("rand", c.N(20000, 2500000), func(k *core.Case) {
		in, desc := c14Random(k.R)
		k.Describe(desc)
		m := c14Build(in)
		c14Eval(k, m, [3]int{reps, reps, reps})
		c.Count("inputs:list-rand", 1)
		c.Count("inputs:list-rand:"+desc["size"].(string), 1)
		if !sampled["rand"] && len(in.Members) >= 3 && len(in.Members) <= 5 && len(in.Parts) >= 6 && len(in.Parts) <= 12 && m.nRacks >= 2 {
			sampled["rand"] = true
			c.Sample(c14Sample(m, desc))
		}
	})
}
