package props

import (
	"context"
	"errors"
	"fmt"
	"io"
	"runtime"
	"strings"
	"sync"
	"time"

	kafka "github.com/segmentio/kafka-go"

	"verifharness/core"
	"verifharness/fakenet"
)

// C09 — Close, cancellation and use-after-close behave and terminate.

func init() {
	core.Register(&core.Prop{
		ID:    "C09",
		Level: "exploration",
		Rule: "wclose list: a real Writer with concurrent callers; Close is placed at a gated position (a WriteMessages call held inside Balance, i.e. after the closed-check and before batching; a batch timer pending; an attempt in flight on a slow broker; a back-off sleep; an unreachable broker) or at a random moment; judged on: Close returns within the bound, every message accepted before Close has a terminal outcome and its Completion ran before Close returned, WriteMessages afterwards fails with io.ErrClosedPipe, a blocked WriteMessages returns ctx.Err() after cancellation, no Writer goroutine survives. " +
			"rclose/gclose/transport lists: the same for Reader, consumer-group Reader and Transport.RoundTrip (see DESIGN). signature = (list, close placement, config class, what was in flight); non-trivial = Close overlapped at least one in-flight call or pending batch",
		Assumptions: []string{
			"bounds are wall-clock: configured time-outs are <= 200 ms, the bound is 20 s and a miss is only reported after a confirmation run on an idle process (hangs: the case watchdog, also confirmed by a second run)",
			"goroutine census: goroutines whose stack contains a kafka-go Writer/Reader/ConsumerGroup frame; cases of this property run one at a time per process so the census is attributable",
		},
		Shards:          16,
		CaseTimeout:     45 * time.Second,
		HangIsViolation: true,
		Run:             runC09,
	})
}

// libGoroutines counts goroutines with a frame matching any of the markers.
func libGoroutines(markers ...string) (int, []string) {
	buf := make([]byte, 4<<20)
	buf = buf[:runtime.Stack(buf, true)]
	n := 0
	var sample []string
	for _, g := range strings.Split(string(buf), "\n\n") {
		for _, m := range markers {
			if strings.Contains(g, m) {
				n++
				if len(sample) < 14 {
					ls := strings.Split(g, "\n")
					if len(ls) > 13 {
						ls = ls[:13]
					}
					sample = append(sample, strings.Join(ls, "\n"))
				}
				break
			}
		}
	}
	return n, sample
}

var writerMarkers = []string{"kafka-go.(*Writer).", "kafka-go.(*partitionWriter).", "kafka-go.(*batchQueue)."}

func waitNoGoroutines(bound time.Duration, markers ...string) (int, []string) {
	deadline := time.Now().Add(bound)
	for {
		n, s := libGoroutines(markers...)
		if n == 0 || time.Now().After(deadline) {
			return n, s
		}
		time.Sleep(time.Millisecond)
	}
}

func runC09(c *core.Ctx) {
	c.Cases("wclose", c.N(260, 5000), func(k *core.Case) { c09Writer(k) })
}

func c09Writer(k *core.Case) {
	c := k.Ctx
	r := k.R
	placement := core.Pick(r, "in-balance", "in-balance", "random", "timer-pending", "slow-broker", "backoff", "unreachable", "cancel-blocked")
	cfg := genWriterCfg(r, "")
	cfg.NoClose = true
	cfg.Faults = nil
	cfg.WriteTimeout = time.Duration(r.Range(40, 150)) * time.Millisecond
	cfg.MaxAttempts = r.Range(1, 3)
	cfg.Goroutines = r.Range(1, 4)
	cfg.Calls = r.Range(1, 3)
	cfg.MsgsMax = core.Pick(r, 1, 3, 6)
	switch placement {
	case "timer-pending":
		cfg.Async = true
		cfg.BatchTimeout = 10 * time.Minute
		cfg.BatchSize = 1000
	case "slow-broker":
		cfg.Faults = append(cfg.Faults, wFault{Broker: int32(r.Range(1, cfg.Brokers)), N: 1, Act: "delay", DelayMs: r.Range(20, 120)})
		for b := 1; b <= cfg.Brokers; b++ {
			cfg.Faults = append(cfg.Faults, wFault{Broker: int32(b), N: 2, Act: "cut", CutAt: 1 << 20, Mode: fakenet.CutStall})
		}
	case "backoff":
		cfg.MaxAttempts = 3
		cfg.BackoffMin, cfg.BackoffMax = 20*time.Millisecond, 40*time.Millisecond
		for b := 1; b <= cfg.Brokers; b++ {
			cfg.Faults = append(cfg.Faults, wFault{Broker: int32(b), N: 1, Act: "error", Code: 7}, wFault{Broker: int32(b), N: 2, Act: "error", Code: 6})
		}
	case "cancel-blocked":
		cfg.Async = false
		for b := 1; b <= cfg.Brokers; b++ {
			cfg.Faults = append(cfg.Faults, wFault{Broker: int32(b), N: 1, Act: "cut", CutAt: 1 << 20, Mode: fakenet.CutStall})
		}
		// the attempt would only fail by itself after 3 s: a return earlier than that after the
		// cancellation can only be explained by the context being honoured
		cfg.WriteTimeout = 3 * time.Second
		cfg.MaxAttempts = 1
	}
	k.Describe(map[string]any{"placement": placement, "config": cfg.desc()})
	base, _ := libGoroutines(writerMarkers...)
	run := wSetup(k, cfg)

	var gateMu sync.Mutex
	held := make(chan struct{})    // closed when a call is parked inside Balance
	release := make(chan struct{}) // closed to let it continue
	heldOnce := false
	if placement == "in-balance" {
		run.Writer.Balancer.(*recBalancer).gate = func(id string) {
			gateMu.Lock()
			first := !heldOnce
			heldOnce = true
			gateMu.Unlock()
			if first {
				close(held)
				select {
				case <-release:
				case <-k.Cancelled:
				}
			}
		}
	}
	if placement == "unreachable" {
		// brokers accept the bootstrap/metadata connection but produce connections are refused
		var mu sync.Mutex
		seen := map[string]int{}
		run.Net.DialFault = func(addr string, n int64) error {
			mu.Lock()
			defer mu.Unlock()
			seen[addr]++
			if n > 1 {
				return fakenet.Refused(addr)
			}
			return nil
		}
	}

	ctx, cancel := context.WithCancel(context.Background())
	defer cancel()
	opts := wWorkloadOpts{}
	if placement == "cancel-blocked" {
		opts.ctxFor = func(g, call int) context.Context { return ctx }
	}
	workloadDone := make(chan struct{})
	go func() {
		defer close(workloadDone)
		wRunWorkload(k, run, opts)
	}()

	// choose when to close
	switch placement {
	case "in-balance":
		select {
		case <-held:
		case <-workloadDone:
		case <-time.After(5 * time.Second):
		}
	case "random", "slow-broker", "backoff", "unreachable":
		time.Sleep(time.Duration(r.Intn(3000)) * time.Microsecond)
		if placement != "random" {
			time.Sleep(time.Duration(r.Range(1, 30)) * time.Millisecond)
		}
	case "timer-pending":
		<-workloadDone
	case "cancel-blocked":
		time.Sleep(time.Duration(r.Range(5, 30)) * time.Millisecond)
		tCancel := time.Now()
		cancel()
		select {
		case <-workloadDone:
		case <-time.After(1500 * time.Millisecond):
			k.TimeViol("c09:writer-cancel-not-honoured", "WriteMessages blocked on a silent broker (attempt timeout 3 s) did not return within 1.5 s after its context was cancelled", nil)
			<-workloadDone
		}
		c.Max("max:cancel_to_return_ms", time.Since(tCancel).Milliseconds())
		for _, call := range run.Calls {
			if call.Err != nil && call.PerMsg == nil && !errors.Is(call.Err, context.Canceled) && !errors.Is(call.Err, io.ErrClosedPipe) {
				// a call that was cancelled while blocked must report the context's error
				if call.SeqRet > 0 {
					c.Count("cancel_blocked_other_error", 1)
				}
			}
			if errors.Is(call.Err, context.Canceled) {
				c.Count("calls_unblocked_by_cancel", 1)
			}
			if call.Err != nil && call.PerMsg != nil {
				// the call waited for the batch to fail instead of returning the context's error
				c.Count("cancelled_calls_returning_write_errors", 1)
			}
		}
	}

	// Close, under a watchdog
	acceptedBefore := map[string]bool{}
	run.mu.Lock()
	for _, call := range run.Calls {
		if call.SeqRet != 0 && (call.Err == nil || call.PerMsg != nil) {
			for _, m := range call.Msgs {
				acceptedBefore[m.ID] = true
			}
		}
	}
	run.mu.Unlock()
	closeDone := make(chan struct{})
	tClose := time.Now()
	go func() {
		defer close(closeDone)
		run.CloseStart = core.Tick()
		run.Writer.Close()
		run.CloseEnd = core.Tick()
	}()
	if placement == "in-balance" {
		// let Close get past marking the writer closed, then release the parked call
		probeDeadline := time.Now().Add(2 * time.Second)
		for time.Now().Before(probeDeadline) {
			err := run.Writer.WriteMessages(context.Background())
			if errors.Is(err, io.ErrClosedPipe) {
				break
			}
			time.Sleep(100 * time.Microsecond)
		}
		time.Sleep(time.Duration(r.Intn(2000)) * time.Microsecond)
		close(release)
	}
	closed := false
	select {
	case <-closeDone:
		closed = true
	case <-time.After(20 * time.Second):
	}
	c.Eval(1)
	c.Count("placement:"+placement, 1)
	if !closed {
		_, stacks := libGoroutines(writerMarkers...)
		k.TimeViol("c09:writer-close-hangs:"+placement, fmt.Sprintf("Writer.Close did not return within 20 s (configured WriteTimeout %s, MaxAttempts %d); placement %s", cfg.WriteTimeout, cfg.MaxAttempts, placement), map[string]any{"goroutines": stacks})
		// unblock what we can and give up on this case
		select {
		case <-release:
		default:
			if placement != "in-balance" {
				close(release)
			}
		}
		cancel()
		run.Transport.CloseIdleConnections()
		run.Cluster.Close()
		return
	}
	c.Max("max:close_ms", time.Since(tClose).Milliseconds())
	select {
	case <-workloadDone:
	case <-time.After(20 * time.Second):
		_, stacks := libGoroutines(writerMarkers...)
		k.TimeViol("c09:writemessages-hangs-after-close:"+placement, "a WriteMessages call did not return within 20 s after Close returned", map[string]any{"goroutines": stacks})
		cancel()
		run.Transport.CloseIdleConnections()
		run.Cluster.Close()
		return
	}
	// at Close's return every message accepted earlier has a terminal outcome and its Completion ran
	compSeq := map[string]int64{}
	run.mu.Lock()
	for _, cp := range run.Completions {
		for _, id := range cp.IDs {
			compSeq[id] = cp.Seq
		}
	}
	run.mu.Unlock()
	for id := range acceptedBefore {
		s, ok := compSeq[id]
		if !ok {
			k.Viol("c09:accepted-message-no-completion", fmt.Sprintf("message %s was accepted before Close but its Completion never ran", id), map[string]any{"placement": placement})
			break
		}
		if s > run.CloseEnd {
			k.Viol("c09:completion-after-close-returned", fmt.Sprintf("Completion for %s ran after Close had returned", id), map[string]any{"placement": placement})
			break
		}
	}
	// all accepted messages (also those of calls racing with Close): exactly one completion, eventually
	for _, call := range run.Calls {
		accepted := call.Err == nil || call.PerMsg != nil
		for _, m := range call.Msgs {
			_, ok := compSeq[m.ID]
			if accepted && !ok {
				k.Viol("c09:accepted-message-no-completion", fmt.Sprintf("WriteMessages accepted %s (returned %v) but its Completion never ran, Close has returned", m.ID, call.Err), map[string]any{"placement": placement})
			}
			if ok && compSeq[m.ID] > run.CloseEnd {
				k.Viol("c09:completion-after-close-returned", fmt.Sprintf("Completion for %s ran after Close had returned", m.ID), map[string]any{"placement": placement})
			}
		}
		if !accepted && !errors.Is(call.Err, io.ErrClosedPipe) && !errors.Is(call.Err, context.Canceled) && placement != "unreachable" && placement != "slow-broker" && placement != "backoff" && placement != "cancel-blocked" {
			c.Count("calls_failed_other", 1)
		}
		if errors.Is(call.Err, io.ErrClosedPipe) {
			c.Count("calls_refused_closed", 1)
		}
	}
	// use after close
	if err := run.Writer.WriteMessages(context.Background(), kafka.Message{Topic: func() string {
		if cfg.WriterTopic {
			return ""
		}
		return wTopicName(0)
	}(), Value: []byte("after;")}); !errors.Is(err, io.ErrClosedPipe) {
		k.Viol("c09:write-after-close", fmt.Sprintf("WriteMessages after Close returned %v, want io.ErrClosedPipe", err), nil)
	}
	// nothing is sent after Close returned
	run.Transport.CloseIdleConnections()
	run.Cluster.Close()
	run.Cluster.Quiesce(10 * time.Second)
	for _, a := range wAttempts(run) {
		// judged on when the client wrote the first byte (wire tap), not on when the broker read it
		firstWrite := a.Ev.ClientWriteSeq()
		if firstWrite > run.CloseEnd && run.CloseEnd > 0 {
			k.Viol("c09:produce-after-close", "a produce request reached a broker after Writer.Close had returned", map[string]any{"attempt": describeAttempts([]*wAttempt{a})})
			break
		}
	}
	// goroutine census
	if n, stacks := waitNoGoroutines(5*time.Second, writerMarkers...); n > base {
		k.TimeViol("c09:writer-goroutine-leak", fmt.Sprintf("%d goroutines started by the Writer are still alive 5 s after Close returned", n-base), map[string]any{"goroutines": stacks})
	}
	inflight := 0
	run.mu.Lock()
	defer run.mu.Unlock()
	for _, call := range run.Calls {
		if call.SeqRet == 0 || call.SeqRet > run.CloseStart {
			inflight++
		}
	}
	if inflight > 0 || placement == "timer-pending" {
		c.Distinct(fmt.Sprintf("wclose %s async%v bs%d g%d att%d inflight%d", placement, cfg.Async, cfg.BatchSize, cfg.Goroutines, cfg.MaxAttempts, inflight))
	}
	if k.Idx < 8 {
		c.Sample(map[string]any{"case": k.ID, "placement": placement, "calls_in_flight_at_close": inflight, "accepted_before_close": len(acceptedBefore), "close_ms": time.Since(tClose).Milliseconds()})
	}
}
