package props

import (
	"bytes"
	"context"
	"fmt"
	"sync"
	"time"

	kafka "github.com/segmentio/kafka-go"
	"github.com/segmentio/kafka-go/protocol/metadata"
	"github.com/segmentio/kafka-go/sasl"
	kscram "github.com/segmentio/kafka-go/sasl/scram"

	"verifharness/core"
	"verifharness/fakecluster"
	"verifharness/fakenet"
)

// The authentication exchange is a sequence of responses as well: a server token cut at any byte
// must end the dial with an error and must never reach the mechanism's state machine as if it
// were the complete token. The mechanism handed to the library is the real SCRAM client wrapped
// in a recorder of every challenge passed to Next.

type c17RecMech struct {
	inner sasl.Mechanism
	mu    *sync.Mutex
	seen  *[][]byte
}

func (m c17RecMech) Name() string { return m.inner.Name() }
func (m c17RecMech) Start(ctx context.Context) (sasl.StateMachine, []byte, error) {
	sm, ir, err := m.inner.Start(ctx)
	if err != nil {
		return nil, nil, err
	}
	return c17RecSM{sm, m}, ir, nil
}

type c17RecSM struct {
	inner sasl.StateMachine
	m     c17RecMech
}

func (s c17RecSM) Next(ctx context.Context, challenge []byte) (bool, []byte, error) {
	s.m.mu.Lock()
	*s.m.seen = append(*s.m.seen, append([]byte(nil), challenge...))
	s.m.mu.Unlock()
	return s.inner.Next(ctx, challenge)
}

type c17SaslCase struct {
	path  string // transport | dialer
	hsMax int    // 0: raw tokens, 1: framed SaslAuthenticate
	step  int    // 1: server-first, 2: server-final
	k     int
	mode  fakenet.CutMode
}

// c17SaslRun runs one authentication attempt; cut < 0 means no fault. It returns the error of the
// operation, the challenges the mechanism was given and the complete reply tokens of the server.
func c17SaslRun(cs c17SaslCase, cut bool) (err error, seen [][]byte, full [][]byte, replyLen int) {
	net := fakenet.New()
	cl := fakecluster.New(net)
	defer cl.Close()
	b := cl.AddBroker(1, "")
	b.Versions[fakecluster.KSaslHandshake] = fakecluster.VR{Min: 0, Max: cs.hsMax}
	if cs.hsMax == 0 {
		delete(b.Versions, fakecluster.KSaslAuthenticate)
	} else {
		b.Versions[fakecluster.KSaslAuthenticate] = fakecluster.VR{Min: 0, Max: 1}
	}
	cl.AddTopic(connTopic, 1, nil)
	var mu sync.Mutex
	scfg := &fakecluster.SASLConfig{Users: map[string]string{"user": "secret"}, ScramIterations: 4096}
	scfg.Fault = func(st *fakecluster.SASLStep) *fakecluster.SASLFault {
		mu.Lock()
		defer mu.Unlock()
		if st.Reply != nil {
			full = append(full, append([]byte(nil), st.Reply...))
		}
		if st.Index == cs.step {
			replyLen = len(st.Reply)
			if cut {
				return &fakecluster.SASLFault{Kind: "cut", CutAt: cs.k, CutMode: cs.mode, Label: "cut"}
			}
		}
		return nil
	}
	cl.SASL = scfg
	cl.Script = func(rc *fakecluster.ReqCtx) *fakecluster.Action { return cl.SASLGate(rc) }
	inner, merr := kscram.Mechanism(kscram.SHA256, "user", "secret")
	if merr != nil {
		panic(merr)
	}
	var smu sync.Mutex
	mech := c17RecMech{inner: inner, mu: &smu, seen: &seen}
	ctx, cancel := context.WithTimeout(context.Background(), 5*time.Second)
	defer cancel()
	if cs.path == "dialer" {
		d := &kafka.Dialer{DialFunc: net.Dialer("c17"), SASLMechanism: mech, Timeout: 3 * time.Second, ClientID: "c17"}
		var cn *kafka.Conn
		cn, err = d.DialContext(ctx, "tcp", "b1:9092")
		if cn != nil {
			cn.Close()
		}
	} else {
		tr := &kafka.Transport{Dial: net.Dialer("c17"), SASL: mech, DialTimeout: 3 * time.Second, MetadataTTL: time.Hour, IdleTimeout: time.Hour, ClientID: "c17"}
		_, err = tr.RoundTrip(ctx, kafka.TCP("b1:9092"), &metadata.Request{TopicNames: []string{connTopic}})
		tr.CloseIdleConnections()
	}
	smu.Lock()
	seen = append([][]byte(nil), seen...)
	smu.Unlock()
	mu.Lock()
	full = append([][]byte(nil), full...)
	mu.Unlock()
	return
}

func c17Sasl(c *core.Ctx) {
	var cases []c17SaslCase
	measured := 0
	for _, path := range []string{"transport", "dialer"} {
		for hs := 0; hs <= 1; hs++ {
			for step := 1; step <= 2; step++ {
				probe := c17SaslCase{path: path, hsMax: hs, step: step}
				err, _, _, n := c17SaslRun(probe, false)
				if err != nil || n == 0 {
					c.Inconclusive(fmt.Sprintf("C17/sasl: the undisturbed SCRAM exchange (%s, handshake v%d) failed: %v", path, hs, err))
					continue
				}
				measured++
				// the token sits at the end of its frame: 4 bytes of length in raw mode, a response
				// header and the other fields before it in framed mode (the cut is clamped to the frame)
				span := n + 4
				if hs == 1 {
					span = n + 40
				}
				stepk := 1
				if c.Quick() {
					stepk = 3
				}
				for k := 0; k < span; k += stepk {
					for _, m := range []fakenet.CutMode{fakenet.CutEOF, fakenet.CutReset} {
						cases = append(cases, c17SaslCase{path, hs, step, k, m})
					}
				}
			}
		}
	}
	c.Count("sasl_exchanges_measured", int64(measured))
	c.CasesPar("sasl", len(cases), 4, func(k *core.Case) {
		cs := cases[k.Idx]
		if cs.k%10 == 0 {
			k.Describe(map[string]any{"list": "sasl", "path": cs.path, "handshake_max": cs.hsMax, "server_token": cs.step, "cut_at": cs.k, "ending": cs.mode.String()})
		}
		err, seen, full, n := c17SaslRun(cs, true)
		c.Eval(1)
		key := fmt.Sprintf("%s:hs%d:token%d", cs.path, cs.hsMax, cs.step)
		partial := false
		for _, ch := range seen {
			ok := false
			for _, f := range full {
				if bytes.Equal(ch, f) {
					ok = true
					break
				}
			}
			if !ok {
				partial = true
				k.Viol("c17:partial-token-to-mechanism:"+key, fmt.Sprintf("the SASL state machine was given a %d byte challenge %q that is none of the complete tokens the server produced (token %d of %d bytes was cut at byte %d of its frame, %s)", len(ch), ch, cs.step, n, cs.k, cs.mode), map[string]any{"server_tokens": fmt.Sprintf("%q", full)})
				break
			}
		}
		if err == nil {
			k.Viol("c17:auth-succeeded-on-cut-token:"+key, fmt.Sprintf("the connection was lost inside server token %d (cut at byte %d of its frame, %s) and the operation still succeeded", cs.step, cs.k, cs.mode), nil)
		}
		c.Distinct(fmt.Sprintf("sasl %s k%d/8 partial=%v", key, cs.k*8/(n+40), partial))
	})
}
