package props

import (
	"context"
	"errors"
	"fmt"
	"sort"
	"strings"
	"sync"
	"sync/atomic"
	"time"

	kafka "github.com/segmentio/kafka-go"

	"verifharness/core"
	"verifharness/fakecluster"
	"verifharness/fakenet"
	"verifharness/refcodec"
)

// The writer engine drives a real kafka.Writer against the fake cluster and
// records what the application saw (call results, Completion invocations,
// balancer decisions) next to what the brokers saw (journal). C01, C07, C08
// and the Writer half of C09 put their own oracle on top of it.

type wFault struct {
	Broker  int32
	N       int // n-th produce request on that broker (1-based)
	Act     string
	Code    int16
	CutAt   int
	Mode    fakenet.CutMode
	DelayMs int
	MoveTo  int32 // leader-move: new leader
}

type wCfg struct {
	Brokers      int
	Topics       []int // partitions per topic
	ProduceMax   int
	WriterTopic  bool
	Balancer     string
	BatchSize    int
	BatchBytes   int64
	BatchTimeout time.Duration
	MaxAttempts  int
	BackoffMin   time.Duration
	BackoffMax   time.Duration
	Acks         int
	Async        bool
	Codec        int
	WriteTimeout time.Duration
	MetadataTTL  time.Duration
	Goroutines   int
	Calls        int
	MsgsMax      int
	Faults       []wFault
	ChunkMax     int
	Headers      bool
	// SizeMode: "small" | "boundary" (sizes around BatchBytes in the library's measure)
	SizeMode string
	// Rejects: include calls that must be rejected up front (too large / topic mix)
	Rejects bool
	// NoClose leaves the writer open at the end of the workload until the
	// caller closes it (C08 flush checks).
	NoClose bool
}

func (c wCfg) desc() map[string]any {
	fs := []string{}
	for _, f := range c.Faults {
		fs = append(fs, fmt.Sprintf("b%d#%d:%s/%d/%d/%s/%dms", f.Broker, f.N, f.Act, f.Code, f.CutAt, f.Mode, f.DelayMs))
	}
	return map[string]any{"brokers": c.Brokers, "topics": c.Topics, "produce_max": c.ProduceMax, "writer_topic": c.WriterTopic, "balancer": c.Balancer,
		"batch_size": c.BatchSize, "batch_bytes": c.BatchBytes, "batch_timeout": c.BatchTimeout.String(), "max_attempts": c.MaxAttempts, "acks": c.Acks,
		"async": c.Async, "codec": refcodec.CodecNames[c.Codec], "write_timeout": c.WriteTimeout.String(), "goroutines": c.Goroutines, "calls": c.Calls,
		"msgs_max": c.MsgsMax, "faults": fs, "size_mode": c.SizeMode, "rejects": c.Rejects, "headers": c.Headers}
}

type wMsg struct {
	ID     string
	G      int
	Call   int
	Idx    int
	Seq    int // per-goroutine submission sequence number
	Topic  string
	Size   int32 // library measure (Message.totalSize)
	Raw    int   // key+value+header bytes
	Reject string
}

type wCall struct {
	G, Call  int
	Msgs     []*wMsg
	SeqCall  int64
	SeqRet   int64
	Err      error
	PerMsg   []error // from WriteErrors (nil slice when Err is nil or not WriteErrors)
	Rejected bool    // expected up-front rejection
}

type wCompletion struct {
	Seq int64
	IDs []string
	Err error
	// Partition/topic as reported in the messages
	Topic     string
	Partition int
}

type wChoice struct {
	Partition int
	Offered   int
	Count     int
}

type wRun struct {
	Cfg         wCfg
	Net         *fakenet.Net
	Cluster     *fakecluster.Cluster
	Writer      *kafka.Writer
	Transport   *kafka.Transport
	Calls       []*wCall
	Completions []wCompletion
	Choices     map[string]*wChoice
	Msgs        map[string]*wMsg
	mu          sync.Mutex
	CloseStart  int64
	CloseEnd    int64
	CloseDur    time.Duration
	Logs        []string
	TopicNames  []string
	Quiesced    bool
	// TimeoutSeen: some produce attempt failed on a deadline as seen by the
	// client. A response can be delivered to the socket while the deadline
	// fires, so ack-related negative checks are not decidable in such a run.
	TimeoutSeen bool
}

func wTopicName(i int) string { return fmt.Sprintf("t%d", i) }

// parseID extracts the unique id a message value carries.
func parseID(v []byte) string {
	i := strings.IndexByte(string(v), ';')
	if i < 0 {
		return ""
	}
	return string(v[:i])
}

func parseGSeq(id string) (g, seq int) {
	var c, m int
	fmt.Sscanf(id, "%d.%d.%d.%d", &g, &c, &m, &seq)
	return
}

type recBalancer struct {
	inner kafka.Balancer
	run   *wRun
	// gate, when set, is called with the message id before delegating.
	gate func(id string)
}

func (b *recBalancer) Balance(msg kafka.Message, partitions ...int) int {
	id := parseID(msg.Value)
	if b.gate != nil {
		b.gate(id)
	}
	p := b.inner.Balance(msg, partitions...)
	b.run.mu.Lock()
	ch := b.run.Choices[id]
	if ch == nil {
		ch = &wChoice{}
		b.run.Choices[id] = ch
	}
	ch.Partition, ch.Offered = p, len(partitions)
	ch.Count++
	b.run.mu.Unlock()
	return p
}

func makeBalancer(name string) kafka.Balancer {
	switch name {
	case "roundrobin":
		return &kafka.RoundRobin{}
	case "roundrobin3":
		return &kafka.RoundRobin{ChunkSize: 3}
	case "leastbytes":
		return &kafka.LeastBytes{}
	case "hash":
		return &kafka.Hash{}
	case "refhash":
		return &kafka.ReferenceHash{}
	case "crc32":
		return kafka.CRC32Balancer{}
	case "murmur2":
		return kafka.Murmur2Balancer{}
	}
	return &kafka.RoundRobin{}
}

var wBalancers = []string{"roundrobin", "roundrobin3", "leastbytes", "hash", "refhash", "crc32", "murmur2"}

type logFn func(string, ...interface{})

func (f logFn) Printf(s string, a ...interface{}) { f(s, a...) }

func msgRawSize(m kafka.Message) int {
	n := len(m.Key) + len(m.Value)
	for _, h := range m.Headers {
		n += len(h.Key) + len(h.Value)
	}
	return n
}

// wSetup builds network, cluster, transport and writer for cfg.
func wSetup(k *core.Case, cfg wCfg) *wRun {
	run := &wRun{Cfg: cfg, Choices: map[string]*wChoice{}, Msgs: map[string]*wMsg{}}
	run.Net = fakenet.New()
	run.Net.ChunkMax = cfg.ChunkMax
	cl := fakecluster.New(run.Net)
	run.Cluster = cl
	for i := 1; i <= cfg.Brokers; i++ {
		b := cl.AddBroker(int32(i), "")
		v := b.Versions[fakecluster.KProduce]
		v.Max = cfg.ProduceMax
		b.Versions[fakecluster.KProduce] = v
	}
	for ti, np := range cfg.Topics {
		ti := ti
		cl.AddTopic(wTopicName(ti), np, func(p int) int32 { return int32((p+ti)%cfg.Brokers) + 1 })
		run.TopicNames = append(run.TopicNames, wTopicName(ti))
	}
	faults := map[[2]int]wFault{}
	for _, f := range cfg.Faults {
		faults[[2]int{int(f.Broker), f.N}] = f
	}
	cl.Script = func(rc *fakecluster.ReqCtx) *fakecluster.Action {
		if rc.Ev.API != fakecluster.KProduce {
			return nil
		}
		f, ok := faults[[2]int{int(rc.Broker.ID), rc.N}]
		if !ok {
			return nil
		}
		a := &fakecluster.Action{Delay: time.Duration(f.DelayMs) * time.Millisecond}
		switch f.Act {
		case "drop-before":
			a.Kind = fakecluster.ActDropBefore
		case "apply-drop":
			a.Kind = fakecluster.ActApplyDrop
		case "cut":
			a.Kind, a.CutAt, a.CutMode = fakecluster.ActCut, f.CutAt, f.Mode
		case "error":
			a.Kind, a.Code = fakecluster.ActError, f.Code
		case "error-apply":
			a.Kind, a.Code = fakecluster.ActErrorApply, f.Code
		case "delay":
		case "move":
			// leadership moves away: this broker answers NotLeader from now on
			body := rc.Body
			for _, t := range refcodec.Arr(body["Topics"]) {
				tm := refcodec.Map(t)
				for _, p := range refcodec.Arr(tm["Partitions"]) {
					cl.SetLeader(refcodec.Str(tm["Name"]), int32(refcodec.Int(refcodec.Map(p)["Index"])), f.MoveTo)
				}
			}
		}
		return a
	}
	run.Transport = &kafka.Transport{Dial: run.Net.Dialer("writer"), MetadataTTL: cfg.MetadataTTL, IdleTimeout: 30 * time.Second, ClientID: "verif-writer", DialTimeout: 2 * time.Second}
	w := &kafka.Writer{
		Addr:            kafka.TCP("b1:9092"),
		Balancer:        &recBalancer{inner: makeBalancer(cfg.Balancer), run: run},
		MaxAttempts:     cfg.MaxAttempts,
		WriteBackoffMin: cfg.BackoffMin,
		WriteBackoffMax: cfg.BackoffMax,
		BatchSize:       cfg.BatchSize,
		BatchBytes:      cfg.BatchBytes,
		BatchTimeout:    cfg.BatchTimeout,
		ReadTimeout:     5 * time.Second,
		WriteTimeout:    cfg.WriteTimeout,
		RequiredAcks:    kafka.RequiredAcks(cfg.Acks),
		Async:           cfg.Async,
		Compression:     kafka.Compression(cfg.Codec),
		Transport:       run.Transport,
	}
	if cfg.WriterTopic {
		w.Topic = wTopicName(0)
	}
	// The writer reports every failed attempt with its error through the
	// error logger; the engine keeps those lines to know whether a deadline
	// was involved anywhere in the scenario (see TimeoutSeen).
	w.ErrorLogger = logFn(func(f string, a ...interface{}) {
		line := fmt.Sprintf(f, a...)
		run.mu.Lock()
		if len(run.Logs) < 400 {
			run.Logs = append(run.Logs, line)
		}
		if strings.Contains(line, "timeout") || strings.Contains(line, "deadline") {
			run.TimeoutSeen = true
		}
		run.mu.Unlock()
	})
	w.Completion = func(msgs []kafka.Message, err error) {
		c := wCompletion{Seq: core.Tick(), Err: err}
		for _, m := range msgs {
			c.IDs = append(c.IDs, parseID(m.Value))
			c.Topic, c.Partition = m.Topic, m.Partition
		}
		run.mu.Lock()
		run.Completions = append(run.Completions, c)
		run.mu.Unlock()
	}
	run.Writer = w
	return run
}

// wMakeMessage builds message (g, call, idx, seq).
func wMakeMessage(r *core.Rand, cfg wCfg, g, call, idx, seq int, topic string) (kafka.Message, *wMsg) {
	id := fmt.Sprintf("%d.%d.%d.%d", g, call, idx, seq)
	m := kafka.Message{}
	if !cfg.WriterTopic {
		m.Topic = topic
	}
	switch r.Intn(5) {
	case 0:
		m.Key = nil
	case 1:
		m.Key = []byte{}
	default:
		m.Key = r.Bytes(r.Range(1, 16))
	}
	if cfg.Headers && r.Chance(1, 2) {
		for h := r.Intn(3); h >= 0; h-- {
			m.Headers = append(m.Headers, kafka.Header{Key: fmt.Sprintf("h%d", h), Value: r.Bytes(r.Intn(9))})
		}
	}
	pad := r.Intn(24)
	if r.Chance(1, 12) {
		pad = r.Range(200, 3000)
	}
	m.Value = []byte(id + ";" + strings.Repeat("x", pad))
	wm := &wMsg{ID: id, G: g, Call: call, Idx: idx, Seq: seq, Topic: topic}
	return m, wm
}

// wSizeTo pads or trims m.Value so that the library's measure equals target
// (if reachable); returns the achieved size.
func wSizeTo(m *kafka.Message, id string, target int32) int32 {
	cur := kafka.VerifMessageTotalSize(*m)
	minVal := len(id) + 1
	d := int(target - cur)
	nl := len(m.Value) + d
	if nl < minVal {
		nl = minVal
	}
	if nl > len(m.Value) {
		m.Value = append(m.Value, []byte(strings.Repeat("y", nl-len(m.Value)))...)
	} else {
		m.Value = m.Value[:nl]
	}
	return kafka.VerifMessageTotalSize(*m)
}

type wWorkloadOpts struct {
	// perCall lets a property shape messages of a call (sizes etc.).
	shape func(r *core.Rand, call *wCall, msgs []kafka.Message)
	// ctxFor returns the context for a call (default background).
	ctxFor func(g, call int) context.Context
	// rands, when set, are the per-caller generators (a caller that runs the workload in its own
	// goroutine forks them beforehand so that the case's generator is only used by one goroutine).
	rands []*core.Rand
}

func wForkRands(k *core.Case, cfg wCfg) []*core.Rand {
	rs := make([]*core.Rand, cfg.Goroutines)
	for g := range rs {
		rs[g] = k.R.Fork()
	}
	return rs
}

// wRunWorkload starts the callers and waits for them, then closes the writer
// (unless cfg.NoClose).
func wRunWorkload(k *core.Case, run *wRun, opts wWorkloadOpts) {
	cfg := run.Cfg
	var wg sync.WaitGroup
	rs := opts.rands
	if rs == nil {
		rs = wForkRands(k, cfg)
	}
	for g := 0; g < cfg.Goroutines; g++ {
		wg.Add(1)
		go func(g int) {
			defer wg.Done()
			r := rs[g]
			seq := 0
			for c := 0; c < cfg.Calls; c++ {
				n := r.Range(1, cfg.MsgsMax)
				call := &wCall{G: g, Call: c}
				msgs := make([]kafka.Message, 0, n)
				for i := 0; i < n; i++ {
					topic := wTopicName(0)
					if !cfg.WriterTopic {
						topic = wTopicName(r.Intn(len(cfg.Topics)))
					}
					m, wm := wMakeMessage(r, cfg, g, c, i, seq, topic)
					seq++
					msgs = append(msgs, m)
					call.Msgs = append(call.Msgs, wm)
				}
				if opts.shape != nil {
					opts.shape(r, call, msgs)
				}
				for i := range msgs {
					call.Msgs[i].Size = kafka.VerifMessageTotalSize(msgs[i])
					call.Msgs[i].Raw = msgRawSize(msgs[i])
				}
				run.mu.Lock()
				for _, wm := range call.Msgs {
					run.Msgs[wm.ID] = wm
				}
				run.Calls = append(run.Calls, call)
				run.mu.Unlock()
				ctx := context.Background()
				if opts.ctxFor != nil {
					ctx = opts.ctxFor(g, c)
				}
				run.mu.Lock()
				call.SeqCall = core.Tick()
				run.mu.Unlock()
				err := run.Writer.WriteMessages(ctx, msgs...)
				run.mu.Lock()
				call.SeqRet = core.Tick()
				call.Err = err
				var we kafka.WriteErrors
				if errors.As(err, &we) {
					call.PerMsg = we
				}
				run.mu.Unlock()
			}
		}(g)
	}
	wg.Wait()
	if !cfg.NoClose {
		wClose(run)
	}
}

func wClose(run *wRun) {
	run.CloseStart = core.Tick()
	t0 := time.Now()
	run.Writer.Close()
	run.CloseDur = time.Since(t0)
	run.CloseEnd = core.Tick()
	run.Transport.CloseIdleConnections()
	run.Cluster.Close()
	run.Quiesced = run.Cluster.Quiesce(10 * time.Second)
}

// wAttempt is one produce request as the broker saw it.
type wAttempt struct {
	Ev        *fakecluster.Event
	Topic     string
	Partition int32
	IDs       []string
	Applied   bool
	Acked     bool
	Key       string // batch identity: sorted id set
}

func wAttempts(run *wRun) []*wAttempt {
	var out []*wAttempt
	for _, ev := range run.Cluster.Journal() {
		if ev.API != fakecluster.KProduce || ev.Body == nil {
			// Body == nil: the frame arrived while the cluster was shutting down and was never processed
			continue
		}
		a := &wAttempt{Ev: ev}
		// ids from the request body even when the request was not applied:
		// decode leniently through the strict decoder (the body was kept raw)
		for _, t := range refcodec.Arr(ev.Body["Topics"]) {
			tm := refcodec.Map(t)
			a.Topic = refcodec.Str(tm["Name"])
			for _, p := range refcodec.Arr(tm["Partitions"]) {
				pm := refcodec.Map(p)
				a.Partition = int32(refcodec.Int(pm["Index"]))
				bs, err := refcodec.DecodeRecordSet(refcodec.Bytes(pm["Records"]), refcodec.StrictOpts{})
				if err == nil {
					for _, b := range bs {
						for _, rec := range b.Records {
							a.IDs = append(a.IDs, parseID(rec.Value))
						}
					}
				}
			}
		}
		a.Applied = (ev.Fate == fakecluster.FateApplied || ev.Fate == fakecluster.FateAppliedDrop || ev.Fate == fakecluster.FateAppliedCut) && len(ev.Batches) > 0
		a.Acked = a.Applied && ev.Code == 0 && ev.Delivered()
		ids := append([]string(nil), a.IDs...)
		sort.Strings(ids)
		a.Key = strings.Join(ids, ",")
		out = append(out, a)
	}
	return out
}

func isDeadlineErr(err error) bool {
	if err == nil {
		return false
	}
	if errors.Is(err, context.DeadlineExceeded) || errors.Is(err, context.Canceled) {
		return true
	}
	var te interface{ Timeout() bool }
	if errors.As(err, &te) && te.Timeout() {
		return true
	}
	return strings.Contains(err.Error(), "i/o timeout") || strings.Contains(err.Error(), "deadline exceeded")
}

// wHookPoints is the table of delays the Writer checks install at the library's verif hook points: the
// timer goroutine is held back before it takes the partition mutex, and a quarter of the hand-overs of
// a closed batch to the partition queue are held back for 0.2-1 ms. Correct code does the hand-over
// under the partition mutex, so the delays only slow the writer down.
func wHookPoints() map[string]func() {
	var tick, ptick uint64
	return map[string]func(){
		"writer.awaitBatch.timer": func() {
			if n := atomic.AddUint64(&tick, 1); n%2 == 0 {
				time.Sleep(time.Duration(50+(n%5)*100) * time.Microsecond)
			}
		},
		"writer.batchQueue.Put": func() {
			if n := atomic.AddUint64(&ptick, 1); n%4 == 0 {
				time.Sleep(time.Duration(200+(n%5)*200) * time.Microsecond)
			}
		},
	}
}
