package props

import (
	"context"

	"fmt"
	"io"
	"sort"
	"strings"
	"sync"
	"sync/atomic"
	"time"

	kafka "github.com/segmentio/kafka-go"

	"verifharness/core"
	"verifharness/fakecluster"
	"verifharness/fakenet"
	"verifharness/refcodec"
)

// C03 — Consumer group: commits never pass undelivered records; resume at the commit.

func init() {
	core.Register(&core.Prop{
		ID:    "C03",
		Level: "exploration",
		Rule: "one case = one consumer-group history: 1-4 group Readers (unique client ids) on 1-2 topics x 1-6 partitions against the fake coordinator, applications fetching and committing (sync commits, interval commits, every k-th message, ReadMessage), and a seeded script of events placed at delivery counts: late joins, Close, crash (network killed + eviction), forced rebalances, coordinator errors (27/22/25/16/15/14) and dropped connections on join/sync/heartbeat/commit/offset-fetch, commit responses lost after apply, appends meanwhile; " +
			"oracle G1-G5 over the coordinator's commit/offset-fetch history, the brokers' fetch journal and the applications' delivery/commit history; signature = (readers, topics, commit mode, event kinds, generations formed bucket); non-trivial = at least two generations formed or a coordinator fault fired",
		Assumptions: []string{
			"the fake coordinator implements the Kafka group state machine with its two timers (session timeout 400 ms, rebalance timeout 300 ms, as sent by the members) plus a 3 ms join window; crashes are additionally evicted by a scenario trigger",
			"a reader is identified with its group member through the client id in request headers (one unique client id per Reader)",
			"G5 (every record eventually delivered) is judged by a budget of coordinator+fetch requests after the script ended, not by wall clock",
		},
		Shards:          16,
		CaseTimeout:     90 * time.Second,
		HangIsViolation: false,
		Run:             runC03,
	})
}

type gEvent struct {
	At   int // after this many deliveries in total
	Kind string
	Arg  int
}

type gFault struct {
	API  int
	N    int
	Act  string
	Code int16
}

type gCfg struct {
	Brokers    int
	Topics     []int
	PerPart    int
	Readers    int // initial readers
	MultiTopic bool
	CommitMode string // "sync" | "interval" | "readmessage"
	CommitEach int
	StartLast  bool
	Queue      int
	Events     []gEvent
	Faults     []gFault
	Heartbeat  time.Duration
	OutOfOrder bool // commit messages of a partition out of order
}

func (c gCfg) desc() map[string]any {
	var ev, fl []string
	for _, e := range c.Events {
		ev = append(ev, fmt.Sprintf("%s@%d(%d)", e.Kind, e.At, e.Arg))
	}
	for _, f := range c.Faults {
		fl = append(fl, fmt.Sprintf("api%d#%d:%s/%d", f.API, f.N, f.Act, f.Code))
	}
	return map[string]any{"brokers": c.Brokers, "topics": c.Topics, "per_partition": c.PerPart, "readers": c.Readers, "multi_topic": c.MultiTopic, "commit": c.CommitMode,
		"commit_each": c.CommitEach, "start_last": c.StartLast, "queue": c.Queue, "events": ev, "faults": fl, "heartbeat": c.Heartbeat.String(), "out_of_order": c.OutOfOrder}
}

type gDelivery struct {
	Reader    string
	Topic     string
	Partition int
	Offset    int64
	Seq       int64
	CallSeq   int64
}

type gCommitCall struct {
	Reader  string
	Max     map[string]int64 // "topic/partition" -> highest offset passed
	SeqCall int64
	SeqRet  int64
	Err     error
	ViaRead bool // implicit commit of ReadMessage
}

type gReader struct {
	ID       string
	R        *kafka.Reader
	cancel   context.CancelFunc
	done     chan struct{}
	closed   bool
	dead     bool
	stopping int32
}

func genGroupCfg(r *core.Rand) gCfg {
	cfg := gCfg{}
	cfg.Brokers = r.Range(1, 3)
	nt := core.Pick(r, 1, 1, 2)
	for i := 0; i < nt; i++ {
		cfg.Topics = append(cfg.Topics, r.Range(1, 6))
	}
	cfg.MultiTopic = nt > 1
	cfg.PerPart = r.Range(3, 40)
	cfg.Readers = r.Range(1, 3)
	cfg.CommitMode = core.Pick(r, "sync", "sync", "interval", "readmessage")
	cfg.CommitEach = core.Pick(r, 1, 1, 3, 7)
	cfg.StartLast = r.Chance(1, 6)
	cfg.Queue = core.Pick(r, 1, 5, 100)
	cfg.Heartbeat = time.Duration(r.Range(5, 20)) * time.Millisecond
	cfg.OutOfOrder = r.Chance(1, 5)
	total := 0
	for _, n := range cfg.Topics {
		total += n * cfg.PerPart
	}
	ne := core.Pick(r, 0, 1, 2, 3, 5)
	for i := 0; i < ne; i++ {
		e := gEvent{At: r.Intn(total + 1), Kind: core.Pick(r, "join", "join", "close", "crash", "rebalance", "rebalance", "append", "move-coordinator"), Arg: r.Intn(4)}
		cfg.Events = append(cfg.Events, e)
	}
	sort.Slice(cfg.Events, func(i, j int) bool { return cfg.Events[i].At < cfg.Events[j].At })
	nf := core.Pick(r, 0, 0, 1, 2, 4)
	for i := 0; i < nf; i++ {
		f := gFault{API: core.Pick(r, fakecluster.KJoinGroup, fakecluster.KSyncGroup, fakecluster.KHeartbeat, fakecluster.KHeartbeat, fakecluster.KOffsetCommit, fakecluster.KOffsetCommit, fakecluster.KOffsetFetch, fakecluster.KFindCoordinator), N: r.Range(1, 8)}
		switch r.Intn(4) {
		case 0, 1:
			f.Act, f.Code = "error", core.Pick(r, int16(27), int16(22), int16(25), int16(16), int16(15), int16(14))
		case 2:
			f.Act = "drop"
		case 3:
			f.Act = "apply-drop"
		}
		cfg.Faults = append(cfg.Faults, f)
	}
	return cfg
}

func runC03(c *core.Ctx) {
	c.CasesPar("group", c.N(480, 60000), 4, func(k *core.Case) {
		cfg := genGroupCfg(k.R)
		k.Describe(cfg.desc())
		c03Run(k, cfg)
	})
}

func c03Run(k *core.Case, cfg gCfg) {
	c := k.Ctx
	r := k.R
	net := fakenet.New()
	cl := fakecluster.New(net)
	cl.MaxWaitCap = 10 * time.Millisecond
	for i := 1; i <= cfg.Brokers; i++ {
		cl.AddBroker(int32(i), "")
	}
	var coord int32 = int32(r.Range(1, cfg.Brokers))
	var coordMu sync.Mutex
	cl.CoordinatorOf = func(string) int32 {
		coordMu.Lock()
		defer coordMu.Unlock()
		return coord
	}
	var topics []string
	type tp struct {
		t string
		p int
	}
	initialEnd := map[tp]int64{}
	appendTo := func(topic string, p int, n int) {
		cl.Lock()
		pt := cl.Topics[topic].Partitions[p]
		base := pt.End
		var recs []refcodec.Rec
		for i := 0; i < n; i++ {
			o := base + int64(i)
			recs = append(recs, refcodec.Rec{Offset: o, TimestampMs: tsBase + o, Key: []byte("k"), Value: []byte(fmt.Sprintf("%s/%d/%d", topic, p, o))})
		}
		enc, _ := refcodec.NewBatchV2(recs, base, -1, 0).Encode(refcodec.CompressOpts{})
		pt.AppendStored(&fakecluster.Stored{Bytes: enc, BaseOffset: base, LastOffset: base + int64(n) - 1}, recs)
		cl.Unlock()
	}
	for ti, np := range cfg.Topics {
		name := fmt.Sprintf("t%d", ti)
		topics = append(topics, name)
		ti := ti
		cl.AddTopic(name, np, func(p int) int32 { return int32((p+ti)%cfg.Brokers) + 1 })
		for p := 0; p < np; p++ {
			left := cfg.PerPart
			for left > 0 {
				n := r.Range(1, 8)
				if n > left {
					n = left
				}
				appendTo(name, p, n)
				left -= n
			}
			initialEnd[tp{name, p}] = int64(cfg.PerPart)
		}
	}
	// coordinator fault script
	var apiN sync.Map
	var faultsFired int32
	faultKinds := map[string]bool{}
	var fkMu sync.Mutex
	scriptOn := int32(1)
	cl.Script = func(rc *fakecluster.ReqCtx) *fakecluster.Action {
		if atomic.LoadInt32(&scriptOn) == 0 {
			return nil
		}
		v, _ := apiN.LoadOrStore(rc.Ev.API, new(int32))
		n := int(atomic.AddInt32(v.(*int32), 1))
		for _, f := range cfg.Faults {
			if f.API == rc.Ev.API && f.N == n {
				atomic.AddInt32(&faultsFired, 1)
				fkMu.Lock()
				faultKinds[fmt.Sprintf("%s:%s", rc.API.Name, f.Act)] = true
				fkMu.Unlock()
				switch f.Act {
				case "error":
					return &fakecluster.Action{Kind: fakecluster.ActError, Code: f.Code}
				case "drop":
					return &fakecluster.Action{Kind: fakecluster.ActDropBefore}
				case "apply-drop":
					return &fakecluster.Action{Kind: fakecluster.ActApplyDrop}
				}
			}
		}
		return nil
	}

	var mu sync.Mutex
	var deliveries []gDelivery
	var commitCalls []*gCommitCall
	var nDelivered int32
	readers := map[string]*gReader{}
	var readerOrder []string
	nextReader := 0
	commitInterval := time.Duration(0)
	if cfg.CommitMode == "interval" {
		commitInterval = time.Duration(r.Range(5, 20)) * time.Millisecond
	}
	rr := r.Fork()

	startReader := func() *gReader {
		nextReader++
		id := fmt.Sprintf("r%d", nextReader)
		rcfg := kafka.ReaderConfig{Brokers: []string{"b1:9092"}, GroupID: "g", Dialer: &kafka.Dialer{DialFunc: net.Dialer(id), ClientID: id, Timeout: 2 * time.Second},
			MaxWait: 10 * time.Millisecond, HeartbeatInterval: cfg.Heartbeat, SessionTimeout: 400 * time.Millisecond, RebalanceTimeout: 300 * time.Millisecond, JoinGroupBackoff: 5 * time.Millisecond,
			ReadBackoffMin: time.Millisecond, ReadBackoffMax: 2 * time.Millisecond, CommitInterval: commitInterval, MinBytes: 1, MaxBytes: 1 << 20, QueueCapacity: cfg.Queue,
			ReadLagInterval: -1, MaxAttempts: 3}
		if cfg.MultiTopic {
			rcfg.GroupTopics = topics
		} else {
			rcfg.Topic = topics[0]
		}
		if cfg.StartLast {
			rcfg.StartOffset = kafka.LastOffset
		}
		ctx, cancel := context.WithCancel(context.Background())
		gr := &gReader{ID: id, R: kafka.NewReader(rcfg), cancel: cancel, done: make(chan struct{})}
		each := cfg.CommitEach
		ar := rr.Fork()
		go func() {
			defer close(gr.done)
			var pending []kafka.Message
			for {
				cs := core.Tick()
				var m kafka.Message
				var err error
				if cfg.CommitMode == "readmessage" {
					call := &gCommitCall{Reader: id, Max: map[string]int64{}, SeqCall: cs, ViaRead: true}
					m, err = gr.R.ReadMessage(ctx)
					if err == nil || strings.Contains(fmt.Sprint(err), "committing message") {
						// the message was fetched; the implicit commit was attempted with this offset
						if m.Topic != "" {
							call.Max[fmt.Sprintf("%s/%d", m.Topic, m.Partition)] = m.Offset
						}
					}
					call.SeqRet, call.Err = core.Tick(), err
					mu.Lock()
					commitCalls = append(commitCalls, call)
					mu.Unlock()
				} else {
					m, err = gr.R.FetchMessage(ctx)
				}
				if err != nil && cfg.CommitMode == "readmessage" && m.Topic != "" {
					// ReadMessage hands the fetched message over together with the commit error
					mu.Lock()
					deliveries = append(deliveries, gDelivery{Reader: id, Topic: m.Topic, Partition: m.Partition, Offset: m.Offset, Seq: core.Tick(), CallSeq: cs})
					mu.Unlock()
					atomic.AddInt32(&nDelivered, 1)
				}
				if err != nil {
					// io.EOF also reaches the application as a group error (a dropped coordinator
					// connection), so only the harness' own Close/cancel ends the application
					if ctx.Err() != nil || atomic.LoadInt32(&gr.stopping) != 0 {
						return
					}
					_ = io.EOF
					// transient group errors surface here (runError); keep going
					select {
					case <-ctx.Done():
						return
					case <-time.After(time.Millisecond):
					}
					continue
				}
				mu.Lock()
				deliveries = append(deliveries, gDelivery{Reader: id, Topic: m.Topic, Partition: m.Partition, Offset: m.Offset, Seq: core.Tick(), CallSeq: cs})
				mu.Unlock()
				atomic.AddInt32(&nDelivered, 1)
				if cfg.CommitMode == "readmessage" {
					continue
				}
				pending = append(pending, m)
				if len(pending) >= each {
					msgs := pending
					pending = nil
					if cfg.OutOfOrder && len(msgs) > 1 {
						// commit out of order within the call and split over two calls
						for i := len(msgs) - 1; i > 0; i-- {
							j := ar.Intn(i + 1)
							msgs[i], msgs[j] = msgs[j], msgs[i]
						}
					}
					call := &gCommitCall{Reader: id, Max: map[string]int64{}}
					for _, x := range msgs {
						key := fmt.Sprintf("%s/%d", x.Topic, x.Partition)
						if o, ok := call.Max[key]; !ok || x.Offset > o {
							call.Max[key] = x.Offset
						}
					}
					mu.Lock()
					call.SeqCall = core.Tick()
					commitCalls = append(commitCalls, call)
					mu.Unlock()
					err := gr.R.CommitMessages(ctx, msgs...)
					mu.Lock()
					call.SeqRet, call.Err = core.Tick(), err
					mu.Unlock()
				}
			}
		}()
		mu.Lock()
		readers[id] = gr
		readerOrder = append(readerOrder, id)
		mu.Unlock()
		return gr
	}
	closeReader := func(gr *gReader) {
		if gr.closed {
			return
		}
		gr.closed = true
		atomic.StoreInt32(&gr.stopping, 1)
		gr.cancel()
		<-gr.done
		gr.R.Close()
	}
	liveReaders := func() []*gReader {
		mu.Lock()
		defer mu.Unlock()
		var out []*gReader
		for _, id := range readerOrder {
			if gr := readers[id]; !gr.closed && !gr.dead {
				out = append(out, gr)
			}
		}
		return out
	}
	for i := 0; i < cfg.Readers; i++ {
		startReader()
	}

	// event scheduler: events fire at delivery counts; if the group is stuck below a count for too many
	// requests (e.g. StartOffset=last with nothing appended), remaining events fire anyway
	eventKinds := map[string]bool{}
	reqCount := func() int {
		return len(cl.Journal())
	}
	for _, e := range cfg.Events {
		startReq := reqCount()
		for int(atomic.LoadInt32(&nDelivered)) < e.At && reqCount()-startReq < 400 {
			select {
			case <-k.Cancelled:
			default:
			}
			time.Sleep(300 * time.Microsecond)
		}
		eventKinds[e.Kind] = true
		lr := liveReaders()
		switch e.Kind {
		case "join":
			if len(lr) < 4 {
				startReader()
			}
		case "close":
			if len(lr) > 1 {
				closeReader(lr[e.Arg%len(lr)])
			}
		case "crash":
			if len(lr) > 1 {
				gr := lr[e.Arg%len(lr)]
				gr.dead = true
				net.Kill(gr.ID)
				cl.GroupEvictClient("g", gr.ID)
			}
		case "rebalance":
			cl.GroupRebalance("g")
		case "append":
			t := topics[e.Arg%len(topics)]
			for p := range cl.Topics[t].Partitions {
				appendTo(t, p, 1+e.Arg)
			}
		case "move-coordinator":
			coordMu.Lock()
			coord = coord%int32(cfg.Brokers) + 1
			coordMu.Unlock()
		}
	}
	atomic.StoreInt32(&scriptOn, 0)

	// G5: after the script, every stored record (from the group's starting point) is delivered within a request budget
	type want struct {
		t    string
		p    int
		from int64
		to   int64
	}
	endOf := func(t string, p int) int64 {
		cl.Lock()
		defer cl.Unlock()
		return cl.Topics[t].Partitions[p].End
	}
	// the group's starting point of a partition: log start, or (StartOffset=last) the log end the first
	// assignee resolved, which is what its first fetch request for that partition asks for
	baseOf := func(t string, p int) int64 {
		if !cfg.StartLast {
			return 0
		}
		for _, ev := range cl.Journal() {
			if ev.API != fakecluster.KFetch || ev.Body == nil {
				continue
			}
			for _, tt := range refcodec.Arr(ev.Body["Topics"]) {
				tm := refcodec.Map(tt)
				if refcodec.Str(tm["Topic"]) != t {
					continue
				}
				for _, pp := range refcodec.Arr(tm["Partitions"]) {
					if int(refcodec.Int(refcodec.Map(pp)["Partition"])) == p {
						return refcodec.Int(refcodec.Map(pp)["FetchOffset"])
					}
				}
			}
		}
		return endOf(t, p)
	}
	subscribed := topics
	if !cfg.MultiTopic {
		subscribed = topics[:1]
	}
	allDelivered := func() (bool, string) {
		mu.Lock()
		defer mu.Unlock()
		seen := map[string]bool{}
		for _, d := range deliveries {
			seen[fmt.Sprintf("%s/%d/%d", d.Topic, d.Partition, d.Offset)] = true
		}
		for _, t := range subscribed {
			cl.Lock()
			np := len(cl.Topics[t].Partitions)
			cl.Unlock()
			for p := 0; p < np; p++ {
				if cfg.StartLast {
					// a partition that was assigned more than once while nothing was committed is
					// re-positioned at the then-current log end each time, which legitimately skips what
					// was appended in between (the statement: "at the configured StartOffset when there is none")
					_, gf, _, _ := cl.GroupHistory("g")
					fresh := 0
					for _, f := range gf {
						if f.Topic == t && int(f.Partition) == p && f.Offset < 0 {
							fresh++
						}
					}
					if fresh > 1 {
						continue
					}
				}
				for o := baseOf(t, p); o < endOf(t, p); o++ {
					if !seen[fmt.Sprintf("%s/%d/%d", t, p, o)] {
						return false, fmt.Sprintf("%s/%d/%d", t, p, o)
					}
				}
			}
		}
		return true, ""
	}
	nparts := 0
	for _, t := range subscribed {
		nparts += len(cl.Topics[t].Partitions)
	}
	budget := 600 + 60*nparts*4 + 10*nparts*cfg.PerPart
	startReq := reqCount()
	missing := ""
	progressOK := true
	var stuckStacks []string
	for {
		ok, miss := allDelivered()
		if ok {
			break
		}
		missing = miss
		if reqCount()-startReq > budget {
			progressOK = false
			_, stuckStacks = libGoroutines("kafka-go.(*reader).", "kafka-go.(*Reader).", "kafka-go.(*ConsumerGroup).", "kafka-go.(*Generation).")
			break
		}
		select {
		case <-k.Cancelled:
			progressOK = false
		default:
		}
		if !progressOK {
			break
		}
		time.Sleep(500 * time.Microsecond)
	}
	// let pending commits settle, then close everything
	time.Sleep(2 * time.Millisecond)
	mu.Lock()
	var all []*gReader
	for _, id := range readerOrder {
		all = append(all, readers[id])
	}
	mu.Unlock()
	var wg sync.WaitGroup
	for _, gr := range all {
		wg.Add(1)
		go func(gr *gReader) { defer wg.Done(); closeReader(gr) }(gr)
	}
	wg.Wait()
	cl.Close()
	cl.Quiesce(5 * time.Second)
	c.Eval(1)

	// ---- oracle
	commits, fetches, events, asg := cl.GroupHistory("g")
	mu.Lock()
	defer mu.Unlock()
	gens := 0
	for _, e := range events {
		if e.Kind == "sync-complete" {
			gens++
		}
	}
	witness := func(extra map[string]any) map[string]any {
		var ev []string
		for i, e := range events {
			if i > 40 {
				break
			}
			ev = append(ev, fmt.Sprintf("%d:%s g%d %s %s", e.Seq, e.Kind, e.Generation, e.MemberID, e.Detail))
		}
		w := map[string]any{"group_events": ev, "generations": gens}
		for k, v := range extra {
			w[k] = v
		}
		return w
	}
	// index: per reader+partition highest offset passed to CommitMessages by call time
	type passed struct {
		seq int64
		off int64
	}
	passedBy := map[string][]passed{} // reader|topic/part -> calls (in call order)
	for _, cc := range commitCalls {
		for key, off := range cc.Max {
			passedBy[cc.Reader+"|"+key] = append(passedBy[cc.Reader+"|"+key], passed{cc.SeqCall, off})
		}
	}
	// G1: no over-commit
	for _, cm := range commits {
		key := fmt.Sprintf("%s|%s/%d", cm.ClientID, cm.Topic, cm.Partition)
		hi := int64(-1)
		for _, p := range passedBy[key] {
			if p.seq < cm.Seq && p.off > hi {
				hi = p.off
			}
		}
		if cm.Offset > hi+1 {
			k.Viol("c03:over-commit:"+cfg.CommitMode, fmt.Sprintf("coordinator recorded offset %d for %s/%d from %s (generation %d) but the application had only passed offsets up to %d to CommitMessages/ReadMessage", cm.Offset, cm.Topic, cm.Partition, cm.ClientID, cm.Generation, hi),
				witness(map[string]any{"commit_seq": cm.Seq}))
			break
		}
	}
	// G2: synchronous CommitMessages nil => recorded
	if cfg.CommitMode == "sync" {
		for _, cc := range commitCalls {
			if cc.Err != nil || cc.SeqRet == 0 {
				continue
			}
			for key, off := range cc.Max {
				ok := false
				for _, cm := range commits {
					if fmt.Sprintf("%s/%d", cm.Topic, cm.Partition) == key && cm.Offset >= off+1 && cm.Seq < cc.SeqRet {
						ok = true
						break
					}
				}
				if !ok {
					k.Viol("c03:commit-nil-not-recorded", fmt.Sprintf("CommitMessages returned nil for %s offset %d (reader %s) but the coordinator had not recorded an offset >= %d by then", key, off, cc.Reader, off+1), witness(nil))
					break
				}
			}
		}
	}
	// G3 broker-side: first fetch after an OffsetFetch answer starts at the answered offset
	journal := cl.Journal()
	type fkey struct {
		client, topic string
		part          int32
	}
	fetchReqs := map[fkey][]*fakecluster.Event{}
	for _, ev := range journal {
		if ev.API == fakecluster.KFetch && ev.Body != nil {
			for _, t := range refcodec.Arr(ev.Body["Topics"]) {
				tm := refcodec.Map(t)
				for _, p := range refcodec.Arr(tm["Partitions"]) {
					fk := fkey{ev.ClientID, refcodec.Str(tm["Topic"]), int32(refcodec.Int(refcodec.Map(p)["Partition"]))}
					fetchReqs[fk] = append(fetchReqs[fk], ev)
				}
			}
		}
	}
	fetchOffsetOf := func(ev *fakecluster.Event) int64 {
		for _, t := range refcodec.Arr(ev.Body["Topics"]) {
			for _, p := range refcodec.Arr(refcodec.Map(t)["Partitions"]) {
				return refcodec.Int(refcodec.Map(p)["FetchOffset"])
			}
		}
		return -1
	}
	resolved := func(f fakecluster.GroupFetch, at int64) []int64 {
		if f.Offset >= 0 {
			return []int64{f.Offset}
		}
		if cfg.StartLast {
			// log end when the reader resolved it: somewhere between the initial end and the current end
			var out []int64
			for o := initialEnd[tp{f.Topic, int(f.Partition)}]; o <= endOf(f.Topic, int(f.Partition)); o++ {
				out = append(out, o)
			}
			return out
		}
		return []int64{0}
	}
	for i, f := range fetches {
		fk := fkey{f.ClientID, f.Topic, f.Partition}
		// next OffsetFetch answer for the same client/partition bounds the window
		next := int64(1) << 62
		for _, g := range fetches[i+1:] {
			if g.ClientID == f.ClientID && g.Topic == f.Topic && g.Partition == f.Partition {
				next = g.Seq
				break
			}
		}
		for _, ev := range fetchReqs[fk] {
			if ev.Seq > f.Seq && ev.Seq < next {
				got := fetchOffsetOf(ev)
				ok := false
				for _, w := range resolved(f, ev.Seq) {
					if got == w {
						ok = true
					}
				}
				if !ok {
					k.Viol("c03:resume-offset", fmt.Sprintf("%s was told offset %d for %s/%d by the coordinator but its first fetch asks for offset %d", f.ClientID, f.Offset, f.Topic, f.Partition, got), witness(nil))
				}
				break
			}
		}
	}
	// G3 application-side: per reader+partition, consecutive runs; run starts justified by an OffsetFetch answer
	lastOf := map[string]gDelivery{}
	for _, d := range deliveries {
		key := fmt.Sprintf("%s|%s/%d", d.Reader, d.Topic, d.Partition)
		prev, had := lastOf[key]
		lastOf[key] = d
		if had && d.Offset == prev.Offset+1 {
			continue
		}
		// run start: some OffsetFetch answer to this reader for this partition between the previous delivery and this one
		ok := false
		for _, f := range fetches {
			if f.ClientID == d.Reader && f.Topic == d.Topic && int(f.Partition) == d.Partition && f.Seq < d.Seq && (!had || f.Seq > prev.CallSeq) {
				for _, w := range resolved(f, d.Seq) {
					if w == d.Offset {
						ok = true
					}
				}
			}
		}
		if !ok && had && d.Offset <= prev.Offset {
			// going back inside an assignment is a duplicate, which at-least-once delivery permits:
			// the statement only forbids gaps. Counted as evidence.
			c.Count("backward_restarts_without_new_assignment", 1)
			continue
		}
		if !ok {
			kind := "c03:gap"
			k.Viol(kind, fmt.Sprintf("reader %s got %s/%d offset %d after offset %v without an assignment at that offset", d.Reader, d.Topic, d.Partition, d.Offset, func() any {
				if had {
					return prev.Offset
				}
				return "none"
			}()), witness(map[string]any{"delivery": fmt.Sprintf("call@%d ret@%d", d.CallSeq, d.Seq), "previous": fmt.Sprintf("off%d call@%d ret@%d", prev.Offset, prev.CallSeq, prev.Seq), "offsetfetch_answers": func() []string {
				var out []string
				for _, f := range fetches {
					if f.ClientID == d.Reader && f.Topic == d.Topic && int(f.Partition) == d.Partition {
						out = append(out, fmt.Sprintf("@%d:%d", f.Seq, f.Offset))
					}
				}
				return out
			}(), "commits": func() []string {
				var out []string
				for _, cm := range commits {
					if cm.Topic == d.Topic && int(cm.Partition) == d.Partition {
						out = append(out, fmt.Sprintf("@%d:%s:g%d:%d", cm.Seq, cm.ClientID, cm.Generation, cm.Offset))
					}
				}
				return out
			}()}))
			break
		}
	}
	// G4: at-least-once: every record below an acked commit was delivered to some application before the commit
	firstDelivery := map[string]int64{}
	for _, d := range deliveries {
		key := fmt.Sprintf("%s/%d/%d", d.Topic, d.Partition, d.Offset)
		seq := d.Seq
		if cfg.CommitMode == "readmessage" {
			// ReadMessage commits before it returns: the record counts as handed over from the start of the call
			seq = d.CallSeq
		}
		if s, ok := firstDelivery[key]; !ok || seq < s {
			firstDelivery[key] = seq
		}
	}
	// resume positions: the first fetch a member issues for a partition after an OffsetFetch answer
	type runStart struct {
		seq, off int64
		fresh    bool // the answer was -1: position taken from StartOffset
	}
	runStarts := map[string][]runStart{}
	for i, f := range fetches {
		fk := fkey{f.ClientID, f.Topic, f.Partition}
		next := int64(1) << 62
		for _, g := range fetches[i+1:] {
			if g.ClientID == f.ClientID && g.Topic == f.Topic && g.Partition == f.Partition {
				next = g.Seq
				break
			}
		}
		for _, ev := range fetchReqs[fk] {
			if ev.Seq > f.Seq && ev.Seq < next {
				key := fmt.Sprintf("%s/%d", f.Topic, f.Partition)
				runStarts[key] = append(runStarts[key], runStart{ev.Seq, fetchOffsetOf(ev), f.Offset < 0})
				break
			}
		}
	}
	for _, cm := range commits {
		bad := false
		// records between the partition's latest resume position and the committed offset must have been
		// delivered; what lies below that position was covered by the commit it resumed from (or skipped by
		// StartOffset, as the statement allows when there is no commit)
		from := baseOf(cm.Topic, int(cm.Partition))
		var latest int64 = -1
		for _, rs := range runStarts[fmt.Sprintf("%s/%d", cm.Topic, cm.Partition)] {
			if rs.seq < cm.Seq && rs.seq > latest {
				latest = rs.seq
				from = rs.off
			}
		}
		for o := from; o < cm.Offset; o++ {
			s, ok := firstDelivery[fmt.Sprintf("%s/%d/%d", cm.Topic, cm.Partition, o)]
			if !ok || s > cm.Seq {
				k.Viol("c03:commit-covers-undelivered", fmt.Sprintf("acknowledged commit of offset %d for %s/%d (by %s) covers offset %d which no application had received at that point", cm.Offset, cm.Topic, cm.Partition, cm.ClientID, o), witness(nil))
				bad = true
				break
			}
		}
		if bad {
			break
		}
	}
	// G5
	if !progressOK {
		select {
		case <-k.Cancelled:
		default:
			var mt string
			var mp int
			var mo int64
			if i := strings.LastIndex(missing, "/"); i > 0 {
				fmt.Sscanf(missing[i+1:], "%d", &mo)
				rest := missing[:i]
				if j := strings.LastIndex(rest, "/"); j > 0 {
					mt = rest[:j]
					fmt.Sscanf(rest[j+1:], "%d", &mp)
				}
			}
			var fr, of, as []string
			for fk, evs := range fetchReqs {
				if fk.topic == mt && int(fk.part) == mp {
					for i, ev := range evs {
						if i < 6 || i >= len(evs)-3 {
							fr = append(fr, fmt.Sprintf("%s@%d:off%d", fk.client, ev.Seq, fetchOffsetOf(ev)))
						}
					}
				}
			}
			for _, f := range fetches {
				if f.Topic == mt && int(f.Partition) == mp {
					of = append(of, fmt.Sprintf("%s@%d:%d", f.ClientID, f.Seq, f.Offset))
				}
			}
			for gen, byMember := range asg {
				for m, tps := range byMember {
					for _, p := range tps[mt] {
						if int(p) == mp {
							as = append(as, fmt.Sprintf("g%d:%s", gen, m))
						}
					}
				}
			}
			sortStrings(as)
			libStacks := stuckStacks
			k.Viol("c03:not-delivered", fmt.Sprintf("after the script ended, %d further requests were served (budget %d) but record %s was never delivered to any member", reqCount()-startReq, budget, missing),
				witness(map[string]any{"fetch_requests_for_partition": fr, "offsetfetch_answers_for_partition": of, "assigned_to": as, "lib_goroutines": libStacks}))
		}
	}
	// in-situ C14 check on every assignment the elected leader sent
	for gen, byMember := range asg {
		seen := map[string]string{}
		for m, tps := range byMember {
			for t, ps := range tps {
				for _, p := range ps {
					key := fmt.Sprintf("%s/%d", t, p)
					if o, dup := seen[key]; dup {
						k.Viol("c03:partition-assigned-twice", fmt.Sprintf("generation %d: %s assigned to %s and %s", gen, key, o, m), nil)
					}
					seen[key] = m
				}
			}
		}
	}
	redeliveries := 0
	seenD := map[string]bool{}
	for _, d := range deliveries {
		key := fmt.Sprintf("%s/%d/%d", d.Topic, d.Partition, d.Offset)
		if seenD[key] {
			redeliveries++
		}
		seenD[key] = true
	}
	c.Count("generations_formed", int64(gens))
	c.Count("commits_acked", int64(len(commits)))
	c.Count("deliveries", int64(len(deliveries)))
	c.Count("redeliveries", int64(redeliveries))
	c.Count("coordinator_faults_fired", int64(atomic.LoadInt32(&faultsFired)))
	if gens >= 2 || atomic.LoadInt32(&faultsFired) > 0 {
		var ek, fk []string
		for e := range eventKinds {
			ek = append(ek, e)
		}
		fkMu.Lock()
		for f := range faultKinds {
			fk = append(fk, f)
		}
		fkMu.Unlock()
		sortStrings(ek)
		sortStrings(fk)
		gb := gens
		if gb > 6 {
			gb = 6
		}
		c.Distinct(fmt.Sprintf("r%d t%v %s each%d last%v | %s | %s | g%d", cfg.Readers, cfg.Topics, cfg.CommitMode, cfg.CommitEach, cfg.StartLast, strings.Join(ek, ","), strings.Join(fk, ","), gb))
	}
	if k.Idx < 8 && gens >= 2 {
		c.Sample(map[string]any{"case": k.ID, "config": cfg.desc(), "observed": witness(map[string]any{"deliveries": len(deliveries), "commits": len(commits), "redeliveries": redeliveries})})
	}
}
