package props

import (
	"context"
	"errors"
	"fmt"
	"sort"
	"sync"
	"time"

	kafka "github.com/segmentio/kafka-go"

	"verifharness/core"
	"verifharness/fakecluster"
	"verifharness/fakenet"
	"verifharness/refcodec"
)

// C19 — Offset and metadata queries report exactly the brokers' state.

func init() {
	core.Register(&core.Prop{
		ID:    "C19",
		Level: "exploration",
		Rule: "per case a random static cluster state (1..5 brokers with racks and per-broker version caps, 1..4 topics x 1..8 partitions with leaders spread over the brokers, replica/ISR/offline lists, logs with log start != 0, empty logs, gaps, timestamp ties and non-monotonic stretches, committed offsets per group) is installed in the fake cluster, then a batch of queries runs against it and every returned value is compared with the state: " +
			"kafka.Conn (DialLeader / Dial): ReadFirstOffset, ReadLastOffset, ReadOffsets, ReadOffset(t), a Seek sequence against a model written from the doc comment of Seek (verified through Conn.Offset), ReadPartitions with 0/1/many topics, Brokers, Controller; " +
			"kafka.Client over a Transport: ListOffsets spanning topics x partitions x {first,last,times} over several leaders, Metadata (all / filter with unknown topics), OffsetFetch (listed / all), OffsetCommit (store checked afterwards), ConsumerOffsets; " +
			"then one injected per-partition failure (error code in the sub-request / response entry of ONE partition, unknown partition, or the leader of some partitions unreachable): that partition must carry an error, every other partition must be reported exactly as in state. " +
			"signature = (path, query kind, negotiated version, #topics/#partitions/#leaders bucket, injection kind); non-trivial = at least 2 partitions in the query or an injected failure",
		Assumptions: []string{
			"the state is static while a query batch runs (only the check's own OffsetCommit calls change it), so 'state when the request was served' is unambiguous",
			"the fake cluster answers a timestamp lookup with the first record at or above the log start whose timestamp is >= t; the oracle recomputes this from the generated state, not from the fake cluster's answer",
			"the order of partitions, topics and brokers in a result is not part of the claim; the order inside a replica / ISR / offline list is",
		},
		Shards:          16,
		CaseTimeout:     60 * time.Second,
		HangIsViolation: false,
		Run:             runC19,
	})
}

type c19Rec struct{ Off, Ts int64 }

type c19Part struct {
	Topic    string
	ID       int32
	Leader   int32
	Replicas []int32
	ISR      []int32
	Offline  []int32
	Start    int64
	End      int64
	Recs     []c19Rec
	Err      int16
}

type c19Broker struct {
	ID             int32
	Rack           string
	LO, MD, OF, OC int
}

type c19State struct {
	Brokers    []c19Broker
	Controller int32
	Names      []string
	Topics     map[string][]*c19Part
	Groups     []string
	Committed  map[string]map[string]int64
	Exotic     map[string]bool
}

func c19Key(topic string, p int32) string { return fmt.Sprintf("%s/%d", topic, p) }

// at answers a ListOffsets timestamp lookup from the state.
func (p *c19Part) at(ts int64) (off, rts int64) {
	switch ts {
	case -1:
		return p.End, -1
	case -2:
		return p.Start, -1
	}
	for _, r := range p.Recs {
		if r.Off >= p.Start && r.Ts >= ts {
			return r.Off, r.Ts
		}
	}
	return -1, -1
}

func (s *c19State) part(topic string, id int32) *c19Part {
	ps := s.Topics[topic]
	if id < 0 || int(id) >= len(ps) {
		return nil
	}
	return ps[id]
}

func (s *c19State) committed(group, topic string, p int32) int64 {
	if o, ok := s.Committed[group][c19Key(topic, p)]; ok {
		return o
	}
	return -1
}

// broker renders a broker id the way the Partition doc comment demands: full
// record when known, otherwise a placeholder that carries only the ID.
func (s *c19State) broker(id int32) kafka.Broker {
	for _, b := range s.Brokers {
		if b.ID == id {
			return kafka.Broker{Host: fmt.Sprintf("b%d", id), Port: 9092, ID: int(id), Rack: b.Rack}
		}
	}
	return kafka.Broker{ID: int(id)}
}

func (s *c19State) brokers(ids []int32) []kafka.Broker {
	out := make([]kafka.Broker, len(ids))
	for i, id := range ids {
		out[i] = s.broker(id)
	}
	return out
}

func (s *c19State) known(id int32) bool {
	for _, b := range s.Brokers {
		if b.ID == id {
			return true
		}
	}
	return false
}

func (s *c19State) allParts() []*c19Part {
	var out []*c19Part
	for _, n := range s.Names {
		out = append(out, s.Topics[n]...)
	}
	return out
}

func (s *c19State) leaders(parts []*c19Part) int {
	m := map[int32]bool{}
	for _, p := range parts {
		m[p.Leader] = true
	}
	return len(m)
}

var c19TopicPool = []string{"a", "a.b", "ab", "b", "t", "t-1", "t-10", "t-2", "ta", "tb", "topic", "z", "zz"}
var c19BrokerIDs = []int32{0, 1, 2, 3, 4, 5, 7, 11, 100, 1001}

func c19Gen(r *core.Rand) *c19State {
	s := &c19State{Topics: map[string][]*c19Part{}, Committed: map[string]map[string]int64{}, Exotic: map[string]bool{}}
	nb := core.Pick(r, 1, 2, 3, 3, 4, 5)
	perm := r.Perm(len(c19BrokerIDs))
	for i := 0; i < nb; i++ {
		b := c19Broker{ID: c19BrokerIDs[perm[i]], LO: r.Range(1, 5), MD: r.Range(1, 8), OF: r.Range(1, 5), OC: r.Range(2, 7)}
		if r.Chance(2, 3) {
			b.Rack = fmt.Sprintf("rack-%d", r.Intn(3))
		}
		s.Brokers = append(s.Brokers, b)
	}
	sort.Slice(s.Brokers, func(i, j int) bool { return s.Brokers[i].ID < s.Brokers[j].ID })
	s.Controller = s.Brokers[r.Intn(nb)].ID
	var unknownIDs []int32
	for i := nb; i < len(perm); i++ {
		unknownIDs = append(unknownIDs, c19BrokerIDs[perm[i]])
	}
	if r.Chance(1, 5) {
		s.Exotic["unknown-replica"] = true
	}
	if r.Chance(1, 8) {
		s.Exotic["leaderless"] = true
	}
	if r.Chance(1, 8) {
		s.Exotic["partition-error"] = true
	}
	nt := core.Pick(r, 1, 2, 2, 3, 3, 4)
	tperm := r.Perm(len(c19TopicPool))
	for i := 0; i < nt; i++ {
		s.Names = append(s.Names, c19TopicPool[tperm[i]])
	}
	sort.Strings(s.Names)
	for _, name := range s.Names {
		np := core.Pick(r, 1, 2, 3, 4, 5, 6, 8)
		for pi := 0; pi < np; pi++ {
			p := &c19Part{Topic: name, ID: int32(pi), Leader: s.Brokers[r.Intn(nb)].ID}
			// replicas: leader first or somewhere, plus a random subset of the others
			p.Replicas = []int32{p.Leader}
			for _, b := range s.Brokers {
				if b.ID != p.Leader && r.Chance(3, 5) {
					p.Replicas = append(p.Replicas, b.ID)
				}
			}
			if len(p.Replicas) > 1 && r.Chance(1, 2) {
				j := r.Intn(len(p.Replicas))
				p.Replicas[0], p.Replicas[j] = p.Replicas[j], p.Replicas[0]
			}
			for _, id := range p.Replicas {
				if id == p.Leader || r.Chance(1, 2) {
					p.ISR = append(p.ISR, id)
				} else if r.Chance(2, 3) {
					p.Offline = append(p.Offline, id)
				}
			}
			if len(p.ISR) > 1 && r.Chance(1, 2) {
				p.ISR[0], p.ISR[len(p.ISR)-1] = p.ISR[len(p.ISR)-1], p.ISR[0]
			}
			// log
			n := core.Pick(r, 0, 0, 1, 2, 3, 5, 8, 12)
			start := core.Pick(r, int64(0), int64(0), int64(r.Intn(50)), int64(1000+r.Intn(1000)), int64(1)<<33+int64(r.Intn(100)))
			p.Start = start
			off := start + int64(core.Pick(r, 0, 0, 0, 1, 3))
			ts := tsBase + int64(r.Intn(1000))
			for i := 0; i < n; i++ {
				switch r.Intn(6) {
				case 0: // tie
				case 1:
					ts -= int64(1 + r.Intn(20)) // non-monotonic
				case 2:
					ts += int64(100 + r.Intn(1000))
				default:
					ts += int64(1 + r.Intn(10))
				}
				p.Recs = append(p.Recs, c19Rec{off, ts})
				off++
				if r.Chance(1, 6) {
					off += int64(1 + r.Intn(3))
				}
			}
			p.End = off
			if n == 0 {
				p.End = start
			}
			s.Topics[name] = append(s.Topics[name], p)
		}
	}
	all := s.allParts()
	if s.Exotic["unknown-replica"] && len(unknownIDs) > 0 {
		for k := 0; k < 1+r.Intn(2); k++ {
			p := all[r.Intn(len(all))]
			id := unknownIDs[r.Intn(len(unknownIDs))]
			p.Replicas = append(p.Replicas, id)
			switch r.Intn(3) {
			case 0:
				p.ISR = append(p.ISR, id)
			case 1:
				p.Offline = append(p.Offline, id)
			}
		}
	}
	if s.Exotic["leaderless"] {
		p := all[r.Intn(len(all))]
		p.Leader, p.Err = -1, 5
		p.ISR = nil
	}
	if s.Exotic["partition-error"] {
		p := all[r.Intn(len(all))]
		if p.Err == 0 {
			p.Err = 9
		}
	}
	// committed offsets
	ng := r.Range(1, 3)
	for g := 0; g < ng; g++ {
		name := core.Pick(r, "g", "grp", "group-x", "g2", "consumers")
		if s.Committed[name] != nil {
			continue
		}
		s.Groups = append(s.Groups, name)
		s.Committed[name] = map[string]int64{}
		mode := r.Intn(4) // 0: nothing committed
		for _, p := range all {
			if mode != 0 && r.Chance(mode, 4) {
				s.Committed[name][c19Key(p.Topic, p.ID)] = p.Start + int64(r.Intn(int(p.End-p.Start)+3))
			}
		}
	}
	return s
}

func (s *c19State) describe() map[string]any {
	var ts []string
	for _, n := range s.Names {
		str := n + ":"
		for _, p := range s.Topics[n] {
			str += fmt.Sprintf(" %d@b%d[%d,%d)", p.ID, p.Leader, p.Start, p.End)
		}
		ts = append(ts, str)
	}
	var bs []string
	for _, b := range s.Brokers {
		bs = append(bs, fmt.Sprintf("%d(%s lo%d md%d of%d oc%d)", b.ID, b.Rack, b.LO, b.MD, b.OF, b.OC))
	}
	var ex []string
	for k := range s.Exotic {
		ex = append(ex, k)
	}
	sort.Strings(ex)
	return map[string]any{"brokers": bs, "controller": s.Controller, "topics": ts, "groups": s.Groups, "exotic": ex}
}

func c19OffsetMeta(topic string, p int32, off int64) string {
	if off < 0 {
		return ""
	}
	return fmt.Sprintf("m:%s/%d@%d", topic, p, off)
}

type c19Fault struct {
	Kind      string // lo-error | of-error | oc-error | conn-lo-error
	Topic     string
	Partition int32
	Code      int16
	hits      int
	// OnlyEarliest: of the several lookups of the partition in one request (first offset, last offset,
	// times: one sub-request each) only the first-offset lookup is answered with the error
	OnlyEarliest bool
}

type c19Env struct {
	k     *core.Case
	s     *c19State
	net   *fakenet.Net
	cl    *fakecluster.Cluster
	mu    sync.Mutex
	fault *c19Fault
	// statistics
	parts int64
}

func (e *c19Env) coordinator(group string) int32 {
	return e.s.Brokers[int(core.HashString(group)%uint64(len(e.s.Brokers)))].ID
}

func (e *c19Env) setFault(f *c19Fault) {
	e.mu.Lock()
	e.fault = f
	e.mu.Unlock()
}

func (e *c19Env) faultHits() int {
	e.mu.Lock()
	defer e.mu.Unlock()
	if e.fault == nil {
		return 0
	}
	return e.fault.hits
}

func c19Install(k *core.Case, s *c19State) *c19Env {
	e := &c19Env{k: k, s: s}
	e.net = fakenet.New()
	e.cl = fakecluster.New(e.net)
	for _, b := range s.Brokers {
		fb := e.cl.AddBroker(b.ID, b.Rack)
		set := func(api, max int) {
			v := fb.Versions[api]
			v.Max = max
			fb.Versions[api] = v
		}
		set(fakecluster.KListOffsets, b.LO)
		set(fakecluster.KMetadata, b.MD)
		set(fakecluster.KOffsetFetch, b.OF)
		set(fakecluster.KOffsetCommit, b.OC)
	}
	for _, n := range s.Names {
		ps := s.Topics[n]
		e.cl.AddTopic(n, len(ps), func(p int) int32 { return ps[p].Leader })
	}
	e.cl.Lock()
	e.cl.Controller = s.Controller
	e.cl.CoordinatorOf = e.coordinator
	for _, n := range s.Names {
		for i, p := range s.Topics[n] {
			fp := e.cl.Topics[n].Partitions[i]
			fp.Leader = p.Leader
			fp.Replicas = append([]int32(nil), p.Replicas...)
			fp.ISR = append([]int32(nil), p.ISR...)
			fp.Offline = append([]int32(nil), p.Offline...)
			fp.Start, fp.End = p.Start, p.End
			fp.ErrorCode = p.Err
			fp.Records = nil
			for _, r := range p.Recs {
				fp.Records = append(fp.Records, refcodec.Rec{Offset: r.Off, TimestampMs: r.Ts, Value: []byte("v")})
			}
		}
	}
	e.cl.Unlock()
	for g, m := range s.Committed {
		for key, off := range m {
			var t string
			var p int32
			for i := len(key) - 1; i >= 0; i-- {
				if key[i] == '/' {
					t = key[:i]
					fmt.Sscanf(key[i+1:], "%d", &p)
					break
				}
			}
			e.cl.SeedCommitted(g, t, p, off)
		}
	}
	e.cl.SetScript(e.script)
	return e
}

func (e *c19Env) script(rc *fakecluster.ReqCtx) *fakecluster.Action {
	e.mu.Lock()
	f := e.fault
	e.mu.Unlock()
	switch rc.Ev.API {
	case fakecluster.KListOffsets:
		if f != nil && (f.Kind == "lo-error" || f.Kind == "conn-lo-error") {
			want := "c19-tr"
			if f.Kind == "conn-lo-error" {
				want = "c19-conn"
			}
			if rc.Ev.ClientID != want {
				return nil
			}
			for _, t := range refcodec.Arr(rc.Body["Topics"]) {
				tm := refcodec.Map(t)
				if refcodec.Str(tm["Name"]) != f.Topic {
					continue
				}
				for _, p := range refcodec.Arr(tm["Partitions"]) {
					if int32(refcodec.Int(refcodec.Map(p)["PartitionIndex"])) == f.Partition {
						if f.OnlyEarliest && refcodec.Int(refcodec.Map(p)["Timestamp"]) != -2 {
							continue
						}
						e.mu.Lock()
						f.hits++
						e.mu.Unlock()
						return &fakecluster.Action{Kind: fakecluster.ActError, Code: f.Code}
					}
				}
			}
		}
	case fakecluster.KOffsetFetch:
		return &fakecluster.Action{Mutate: func(resp map[string]any) {
			for _, t := range refcodec.Arr(resp["Topics"]) {
				tm := refcodec.Map(t)
				name := refcodec.Str(tm["Name"])
				for _, p := range refcodec.Arr(tm["Partitions"]) {
					pm := refcodec.Map(p)
					idx := int32(refcodec.Int(pm["PartitionIndex"]))
					pm["Metadata"] = c19OffsetMeta(name, idx, refcodec.Int(pm["CommittedOffset"]))
					if f != nil && f.Kind == "of-error" && f.Topic == name && f.Partition == idx {
						pm["ErrorCode"] = int64(f.Code)
						pm["CommittedOffset"] = int64(-1)
						pm["Metadata"] = ""
						e.mu.Lock()
						f.hits++
						e.mu.Unlock()
					}
				}
			}
		}}
	case fakecluster.KOffsetCommit:
		if f != nil && f.Kind == "oc-error" {
			return &fakecluster.Action{Mutate: func(resp map[string]any) {
				for _, t := range refcodec.Arr(resp["Topics"]) {
					tm := refcodec.Map(t)
					for _, p := range refcodec.Arr(tm["Partitions"]) {
						pm := refcodec.Map(p)
						if refcodec.Str(tm["Name"]) == f.Topic && int32(refcodec.Int(pm["PartitionIndex"])) == f.Partition {
							pm["ErrorCode"] = int64(f.Code)
							e.mu.Lock()
							f.hits++
							e.mu.Unlock()
						}
					}
				}
			}}
		}
	}
	return nil
}

func (e *c19Env) bucket(parts []*c19Part) string {
	ts := map[string]bool{}
	for _, p := range parts {
		ts[p.Topic] = true
	}
	b := func(n int) string {
		switch {
		case n <= 1:
			return "1"
		case n <= 3:
			return "2-3"
		case n <= 8:
			return "4-8"
		}
		return "9+"
	}
	return fmt.Sprintf("t%s/p%s/l%s", b(len(ts)), b(len(parts)), b(e.s.leaders(parts)))
}

func (e *c19Env) sig(path, kind string, ver int, parts []*c19Part, inj string) {
	e.k.Count("queries:"+kind, 1)
	if len(parts) >= 2 || inj != "" {
		e.k.Distinct(fmt.Sprintf("%s %s v%d %s %s", path, kind, ver, e.bucket(parts), inj))
	}
}

// lastVersion returns the version of the last request of the API sent by the client id.
func (e *c19Env) lastVersion(api int, clientID string) int {
	j := e.cl.Journal()
	for i := len(j) - 1; i >= 0; i-- {
		if j[i].API == api && j[i].ClientID == clientID {
			return j[i].Version
		}
	}
	return -1
}

func c19IsDeadline(err error) bool {
	return errors.Is(err, context.DeadlineExceeded) || fakenet.IsTimeout(err)
}

// unexpected reports an error from a query that had no reason to fail.
func (e *c19Env) unexpected(key, what string, err error) {
	if c19IsDeadline(err) {
		e.k.TimeViol(key+":timeout", fmt.Sprintf("%s did not complete within its 10 s budget: %v", what, err), nil)
		return
	}
	e.k.Viol(key+":unexpected-error", fmt.Sprintf("%s failed although nothing was injected and the state is available: %v", what, err), nil)
}

func c19BrokersEqual(exp, got []kafka.Broker) (equal, onlyUnknown bool) {
	if len(exp) != len(got) {
		return false, false
	}
	equal, onlyUnknown = true, true
	for i := range exp {
		if exp[i] != got[i] {
			equal = false
			if exp[i].Host != "" {
				onlyUnknown = false
			}
		}
	}
	return equal, onlyUnknown && !equal
}
