package fakecluster

import (
	"fmt"
	"sort"
	"sync"
	"time"

	"verifharness/core"
	"verifharness/refcodec"
)

// Group coordinator: the state machine of the Kafka group coordinator
// (Empty / PreparingRebalance / CompletingRebalance / Stable), generation
// counter, leader election, join and sync barriers, heartbeat answers,
// generation-checked commits and the committed-offset store. Membership
// expiry and forced rebalances are driven by the scenario (GroupEvict,
// GroupRebalance), not by session timers; the only timer is JoinWindow, the
// short delay a coordinator waits for further joiners before it completes a
// join round.

type GroupState string

const (
	GroupEmpty               GroupState = "Empty"
	GroupPreparingRebalance  GroupState = "PreparingRebalance"
	GroupCompletingRebalance GroupState = "CompletingRebalance"
	GroupStable              GroupState = "Stable"
)

type Member struct {
	ID        string
	ClientID  string
	Protocols []refcodecProtocol
	// joined in the current join round
	joined   bool
	synced   bool
	JoinedAt int64
	// session bookkeeping (wall clock, as a real coordinator does)
	lastSeen       time.Time
	sessionTimeout time.Duration
	rebalanceTO    time.Duration
}

type refcodecProtocol struct {
	Name     string
	Metadata []byte
}

type GroupCommit struct {
	Seq        int64
	MemberID   string
	Generation int32
	Topic      string
	Partition  int32
	Offset     int64
	ClientID   string
}

type GroupFetch struct {
	Seq       int64
	ClientID  string
	Topic     string
	Partition int32
	Offset    int64 // -1 = none committed
}

type GroupEvent struct {
	Seq        int64
	Kind       string // join-complete | sync-complete | leave | evict | rebalance-forced | heartbeat-error
	Generation int32
	MemberID   string
	Detail     string
}

type Group struct {
	ID          string
	State       GroupState
	Generation  int32
	Members     map[string]*Member
	Leader      string
	Protocol    string
	Assignments map[string][]byte
	Committed   map[string]int64 // "topic/partition" -> offset
	nextMember  int
	cond        *sync.Cond
	joinStarted time.Time
	// history for the monitors
	Commits []GroupCommit
	Fetches []GroupFetch
	Events  []GroupEvent
	// AssignmentsByGen: generation -> member -> decoded assignment (topic -> partitions)
	AssignmentsByGen map[int32]map[string]map[string][]int32
}

// JoinWindow is how long a join round stays open for further joiners after
// the first JoinGroup arrived (all known members rejoining closes it at once).
var JoinWindow = 3 * time.Millisecond

func (c *Cluster) groupLocked(id string) *Group {
	g := c.Groups[id]
	if g == nil {
		g = &Group{ID: id, State: GroupEmpty, Members: map[string]*Member{}, Committed: map[string]int64{}, AssignmentsByGen: map[int32]map[string]map[string][]int32{}}
		g.cond = sync.NewCond(&c.mu)
		c.Groups[id] = g
	}
	return g
}

// Group returns a snapshot copy of the group's history (commits, fetches, events).
func (c *Cluster) GroupHistory(id string) (commits []GroupCommit, fetches []GroupFetch, events []GroupEvent, assignments map[int32]map[string]map[string][]int32) {
	c.mu.Lock()
	defer c.mu.Unlock()
	g := c.Groups[id]
	if g == nil {
		return
	}
	assignments = map[int32]map[string]map[string][]int32{}
	for gen, m := range g.AssignmentsByGen {
		assignments[gen] = m
	}
	return append([]GroupCommit(nil), g.Commits...), append([]GroupFetch(nil), g.Fetches...), append([]GroupEvent(nil), g.Events...), assignments
}

func (c *Cluster) GroupSnapshot(id string) (state GroupState, gen int32, members []string) {
	c.mu.Lock()
	defer c.mu.Unlock()
	g := c.Groups[id]
	if g == nil {
		return GroupEmpty, 0, nil
	}
	for m := range g.Members {
		members = append(members, m)
	}
	sort.Strings(members)
	return g.State, g.Generation, members
}

// GroupCommitted returns the committed offset (-1 if none).
func (c *Cluster) GroupCommitted(id, topic string, part int32) int64 {
	c.mu.Lock()
	defer c.mu.Unlock()
	g := c.Groups[id]
	if g == nil {
		return -1
	}
	if o, ok := g.Committed[fmt.Sprintf("%s/%d", topic, part)]; ok {
		return o
	}
	return -1
}

// GroupEvict removes a member as a session expiry would (scenario trigger).
func (c *Cluster) GroupEvict(id, member string) {
	c.mu.Lock()
	defer c.mu.Unlock()
	g := c.Groups[id]
	if g == nil || g.Members[member] == nil {
		return
	}
	delete(g.Members, member)
	g.Events = append(g.Events, GroupEvent{Seq: core.Tick(), Kind: "evict", Generation: g.Generation, MemberID: member})
	c.prepareRebalanceLocked(g, "evict "+member)
}

// GroupEvictClient evicts the member(s) whose client id matches.
func (c *Cluster) GroupEvictClient(id, clientID string) {
	c.mu.Lock()
	var ids []string
	if g := c.Groups[id]; g != nil {
		for _, m := range g.Members {
			if m.ClientID == clientID {
				ids = append(ids, m.ID)
			}
		}
	}
	c.mu.Unlock()
	for _, m := range ids {
		c.GroupEvict(id, m)
	}
}

// GroupRebalance forces a rebalance (as a metadata change or a new member would).
func (c *Cluster) GroupRebalance(id string) {
	c.mu.Lock()
	defer c.mu.Unlock()
	g := c.Groups[id]
	if g == nil {
		return
	}
	g.Events = append(g.Events, GroupEvent{Seq: core.Tick(), Kind: "rebalance-forced", Generation: g.Generation})
	c.prepareRebalanceLocked(g, "forced")
}

// expireLocked applies the two timers a real coordinator has: members that
// did not show up for their session timeout are removed, and a join round
// that has been open for the rebalance timeout is completed without the
// members that did not rejoin.
func (c *Cluster) expireLocked(g *Group) {
	now := time.Now()
	for id, m := range g.Members {
		if m.sessionTimeout > 0 && g.State != GroupPreparingRebalance && now.Sub(m.lastSeen) > m.sessionTimeout {
			delete(g.Members, id)
			g.Events = append(g.Events, GroupEvent{Seq: core.Tick(), Kind: "session-expired", Generation: g.Generation, MemberID: id})
			c.prepareRebalanceLocked(g, "session expired "+id)
		}
	}
	if g.State == GroupPreparingRebalance {
		var to time.Duration
		for _, m := range g.Members {
			if m.rebalanceTO > to {
				to = m.rebalanceTO
			}
		}
		if to > 0 && now.Sub(g.joinStarted) > to {
			for id, m := range g.Members {
				if !m.joined {
					delete(g.Members, id)
					g.Events = append(g.Events, GroupEvent{Seq: core.Tick(), Kind: "rebalance-timeout-removed", Generation: g.Generation, MemberID: id})
				}
			}
			if len(g.Members) == 0 {
				g.State = GroupEmpty
			}
			g.cond.Broadcast()
		}
	}
}

func (c *Cluster) touchLocked(gid, mid string) {
	if g := c.Groups[gid]; g != nil {
		if m := g.Members[mid]; m != nil {
			m.lastSeen = time.Now()
		}
	}
}

func (c *Cluster) prepareRebalanceLocked(g *Group, why string) {
	if len(g.Members) == 0 {
		g.State = GroupEmpty
		g.cond.Broadcast()
		return
	}
	if g.State != GroupPreparingRebalance {
		g.State = GroupPreparingRebalance
		g.joinStarted = time.Now()
		for _, m := range g.Members {
			m.joined = false
			m.synced = false
		}
	}
	g.cond.Broadcast()
}

func (c *Cluster) coordinatorLocked(key string) *Broker {
	if c.CoordinatorOf != nil {
		if b := c.Brokers[c.CoordinatorOf(key)]; b != nil {
			return b
		}
	}
	return c.Brokers[c.Controller]
}

func decodeAssignment(b []byte) map[string][]int32 {
	// consumer protocol assignment: version int16, topics [ {topic string, partitions []int32} ], userdata bytes
	r := &refcodec.R{B: b}
	r.I16()
	n := r.I32()
	out := map[string][]int32{}
	for i := int64(0); i < n && r.Err == nil; i++ {
		tl := r.I16()
		if tl < 0 || int(tl) > r.Remain() {
			break
		}
		topic := string(r.B[r.Off : r.Off+int(tl)])
		r.Off += int(tl)
		pn := r.I32()
		var ps []int32
		for j := int64(0); j < pn && r.Err == nil; j++ {
			ps = append(ps, int32(r.I32()))
		}
		out[topic] = ps
	}
	return out
}

func (c *Cluster) groupAPI(rc *ReqCtx) map[string]any {
	b := rc.Body
	switch rc.Ev.API {
	case KFindCoordinator:
		c.mu.Lock()
		defer c.mu.Unlock()
		rc.Ev.Fate = FateServed
		br := c.coordinatorLocked(refcodec.Str(b["Key"]))
		if br == nil {
			return map[string]any{"ErrorCode": int64(15), "NodeId": int64(-1), "Host": "", "Port": int64(-1)}
		}
		return map[string]any{"ErrorCode": int64(0), "NodeId": int64(br.ID), "Host": br.Host, "Port": int64(br.Port)}
	case KJoinGroup:
		return c.joinGroup(rc)
	case KSyncGroup:
		return c.syncGroup(rc)
	case KHeartbeat:
		c.mu.Lock()
		defer c.mu.Unlock()
		rc.Ev.Fate = FateServed
		gid := refcodec.Str(b["GroupId"])
		code := c.checkMemberLocked(rc, gid, refcodec.Str(b["MemberId"]), int32(refcodec.Int(b["GenerationId"])), true)
		if code == 0 {
			g := c.Groups[gid]
			if g.State != GroupStable {
				code = 27
			}
		}
		rc.Ev.Code = int16(code)
		return map[string]any{"ErrorCode": int64(code), "ThrottleTimeMs": int64(0)}
	case KLeaveGroup:
		c.mu.Lock()
		defer c.mu.Unlock()
		rc.Ev.Fate = FateApplied
		gid := refcodec.Str(b["GroupId"])
		mid := refcodec.Str(b["MemberId"])
		if rc.Ev.Version >= 3 {
			for _, m := range refcodec.Arr(b["Members"]) {
				mid = refcodec.Str(refcodec.Map(m)["MemberId"])
			}
		}
		code := int64(0)
		if br := c.coordinatorLocked(gid); br == nil || br.ID != rc.Broker.ID {
			code = 16
		} else if g := c.Groups[gid]; g == nil || g.Members[mid] == nil {
			code = 25
		} else {
			delete(g.Members, mid)
			g.Events = append(g.Events, GroupEvent{Seq: core.Tick(), Kind: "leave", Generation: g.Generation, MemberID: mid})
			c.prepareRebalanceLocked(g, "leave")
		}
		rc.Ev.Code = int16(code)
		return map[string]any{"ErrorCode": code, "ThrottleTimeMs": int64(0), "Members": []any{}}
	case KOffsetCommit:
		return c.offsetCommit(rc)
	case KOffsetFetch:
		return c.offsetFetch(rc)
	}
	rc.Ev.Fate = FateRejected
	return map[string]any{"ErrorCode": int64(15)}
}

// checkMemberLocked validates coordinator / member / generation.
func (c *Cluster) checkMemberLocked(rc *ReqCtx, gid, mid string, gen int32, needGen bool) int64 {
	if br := c.coordinatorLocked(gid); br == nil || br.ID != rc.Broker.ID {
		return 16
	}
	g := c.Groups[gid]
	if g != nil {
		c.expireLocked(g)
	}
	if g == nil || g.Members[mid] == nil {
		return 25
	}
	g.Members[mid].lastSeen = time.Now()
	if needGen && gen != g.Generation {
		return 22
	}
	return 0
}

func (c *Cluster) joinGroup(rc *ReqCtx) map[string]any {
	b := rc.Body
	gid := refcodec.Str(b["GroupId"])
	mid := refcodec.Str(b["MemberId"])
	fail := func(code int64) map[string]any {
		rc.Ev.Code = int16(code)
		rc.Ev.Fate = FateRejected
		return map[string]any{"ErrorCode": code, "GenerationId": int64(-1), "ProtocolName": "", "Leader": "", "MemberId": mid, "Members": []any{}}
	}
	c.mu.Lock()
	defer c.mu.Unlock()
	if br := c.coordinatorLocked(gid); br == nil || br.ID != rc.Broker.ID {
		return fail(16)
	}
	g := c.groupLocked(gid)
	c.expireLocked(g)
	var m *Member
	if mid == "" {
		g.nextMember++
		mid = fmt.Sprintf("%s-%s-%d", rc.Ev.ClientID, gid, g.nextMember)
		m = &Member{ID: mid, ClientID: rc.Ev.ClientID}
		g.Members[mid] = m
	} else if m = g.Members[mid]; m == nil {
		return fail(25)
	}
	m.lastSeen = time.Now()
	m.sessionTimeout = time.Duration(refcodec.Int(b["SessionTimeoutMs"])) * time.Millisecond
	m.rebalanceTO = time.Duration(refcodec.Int(b["RebalanceTimeoutMs"])) * time.Millisecond
	if rc.Ev.Version == 0 {
		m.rebalanceTO = m.sessionTimeout
	}
	m.Protocols = nil
	for _, p := range refcodec.Arr(b["Protocols"]) {
		pm := refcodec.Map(p)
		m.Protocols = append(m.Protocols, refcodecProtocol{Name: refcodec.Str(pm["Name"]), Metadata: refcodec.Bytes(pm["Metadata"])})
	}
	if g.State != GroupPreparingRebalance {
		g.State = GroupPreparingRebalance
		g.joinStarted = time.Now()
		for _, o := range g.Members {
			o.joined = false
			o.synced = false
		}
	}
	m.joined = true
	m.JoinedAt = core.Tick()
	round := g.Generation
	g.cond.Broadcast()
	// barrier: all known members have rejoined and the join window has passed, or the round was completed by someone else
	for {
		if g.Generation != round || g.Members[mid] == nil || c.closed || rc.Conn.ClosedByClient() {
			break
		}
		c.expireLocked(g)
		if g.Members[mid] == nil {
			break
		}
		all := true
		for _, o := range g.Members {
			if !o.joined {
				all = false
			}
			if o.joined {
				o.lastSeen = time.Now() // waiting in the join barrier keeps the session alive
			}
		}
		if all && time.Since(g.joinStarted) >= JoinWindow && g.State == GroupPreparingRebalance {
			// complete the round
			g.Generation++
			g.State = GroupCompletingRebalance
			g.Assignments = nil
			// leader: keep if still there, else the earliest joiner
			if g.Members[g.Leader] == nil {
				var first *Member
				for _, o := range g.Members {
					if first == nil || o.JoinedAt < first.JoinedAt {
						first = o
					}
				}
				g.Leader = first.ID
			}
			// protocol: first of the leader's protocols every member supports
			g.Protocol = ""
			for _, p := range g.Members[g.Leader].Protocols {
				ok := true
				for _, o := range g.Members {
					has := false
					for _, q := range o.Protocols {
						if q.Name == p.Name {
							has = true
						}
					}
					if !has {
						ok = false
					}
				}
				if ok {
					g.Protocol = p.Name
					break
				}
			}
			var ids []string
			for id := range g.Members {
				ids = append(ids, id)
			}
			sort.Strings(ids)
			g.Events = append(g.Events, GroupEvent{Seq: core.Tick(), Kind: "join-complete", Generation: g.Generation, MemberID: g.Leader, Detail: fmt.Sprint(ids)})
			g.cond.Broadcast()
			break
		}
		// wait (bounded naps so that the join window and closed connections are noticed)
		c.mu.Unlock()
		time.Sleep(300 * time.Microsecond)
		c.mu.Lock()
	}
	if g.Members[mid] == nil {
		return fail(25)
	}
	if g.Generation == round {
		// connection gone or cluster closed while waiting
		return fail(27)
	}
	if g.Protocol == "" {
		return fail(23) // INCONSISTENT_GROUP_PROTOCOL
	}
	rc.Ev.Fate = FateApplied
	var members []any
	if mid == g.Leader {
		var ids []string
		for id := range g.Members {
			ids = append(ids, id)
		}
		sort.Strings(ids)
		for _, id := range ids {
			var md []byte
			for _, p := range g.Members[id].Protocols {
				if p.Name == g.Protocol {
					md = p.Metadata
				}
			}
			members = append(members, map[string]any{"MemberId": id, "GroupInstanceId": nil, "Metadata": md})
		}
	}
	if rc.Ev.Extra == nil {
		rc.Ev.Extra = map[string]any{}
	}
	rc.Ev.Extra["generation"] = g.Generation
	rc.Ev.Extra["member"] = mid
	return map[string]any{"ErrorCode": int64(0), "GenerationId": int64(g.Generation), "ProtocolType": "consumer", "ProtocolName": g.Protocol, "Leader": g.Leader, "MemberId": mid, "Members": members}
}

func (c *Cluster) syncGroup(rc *ReqCtx) map[string]any {
	b := rc.Body
	gid := refcodec.Str(b["GroupId"])
	mid := refcodec.Str(b["MemberId"])
	gen := int32(refcodec.Int(b["GenerationId"]))
	fail := func(code int64) map[string]any {
		rc.Ev.Code = int16(code)
		rc.Ev.Fate = FateRejected
		return map[string]any{"ErrorCode": code, "Assignment": []byte{}}
	}
	c.mu.Lock()
	defer c.mu.Unlock()
	if code := c.checkMemberLocked(rc, gid, mid, gen, true); code != 0 {
		return fail(code)
	}
	g := c.Groups[gid]
	if g.State == GroupPreparingRebalance {
		return fail(27)
	}
	if mid == g.Leader && g.State == GroupCompletingRebalance {
		g.Assignments = map[string][]byte{}
		dec := map[string]map[string][]int32{}
		for _, a := range refcodec.Arr(b["Assignments"]) {
			am := refcodec.Map(a)
			id := refcodec.Str(am["MemberId"])
			g.Assignments[id] = refcodec.Bytes(am["Assignment"])
			dec[id] = decodeAssignment(g.Assignments[id])
		}
		g.AssignmentsByGen[g.Generation] = dec
		g.State = GroupStable
		g.Events = append(g.Events, GroupEvent{Seq: core.Tick(), Kind: "sync-complete", Generation: g.Generation, MemberID: mid})
		g.cond.Broadcast()
	}
	// followers wait for the leader's assignment
	for g.State == GroupCompletingRebalance && g.Generation == gen && g.Members[mid] != nil && !c.closed && !rc.Conn.ClosedByClient() {
		g.Members[mid].lastSeen = time.Now()
		c.expireLocked(g)
		c.mu.Unlock()
		time.Sleep(300 * time.Microsecond)
		c.mu.Lock()
	}
	if g.Members[mid] == nil {
		return fail(25)
	}
	if g.Generation != gen || g.State != GroupStable {
		return fail(27)
	}
	g.Members[mid].synced = true
	rc.Ev.Fate = FateApplied
	a := g.Assignments[mid]
	if a == nil {
		a = []byte{}
	}
	return map[string]any{"ErrorCode": int64(0), "ProtocolType": "consumer", "ProtocolName": g.Protocol, "Assignment": a}
}

func (c *Cluster) offsetCommit(rc *ReqCtx) map[string]any {
	b := rc.Body
	gid := refcodec.Str(b["GroupId"])
	mid := refcodec.Str(b["MemberId"])
	gen := int32(refcodec.Int(b["GenerationId"]))
	c.mu.Lock()
	defer c.mu.Unlock()
	code := int64(0)
	if br := c.coordinatorLocked(gid); br == nil || br.ID != rc.Broker.ID {
		code = 16
	} else if rc.Ev.Version >= 1 && gen >= 0 {
		code = c.checkMemberLocked(rc, gid, mid, gen, true)
		if code == 0 && c.Groups[gid].State == GroupCompletingRebalance {
			code = 27
		}
	}
	g := c.groupLocked(gid)
	var topics []any
	for _, t := range refcodec.Arr(b["Topics"]) {
		tm := refcodec.Map(t)
		name := refcodec.Str(tm["Name"])
		var parts []any
		for _, p := range refcodec.Arr(tm["Partitions"]) {
			pm := refcodec.Map(p)
			idx := int32(refcodec.Int(pm["PartitionIndex"]))
			off := refcodec.Int(pm["CommittedOffset"])
			pc := code
			if pc == 0 && c.partLocked(name, idx) == nil {
				pc = 3
			}
			if pc == 0 {
				g.Committed[fmt.Sprintf("%s/%d", name, idx)] = off
				g.Commits = append(g.Commits, GroupCommit{Seq: core.Tick(), MemberID: mid, Generation: gen, Topic: name, Partition: idx, Offset: off, ClientID: rc.Ev.ClientID})
			}
			parts = append(parts, map[string]any{"PartitionIndex": int64(idx), "ErrorCode": pc})
		}
		topics = append(topics, map[string]any{"Name": name, "Partitions": parts})
	}
	rc.Ev.Code = int16(code)
	if code == 0 {
		rc.Ev.Fate = FateApplied
	} else {
		rc.Ev.Fate = FateRejected
	}
	return map[string]any{"ThrottleTimeMs": int64(0), "Topics": topics}
}

func (c *Cluster) offsetFetch(rc *ReqCtx) map[string]any {
	b := rc.Body
	gid := refcodec.Str(b["GroupId"])
	c.mu.Lock()
	defer c.mu.Unlock()
	rc.Ev.Fate = FateServed
	code := int64(0)
	if br := c.coordinatorLocked(gid); br == nil || br.ID != rc.Broker.ID {
		code = 16
	}
	g := c.groupLocked(gid)
	var topics []any
	reqTopics, isArr := b["Topics"].([]any)
	if !isArr || b["Topics"] == nil {
		// all committed offsets of the group
		byTopic := map[string][]int32{}
		for k := range g.Committed {
			var t string
			var p int32
			for i := len(k) - 1; i >= 0; i-- {
				if k[i] == '/' {
					t = k[:i]
					fmt.Sscanf(k[i+1:], "%d", &p)
					break
				}
			}
			byTopic[t] = append(byTopic[t], p)
		}
		var names []string
		for t := range byTopic {
			names = append(names, t)
		}
		sort.Strings(names)
		for _, t := range names {
			ps := byTopic[t]
			sort.Slice(ps, func(i, j int) bool { return ps[i] < ps[j] })
			var idx []any
			for _, p := range ps {
				idx = append(idx, int64(p))
			}
			reqTopics = append(reqTopics, map[string]any{"Name": t, "PartitionIndexes": idx})
		}
	}
	for _, t := range reqTopics {
		tm := refcodec.Map(t)
		name := refcodec.Str(tm["Name"])
		var parts []any
		for _, p := range refcodec.Arr(tm["PartitionIndexes"]) {
			idx := int32(refcodec.Int(p))
			off := int64(-1)
			pc := code
			if pc == 0 {
				if o, ok := g.Committed[fmt.Sprintf("%s/%d", name, idx)]; ok {
					off = o
				}
				if c.partLocked(name, idx) == nil {
					pc = 3
				}
				g.Fetches = append(g.Fetches, GroupFetch{Seq: core.Tick(), ClientID: rc.Ev.ClientID, Topic: name, Partition: idx, Offset: off})
			}
			parts = append(parts, map[string]any{"PartitionIndex": int64(idx), "CommittedOffset": off, "CommittedLeaderEpoch": int64(-1), "Metadata": "", "ErrorCode": pc})
		}
		topics = append(topics, map[string]any{"Name": name, "Partitions": parts})
	}
	rc.Ev.Code = int16(code)
	return map[string]any{"ThrottleTimeMs": int64(0), "Topics": topics, "ErrorCode": code}
}
