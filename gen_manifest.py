#!/usr/bin/env python3
"""Regenerates MANIFEST.json from the table below (claimed checks) and
properties.jsonl (everything else goes under not_applicable with a reason)."""
import json

BASELINE_OFF = json.load(open('/root/.vp/BASELINE.json'))['cmd']

# id -> (level, technique, level text, level_note, design_ref)
CLAIMED = {
 "C13": ("exploration",
         "runtime oracle: independent reference hashes/partitioners + sequential-law monitor + porcupine linearizability check of recorded concurrent Balance histories",
         "Every built-in balancer is executed on generated keys (all lengths 0..67, nil/empty, high-bit, long) x 33 partition counts and compared with independently written FNV-1a/CRC-32/murmur2 + Sarama/librdkafka/Java partitioner formulas; RoundRobin/LeastBytes are checked call by call against their sequential law and, under concurrency, by porcupine on recorded call/return histories. Held on the executions listed in the evidence; not a proof over all keys.",
         "trusted: harness transcriptions of the reference clients' formulas; porcupine v1.3.0; partition lists are contiguous 0..n-1 as a Writer supplies them",
         "DESIGN.md section 5 C13"),
}

REASON_NOT_BUILT = "check not built yet in this round (design in DESIGN.md section 5); no claim is made"

def main():
    props = [json.loads(l) for l in open('properties.jsonl')]
    checks = []
    na = []
    for p in props:
        pid = p['id']
        if pid in CLAIMED:
            level, tech, text, note, ref = CLAIMED[pid]
            checks.append({
                "property_id": pid,
                "quick_cmd": f"./check.sh {pid} quick",
                "thorough_cmd": f"./check.sh {pid} thorough",
                "evidence_file": f"/verif/evidence/{pid}.json",
                "replay_cmd_template": "./check.sh --replay {path}",
                "engine": "verifrun",
                "level_claimed": {"category": level, "text": text, "design_ref": ref},
                "level_note": note,
                "technique": tech,
            })
        else:
            na.append({"property_id": pid, "reason": NA.get(pid, REASON_NOT_BUILT)})
    m = {
        "version": 1,
        "setup_cmd": "./setup.sh",
        "hooks": {
            "guard": "verif",
            "enable": "go build -tags verif (the driver passes -tags verif to every build of harness/cmd/verifrun, whose go.mod replaces github.com/segmentio/kafka-go with /repo)",
            "baseline_off_cmd": BASELINE_OFF,
            "source_commits": HOOK_COMMITS,
            "add_only": True,
        },
        "engines": [
            {"name": "verifrun", "path": "/verif/harness", "serves_properties": [c["property_id"] for c in checks],
             "kind_free_text": "Go program linking the real kafka-go sources from /repo (-tags verif) with an in-memory network, an independent reference codec, a scripted fake cluster and one runtime monitor per property; run as sharded child processes by harness/cmd/verif"},
        ],
        "checks": checks,
        "not_applicable": na,
        "notes": "All checks are runtime monitors over executions of the real library code; see DESIGN.md. Exit 0 = held on everything explored, 1 = VIOLATION line printed, 2 = harness error / observed nothing.",
    }
    json.dump(m, open('MANIFEST.json', 'w'), indent=1)
    print("claimed", [c["property_id"] for c in checks], "na", len(na))

NA = {}
HOOK_COMMITS = []

if __name__ == '__main__':
    main()
